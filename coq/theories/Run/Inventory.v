(* Advisory panic-site inventory for C08 (not a proof obligation): the panic-capable sites of the non-test
   source, regenerated into Generated/SrcConsts.v, that are NOT in the audited list of Spec/Audit.v.
   tools/verif.py evaluates [new_panic_sites]; a non-empty answer makes the C08 check widen its search for a
   panicking input (thorough + search tiers of the c08 family) and record the new sites in the evidence.
   It is deliberately not a theorem: refactors add and alter indexing / unwrap syntax all the time, and an
   alarm without a failing input on every such edit would be a false alarm on code that does not panic. *)
From Coq Require Import String List Bool.
From Verif Require Import Generated.SrcConsts Spec.Audit.
Import ListNotations.

Definition site_eqb (a b : string * string) : bool := String.eqb (fst a) (fst b) && String.eqb (snd a) (snd b).

Definition new_panic_sites : list (string * string) :=
  filter (fun s => negb (existsb (site_eqb s) audited_panic_sites)) src_panic_sites.

Definition new_panic_site_count : nat := List.length new_panic_sites.
