(* Correspondence driver: decodes the cases written by the harness, runs the model and the
   property-level predicates, and reports per case a flag word.
     bit 0 (1): the implementation's observation differs from the model's
     bit 1 (2): the property's own predicate fails on the implementation's observation
     bit 2 (4): the input lies in a known-finding class for this property
   Imports Model/, Spec/ and Generated/ only (no proofs), so it still builds when a proof breaks. *)
From Verif Require Export Base.Bytes Model.Requirements.
From Verif Require Import Base.Hex Base.Utf8 Crypto.Sha256 Crypto.Hmac Time.Calendar Time.Iso8601 Time.Render.
From Verif Require Import Generated.SrcConsts Model.Errors Model.Uri Model.Query Model.Headers Model.Labels
  Model.Requirements Model.SigningKey Model.Validate Spec.PathSpec Spec.QuerySpec Spec.Signer Spec.RequestSpec.
From Coq Require Import Strings.Byte.
From Coq Require Strings.String.
Local Open Scope N_scope.

(* hex literal decoding: [hx "2f61"] = ["/"; "a"] *)
Fixpoint unhex_all (s : bytes) : bytes :=
  match s with
  | h :: l :: r => match unhex2 h l with Some b => b :: unhex_all r | None => [] end
  | _ => []
  end.
Definition hx (b : blit) : bytes := unhex_all (blit_print b).
Arguments hx _%blit_scope.

Definition opt_bytes_eqb (a b : option bytes) : bool :=
  match a, b with
  | Some x, Some y => bytes_eqb x y
  | None, None => true
  | _, _ => false
  end.

Definition flag (b : bool) (w : N) : N := if b then w else 0.

Inductive obs (A : Type) := Res (a : A) | Panic.
Arguments Res {A} a.
Arguments Panic {A}.


(* ------------------------------------------------------------------------------------------ *)
(* validation cases *)

Inductive err_spec := ESig (k : N) | EForeign.
Definition kind_of_id (n : N) : kind := nth (N.to_nat n) all_kinds SignatureDoesNotMatch.
Definition box_of (e : err_spec) : boxed_error :=
  match e with ESig k => BoxSig (kind_of_id k) | EForeign => BoxForeign end.

Definition mk_request m p q u v hs b d : request :=
  {| rq_method := m; rq_path := p; rq_query := q; rq_uri := u; rq_version := v; rq_headers := hs;
     rq_body := b; rq_decoded := d |}.

Definition mk_config rg sv now al ir px s3 fold : config :=
  {| cf_region := rg; cf_service := sv; cf_now := now;
     cf_reqs := {| always_present := al; if_in_request := ir; prefixes := px |};
     cf_s3 := s3; cf_fold := fold |}.

Record prov_spec := mk_prov {
  ps_rp : nat; ps_re : option err_spec; ps_cp : nat;
  ps_table : list (bytes * option bytes * bytes * N);
  ps_fail : option err_spec;
  (* 0: [ps_fail] answers every call; k > 0: it answers the first k calls the instance receives and
     later calls are answered from the table (a provider that recovers) *)
  ps_fail_first : nat;
  (* calls the instance had received before this validation (histories on one instance) *)
  ps_calls_before : nat
}.

(* the harness provider: SigV4 key derivation from a secret table, written independently of
   Model/SigningKey.v *)
Definition derive_key (secret : bytes) (date : Z * Z * Z) (region service : bytes) : bytes :=
  let '(y, m, d) := date in
  let ymd := dec_fixed 4 (Z.to_N y) ++ dec_fixed 2 (Z.to_N m) ++ dec_fixed 2 (Z.to_N d) in
  hmac sha256 (hmac sha256 (hmac sha256 (hmac sha256 (s2b "AWS4" ++ secret) ymd) region) service)
       (s2b "aws4_request").

Definition table_find (ps : prov_spec) (ak : bytes) (tok : option bytes) :=
  find (fun e => let '(a, t, _, _) := e in bytes_eqb a ak && opt_bytes_eqb t tok) (ps_table ps).

(* the scripted failure that answers the i-th call (0-based) made to the instance, if any *)
Definition fail_at (ps : prov_spec) (i : nat) : option err_spec :=
  match ps_fail ps with
  | Some e => if Nat.eqb (ps_fail_first ps) 0 || Nat.ltb i (ps_fail_first ps) then Some e else None
  | None => None
  end.

Definition provider_answer_at (ps : prov_spec) (i : nat) (rq : gsk_request) : gsk_answer :=
  match fail_at ps i with
  | Some e => AnsErr (box_of e)
  | None =>
      match table_find ps (g_access_key rq) (g_token rq) with
      | None => AnsErr (BoxSig InvalidClientTokenId)
      | Some (_, _, secret, idx) =>
          AnsOk (derive_key secret (g_date rq) (g_region rq) (g_service rq))
                ("u"%byte :: dec idx) ("s"%byte :: dec idx)
      end
  end.

(* A validation makes at most one call (C14), so the stateful provider is, for one validation, the
   stateless one that answers as the instance does at the call index it has reached.  The stateful
   provider lives here, on top of the model's [provider] record; Model/Validate.v is unchanged. *)
Definition fail_now (ps : prov_spec) : option err_spec := fail_at ps (ps_calls_before ps).
Definition provider_answer (ps : prov_spec) (rq : gsk_request) : gsk_answer :=
  provider_answer_at ps (ps_calls_before ps) rq.

Definition provider_of (ps : prov_spec) : provider :=
  {| pv_ready_pending := ps_rp ps; pv_ready := option_map box_of (ps_re ps);
     pv_call_pending := ps_cp ps; pv_answer := provider_answer ps |}.

Inductive oout :=
| OAccepted (m u : bytes) (v : N) (hs : list (bytes * bytes)) (body principal session : bytes)
| ORefused (k : N) (code : bytes) (status : N)
| OOther
| OPanic.

Record call := mk_call { c_ak : bytes; c_tok : option bytes; c_y : Z; c_m : Z; c_d : Z; c_rg : bytes; c_sv : bytes }.
Record observation := mk_obs {
  ob_out : oout; ob_calls : list call; ob_cbr : bool; ob_creq : option bytes; ob_sts : option bytes
}.
Record expect := mk_expect {
  x_accept : bool; x_refuse : bool; x_kind : option N; x_calls : option N; x_ts : option Z
}.

Definition call_eqb (c : call) (g : gsk_request) : bool :=
  let '(y, m, d) := g_date g in
  bytes_eqb (c_ak c) (g_access_key g) && opt_bytes_eqb (c_tok c) (g_token g)
  && Z.eqb (c_y c) y && Z.eqb (c_m c) m && Z.eqb (c_d c) d
  && bytes_eqb (c_rg c) (g_region g) && bytes_eqb (c_sv c) (g_service g).

Fixpoint list_eqb {A B} (f : A -> B -> bool) (a : list A) (b : list B) : bool :=
  match a, b with
  | [], [] => true
  | x :: a', y :: b' => f x y && list_eqb f a' b'
  | _, _ => false
  end.

Definition header_names (hs : list (bytes * bytes)) : list bytes := map (fun nv => lower (fst nv)) hs.

(* same names, values, multiplicity and per-name order *)
Definition headers_equiv (a b : list (bytes * bytes)) : bool :=
  forallb (fun n => list_eqb bytes_eqb (values_of n a) (values_of n b)) (header_names a ++ header_names b).

Definition is_accepted (o : oout) : bool := match o with OAccepted _ _ _ _ _ _ _ => true | _ => false end.

Definition in_list (n : N) (l : list N) : bool := existsb (N.eqb n) l.

(* which observations the property's theorems depend on *)
Definition proj_calls (pid : N) : bool := in_list pid [3; 14; 17; 18].
Definition proj_parts (pid : N) : bool := in_list pid [12; 15; 18].
Definition proj_creq (pid : N) : bool := in_list pid [1; 2; 10; 11; 12; 16; 19].

Definition model_creq_sts (rq : request) (cf : config) : option bytes * option bytes :=
  match from_request_parts sha256 rq cf with
  | Ok (cr, _, _) =>
      match get_auth_parameters cr (cf_reqs cf) with
      | Ok ap =>
          (Some (canonical_request cr (ap_signed ap)),
           match get_authenticator sha256 cr (cf_reqs cf) with
           | Ok au =>
               match prevalidate au (cf_region cf) (cf_service cf) (cf_now cf) allowed_mismatch_ns with
               | Ok _ => match string_to_sign au with Ok s => Some s | _ => None end
               | _ => None
               end
           | _ => None
           end)
      | _ => (None, None)
      end
  | _ => (None, None)
  end.

Definition model_differs (pid : N) (rq : request) (cf : config) (ps : prov_spec) (ob : observation) : bool :=
  let '(calls, out) := validate sha256 rq cf (provider_of ps) in
  let out_bad :=
    match out, ob_out ob with
    | Accepted p body pr se, OAccepted m u v hs b pr' se' =>
        (* ([if], not [&&]: under vm_compute both arguments of [&&] are evaluated, and comparing the header lists of a
           request with a thousand headers costs a minute) *)
        if proj_parts pid then
          negb (bytes_eqb (pt_method p) m && bytes_eqb (pt_uri p) u && N.eqb (pt_version p) v
                && headers_equiv (pt_headers p) hs && bytes_eqb body b && bytes_eqb pr pr' && bytes_eqb se se')
        else false
    | Refused k, ORefused k' _ _ => negb (N.eqb (kind_id k) k')
    | Panicked _, OPanic => false
    | _, _ => true
    end in
  let calls_bad := if proj_calls pid then negb (list_eqb call_eqb (ob_calls ob) calls) else false in
  let creq_bad :=
    if proj_creq pid then
      (let '(c, s) := model_creq_sts rq cf in
       negb (opt_bytes_eqb c (ob_creq ob) && opt_bytes_eqb s (ob_sts ob)))
    else false in
  out_bad || calls_bad || creq_bad.

(* ---- property-level predicates, evaluated on the implementation's observation ---- *)

Definition xflags_ok (ob : observation) (x : expect) : bool :=
  (negb (x_accept x) || is_accepted (ob_out ob))
  && (negb (x_refuse x) || negb (is_accepted (ob_out ob)))
  && (match x_kind x with
      | Some k => match ob_out ob with ORefused k' _ _ => N.eqb k k' | _ => false end
      | None => true
      end)
  && (match x_calls x with
      | Some n => N.leb (N.of_nat (length (ob_calls ob))) n
      | None => true
      end).

(* the model's extraction of the presented authentication parameters (selection rules: C19) *)
Definition presented (rq : request) (cf : config) : option auth_params :=
  match from_request_parts sha256 rq cf with
  | Ok (cr, _, _) => match get_auth_parameters cr (cf_reqs cf) with Ok ap => Some ap | _ => None end
  | _ => None
  end.

(* C01: an accepted request carries hex(HMAC(key, spec string-to-sign)) *)
Definition spec_signature_ok (rq : request) (cf : config) (ps : prov_spec) (ob : observation) : bool :=
  match presented rq cf, ob_calls ob with
  | Some ap, [c] =>
      match parse_iso8601 (ap_timestamp ap) with
      | Some ts =>
          match spec_request_sts sha256 rq cf ap ts with
          | Some sts =>
              match provider_answer ps {| g_access_key := c_ak c; g_token := c_tok c;
                                          g_date := (c_y c, c_m c, c_d c); g_region := c_rg c;
                                          g_service := c_sv c |} with
              | AnsOk key _ _ => bytes_eqb (ap_signature ap) (lower_hex (hmac sha256 key sts))
              | AnsErr _ => false
              end
          | None => false
          end
      | None => false
      end
  | _, _ => false
  end.

(* C03 *)
Definition scope_ok (rq : request) (cf : config) (ob : observation) : bool :=
  match presented rq cf with
  | None => negb (is_accepted (ob_out ob)) && is_nil (ob_calls ob)
  | Some ap =>
      let parts := split_on "/"%byte (ap_credential ap) in
      let ts := parse_iso8601 (ap_timestamp ap) in
      let call_ok (c : call) :=
        match ts, parts with
        | Some t, ak :: _ =>
            let '(y, m, d) := civil_of_days (day_of_instant t) in
            bytes_eqb (c_ak c) ak && opt_bytes_eqb (c_tok c) (ap_token ap)
            && Z.eqb (c_y c) y && Z.eqb (c_m c) m && Z.eqb (c_d c) d
            && bytes_eqb (c_rg c) (cf_region cf) && bytes_eqb (c_sv c) (cf_service cf)
        | _, _ => false
        end in
      forallb call_ok (ob_calls ob)
      && (negb (is_accepted (ob_out ob)) ||
          match ts, parts with
          | Some t, [_; d; r; s; term] =>
              bytes_eqb r (cf_region cf) && bytes_eqb s (cf_service cf)
              && bytes_eqb term (s2b "aws4_request") && bytes_eqb d (yyyymmdd t)
          | _, _ => false
          end)
  end.

(* C05: set semantics of the requirement declaration *)
Definition requirements_ok (rq : request) (cf : config) : bool :=
  match presented rq cf with
  | None => false
  | Some ap =>
      let signed := ap_signed ap in
      let names := header_names (rq_headers rq) in
      (mem_bytes (s2b "host") signed || mem_bytes (s2b ":authority") signed)
      && forallb (fun a => mem_bytes (lower a) signed) (always_present (cf_reqs cf))
      && forallb (fun c => negb (mem_bytes (lower c) names) || mem_bytes (lower c) signed) (if_in_request (cf_reqs cf))
      && forallb (fun p => forallb (fun n => negb (starts_with (lower p) n) || mem_bytes n signed) names)
                 (prefixes (cf_reqs cf))
  end.

(* C15 / C12 *)
Definition uri_query (u : bytes) : bytes :=
  match split_once "?"%byte u with Some (_, q) => q | None => [] end.

Definition encoded_sorted (ps : list (bytes * bytes)) : list (bytes * bytes) :=
  spec_sort (map (fun kv => (pct_encode (fst kv), pct_encode (snd kv)))
                 (filter (fun kv => negb (bytes_eqb (fst kv) x_amz_signature)) ps)).

Definition pair_eqb (a b : bytes * bytes) : bool := bytes_eqb (fst a) (fst b) && bytes_eqb (snd a) (snd b).

Definition passthrough_ok (rq : request) (cf : config) (ps : prov_spec) (ob : observation) : bool :=
  match ob_out ob with
  | OAccepted m u v hs b pr se =>
      bytes_eqb m (rq_method rq) && N.eqb v (rq_version rq) && headers_equiv hs (rq_headers rq)
      && (if spec_folded rq cf then
            is_nil b &&
            match spec_all_pairs rq cf, decoded_pairs (uri_query u) with
            | Some ps1, Some ps2 => list_eqb pair_eqb (encoded_sorted ps1) (encoded_sorted ps2)
            | _, _ => false
            end
          else bytes_eqb b (rq_body rq) && bytes_eqb u (rq_uri rq))
      && match ob_calls ob with
         | [c] => match table_find ps (c_ak c) (c_tok c) with
                  | Some (_, _, _, idx) => bytes_eqb pr ("u"%byte :: dec idx) && bytes_eqb se ("s"%byte :: dec idx)
                  | None => false
                  end
         | _ => false
         end
  | _ => true
  end.

(* C13 *)
Definition taxonomy_ok (ob : observation) : bool :=
  match ob_out ob with
  | ORefused k c st =>
      let kd := kind_of_id k in
      N.ltb k 12
      && match code kd with Some c' => bytes_eqb c c' | None => false end
      && match status kd with Some s' => N.eqb st s' | None => false end
      && in_list st [400; 403; 500]
  | OOther => false
  | _ => true
  end.

(* C14 *)
Definition provider_protocol_ok (ps : prov_spec) (ob : observation) : bool :=
  N.leb (N.of_nat (length (ob_calls ob))) 1 && negb (ob_cbr ob)
  && (match ps_re ps with Some _ => negb (is_accepted (ob_out ob)) && is_nil (ob_calls ob) | None => true end)
  && (match fail_now ps with Some _ => negb (is_accepted (ob_out ob)) | None => true end)
  && (match ps_re ps, fail_now ps, ob_calls ob with
      | Some e, _, _ | None, Some e, [_] =>
          (* the provider's error comes back unchanged / as InternalServiceError *)
          match ob_out ob with ORefused k _ _ => N.eqb k (kind_id (from_box (box_of e))) | _ => false end
      | _, _, _ => true
      end).

(* C16: the timestamp line of the string-to-sign and the date demanded from the provider *)
Definition second_line (s : bytes) : bytes :=
  match split_on x0a s with _ :: l :: _ => l | _ => [] end.

Definition timestamp_ok (ob : observation) (x : expect) : bool :=
  match x_ts x with
  | None => true
  | Some t =>
      (match ob_sts ob with Some s => bytes_eqb (second_line s) (render_compact t) | None => true end)
      && forallb (fun c => let '(y, m, d) := civil_of_days (day_of_instant t) in
                           Z.eqb (c_y c) y && Z.eqb (c_m c) m && Z.eqb (c_d c) d) (ob_calls ob)
  end.

Definition not_panic (ob : observation) : bool := match ob_out ob with OPanic => false | _ => true end.

Definition prop_ok (pid : N) (rq : request) (cf : config) (ps : prov_spec) (ob : observation) (x : expect) : bool :=
  (* C15 speaks about accepted requests only: whether a request had to be accepted is C02's business *)
  (N.eqb pid 15 || xflags_ok ob x) &&
  (if N.eqb pid 1 then negb (is_accepted (ob_out ob)) || spec_signature_ok rq cf ps ob
   else if N.eqb pid 3 then scope_ok rq cf ob
   else if N.eqb pid 5 then negb (is_accepted (ob_out ob)) || requirements_ok rq cf
   else if N.eqb pid 8 then not_panic ob
   else if N.eqb pid 12 then passthrough_ok rq cf ps ob
   else if N.eqb pid 13 then taxonomy_ok ob
   else if N.eqb pid 14 then provider_protocol_ok ps ob
   else if N.eqb pid 15 then passthrough_ok rq cf ps ob
   else if N.eqb pid 16 then timestamp_ok ob x
   else true).

(* known-finding classes *)
Definition class_of (pid : N) (rq : request) : N :=
  if in_list pid [1; 2] && has_plus (rq_path rq) then 1 else 0.

Inductive key_obs :=
| KOk (readback kdate kregion kservice ksigning : bytes) (shortcuts_agree : bool)
| KTooLong
| KPanic.

Definition opt_z_eqb (a b : option Z) : bool :=
  match a, b with Some x, Some y => Z.eqb x y | None, None => true | _, _ => false end.

Definition string_bytes (s : String.string) : bytes := String.list_byte_of_string s.

Inductive case :=
  (* canonicalize_uri_path s3 p = r ; rr = the implementation applied to its own output *)
| PathCase (s3 : bool) (p : bytes) (r : obs (option bytes)) (rr : option bytes)
| ValidateCase (pid : N) (rq : request) (cf : config) (ps : prov_spec) (ob : observation) (x : expect)
  (* canonical query of q; expected = the reference signer's canonical form where the text is
     conformant; stable = identical over fresh maps (fresh hash seeds) *)
| QueryCase (q : bytes) (r : obs (option bytes)) (expected : option (option bytes)) (stable : bool)
| KeyCase (secret : bytes) (y m d : Z) (region service : bytes) (r : key_obs)
| CapacityCase (M : N) (secret : bytes) (class : N)     (* 0 ok, 1 too long, 2 panic *)
  (* timestamp text (header value / percent-encoded query value); r = parsed instant or refusal;
     expected = the reference parser's verdict *)
| IsoCase (query_carrier : bool) (wire : bytes) (r : obs (option Z)) (expected : option Z)
| ReqOpsCase (a b c : list bytes) (ops : list req_op) (r : obs (list bytes * list bytes * list bytes))
| HeaderValCase (v : bytes) (r : obs bytes)
| ErrTabCase (k : N) (name code : bytes) (status : N)
| ErrConvCase (src : option N) (result : N)
  (* a property check computed entirely on the implementation side (C07, C17, C18) *)
| BoolCase (pid : N) (ok : bool).

Definition run_case (c : case) : N :=
  match c with
  | PathCase s3 p r rr =>
      match r with
      | Panic => 3                      (* C09 fixes a value or an InvalidURIPath error *)
      | Res r =>
          let m := canon_path s3 p in
          let model_bad := negb (opt_bytes_eqb r m) in
          let spec_bad := negb (opt_bytes_eqb r (spec_path s3 p)) in
          let idem_bad := match r with Some c => negb (opt_bytes_eqb rr (Some c)) | None => false end in
          (* known-finding class D1: the path contains a literal '+' AND the implementation does exactly
             what the model (which mirrors the '+'-as-space behaviour) predicts; any other deviation on
             such a path is a new violation *)
          flag model_bad 1 + flag (spec_bad || idem_bad) 2 + flag (has_plus p && negb model_bad) 4
      end
  | ValidateCase pid rq cf ps ob x =>
      let md := model_differs pid rq cf ps ob in
      flag md 1 + flag (negb (prop_ok pid rq cf ps ob x)) 2
      + (if md then 0 else 4 * class_of pid rq)
  | QueryCase q r expected stable =>
      match r with
      | Panic => 3
      | Res r =>
          let model_bad := negb (opt_bytes_eqb r (option_map canon_query (query_map q))) in
          let spec_bad := negb (opt_bytes_eqb r (spec_query q)) in
          let exp_bad := match expected with Some e => negb (opt_bytes_eqb r e) | None => false end in
          flag model_bad 1 + flag (spec_bad || exp_bad || negb stable) 2
      end
  | KeyCase secret y m d region service r =>
      let date := (y, m, d) in
      match from_str 44 secret, r with
      | FsOk k, KOk back kd kr ks kg sc =>
          let model_bad :=
            negb (bytes_eqb back (secret_as_ref k)
                  && bytes_eqb kd (to_kdate sha256 k date)
                  && bytes_eqb kr (to_kregion sha256 k date region)
                  && bytes_eqb ks (to_kservice sha256 k date region service)
                  && bytes_eqb kg (to_ksigning sha256 k date region service)) in
          (* the property: read-back, the HMAC chain written out independently, shortcut agreement *)
          let ymd := dec_fixed 4 (Z.to_N y) ++ dec_fixed 2 (Z.to_N m) ++ dec_fixed 2 (Z.to_N d) in
          let c1 := hmac sha256 (s2b "AWS4" ++ secret) ymd in
          let c2 := hmac sha256 c1 region in
          let c3 := hmac sha256 c2 service in
          let c4 := hmac sha256 c3 (s2b "aws4_request") in
          let prop_bad :=
            negb (bytes_eqb back secret && bytes_eqb kd c1 && bytes_eqb kr c2 && bytes_eqb ks c3
                  && bytes_eqb kg c4 && sc && Nat.leb (length secret) 40) in
          flag model_bad 1 + flag prop_bad 2
      | FsKeyTooLong, KTooLong => flag (Nat.leb (length secret) 40) 2
      | _, KPanic => 3
      | _, _ => 1 + flag (match r with KOk _ _ _ _ _ _ => negb (Nat.leb (length secret) 40) | _ => Nat.leb (length secret) 40 end) 2
      end
  | CapacityCase M secret cls =>
      let fits := N.leb (N.of_nat (length secret) + 4) M in
      let model_cls := match from_str (N.to_nat M) secret with FsOk _ => 0 | FsKeyTooLong => 1 | FsPanic => 2 end in
      flag (negb (N.eqb model_cls cls)) 1 + flag (negb (N.eqb cls (if fits then 0 else 1))) 2
  | IsoCase qc wire r expected =>
      match r with
      | Panic => 3
      | Res r =>
          let text :=
            if qc then match normalize_elem wire with
                       | Some n => match unescape n with Some t => t | None => [] end
                       | None => []
                       end
            else flat_map latin1_char (norm_value wire) in
          flag (negb (opt_z_eqb r (parse_iso8601 text))) 1 + flag (negb (opt_z_eqb r expected)) 2
      end
  | ReqOpsCase a b c ops r =>
      match r with
      | Panic => 3
      | Res (a', b', c') =>
          let m := apply_ops {| always_present := a; if_in_request := b; prefixes := c |} ops in
          flag (negb (list_eqb bytes_eqb a' (always_present m) && list_eqb bytes_eqb b' (if_in_request m)
                      && list_eqb bytes_eqb c' (prefixes m))) 1
      end
  | HeaderValCase v r =>
      match r with
      | Panic => 3
      | Res r => flag (negb (bytes_eqb r (norm_value v))) 1 + flag (negb (bytes_eqb r (spec_trimall v))) 2
      end
  | ErrTabCase k name c st =>
      let kd := kind_of_id k in
      let model_bad :=
        negb (bytes_eqb name (string_bytes (kind_name kd))
              && match code kd with Some c' => bytes_eqb c c' | None => false end
              && match status kd with Some s' => N.eqb st s' | None => false end) in
      (* the taxonomy the property states: malformed-request kinds 400, authentication failures 403,
         provider infrastructure failures 500; never a success status *)
      let want := if in_list k [3; 6; 7; 8; 9; 10] then 400 else if in_list k [1; 2] then 500 else 403 in
      flag model_bad 1 + flag (negb (N.eqb st want)) 2
  | ErrConvCase src result =>
      let want := match src with Some k => kind_id (from_box (BoxSig (kind_of_id k))) | None => kind_id (from_box BoxForeign) end in
      flag (negb (N.eqb result want)) 3
  | BoolCase _ ok => flag (negb ok) 2
  end.

(* one number per disagreeing case: 1024 * index + flags (atomic tokens survive Coq's line wrapping) *)
Fixpoint report_from (i : N) (cs : list case) : list N :=
  match cs with
  | [] => []
  | c :: r =>
      let f := run_case c in
      if N.eqb f 0 then report_from (i + 1) r else (1024 * i + f) :: report_from (i + 1) r
  end.

Definition report (cs : list case) : list N := report_from 0 cs.
