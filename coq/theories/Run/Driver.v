(* Correspondence driver: decodes the cases written by the harness, runs the model and the
   property-level predicates, and reports per case a flag word.
     bit 0 (1): the implementation's observation differs from the model's
     bit 1 (2): the property's own predicate fails on the implementation's observation
     bit 2 (4): the input lies in a known-finding class for this property
   Imports Model/, Spec/ and Generated/ only (no proofs), so it still builds when a proof breaks. *)
From Verif Require Export Base.Bytes.
From Verif Require Import Base.Hex Model.Uri Spec.PathSpec.
From Coq Require Import Strings.Byte.
Local Open Scope N_scope.

(* hex literal decoding: [hx "2f61"] = ["/"; "a"] *)
Fixpoint unhex_all (s : bytes) : bytes :=
  match s with
  | h :: l :: r => match unhex2 h l with Some b => b :: unhex_all r | None => [] end
  | _ => []
  end.
Definition hx (b : blit) : bytes := unhex_all (blit_print b).
Arguments hx _%blit_scope.

Definition opt_bytes_eqb (a b : option bytes) : bool :=
  match a, b with
  | Some x, Some y => bytes_eqb x y
  | None, None => true
  | _, _ => false
  end.

Definition flag (b : bool) (w : N) : N := if b then w else 0.

Inductive obs (A : Type) := Res (a : A) | Panic.
Arguments Res {A} a.
Arguments Panic {A}.

Inductive case :=
  (* canonicalize_uri_path s3 p = r ; rr = the implementation applied to its own output *)
| PathCase (s3 : bool) (p : bytes) (r : obs (option bytes)) (rr : option bytes).

Definition run_case (c : case) : N :=
  match c with
  | PathCase s3 p r rr =>
      match r with
      | Panic => 3                      (* C09 fixes a value or an InvalidURIPath error *)
      | Res r =>
          let m := canon_path s3 p in
          let model_bad := negb (opt_bytes_eqb r m) in
          let spec_bad := negb (opt_bytes_eqb r (spec_path s3 p)) in
          let idem_bad := match r with Some c => negb (opt_bytes_eqb rr (Some c)) | None => false end in
          flag model_bad 1 + flag (spec_bad || idem_bad) 2 + flag (has_plus p) 4
      end
  end.

Fixpoint report_from (i : N) (cs : list case) : list (N * N) :=
  match cs with
  | [] => []
  | c :: r =>
      let f := run_case c in
      if N.eqb f 0 then report_from (i + 1) r else (i, f) :: report_from (i + 1) r
  end.

Definition report (cs : list case) : list (N * N) := report_from 0 cs.
