(* Property C13: statement pins.  Nothing but restated theorems closed by [exact], with
   Print Assumptions under each.  Written by tools/mkprops.py at development time; committed. *)
From Coq Require Import List Bool NArith ZArith Lia.
From Coq Require Import Strings.Byte.
From Verif Require Import Base.Bytes Base.Hex Base.Utf8 Crypto.Hmac Time.Calendar Time.Iso8601 Time.Render.
From Verif Require Import Generated.SrcConsts Model.Errors Model.Uri Model.Query Model.Headers Model.Labels Model.Requirements Model.Validate Spec.PathSpec Spec.QuerySpec Spec.Signer Spec.RequestSpec.
From Verif Require Import Proofs.QueryProofs Proofs.HeaderProofs.
From Verif Require Proofs.KeyProofs Crypto.Sha256.
From Verif Require Import Proofs.PipelineProofs.

Theorem C13_first_failure_staged :
  forall (H : bytes -> bytes), forall rq cf pv, (first_failure H) rq cf pv =
    match (pre_failure H) rq cf with
    | Some k => Some k
    | None => signature_failure H ((st_au H) rq cf) cf pv
    end.
Proof. exact PipelineProofs.first_failure_staged. Qed.
Print Assumptions C13_first_failure_staged.

Theorem C13_validate_eq :
  forall (H : bytes -> bytes), forall rq cf pv, validate H rq cf pv =
    match (pre_failure H) rq cf with
    | Some k => ([], Refused k)
    | None => (prov_calls pv (the_call ((st_au H) rq cf) cf),
               match signature_failure H ((st_au H) rq cf) cf pv with
               | Some k => Refused k
               | None => (accepted_outcome H) rq cf pv
               end)
    end.
Proof. exact PipelineProofs.validate_eq. Qed.
Print Assumptions C13_validate_eq.

Theorem C13_precedence :
  forall (H : bytes -> bytes), forall rq cf pv, snd (validate H rq cf pv) =
    match (first_failure H) rq cf pv with
    | Some k => Refused k
    | None => (accepted_outcome H) rq cf pv
    end.
Proof. exact PipelineProofs.C13_precedence. Qed.
Print Assumptions C13_precedence.

Theorem C13_calls :
  forall (H : bytes -> bytes), forall rq cf pv, fst (validate H rq cf pv) =
    match (pre_failure H) rq cf with
    | Some _ => []
    | None => prov_calls pv (the_call ((st_au H) rq cf) cf)
    end.
Proof. exact PipelineProofs.C13_calls. Qed.
Print Assumptions C13_calls.

Theorem C13_path_first :
  forall (H : bytes -> bytes), forall rq cf pv,
    canon_path (cf_s3 cf) (rq_path rq) = None ->
    validate H rq cf pv = ([], Refused InvalidURIPath).
Proof. exact PipelineProofs.C13_path_first. Qed.
Print Assumptions C13_path_first.

Theorem C13_query_second :
  forall (H : bytes -> bytes), forall rq cf pv,
    canon_path (cf_s3 cf) (rq_path rq) <> None ->
    query_map (url_query rq) = None ->
    validate H rq cf pv = ([], Refused MalformedQueryString).
Proof. exact PipelineProofs.C13_query_second. Qed.
Print Assumptions C13_query_second.

Theorem C13_form_errors_third :
  forall (H : bytes -> bytes), forall rq cf pv,
    canon_path (cf_s3 cf) (rq_path rq) <> None ->
    query_map (url_query rq) <> None ->
    spec_folded rq cf = true ->
    (spec_decoded_body rq = None -> validate H rq cf pv = ([], Refused InvalidBodyEncoding))
    /\ (forall d, spec_decoded_body rq = Some d -> query_map d = None ->
        validate H rq cf pv = ([], Refused MalformedQueryString))
    /\ (forall d bm, spec_decoded_body rq = Some d -> query_map d = Some bm -> uri_too_long rq cf = true ->
        validate H rq cf pv = ([], Refused MalformedQueryString)).
Proof. exact PipelineProofs.C13_form_errors_third. Qed.
Print Assumptions C13_form_errors_third.

Theorem C13_no_carrier :
  forall (H : bytes -> bytes), forall rq cf pv cr pts body,
    from_request_parts H rq cf = Ok (cr, pts, body) ->
    hget src_canonical_AUTHORIZATION (cr_headers cr) = None ->
    qget src_canonical_X_AMZ_ALGORITHM (cr_query cr) = None ->
    validate H rq cf pv = ([], Refused MissingAuthenticationToken).
Proof. exact PipelineProofs.C13_no_carrier. Qed.
Print Assumptions C13_no_carrier.

Theorem C13_both_carriers :
  forall (H : bytes -> bytes), forall rq cf pv cr pts body,
    from_request_parts H rq cf = Ok (cr, pts, body) ->
    hget src_canonical_AUTHORIZATION (cr_headers cr) <> None ->
    qget src_canonical_X_AMZ_ALGORITHM (cr_query cr) <> None ->
    validate H rq cf pv = ([], Refused SignatureDoesNotMatch).
Proof. exact PipelineProofs.C13_both_carriers. Qed.
Print Assumptions C13_both_carriers.

Theorem C13_bad_algorithm_header :
  forall (H : bytes -> bytes), forall rq cf pv cr pts body a l,
    from_request_parts H rq cf = Ok (cr, pts, body) ->
    hget src_canonical_AUTHORIZATION (cr_headers cr) = Some (a :: l) ->
    qget src_canonical_X_AMZ_ALGORITHM (cr_query cr) = None ->
    fst (hdr_split a) <> src_canonical_AWS4_HMAC_SHA256_BYTES ->
    validate H rq cf pv = ([], Refused IncompleteSignature).
Proof. exact PipelineProofs.C13_bad_algorithm_header. Qed.
Print Assumptions C13_bad_algorithm_header.

Theorem C13_bad_algorithm_query :
  forall (H : bytes -> bytes), forall rq cf pv cr pts body a l,
    from_request_parts H rq cf = Ok (cr, pts, body) ->
    hget src_canonical_AUTHORIZATION (cr_headers cr) = None ->
    qget src_canonical_X_AMZ_ALGORITHM (cr_query cr) = Some (a :: l) ->
    a <> src_canonical_AWS4_HMAC_SHA256 ->
    validate H rq cf pv = ([], Refused MissingAuthenticationToken).
Proof. exact PipelineProofs.C13_bad_algorithm_query. Qed.
Print Assumptions C13_bad_algorithm_query.

Theorem C13_param_syntax :
  forall (H : bytes -> bytes), forall rq cf pv cr pts body a l p,
    from_request_parts H rq cf = Ok (cr, pts, body) ->
    hget src_canonical_AUTHORIZATION (cr_headers cr) = Some (a :: l) ->
    qget src_canonical_X_AMZ_ALGORITHM (cr_query cr) = None ->
    fst (hdr_split a) = src_canonical_AWS4_HMAC_SHA256_BYTES ->
    In p (hdr_pieces a) -> trim_ascii p <> [] -> split_once "="%byte (trim_ascii p) = None ->
    validate H rq cf pv = ([], Refused IncompleteSignature).
Proof. exact PipelineProofs.C13_param_syntax. Qed.
Print Assumptions C13_param_syntax.

Theorem C13_missing_params_header :
  forall (H : bytes -> bytes), forall rq cf pv cr pts body a l,
    from_request_parts H rq cf = Ok (cr, pts, body) ->
    hget src_canonical_AUTHORIZATION (cr_headers cr) = Some (a :: l) ->
    qget src_canonical_X_AMZ_ALGORITHM (cr_query cr) = None ->
    fst (hdr_split a) = src_canonical_AWS4_HMAC_SHA256_BYTES ->
    hdr_missing cr a = true ->
    validate H rq cf pv = ([], Refused IncompleteSignature).
Proof. exact PipelineProofs.C13_missing_params_header. Qed.
Print Assumptions C13_missing_params_header.

Theorem C13_missing_params_query :
  forall (H : bytes -> bytes), forall rq cf pv cr pts body l,
    from_request_parts H rq cf = Ok (cr, pts, body) ->
    hget src_canonical_AUTHORIZATION (cr_headers cr) = None ->
    qget src_canonical_X_AMZ_ALGORITHM (cr_query cr) = Some (src_canonical_AWS4_HMAC_SHA256 :: l) ->
    qry_missing cr = true ->
    validate H rq cf pv = ([], Refused IncompleteSignature).
Proof. exact PipelineProofs.C13_missing_params_query. Qed.
Print Assumptions C13_missing_params_query.

Theorem C13_requirements :
  forall (H : bytes -> bytes), forall rq cf pv cr pts body ap,
    from_request_parts H rq cf = Ok (cr, pts, body) ->
    carrier_params cr = Ok ap ->
    host_signed (ap_signed ap) = false \/ reqs_ok (cf_reqs cf) (cr_headers cr) (ap_signed ap) = false ->
    validate H rq cf pv = ([], Refused SignatureDoesNotMatch).
Proof. exact PipelineProofs.C13_requirements. Qed.
Print Assumptions C13_requirements.

Theorem C13_bad_date :
  forall (H : bytes -> bytes), forall rq cf pv cr pts body ap,
    from_request_parts H rq cf = Ok (cr, pts, body) ->
    get_auth_parameters cr (cf_reqs cf) = Ok ap ->
    parse_iso8601 (ap_timestamp ap) = None ->
    validate H rq cf pv = ([], Refused IncompleteSignature).
Proof. exact PipelineProofs.C13_bad_date. Qed.
Print Assumptions C13_bad_date.

Theorem C13_expired :
  forall (H : bytes -> bytes), forall rq cf pv cr pts body au,
    from_request_parts H rq cf = Ok (cr, pts, body) ->
    get_authenticator H cr (cf_reqs cf) = Ok au ->
    (au_timestamp au < cf_now cf - allowed_mismatch_ns)%Z ->
    validate H rq cf pv = ([], Refused SignatureDoesNotMatch).
Proof. exact PipelineProofs.C13_expired. Qed.
Print Assumptions C13_expired.

Theorem C13_not_yet_valid :
  forall (H : bytes -> bytes), forall rq cf pv cr pts body au,
    from_request_parts H rq cf = Ok (cr, pts, body) ->
    get_authenticator H cr (cf_reqs cf) = Ok au ->
    (cf_now cf + allowed_mismatch_ns < au_timestamp au)%Z ->
    validate H rq cf pv = ([], Refused SignatureDoesNotMatch).
Proof. exact PipelineProofs.C13_not_yet_valid. Qed.
Print Assumptions C13_not_yet_valid.

Theorem C13_arity :
  forall (H : bytes -> bytes), forall rq cf pv cr pts body au,
    from_request_parts H rq cf = Ok (cr, pts, body) ->
    get_authenticator H cr (cf_reqs cf) = Ok au ->
    in_window au cf ->
    List.length (split_on "/"%byte (au_credential au)) <> 5%nat ->
    validate H rq cf pv = ([], Refused IncompleteSignature).
Proof. exact PipelineProofs.C13_arity. Qed.
Print Assumptions C13_arity.

Theorem C13_scope :
  forall (H : bytes -> bytes), forall rq cf pv cr pts body au a d r s t,
    from_request_parts H rq cf = Ok (cr, pts, body) ->
    get_authenticator H cr (cf_reqs cf) = Ok au ->
    in_window au cf ->
    split_on "/"%byte (au_credential au) = [a; d; r; s; t] ->
    ~ (r = cf_region cf /\ s = cf_service cf /\ t = src_auth_AWS4_REQUEST /\ d = yyyymmdd (au_timestamp au)) ->
    validate H rq cf pv = ([], Refused SignatureDoesNotMatch).
Proof. exact PipelineProofs.C13_scope. Qed.
Print Assumptions C13_scope.

Theorem C13_provider_error :
  forall (H : bytes -> bytes), forall rq cf pv cr pts body au e,
    from_request_parts H rq cf = Ok (cr, pts, body) ->
    get_authenticator H cr (cf_reqs cf) = Ok au ->
    prevalidate au (cf_region cf) (cf_service cf) (cf_now cf) allowed_mismatch_ns = Ok tt ->
    prov_answer pv (the_call au cf) = AnsErr e ->
    validate H rq cf pv = (prov_calls pv (the_call au cf), Refused (from_box e)).
Proof. exact PipelineProofs.C13_provider_error. Qed.
Print Assumptions C13_provider_error.

Theorem C13_wrong_signature :
  forall (H : bytes -> bytes), forall rq cf pv cr pts body au key p s,
    from_request_parts H rq cf = Ok (cr, pts, body) ->
    get_authenticator H cr (cf_reqs cf) = Ok au ->
    prevalidate au (cf_region cf) (cf_service cf) (cf_now cf) allowed_mismatch_ns = Ok tt ->
    prov_answer pv (the_call au cf) = AnsOk key p s ->
    au_signature au <> lower_hex (hmac H key (sts_of au)) ->
    validate H rq cf pv = (prov_calls pv (the_call au cf), Refused SignatureDoesNotMatch).
Proof. exact PipelineProofs.C13_wrong_signature. Qed.
Print Assumptions C13_wrong_signature.

Theorem C13_accepted :
  forall (H : bytes -> bytes), forall rq cf pv cr pts body au key p s,
    from_request_parts H rq cf = Ok (cr, pts, body) ->
    get_authenticator H cr (cf_reqs cf) = Ok au ->
    prevalidate au (cf_region cf) (cf_service cf) (cf_now cf) allowed_mismatch_ns = Ok tt ->
    prov_answer pv (the_call au cf) = AnsOk key p s ->
    au_signature au = lower_hex (hmac H key (sts_of au)) ->
    validate H rq cf pv = (prov_calls pv (the_call au cf), Accepted pts body p s).
Proof. exact PipelineProofs.C13_accepted. Qed.
Print Assumptions C13_accepted.

Theorem C13_taxonomy :
  (forall k, status k = Some (expected_status k))
  /\ (forall k, code k = Some (expected_code k))
  /\ (forall k, In k malformed_kinds <-> status k = Some 400%N)
  /\ (forall k, In k auth_failure_kinds <-> status k = Some 403%N)
  /\ (forall k, In k infrastructure_kinds <-> status k = Some 500%N)
  /\ (forall k, In (status k) [Some 400%N; Some 403%N; Some 500%N])
  /\ (forall k, In k all_kinds).
Proof. exact PipelineProofs.C13_taxonomy. Qed.
Print Assumptions C13_taxonomy.

Theorem C13_status_is_error :
  forall k n, status k = Some n -> (400 <= n < 600)%N.
Proof. exact PipelineProofs.C13_status_is_error. Qed.
Print Assumptions C13_status_is_error.

Theorem C13_reachable_kinds :
  forall (H : bytes -> bytes), forall K rq cf pv k,
    provider_kinds K pv ->
    snd (validate H rq cf pv) = Refused k ->
    In k request_kinds \/ K k \/ k = InternalServiceError.
Proof. exact PipelineProofs.C13_reachable_kinds. Qed.
Print Assumptions C13_reachable_kinds.

Theorem C13_refusal_status :
  forall (H : bytes -> bytes), forall rq cf pv k,
    snd (validate H rq cf pv) = Refused k ->
    exists n, status k = Some n /\ (n = 400 \/ n = 403 \/ n = 500)%N.
Proof. exact PipelineProofs.C13_refusal_status. Qed.
Print Assumptions C13_refusal_status.

Theorem C13_request_refusal_status :
  forall (H : bytes -> bytes), forall rq cf k,
    pre_failure H rq cf = Some k -> status k = Some 400%N \/ status k = Some 403%N.
Proof. exact PipelineProofs.C13_request_refusal_status. Qed.
Print Assumptions C13_request_refusal_status.
