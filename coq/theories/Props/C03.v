(* Property C03: statement pins.  Nothing but restated theorems closed by [exact], with
   Print Assumptions under each.  Written by tools/mkprops.py at development time; committed. *)
From Coq Require Import ZArith Lia List Bool.
From Coq Require Import Strings.Byte.
From Verif Require Import Base.Bytes Base.Hex Crypto.Hmac Time.Calendar Time.Iso8601 Time.Render.
From Verif Require Import Generated.SrcConsts Model.Errors Model.Requirements Model.Validate.
From Coq Require Import List Bool NArith ZArith Lia.
From Verif Require Import Base.Bytes Base.Hex Base.Utf8 Crypto.Hmac Time.Calendar Time.Iso8601 Time.Render.
From Verif Require Import Generated.SrcConsts Model.Errors Model.Uri Model.Query Model.Headers Model.Labels Model.Requirements Model.Validate Spec.PathSpec Spec.QuerySpec Spec.Signer Spec.RequestSpec.
From Verif Require Import Proofs.QueryProofs Proofs.HeaderProofs.
From Verif Require Proofs.KeyProofs Crypto.Sha256.
From Verif Require Import Proofs.AuthProofs Proofs.PipelineProofs.

Theorem C03_terminator :
  src_auth_AWS4_REQUEST = s2b "aws4_request".
Proof. exact AuthProofs.C03_terminator. Qed.
Print Assumptions C03_terminator.

Theorem C03_status_400 :
  status IncompleteSignature = Some 400%N.
Proof. exact AuthProofs.C03_status_400. Qed.
Print Assumptions C03_status_400.

Theorem C03_status_403 :
  status SignatureDoesNotMatch = Some 403%N.
Proof. exact AuthProofs.C03_status_403. Qed.
Print Assumptions C03_status_403.

Theorem C03_accept_implies_scope :
  forall (H : bytes -> bytes), forall rq cf pv calls p b pr se,
    validate H rq cf pv = (calls, Accepted p b pr se) ->
    exists cr ap ts ak d r s term,
      from_request_parts H rq cf = Ok (cr, p, b) /\
      get_auth_parameters cr (cf_reqs cf) = Ok ap /\
      parse_iso8601 (ap_timestamp ap) = Some ts /\
      split_on "/"%byte (ap_credential ap) = [ak; d; r; s; term] /\
      r = cf_region cf /\ s = cf_service cf /\ term = src_auth_AWS4_REQUEST /\
      d = yyyymmdd ts /\
      calls = [ {| g_access_key := ak; g_token := ap_token ap;
                   g_date := civil_of_days (day_of_instant ts);
                   g_region := cf_region cf; g_service := cf_service cf |} ].
Proof. exact AuthProofs.C03_accept_implies_scope. Qed.
Print Assumptions C03_accept_implies_scope.

Theorem C03_scope_date_is_utc_date :
  forall ts,
    yyyymmdd ts = yyyymmdd_of_civil (civil_of_days (day_of_instant ts)).
Proof. exact AuthProofs.C03_scope_date_is_utc_date. Qed.
Print Assumptions C03_scope_date_is_utc_date.

Theorem C03_arity_is_incomplete :
  forall (H : bytes -> bytes), forall au cf pv,
    fresh (au_timestamp au) (cf_now cf) ->
    List.length (split_on "/"%byte (au_credential au)) <> 5%nat ->
    validate_signature H au cf pv = ([], Err IncompleteSignature).
Proof. exact AuthProofs.C03_arity_is_incomplete. Qed.
Print Assumptions C03_arity_is_incomplete.

Theorem C03_mismatch_is_403_no_lookup :
  forall (H : bytes -> bytes), forall au cf pv ak d r s term,
    fresh (au_timestamp au) (cf_now cf) ->
    split_on "/"%byte (au_credential au) = [ak; d; r; s; term] ->
    r <> cf_region cf \/ s <> cf_service cf \/ term <> src_auth_AWS4_REQUEST \/
      d <> yyyymmdd (au_timestamp au) ->
    validate_signature H au cf pv = ([], Err SignatureDoesNotMatch).
Proof. exact AuthProofs.C03_mismatch_is_403_no_lookup. Qed.
Print Assumptions C03_mismatch_is_403_no_lookup.

Theorem C03_arity_is_incomplete_validate :
  forall (H : bytes -> bytes), forall rq cf pv cr pts body au,
    from_request_parts H rq cf = Ok (cr, pts, body) ->
    get_authenticator H cr (cf_reqs cf) = Ok au ->
    fresh (au_timestamp au) (cf_now cf) ->
    List.length (split_on "/"%byte (au_credential au)) <> 5%nat ->
    validate H rq cf pv = ([], Refused IncompleteSignature).
Proof. exact AuthProofs.C03_arity_is_incomplete_validate. Qed.
Print Assumptions C03_arity_is_incomplete_validate.

Theorem C03_mismatch_is_403_no_lookup_validate :
  forall (H : bytes -> bytes), forall rq cf pv cr pts body au ak d r s term,
    from_request_parts H rq cf = Ok (cr, pts, body) ->
    get_authenticator H cr (cf_reqs cf) = Ok au ->
    fresh (au_timestamp au) (cf_now cf) ->
    split_on "/"%byte (au_credential au) = [ak; d; r; s; term] ->
    r <> cf_region cf \/ s <> cf_service cf \/ term <> src_auth_AWS4_REQUEST \/
      d <> yyyymmdd (au_timestamp au) ->
    validate H rq cf pv = ([], Refused SignatureDoesNotMatch).
Proof. exact AuthProofs.C03_mismatch_is_403_no_lookup_validate. Qed.
Print Assumptions C03_mismatch_is_403_no_lookup_validate.

Theorem C03_scope_decision :
  forall (H : bytes -> bytes), forall au region service now,
    fresh (au_timestamp au) now ->
    (prevalidate au region service now allowed_mismatch_ns = Ok tt <->
       exists ak, split_on "/"%byte (au_credential au) =
                  [ak; yyyymmdd (au_timestamp au); region; service; src_auth_AWS4_REQUEST]) /\
    (prevalidate au region service now allowed_mismatch_ns = Err IncompleteSignature <->
       List.length (split_on "/"%byte (au_credential au)) <> 5%nat).
Proof. exact AuthProofs.C03_scope_decision. Qed.
Print Assumptions C03_scope_decision.

Theorem C13_arity :
  forall (H : bytes -> bytes), forall rq cf pv cr pts body au,
    from_request_parts H rq cf = Ok (cr, pts, body) ->
    get_authenticator H cr (cf_reqs cf) = Ok au ->
    in_window au cf ->
    List.length (split_on "/"%byte (au_credential au)) <> 5%nat ->
    validate H rq cf pv = ([], Refused IncompleteSignature).
Proof. exact PipelineProofs.C13_arity. Qed.
Print Assumptions C13_arity.

Theorem C13_scope :
  forall (H : bytes -> bytes), forall rq cf pv cr pts body au a d r s t,
    from_request_parts H rq cf = Ok (cr, pts, body) ->
    get_authenticator H cr (cf_reqs cf) = Ok au ->
    in_window au cf ->
    split_on "/"%byte (au_credential au) = [a; d; r; s; t] ->
    ~ (r = cf_region cf /\ s = cf_service cf /\ t = src_auth_AWS4_REQUEST /\ d = yyyymmdd (au_timestamp au)) ->
    validate H rq cf pv = ([], Refused SignatureDoesNotMatch).
Proof. exact PipelineProofs.C13_scope. Qed.
Print Assumptions C13_scope.
