(* Property C16: statement pins.  Nothing but restated theorems closed by [exact], with
   Print Assumptions under each.  Written by tools/mkprops.py at development time; committed. *)
From Coq Require Import ZArith Lia List Bool.
From Coq Require Import ZifyBool.
From Coq Require Import Strings.Byte.
From Verif Require Import Base.Bytes Time.Calendar Time.Iso8601 Time.Render Spec.Grammar.
From Verif Require Import Proofs.CalendarProofs.
From Verif Require Import Time.Calendar.
From Coq Require Import List Bool NArith ZArith Lia.
From Coq Require Import Sorting.Permutation Sorting.Sorted.
From Verif Require Import Base.Bytes Base.Hex Base.Utf8 Crypto.Hmac Time.Calendar Time.Iso8601 Time.Render.
From Verif Require Import Generated.SrcConsts Model.Errors Model.Uri Model.Query Model.Headers Model.Labels Model.Requirements Model.Validate.
From Verif Require Import Spec.PathSpec Spec.QuerySpec Spec.Signer Spec.RequestSpec.
From Verif Require Import Proofs.PathProofs Proofs.QueryProofs Proofs.HeaderProofs Proofs.KeyProofs.
From Verif Require Import Base.Bytes Base.Hex Crypto.Hmac Time.Calendar Time.Iso8601 Time.Render.
From Verif Require Import Generated.SrcConsts Model.Errors Model.Requirements Model.Validate.
From Verif Require Import Proofs.IsoProofs Proofs.CalendarProofs Proofs.SoundnessProofs Proofs.AuthProofs.
Local Open Scope Z_scope.

Theorem C16_iso_regex_sound :
  forall s f, iso_regex s = Some f -> wf_iso8601 s f.
Proof. exact IsoProofs.iso_regex_sound. Qed.
Print Assumptions C16_iso_regex_sound.

Theorem C16_iso_regex_complete :
  forall s f, wf_iso8601 s f -> iso_regex s = Some f.
Proof. exact IsoProofs.iso_regex_complete. Qed.
Print Assumptions C16_iso_regex_complete.

Theorem C16_wf_iso8601_functional :
  forall s f g, wf_iso8601 s f -> wf_iso8601 s g -> f = g.
Proof. exact IsoProofs.wf_iso8601_functional. Qed.
Print Assumptions C16_wf_iso8601_functional.

Theorem C16_accept_iff :
  forall s t,
  parse_iso8601 s = Some t <-> exists f, wf_iso8601 s f /\ denotes f t.
Proof. exact IsoProofs.C16_accept_iff. Qed.
Print Assumptions C16_accept_iff.

Theorem C16_rejects :
  parse_iso8601 (s2b "20151330T123600Z") = None /\      
  parse_iso8601 (s2b "20150832T123600Z") = None /\      
  parse_iso8601 (s2b "20150230T123600Z") = None /\      
  parse_iso8601 (s2b "20150229T123600Z") = None /\      
  parse_iso8601 (s2b "20150830T243600Z") = None /\      
  parse_iso8601 (s2b "20150830T126000Z") = None /\      
  parse_iso8601 (s2b "20150830T123660Z") = None /\      
  parse_iso8601 (s2b "20150830T123600+0060") = None /\  
  parse_iso8601 (s2b "20150830T123600") = None /\       
  parse_iso8601 (s2b " 20150830T123600Z") = None /\     
  parse_iso8601 (s2b "20150830T123600Zx") = None.
Proof. exact IsoProofs.C16_rejects. Qed.
Print Assumptions C16_rejects.

Theorem C16_scope_date_is_prefix :
  forall t,
  yyyymmdd t = firstn (length (yyyymmdd t)) (render_compact t).
Proof. exact IsoProofs.C16_scope_date_is_prefix. Qed.
Print Assumptions C16_scope_date_is_prefix.

Theorem C16_compact_length :
  forall t,
  0 <= t < 253402300800 * ns_per_s -> length (render_compact t) = 16%nat.
Proof. exact IsoProofs.C16_compact_length. Qed.
Print Assumptions C16_compact_length.

Theorem C16_render_roundtrip :
  forall t,
  0 <= t ->  t < 253402300800 * ns_per_s  ->
  t mod ns_per_s = 0 ->
  parse_iso8601 (render_compact t) = Some t.
Proof. exact IsoProofs.C16_render_roundtrip. Qed.
Print Assumptions C16_render_roundtrip.

Theorem C16_year_of_day_spec :
  forall n,
  days_before_year (year_of_day n) <= n < days_before_year (year_of_day n + 1).
Proof. exact CalendarProofs.year_of_day_spec. Qed.
Print Assumptions C16_year_of_day_spec.

Theorem C16_days_before_year_succ :
  forall y,
  days_before_year (y + 1) = days_before_year y + year_length y.
Proof. exact CalendarProofs.days_before_year_succ. Qed.
Print Assumptions C16_days_before_year_succ.

Theorem C16_civil_of_days_of_civil :
  forall y m d,
  valid_date y m d = true -> civil_of_days (days_of_civil y m d) = (y, m, d).
Proof. exact CalendarProofs.civil_of_days_of_civil. Qed.
Print Assumptions C16_civil_of_days_of_civil.

Theorem C16_days_of_civil_of_days :
  forall n y m d,
  civil_of_days n = (y, m, d) -> valid_date y m d = true /\ days_of_civil y m d = n.
Proof. exact CalendarProofs.days_of_civil_of_days. Qed.
Print Assumptions C16_days_of_civil_of_days.

Theorem C16_days_of_civil_inj :
  forall y m d y' m' d',
  valid_date y m d = true -> valid_date y' m' d' = true ->
  days_of_civil y m d = days_of_civil y' m' d' -> (y, m, d) = (y', m', d').
Proof. exact CalendarProofs.days_of_civil_inj. Qed.
Print Assumptions C16_days_of_civil_inj.

Theorem C16_unix_epoch_day_correct :
  days_of_civil 1970 1 1 = unix_epoch_day.
Proof. exact CalendarProofs.unix_epoch_day_correct. Qed.
Print Assumptions C16_unix_epoch_day_correct.

Theorem C16_no_feb_30 :
  forall y, valid_date y 2 30 = false.
Proof. exact CalendarProofs.no_feb_30. Qed.
Print Assumptions C16_no_feb_30.

Theorem C16_feb_29_iff_leap :
  forall y, valid_date y 2 29 = is_leap y.
Proof. exact CalendarProofs.feb_29_iff_leap. Qed.
Print Assumptions C16_feb_29_iff_leap.

Theorem C16_no_day_32 :
  forall y m, valid_date y m 32 = false.
Proof. exact CalendarProofs.no_day_32. Qed.
Print Assumptions C16_no_day_32.

Theorem C16_no_month_13 :
  forall y d, valid_date y 13 d = false.
Proof. exact CalendarProofs.no_month_13. Qed.
Print Assumptions C16_no_month_13.

Theorem C01_accept_implies_signature :
  forall (H : bytes -> bytes), forall rq cf pv calls p b pr se,
    validate H rq cf pv = (calls, Accepted p b pr se) ->
    has_plus (rq_path rq) = false ->
    exists ap ts g key sts,
      calls = [g] /\
      g = expected_gsk cf ap ts /\
      pv_ready pv = None /\
      pv_answer pv g = AnsOk key pr se /\
      presented_params H rq cf = Some ap /\
      parse_iso8601 (ap_timestamp ap) = Some ts /\
      spec_request_sts H rq cf ap ts = Some sts /\
      ap_signature ap = lower_hex (hmac H key sts).
Proof. exact SoundnessProofs.C01_accept_implies_signature. Qed.
Print Assumptions C01_accept_implies_signature.

Theorem C03_scope_date_is_utc_date :
  forall ts,
    yyyymmdd ts = yyyymmdd_of_civil (civil_of_days (day_of_instant ts)).
Proof. exact AuthProofs.C03_scope_date_is_utc_date. Qed.
Print Assumptions C03_scope_date_is_utc_date.

Theorem C04_textual_independence_decision :
  forall (H : bytes -> bytes), forall cr1 cr2 ap1 ap2 au1 au2 t now,
    parse_iso8601 (ap_timestamp ap1) = Some t -> parse_iso8601 (ap_timestamp ap2) = Some t ->
    (authenticator_from_params H) cr1 ap1 = Ok au1 -> (authenticator_from_params H) cr2 ap2 = Ok au2 ->
    freshness_stage (au_timestamp au1) now = freshness_stage (au_timestamp au2) now /\
    (fresh (au_timestamp au1) now <-> fresh (au_timestamp au2) now).
Proof. exact AuthProofs.C04_textual_independence_decision. Qed.
Print Assumptions C04_textual_independence_decision.
