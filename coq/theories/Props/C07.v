(* Property C07: statement pins.  Nothing but restated theorems closed by [exact], with
   Print Assumptions under each.  Written by tools/mkprops.py at development time; committed. *)
From Coq Require Import String List Bool Arith Lia.
From Verif Require Import Base.Bytes Base.Hex Crypto.Hmac Generated.SrcConsts Model.Errors Model.Validate Model.Leakage Spec.Audit.
From Coq Require Import Lia.
From Verif Require Import Base.Bytes Base.Hex Crypto.Hmac Time.Calendar Time.Render Generated.SrcConsts Model.SigningKey Model.Validate.
From Verif Require Import Proofs.StaticC07 Proofs.KeyProofs.
Local Open Scope string_scope.

Theorem C07_source_uses_ct :
  classify_compare src_sig_compare_kind = CmpCtEq.
Proof. exact StaticC07.C07_source_uses_ct. Qed.
Print Assumptions C07_source_uses_ct.

Theorem C07_ct_eq_steps_data_independent :
  forall a b a' b',
  List.length a = List.length a' -> List.length b = List.length b' ->
  ct_eq_steps a b = ct_eq_steps a' b'.
Proof. exact StaticC07.C07_ct_eq_steps_data_independent. Qed.
Print Assumptions C07_ct_eq_steps_data_independent.

Theorem C07_validate_steps_independent_of_signature :
  forall (H : bytes -> bytes) au au' cf pv,
  au_creq_sha256 au = au_creq_sha256 au' -> au_credential au = au_credential au' ->
  au_token au = au_token au' -> au_timestamp au = au_timestamp au' ->
  List.length (au_signature au) = List.length (au_signature au') ->
  validate_signature_steps H au cf pv = validate_signature_steps H au' cf pv.
Proof. exact StaticC07.C07_validate_steps_independent_of_signature. Qed.
Print Assumptions C07_validate_steps_independent_of_signature.

Theorem C07_early_exit_refuted :
  exists a a' b,
  List.length a = List.length a' /\ snd (early_exit_leaky a b) <> snd (early_exit_leaky a' b).
Proof. exact StaticC07.C07_early_exit_refuted. Qed.
Print Assumptions C07_early_exit_refuted.

Theorem C07_ct_eq_spec :
  forall a b, ct_eq a b = true <-> a = b.
Proof. exact KeyProofs.ct_eq_spec. Qed.
Print Assumptions C07_ct_eq_spec.
