From Verif Require Import Base.Bytes Model.Uri Spec.PathSpec.
Theorem C09_smoke : canon_path false [] = Some slash.
Proof. reflexivity. Qed.
Print Assumptions C09_smoke.
