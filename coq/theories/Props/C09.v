(* Property C09: statement pins.  Nothing but restated theorems closed by [exact], with
   Print Assumptions under each.  Written by tools/mkprops.py at development time; committed. *)
From Coq Require Import List Bool NArith Arith Lia Wf_nat.
From Coq Require Import Strings.Byte.
From Verif Require Import Base.Bytes Base.Hex Generated.SrcConsts Model.Uri Spec.PathSpec.
From Coq Require Import List Bool NArith Arith Lia.
From Verif Require Import Base.Bytes Base.Hex Generated.SrcConsts Model.Uri Model.UriImp.
From Verif Require Import Proofs.PathProofs.
From Verif Require Import Proofs.PathProofs Proofs.UriImpProofs.
Local Open Scope byte_scope.

Theorem C09_normalize_elem_path_spec :
  forall s, has_plus s = false ->
  normalize_elem s = option_map pct_encode (pct_decode false s).
Proof. exact PathProofs.normalize_elem_path_spec. Qed.
Print Assumptions C09_normalize_elem_path_spec.

Theorem C09_pct_decode_encode :
  forall plus s, pct_decode plus (pct_encode s) = Some s.
Proof. exact PathProofs.pct_decode_encode. Qed.
Print Assumptions C09_pct_decode_encode.

Theorem C09_pct_encode_inj :
  forall a b, pct_encode a = pct_encode b -> a = b.
Proof. exact PathProofs.pct_encode_inj. Qed.
Print Assumptions C09_pct_encode_inj.

Theorem C09_model_is_spec :
  forall s3 p, has_plus p = false -> canon_path s3 p = spec_path s3 p.
Proof. exact PathProofs.C09_model_is_spec. Qed.
Print Assumptions C09_model_is_spec.

Theorem C09_idempotent :
  forall s3 p c, canon_path s3 p = Some c -> canon_path s3 c = Some c.
Proof. exact PathProofs.C09_idempotent. Qed.
Print Assumptions C09_idempotent.

Theorem C09_fails_iff_spec_fails :
  forall s3 p, canon_path s3 p = None <-> spec_path s3 p = None.
Proof. exact PathProofs.C09_fails_iff_spec_fails. Qed.
Print Assumptions C09_fails_iff_spec_fails.

Theorem C09_spec_failure_set :
  forall s3 p,
  spec_path s3 p = None <->
  (exists c r, p = c :: r /\ c <> "/"%byte)
  \/ (exists r, p = "/"%byte :: r /\ r <> [] /\
        (map_opt (pct_decode false) (split_on "/"%byte r) = None
         \/ (s3 = false /\ exists d, map_opt (pct_decode false) (split_on "/"%byte r) = Some d /\
               resolve_dots (filter (fun s => negb (is_nil s)) d) [] = None))).
Proof. exact PathProofs.C09_spec_failure_set. Qed.
Print Assumptions C09_spec_failure_set.

Theorem C09_alphabet :
  forall s3 p c, canon_path s3 p = Some c -> canon_text c.
Proof. exact PathProofs.C09_alphabet. Qed.
Print Assumptions C09_alphabet.

Theorem C09_no_dot_segments :
  forall p c, canon_path false p = Some c ->
  forall seg, In seg (split_on "/"%byte c) -> seg <> ["."%byte] /\ seg <> ["."%byte; "."%byte].
Proof. exact PathProofs.C09_no_dot_segments. Qed.
Print Assumptions C09_no_dot_segments.

Theorem C09_spelling_insensitive :
  forall s3 r1 r2,
  has_plus r1 = false -> has_plus r2 = false -> r1 <> [] -> r2 <> [] ->
  map_opt (pct_decode false) (split_on "/"%byte r1) = map_opt (pct_decode false) (split_on "/"%byte r2) ->
  canon_path s3 ("/"%byte :: r1) = canon_path s3 ("/"%byte :: r2).
Proof. exact PathProofs.C09_spelling_insensitive. Qed.
Print Assumptions C09_spelling_insensitive.

Theorem C09_model_is_spec_plus_refuted :
  exists s3 p, has_plus p = true /\ canon_path s3 p <> spec_path s3 p.
Proof. exact PathProofs.C09_model_is_spec_plus_refuted. Qed.
Print Assumptions C09_model_is_spec_plus_refuted.

Theorem C09_normalize_elem_imp_correct :
  forall s,
  normalize_elem_imp s = Done (normalize_elem s).
Proof. exact UriImpProofs.normalize_elem_imp_correct. Qed.
Print Assumptions C09_normalize_elem_imp_correct.

Theorem C09_canon_path_imp_correct :
  forall s3 p,
  canon_path_imp s3 p = Done (canon_path s3 p).
Proof. exact UriImpProofs.canon_path_imp_correct. Qed.
Print Assumptions C09_canon_path_imp_correct.
