(* Property C08: statement pins.  Nothing but restated theorems closed by [exact], with
   Print Assumptions under each.  Written by tools/mkprops.py at development time; committed. *)
From Coq Require Import List Bool NArith ZArith Lia.
From Coq Require Import Strings.Byte.
From Verif Require Import Base.Bytes Base.Hex Base.Utf8 Crypto.Hmac Time.Calendar Time.Iso8601 Time.Render.
From Verif Require Import Generated.SrcConsts Model.Errors Model.Uri Model.Query Model.Headers Model.Labels Model.Requirements Model.Validate Spec.PathSpec Spec.QuerySpec Spec.Signer Spec.RequestSpec.
From Verif Require Import Proofs.QueryProofs Proofs.HeaderProofs.
From Verif Require Proofs.KeyProofs Crypto.Sha256.
From Coq Require Import Lia.
From Verif Require Import Base.Bytes Base.Hex Crypto.Hmac Time.Calendar Time.Render Generated.SrcConsts Model.SigningKey Model.Validate.
From Verif Require Import Proofs.PipelineProofs Proofs.KeyProofs.

Theorem C08_normalize_elem_unescape :
  forall s n, normalize_elem s = Some n -> unesc_ok n.
Proof. exact PipelineProofs.normalize_elem_unescape. Qed.
Print Assumptions C08_normalize_elem_unescape.

Theorem C08_query_map_good :
  forall q m, query_map q = Some m -> qm_good m.
Proof. exact PipelineProofs.query_map_good. Qed.
Print Assumptions C08_query_map_good.

Theorem C08_qmap_extend_good :
  forall m b, qm_good m -> qm_good b -> qm_good (qmap_extend m b).
Proof. exact PipelineProofs.qmap_extend_good. Qed.
Print Assumptions C08_qmap_extend_good.

Theorem C08_normalize_headers_good :
  forall hs, hm_good (normalize_headers hs).
Proof. exact PipelineProofs.normalize_headers_good. Qed.
Print Assumptions C08_normalize_headers_good.

Theorem C08_from_request_parts_good :
  forall (H : bytes -> bytes), forall rq cf cr pts body,
    from_request_parts H rq cf = Ok (cr, pts, body) -> cr_good cr.
Proof. exact PipelineProofs.from_request_parts_good. Qed.
Print Assumptions C08_from_request_parts_good.

Theorem C08_from_request_parts_never_panics :
  forall (H : bytes -> bytes), forall rq cf s, from_request_parts H rq cf <> Panic s.
Proof. exact PipelineProofs.C08_from_request_parts_never_panics. Qed.
Print Assumptions C08_from_request_parts_never_panics.

Theorem C08_carrier_params_never_panics :
  forall cr s, cr_good cr -> carrier_params cr <> Panic s.
Proof. exact PipelineProofs.C08_carrier_params_never_panics. Qed.
Print Assumptions C08_carrier_params_never_panics.

Theorem C08_get_authenticator_never_panics :
  forall (H : bytes -> bytes), forall cr rs s,
    cr_good cr -> get_authenticator H cr rs <> Panic s.
Proof. exact PipelineProofs.C08_get_authenticator_never_panics. Qed.
Print Assumptions C08_get_authenticator_never_panics.

Theorem C08_validate_signature_never_panics :
  forall (H : bytes -> bytes), forall au cf pv s,
    snd (validate_signature H au cf pv) <> Panic s.
Proof. exact PipelineProofs.C08_validate_signature_never_panics. Qed.
Print Assumptions C08_validate_signature_never_panics.

Theorem C08_validate_never_panics :
  forall (H : bytes -> bytes), forall rq cf pv s, snd (validate H rq cf pv) <> Panicked s.
Proof. exact PipelineProofs.C08_validate_never_panics. Qed.
Print Assumptions C08_validate_never_panics.

Theorem C08_validate_total :
  forall (H : bytes -> bytes), forall rq cf pv,
    (exists k, snd (validate H rq cf pv) = Refused k)
    \/ (exists p b pr se, snd (validate H rq cf pv) = Accepted p b pr se).
Proof. exact PipelineProofs.C08_validate_total. Qed.
Print Assumptions C08_validate_total.

Theorem C06_never_panics :
  forall M s, from_str M s <> FsPanic.
Proof. exact KeyProofs.C06_never_panics. Qed.
Print Assumptions C06_never_panics.

Theorem C06_capacity :
  forall M s,
    (length s + 4 <= M)%nat <-> exists k, from_str M s = FsOk k.
Proof. exact KeyProofs.C06_capacity. Qed.
Print Assumptions C06_capacity.

Theorem C06_too_long :
  forall M s, (M < length s + 4)%nat <-> from_str M s = FsKeyTooLong.
Proof. exact KeyProofs.C06_too_long. Qed.
Print Assumptions C06_too_long.
