(* Property C19: statement pins.  Nothing but restated theorems closed by [exact], with
   Print Assumptions under each.  Written by tools/mkprops.py at development time; committed. *)
From Coq Require Import List Bool NArith ZArith Lia.
From Coq Require Import Sorting.Permutation.
From Coq Require Import Strings.Byte.
From Verif Require Import Base.Bytes Base.Hex Base.Utf8 Crypto.Hmac Time.Calendar Time.Iso8601 Time.Render.
From Verif Require Import Generated.SrcConsts Model.Errors Model.Uri Model.Query Model.Headers Model.Labels Model.Requirements Model.Validate Spec.PathSpec Spec.QuerySpec Spec.Signer Spec.RequestSpec.
From Verif Require Import Proofs.QueryProofs Proofs.HeaderProofs Proofs.PipelineProofs.
From Verif Require Proofs.KeyProofs Crypto.Sha256.
From Coq Require Import Sorting.Permutation Sorting.Sorted.
From Verif Require Import Generated.SrcConsts Model.Errors Model.Uri Model.Query Model.Headers Model.Labels Model.Requirements Model.Validate.
From Verif Require Import Spec.PathSpec Spec.QuerySpec Spec.Signer Spec.RequestSpec.
From Verif Require Import Proofs.PathProofs Proofs.QueryProofs Proofs.HeaderProofs Proofs.KeyProofs Proofs.ReqProofs.
From Verif Require Import Proofs.PipelineProofs Proofs.SelectionProofs.
From Verif Require Proofs.AuthProofs Proofs.IsoProofs.
From Verif Require Import Proofs.SoundnessProofs.
From Verif Require Import Proofs.SelectionProofs Proofs.CompletenessProofs.

Theorem C19_header_first_value :
  forall hs n,
  first_value (hget n (normalize_headers hs)) = option_map norm_value (first_raw n hs).
Proof. exact SelectionProofs.C19_header_first_value. Qed.
Print Assumptions C19_header_first_value.

Theorem C19_later_duplicate_ignored :
  forall hs1 x hs2 n,
  first_raw (lower (fst x)) hs1 <> None ->
  first_raw n (hs1 ++ x :: hs2) = first_raw n (hs1 ++ hs2).
Proof. exact SelectionProofs.C19_later_duplicate_ignored. Qed.
Print Assumptions C19_later_duplicate_ignored.

Theorem C19_first_date :
  forall cr hs,
  cr_headers cr = normalize_headers hs ->
  hdr_date cr = option_map norm_value (spec_date hs).
Proof. exact SelectionProofs.C19_first_date. Qed.
Print Assumptions C19_first_date.

Theorem C19_first_token :
  forall cr hs,
  cr_headers cr = normalize_headers hs ->
  hdr_token cr = option_map norm_value (first_raw src_canonical_X_AMZ_SECURITY_TOKEN_LOWER hs).
Proof. exact SelectionProofs.C19_first_token. Qed.
Print Assumptions C19_first_token.

Theorem C19_first_authorization :
  forall cr hs v,
  cr_headers cr = normalize_headers hs ->
  first_raw src_canonical_AUTHORIZATION hs = Some v ->
  qget src_canonical_X_AMZ_ALGORITHM (cr_query cr) = None ->
  carrier_params cr = auth_params_from_header cr (norm_value v).
Proof. exact SelectionProofs.C19_first_authorization. Qed.
Print Assumptions C19_first_authorization.

Theorem C19_last_param_wins :
  forall ps m pm k,
  parse_auth_params ps m = Ok pm ->
  assoc k pm = match last_param k ps with Some v => Some v | None => assoc k m end.
Proof. exact SelectionProofs.C19_last_param_wins. Qed.
Print Assumptions C19_last_param_wins.

Theorem C19_last_param_wins_header :
  forall a k,
  bad_param_syntax a = false -> assoc k (hdr_pmap a) = last_param k (hdr_pieces a).
Proof. exact SelectionProofs.C19_last_param_wins_header. Qed.
Print Assumptions C19_last_param_wins_header.

Theorem C19_first_query_value :
  forall q m k,
  query_map q = Some m ->
  first_value (qget k m) = first_comp k (split_on "&"%byte q).
Proof. exact SelectionProofs.C19_first_query_value. Qed.
Print Assumptions C19_first_query_value.

Theorem C19_url_before_body :
  forall m b k,
  Forall (fun kv => snd kv <> []) b ->
  first_value (qget k (qmap_extend m b)) =
  match first_value (qget k m) with Some v => Some v | None => first_value (qget k b) end.
Proof. exact SelectionProofs.C19_url_before_body. Qed.
Print Assumptions C19_url_before_body.

Theorem C19_qget_qmap_extend :
  forall b m k,
  NoDup (map fst b) -> Forall (fun kv => snd kv <> []) b ->
  qget k (qmap_extend m b) = merge_values (qget k m) (qget k b).
Proof. exact SelectionProofs.qget_qmap_extend. Qed.
Print Assumptions C19_qget_qmap_extend.

Theorem C19_selection :
  forall (H : bytes -> bytes), forall rq cf cr pts body ap,
    from_request_parts H rq cf = Ok (cr, pts, body) ->
    carrier_params cr = Ok ap ->
    ap = sel_params cr.
Proof. exact SelectionProofs.C19_selection. Qed.
Print Assumptions C19_selection.

Theorem C19_selection_header :
  forall (H : bytes -> bytes), forall rq cf cr pts body ap a,
    from_request_parts H rq cf = Ok (cr, pts, body) ->
    carrier_params cr = Ok ap ->
    first_raw src_canonical_AUTHORIZATION (rq_headers rq) = Some a ->
    let ps := hdr_pieces (norm_value a) in
    ap_credential ap = latin1 (odflt [] (last_param src_canonical_CREDENTIAL ps))
    /\ ap_signature ap = latin1 (odflt [] (last_param src_canonical_SIGNATURE ps))
    /\ ap_signed ap = sort_bytes (map latin1 (split_on ";"%byte (odflt [] (last_param src_canonical_SIGNED_HEADERS ps))))
    /\ ap_timestamp ap = latin1 (odflt [] (option_map norm_value (spec_date (rq_headers rq))))
    /\ ap_token ap = option_map latin1
         (option_map norm_value (first_raw src_canonical_X_AMZ_SECURITY_TOKEN_LOWER (rq_headers rq))).
Proof. exact SelectionProofs.C19_selection_header. Qed.
Print Assumptions C19_selection_header.

Theorem C19_selection_query :
  forall (H : bytes -> bytes), forall rq cf cr pts body ap,
    from_request_parts H rq cf = Ok (cr, pts, body) ->
    carrier_params cr = Ok ap ->
    hget src_canonical_AUTHORIZATION (cr_headers cr) = None ->
    ap_credential ap = unesc (odflt [] (qfirst cr src_canonical_X_AMZ_CREDENTIAL))
    /\ ap_signature ap = unesc (odflt [] (qfirst cr src_canonical_X_AMZ_SIGNATURE))
    /\ ap_signed ap = sort_bytes (split_on ";"%byte (unesc (odflt [] (qfirst cr src_canonical_X_AMZ_SIGNED_HEADERS))))
    /\ ap_timestamp ap = unesc (odflt [] (qfirst cr src_canonical_X_AMZ_DATE))
    /\ ap_token ap = option_map unesc (qfirst cr src_canonical_X_AMZ_SECURITY_TOKEN).
Proof. exact SelectionProofs.C19_selection_query. Qed.
Print Assumptions C19_selection_query.

Theorem C19_query_values_of_request :
  forall (H : bytes -> bytes), forall rq cf k uq,
    request_failure rq cf = None ->
    st_url_qm rq = Some uq ->
    qfirst (st_canonical H rq cf) k =
    match first_comp k (split_on "&"%byte (url_query rq)) with
    | Some v => Some v
    | None =>
        if spec_folded rq cf
        then match spec_decoded_body rq with
             | Some d => first_comp k (split_on "&"%byte d)
             | None => None
             end
        else None
    end.
Proof. exact SelectionProofs.C19_query_values_of_request. Qed.
Print Assumptions C19_query_values_of_request.

Theorem C19_both_carriers_refused :
  forall (H : bytes -> bytes), forall rq cf pv,
    request_failure rq cf = None ->
    first_raw src_canonical_AUTHORIZATION (rq_headers rq) <> None ->
    qfirst (st_canonical H rq cf) src_canonical_X_AMZ_ALGORITHM <> None ->
    validate H rq cf pv = ([], Refused SignatureDoesNotMatch).
Proof. exact SelectionProofs.C19_both_carriers_refused. Qed.
Print Assumptions C19_both_carriers_refused.

Theorem C19_unique_acceptance :
  forall (H : bytes -> bytes), forall rq1 rq2 cf pv cr1 pts1 body1 cr2 pts2 body2 ap1 ap2,
    from_request_parts H rq1 cf = Ok (cr1, pts1, body1) ->
    from_request_parts H rq2 cf = Ok (cr2, pts2, body2) ->
    carrier_params cr1 = Ok ap1 -> carrier_params cr2 = Ok ap2 ->
    
    sel_params cr1 = sel_params cr2 ->
    
    canonical_request cr1 (ap_signed (sel_params cr1)) = canonical_request cr2 (ap_signed (sel_params cr1)) ->
    
    reqs_ok (cf_reqs cf) (cr_headers cr1) (ap_signed (sel_params cr1))
      = reqs_ok (cf_reqs cf) (cr_headers cr2) (ap_signed (sel_params cr1)) ->
    ap1 = sel_params cr1 /\ ap2 = ap1
    /\ fst (validate H rq1 cf pv) = fst (validate H rq2 cf pv)
    /\ same_verdict (snd (validate H rq1 cf pv)) (snd (validate H rq2 cf pv)).
Proof. exact CompletenessProofs.C19_unique_acceptance. Qed.
Print Assumptions C19_unique_acceptance.
