(* Property C05: statement pins.  Nothing but restated theorems closed by [exact], with
   Print Assumptions under each.  Written by tools/mkprops.py at development time; committed. *)
From Verif Require Import Base.Bytes Model.Headers Model.Requirements Model.Validate.
From Verif Require Import Proofs.ReqProofs.

Theorem C05_add_name_denotes :
  forall l h n, denotes (add_name l h) n = denotes l n || bytes_eqb (lower n) (lower h).
Proof. exact ReqProofs.add_name_denotes. Qed.
Print Assumptions C05_add_name_denotes.

Theorem C05_remove_name_denotes :
  forall l h n, denotes (remove_name l h) n = denotes l n && negb (bytes_eqb (lower n) (lower h)).
Proof. exact ReqProofs.remove_name_denotes. Qed.
Print Assumptions C05_remove_name_denotes.

Theorem C05_containers_refine_sets :
  forall ops r,
  abs_eq (abs_of (apply_ops r ops)) (fold_left abs_apply ops (abs_of r)).
Proof. exact ReqProofs.C05_containers_refine_sets. Qed.
Print Assumptions C05_containers_refine_sets.

Theorem C05_reqs_ok_extensional :
  forall r1 r2 hm signed,
  abs_eq (abs_of r1) (abs_of r2) -> reqs_ok r1 hm signed = reqs_ok r2 hm signed.
Proof. exact ReqProofs.C05_reqs_ok_extensional. Qed.
Print Assumptions C05_reqs_ok_extensional.

Theorem C05_reqs_ok_meaning :
  forall r hm signed,
  reqs_ok r hm signed = true <->
  (forall a, In a (always_present r) -> In (lower a) signed)
  /\ (forall c, In c (if_in_request r) -> hget (lower c) hm <> None -> In (lower c) signed)
  /\ (forall p k vs, In p (prefixes r) -> In (k, vs) hm -> starts_with (lower p) k = true -> In k signed).
Proof. exact ReqProofs.C05_reqs_ok_meaning. Qed.
Print Assumptions C05_reqs_ok_meaning.
