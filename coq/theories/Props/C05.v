(* Property C05: statement pins.  Nothing but restated theorems closed by [exact], with
   Print Assumptions under each.  Written by tools/mkprops.py at development time; committed. *)
From Verif Require Import Base.Bytes Model.Headers Model.Requirements Model.Validate.
From Coq Require Import List Bool NArith ZArith Lia.
From Coq Require Import Sorting.Permutation Sorting.Sorted.
From Coq Require Import Strings.Byte.
From Verif Require Import Base.Bytes Base.Hex Base.Utf8 Crypto.Hmac Time.Calendar Time.Iso8601 Time.Render.
From Verif Require Import Generated.SrcConsts Model.Errors Model.Uri Model.Query Model.Headers Model.Labels Model.Requirements Model.Validate.
From Verif Require Import Spec.PathSpec Spec.QuerySpec Spec.Signer Spec.RequestSpec.
From Verif Require Import Proofs.PathProofs Proofs.QueryProofs Proofs.HeaderProofs Proofs.KeyProofs Proofs.ReqProofs.
From Verif Require Import Proofs.PipelineProofs Proofs.SelectionProofs.
From Verif Require Proofs.AuthProofs Proofs.IsoProofs.
From Verif Require Import Proofs.SoundnessProofs.
From Verif Require Import Generated.SrcConsts Model.Errors Model.Uri Model.Query Model.Headers Model.Labels Model.Requirements Model.Validate Spec.PathSpec Spec.QuerySpec Spec.Signer Spec.RequestSpec.
From Verif Require Import Proofs.QueryProofs Proofs.HeaderProofs.
From Verif Require Proofs.KeyProofs Crypto.Sha256.
From Verif Require Import Proofs.ReqProofs Proofs.CompletenessProofs Proofs.PipelineProofs.

Theorem C05_add_name_denotes :
  forall l h n, denotes (add_name l h) n = denotes l n || bytes_eqb (lower n) (lower h).
Proof. exact ReqProofs.add_name_denotes. Qed.
Print Assumptions C05_add_name_denotes.

Theorem C05_remove_name_denotes :
  forall l h n, denotes (remove_name l h) n = denotes l n && negb (bytes_eqb (lower n) (lower h)).
Proof. exact ReqProofs.remove_name_denotes. Qed.
Print Assumptions C05_remove_name_denotes.

Theorem C05_containers_refine_sets :
  forall ops r,
  abs_eq (abs_of (apply_ops r ops)) (fold_left abs_apply ops (abs_of r)).
Proof. exact ReqProofs.C05_containers_refine_sets. Qed.
Print Assumptions C05_containers_refine_sets.

Theorem C05_reqs_ok_extensional :
  forall r1 r2 hm signed,
  abs_eq (abs_of r1) (abs_of r2) -> reqs_ok r1 hm signed = reqs_ok r2 hm signed.
Proof. exact ReqProofs.C05_reqs_ok_extensional. Qed.
Print Assumptions C05_reqs_ok_extensional.

Theorem C05_reqs_ok_meaning :
  forall r hm signed,
  reqs_ok r hm signed = true <->
  (forall a, In a (always_present r) -> In (lower a) signed)
  /\ (forall c, In c (if_in_request r) -> hget (lower c) hm <> None -> In (lower c) signed)
  /\ (forall p k vs, In p (prefixes r) -> In (k, vs) hm -> starts_with (lower p) k = true -> In k signed).
Proof. exact ReqProofs.C05_reqs_ok_meaning. Qed.
Print Assumptions C05_reqs_ok_meaning.

Theorem C05_reqs_ok_raw :
  forall rs hs signed,
  reqs_ok rs (normalize_headers hs) signed = true <-> requirements_met rs hs signed.
Proof. exact CompletenessProofs.C05_reqs_ok_raw. Qed.
Print Assumptions C05_reqs_ok_raw.

Theorem C05_accept_implies_requirements :
  forall (H : bytes -> bytes), forall rq cf pv calls p b pr se,
    validate H rq cf pv = (calls, Accepted p b pr se) ->
    exists ap,
      presented_params H rq cf = Some ap
      /\ (In (s2b "host") (ap_signed ap) \/ In (s2b ":authority") (ap_signed ap))
      /\ (forall a, In a (always_present (cf_reqs cf)) -> In (lower a) (ap_signed ap))
      /\ (forall c, In c (if_in_request (cf_reqs cf)) -> values_of (lower c) (rq_headers rq) <> [] ->
                    In (lower c) (ap_signed ap))
      /\ (forall p n v, In p (prefixes (cf_reqs cf)) -> In (n, v) (rq_headers rq) ->
                        starts_with (lower p) (lower n) = true -> In (lower n) (ap_signed ap)).
Proof. exact CompletenessProofs.C05_accept_implies_requirements. Qed.
Print Assumptions C05_accept_implies_requirements.

Theorem C05_violation_refused_403 :
  forall (H : bytes -> bytes), forall rq cf pv cr pts body ap,
    from_request_parts H rq cf = Ok (cr, pts, body) ->
    carrier_params cr = Ok ap ->
    ~ c05_conjunction rq cf (ap_signed ap) ->
    validate H rq cf pv = ([], Refused SignatureDoesNotMatch)
    /\ status SignatureDoesNotMatch = Some 403%N.
Proof. exact CompletenessProofs.C05_violation_refused_403. Qed.
Print Assumptions C05_violation_refused_403.

Theorem C05_requirements_pass :
  forall (H : bytes -> bytes), forall rq cf cr pts body ap,
    from_request_parts H rq cf = Ok (cr, pts, body) ->
    carrier_params cr = Ok ap ->
    c05_conjunction rq cf (ap_signed ap) ->
    presented_params H rq cf = Some ap.
Proof. exact CompletenessProofs.C05_requirements_pass. Qed.
Print Assumptions C05_requirements_pass.

Theorem C05_requirement_extensional :
  forall (H : bytes -> bytes), forall rq cf rs' pv,
    abs_eq (abs_of (cf_reqs cf)) (abs_of rs') ->
    validate H rq (with_reqs cf rs') pv = validate H rq cf pv.
Proof. exact CompletenessProofs.C05_requirement_extensional. Qed.
Print Assumptions C05_requirement_extensional.

Theorem C05_requirement_case_insensitive :
  forall (H : bytes -> bytes), forall rq cf rs' pv,
    same_spelling (always_present (cf_reqs cf)) (always_present rs') ->
    same_spelling (if_in_request (cf_reqs cf)) (if_in_request rs') ->
    same_spelling (prefixes (cf_reqs cf)) (prefixes rs') ->
    validate H rq (with_reqs cf rs') pv = validate H rq cf pv.
Proof. exact CompletenessProofs.C05_requirement_case_insensitive. Qed.
Print Assumptions C05_requirement_case_insensitive.

Theorem C13_requirements :
  forall (H : bytes -> bytes), forall rq cf pv cr pts body ap,
    from_request_parts H rq cf = Ok (cr, pts, body) ->
    carrier_params cr = Ok ap ->
    host_signed (ap_signed ap) = false \/ reqs_ok (cf_reqs cf) (cr_headers cr) (ap_signed ap) = false ->
    validate H rq cf pv = ([], Refused SignatureDoesNotMatch).
Proof. exact PipelineProofs.C13_requirements. Qed.
Print Assumptions C13_requirements.

Theorem C05_get_auth_parameters_eq :
  forall cr rs, cr_good cr ->
  get_auth_parameters cr rs =
  match params_failure cr with
  | Some k => Err k
  | None =>
      if negb (host_signed (ap_signed (sel_params cr))) then Err SignatureDoesNotMatch
      else if negb (reqs_ok rs (cr_headers cr) (ap_signed (sel_params cr))) then Err SignatureDoesNotMatch
      else Ok (sel_params cr)
  end.
Proof. exact PipelineProofs.get_auth_parameters_eq. Qed.
Print Assumptions C05_get_auth_parameters_eq.
