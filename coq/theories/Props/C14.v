(* Property C14: statement pins.  Nothing but restated theorems closed by [exact], with
   Print Assumptions under each.  Written by tools/mkprops.py at development time; committed. *)
From Coq Require Import ZArith Lia List Bool.
From Coq Require Import Strings.Byte.
From Verif Require Import Base.Bytes Base.Hex Crypto.Hmac Time.Calendar Time.Iso8601 Time.Render.
From Verif Require Import Generated.SrcConsts Model.Errors Model.Requirements Model.Validate.
From Coq Require Import List Bool NArith ZArith Lia.
From Verif Require Import Base.Bytes Base.Hex Base.Utf8 Crypto.Hmac Time.Calendar Time.Iso8601 Time.Render.
From Verif Require Import Generated.SrcConsts Model.Errors Model.Uri Model.Query Model.Headers Model.Labels Model.Requirements Model.Validate Spec.PathSpec Spec.QuerySpec Spec.Signer Spec.RequestSpec.
From Verif Require Import Proofs.QueryProofs Proofs.HeaderProofs.
From Verif Require Proofs.KeyProofs Crypto.Sha256.
From Verif Require Import Proofs.AuthProofs Proofs.PipelineProofs.

Theorem C14_calls_exact :
  forall (H : bytes -> bytes), forall rq cf pv,
    fst (validate H rq cf pv) =
    match (asked H) rq cf, pv_ready pv with
    | Some r, None => [r]
    | _, _ => []
    end.
Proof. exact AuthProofs.C14_calls_exact. Qed.
Print Assumptions C14_calls_exact.

Theorem C14_at_most_once :
  forall (H : bytes -> bytes), forall rq cf pv, (List.length (fst (validate H rq cf pv)) <= 1)%nat.
Proof. exact AuthProofs.C14_at_most_once. Qed.
Print Assumptions C14_at_most_once.

Theorem C14_calls_le_prevalidated :
  forall (H : bytes -> bytes), forall rq cf pv,
    (List.length (fst (validate H rq cf pv)) <= if (passes_prevalidation H) rq cf then 1 else 0)%nat.
Proof. exact AuthProofs.C14_calls_le_prevalidated. Qed.
Print Assumptions C14_calls_le_prevalidated.

Theorem C14_no_call_unless_prevalidated :
  forall (H : bytes -> bytes), forall rq cf pv,
    (forall x, from_request_parts H rq cf <> Ok x) \/
    (exists cr pts body, from_request_parts H rq cf = Ok (cr, pts, body) /\
       ((forall au, get_authenticator H cr (cf_reqs cf) <> Ok au) \/
        (exists au, get_authenticator H cr (cf_reqs cf) = Ok au /\
           prevalidate au (cf_region cf) (cf_service cf) (cf_now cf) allowed_mismatch_ns <> Ok tt))) ->
    fst (validate H rq cf pv) = [].
Proof. exact AuthProofs.C14_no_call_unless_prevalidated. Qed.
Print Assumptions C14_no_call_unless_prevalidated.

Theorem C14_call_implies_prevalidated :
  forall (H : bytes -> bytes), forall rq cf pv r,
    In r (fst (validate H rq cf pv)) ->
    exists cr pts body au,
      from_request_parts H rq cf = Ok (cr, pts, body) /\
      get_authenticator H cr (cf_reqs cf) = Ok au /\
      prevalidate au (cf_region cf) (cf_service cf) (cf_now cf) allowed_mismatch_ns = Ok tt /\
      pv_ready pv = None /\
      r = gsk_request_of au (cf_region cf) (cf_service cf) /\
      fst (validate H rq cf pv) = [r].
Proof. exact AuthProofs.C14_call_implies_prevalidated. Qed.
Print Assumptions C14_call_implies_prevalidated.

Theorem C14_no_call_before_ready :
  forall (H : bytes -> bytes), forall rq cf pv e,
    pv_ready pv = Some e ->
    fst (validate H rq cf pv) = [] /\
    (forall cr pts body au,
       from_request_parts H rq cf = Ok (cr, pts, body) ->
       get_authenticator H cr (cf_reqs cf) = Ok au ->
       prevalidate au (cf_region cf) (cf_service cf) (cf_now cf) allowed_mismatch_ns = Ok tt ->
       validate H rq cf pv = ([], Refused (from_box e))).
Proof. exact AuthProofs.C14_no_call_before_ready. Qed.
Print Assumptions C14_no_call_before_ready.

Theorem C14_provider_error_verbatim :
  forall (H : bytes -> bytes), forall rq cf pv cr pts body au e,
    from_request_parts H rq cf = Ok (cr, pts, body) ->
    get_authenticator H cr (cf_reqs cf) = Ok au ->
    prevalidate au (cf_region cf) (cf_service cf) (cf_now cf) allowed_mismatch_ns = Ok tt ->
    pv_ready pv = None ->
    pv_answer pv (gsk_request_of au (cf_region cf) (cf_service cf)) = AnsErr e ->
    validate H rq cf pv = ([gsk_request_of au (cf_region cf) (cf_service cf)], Refused (from_box e)).
Proof. exact AuthProofs.C14_provider_error_verbatim. Qed.
Print Assumptions C14_provider_error_verbatim.

Theorem C14_from_box_sig :
  forall k, from_box (BoxSig k) = k.
Proof. exact AuthProofs.C14_from_box_sig. Qed.
Print Assumptions C14_from_box_sig.

Theorem C14_from_box_foreign :
  from_box BoxForeign = InternalServiceError.
Proof. exact AuthProofs.C14_from_box_foreign. Qed.
Print Assumptions C14_from_box_foreign.

Theorem C14_status_500 :
  status InternalServiceError = Some 500%N.
Proof. exact AuthProofs.C14_status_500. Qed.
Print Assumptions C14_status_500.

Theorem C14_accept_implies_answer :
  forall (H : bytes -> bytes), forall rq cf pv calls p b pr se,
    validate H rq cf pv = (calls, Accepted p b pr se) ->
    pv_ready pv = None /\
    exists r key, (asked H) rq cf = Some r /\ calls = [r] /\ pv_answer pv r = AnsOk key pr se.
Proof. exact AuthProofs.C14_accept_implies_answer. Qed.
Print Assumptions C14_accept_implies_answer.

Theorem C14_never_accepts_on_error :
  forall (H : bytes -> bytes), forall rq cf pv,
    pv_ready pv <> None \/
    (forall r, In r (fst (validate H rq cf pv)) -> exists e, pv_answer pv r = AnsErr e) ->
    forall p b pr se, snd (validate H rq cf pv) <> Accepted p b pr se.
Proof. exact AuthProofs.C14_never_accepts_on_error. Qed.
Print Assumptions C14_never_accepts_on_error.

Theorem C14_never_accepts_on_error_asked :
  forall (H : bytes -> bytes), forall rq cf pv,
    pv_ready pv <> None \/
    (forall r, (asked H) rq cf = Some r -> exists e, pv_answer pv r = AnsErr e) ->
    forall p b pr se, snd (validate H rq cf pv) <> Accepted p b pr se.
Proof. exact AuthProofs.C14_never_accepts_on_error_asked. Qed.
Print Assumptions C14_never_accepts_on_error_asked.

Theorem C14_pending_irrelevant :
  forall (H : bytes -> bytes), forall rq cf pv pv',
    pv_ready pv = pv_ready pv' ->
    (forall r, pv_answer pv r = pv_answer pv' r) ->
    validate H rq cf pv = validate H rq cf pv'.
Proof. exact AuthProofs.C14_pending_irrelevant. Qed.
Print Assumptions C14_pending_irrelevant.

Theorem C14_pending_irrelevant_counts :
  forall (H : bytes -> bytes), forall rq cf n m n' m' ready answer,
    validate H rq cf {| pv_ready_pending := n; pv_ready := ready; pv_call_pending := m; pv_answer := answer |} =
    validate H rq cf {| pv_ready_pending := n'; pv_ready := ready; pv_call_pending := m'; pv_answer := answer |}.
Proof. exact AuthProofs.C14_pending_irrelevant_counts. Qed.
Print Assumptions C14_pending_irrelevant_counts.

Theorem C14_only_asked_answer_matters :
  forall (H : bytes -> bytes), forall rq cf pv pv',
    pv_ready pv = pv_ready pv' ->
    (forall r, (asked H) rq cf = Some r -> pv_answer pv r = pv_answer pv' r) ->
    validate H rq cf pv = validate H rq cf pv'.
Proof. exact AuthProofs.C14_only_asked_answer_matters. Qed.
Print Assumptions C14_only_asked_answer_matters.

Theorem C13_calls :
  forall (H : bytes -> bytes), forall rq cf pv, fst (validate H rq cf pv) =
    match (pre_failure H) rq cf with
    | Some _ => []
    | None => prov_calls pv (the_call ((st_au H) rq cf) cf)
    end.
Proof. exact PipelineProofs.C13_calls. Qed.
Print Assumptions C13_calls.

Theorem C13_provider_error :
  forall (H : bytes -> bytes), forall rq cf pv cr pts body au e,
    from_request_parts H rq cf = Ok (cr, pts, body) ->
    get_authenticator H cr (cf_reqs cf) = Ok au ->
    prevalidate au (cf_region cf) (cf_service cf) (cf_now cf) allowed_mismatch_ns = Ok tt ->
    prov_answer pv (the_call au cf) = AnsErr e ->
    validate H rq cf pv = (prov_calls pv (the_call au cf), Refused (from_box e)).
Proof. exact PipelineProofs.C13_provider_error. Qed.
Print Assumptions C13_provider_error.

(* history theorem (stateful provider shared by a sequence of validations); pinned by hand because
   it lives in a nested section *)
Theorem C14_history :
  forall (H : bytes -> bytes) (St : Type) (sp : sprovider St) (hist : list (request * config)) (s : St),
      let res := run_history H sp s hist in
      (List.length (all_calls (snd res)) <=
       List.length (filter (fun x => passes_prevalidation H (fst x) (snd x)) hist))%nat /\
      (forall n rq cf, nth_error hist n = Some (rq, cf) ->
         nth_error (snd res) n =
         Some (validate H rq cf (freeze sp (advance sp s (all_calls (firstn n (snd res))))))) /\
      fst res = advance sp s (all_calls (snd res)) /\
      List.length (snd res) = List.length hist.
Proof. exact AuthProofs.C14_history. Qed.
Print Assumptions C14_history.
