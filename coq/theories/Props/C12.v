(* Property C12: statement pins.  Nothing but restated theorems closed by [exact], with
   Print Assumptions under each.  Written by tools/mkprops.py at development time; committed. *)
From Coq Require Import List Bool NArith ZArith Lia.
From Coq Require Import Sorting.Permutation Sorting.Sorted.
From Coq Require Import Strings.Byte.
From Verif Require Import Base.Bytes Base.Hex Base.Utf8 Crypto.Hmac Time.Calendar Time.Iso8601 Time.Render.
From Verif Require Import Generated.SrcConsts Model.Errors Model.Uri Model.Query Model.Headers Model.Labels Model.Requirements Model.Validate.
From Verif Require Import Spec.PathSpec Spec.QuerySpec Spec.Signer Spec.RequestSpec.
From Verif Require Import Proofs.PathProofs Proofs.QueryProofs Proofs.HeaderProofs Proofs.KeyProofs.
From Coq Require Import List Bool NArith Lia.
From Verif Require Import Base.Bytes Base.Hex Generated.SrcConsts Model.Uri Model.Query Spec.PathSpec Spec.QuerySpec.
From Verif Require Import Proofs.SoundnessProofs Proofs.QueryProofs.

Theorem C12_fold :
  forall (H : bytes -> bytes), forall rq cf cr pts body,
    spec_folded rq cf = true ->
    from_request_parts H rq cf = Ok (cr, pts, body) ->
    exists up dec bp,
      decoded_pairs (url_query rq) = Some up /\
      spec_decoded_body rq = Some dec /\
      decoded_pairs dec = Some bp /\
      body = [] /\
      cr_body_sha256 cr = lower_hex (H []) /\
      Permutation (flatten (cr_query cr)) (map enc_pair (up ++ bp)) /\
      canon_query (cr_query cr) = spec_query_of_pairs (up ++ bp) /\
      pts = passed_parts rq (with_query (cr_path cr) (spec_query_of_pairs (up ++ bp))) /\
      (N.of_nat (List.length (pt_uri pts)) <= max_uri_len)%N.
Proof. exact SoundnessProofs.C12_fold. Qed.
Print Assumptions C12_fold.

Theorem C12_values_order :
  forall (H : bytes -> bytes), forall rq cf cr pts body,
    from_request_parts H rq cf = Ok (cr, pts, body) ->
    exists pairs, spec_all_pairs rq cf = Some pairs /\
      forall k, vals k (cr_query cr) = values_in k (map enc_pair pairs).
Proof. exact SoundnessProofs.C12_values_order. Qed.
Print Assumptions C12_values_order.

Theorem C12_no_fold :
  forall (H : bytes -> bytes), forall rq cf cr pts body,
    spec_folded rq cf = false ->
    from_request_parts H rq cf = Ok (cr, pts, body) ->
    exists up,
      decoded_pairs (url_query rq) = Some up /\
      body = rq_body rq /\
      cr_body_sha256 cr = lower_hex (H (rq_body rq)) /\
      query_map (url_query rq) = Some (cr_query cr) /\
      Permutation (flatten (cr_query cr)) (map enc_pair up) /\
      canon_query (cr_query cr) = spec_query_of_pairs up /\
      pts = passed_parts rq (rq_uri rq).
Proof. exact SoundnessProofs.C12_no_fold. Qed.
Print Assumptions C12_no_fold.

Theorem C12_bad_encoding :
  forall (H : bytes -> bytes), forall rq cf,
    spec_folded rq cf = true ->
    spec_path (cf_s3 cf) (rq_path rq) <> None ->
    decoded_pairs (url_query rq) <> None ->
    spec_decoded_body rq = None ->
    from_request_parts H rq cf = Err InvalidBodyEncoding /\ status InvalidBodyEncoding = Some 400%N.
Proof. exact SoundnessProofs.C12_bad_encoding. Qed.
Print Assumptions C12_bad_encoding.

Theorem C12_spec_decoded_body_none :
  forall rq,
    spec_decoded_body rq = None <->
    (exists ct cs, content_type_charset (rq_headers rq) = Some (ct, Some cs) /\
        match classify_label (flat_map latin1_char cs) with
        | CsUnknown => True                                         
        | CsUtf8 => utf8_valid (rq_body rq) = false                 
        | CsOther => rq_decoded rq = None                           
        end)
    \/ ((forall ct cs, content_type_charset (rq_headers rq) <> Some (ct, Some cs)) /\
        utf8_valid (rq_body rq) = false).
Proof. exact SoundnessProofs.spec_decoded_body_none. Qed.
Print Assumptions C12_spec_decoded_body_none.

Theorem C12_bad_encoding_only :
  forall (H : bytes -> bytes), forall rq cf,
    from_request_parts H rq cf = Err InvalidBodyEncoding ->
    spec_folded rq cf = true /\ spec_decoded_body rq = None.
Proof. exact SoundnessProofs.C12_bad_encoding_only. Qed.
Print Assumptions C12_bad_encoding_only.

Theorem C12_body_covered :
  forall (H : bytes -> bytes), forall rq1 cf1 cr1 pts1 body1 rq2 cf2 cr2 pts2 body2 signed1 signed2,
    spec_folded rq1 cf1 = false -> spec_folded rq2 cf2 = false ->
    from_request_parts H rq1 cf1 = Ok (cr1, pts1, body1) ->
    from_request_parts H rq2 cf2 = Ok (cr2, pts2, body2) ->
    H (rq_body rq1) <> H (rq_body rq2) ->
    canonical_request cr1 signed1 <> canonical_request cr2 signed2.
Proof. exact SoundnessProofs.C12_body_covered. Qed.
Print Assumptions C12_body_covered.

Theorem C12_decoded_pairs_spec_query :
  forall ps,
  exists out, decoded_pairs (spec_query_of_pairs ps) = Some out /\ Permutation out (filter not_signature ps).
Proof. exact SoundnessProofs.decoded_pairs_spec_query. Qed.
Print Assumptions C12_decoded_pairs_spec_query.

Theorem C12_qmap_extend_flatten_perm :
  forall m b,
  Permutation (flatten (qmap_extend m b)) (flatten m ++ flatten b).
Proof. exact QueryProofs.qmap_extend_flatten_perm. Qed.
Print Assumptions C12_qmap_extend_flatten_perm.
