(* Property C06: statement pins.  Nothing but restated theorems closed by [exact], with
   Print Assumptions under each.  Written by tools/mkprops.py at development time; committed. *)
From Coq Require Import Lia.
From Verif Require Import Base.Bytes Base.Hex Crypto.Hmac Time.Calendar Time.Render Generated.SrcConsts Model.SigningKey Model.Validate.
From Verif Require Import Proofs.KeyProofs.

Theorem C06_hmac_zero_pad :
  forall (H : bytes -> bytes) k n m,
  (length k + n <= 64)%nat -> hmac H (k ++ repeat x00 n) m = hmac H k m.
Proof. exact KeyProofs.hmac_zero_pad. Qed.
Print Assumptions C06_hmac_zero_pad.

Theorem C06_capacity :
  forall M s,
    (length s + 4 <= M)%nat <-> exists k, from_str M s = FsOk k.
Proof. exact KeyProofs.C06_capacity. Qed.
Print Assumptions C06_capacity.

Theorem C06_too_long :
  forall M s, (M < length s + 4)%nat <-> from_str M s = FsKeyTooLong.
Proof. exact KeyProofs.C06_too_long. Qed.
Print Assumptions C06_too_long.

Theorem C06_never_panics :
  forall M s, from_str M s <> FsPanic.
Proof. exact KeyProofs.C06_never_panics. Qed.
Print Assumptions C06_never_panics.

Theorem C06_readback :
  forall M s k, from_str M s = FsOk k -> secret_as_ref k = s.
Proof. exact KeyProofs.C06_readback. Qed.
Print Assumptions C06_readback.

Theorem C06_buffer_shape :
  forall M s k, from_str M s = FsOk k ->
    length (ks_buf k) = M /\ ks_len k = (length s + 4)%nat /\ firstn (ks_len k) (ks_buf k) = aws4 ++ s.
Proof. exact KeyProofs.C06_buffer_shape. Qed.
Print Assumptions C06_buffer_shape.

Theorem C06_kdate :
  forall (H : bytes -> bytes), forall M s k date, (M <= 64)%nat -> from_str M s = FsOk k ->
    to_kdate H k date = hmac H (aws4 ++ s) (yyyymmdd_of_civil date).
Proof. exact KeyProofs.C06_kdate. Qed.
Print Assumptions C06_kdate.

Theorem C06_chain :
  forall (H : bytes -> bytes), forall M s k date region service, (M <= 64)%nat -> from_str M s = FsOk k ->
    to_ksigning H k date region service =
    hmac H (hmac H (hmac H (hmac H (aws4 ++ s) (yyyymmdd_of_civil date)) region) service) (s2b "aws4_request")
    /\ to_kservice H k date region service =
       hmac H (hmac H (hmac H (aws4 ++ s) (yyyymmdd_of_civil date)) region) service
    /\ to_kregion H k date region = hmac H (hmac H (aws4 ++ s) (yyyymmdd_of_civil date)) region.
Proof. exact KeyProofs.C06_chain. Qed.
Print Assumptions C06_chain.

Theorem C06_shortcuts :
  forall (H : bytes -> bytes), forall k date region service,
    to_kregion H k date region = kdate_to_kregion H (to_kdate H k date) region
    /\ to_kservice H k date region service = kregion_to_kservice H (kdate_to_kregion H (to_kdate H k date) region) service
    /\ to_ksigning H k date region service =
       kservice_to_ksigning H (kregion_to_kservice H (kdate_to_kregion H (to_kdate H k date) region) service)
    /\ (forall kd, kdate_to_kservice H kd region service = kregion_to_kservice H (kdate_to_kregion H kd region) service)
    /\ (forall kd, kdate_to_ksigning H kd region service =
                   kservice_to_ksigning H (kregion_to_kservice H (kdate_to_kregion H kd region) service))
    /\ (forall kr, kregion_to_ksigning H kr service = kservice_to_ksigning H (kregion_to_kservice H kr service)).
Proof. exact KeyProofs.C06_shortcuts. Qed.
Print Assumptions C06_shortcuts.

Theorem C06_terminator :
  src_signing_key_AWS4_REQUEST = s2b "aws4_request".
Proof. exact KeyProofs.C06_terminator. Qed.
Print Assumptions C06_terminator.

Theorem C06_date_format :
  forall y m d, (0 <= y <= 9999)%Z -> (1 <= m <= 12)%Z -> (1 <= d <= 31)%Z ->
  length (yyyymmdd_of_civil (y, m, d)) = 8%nat /\ Forall (fun b => is_ascii_digit b = true) (yyyymmdd_of_civil (y, m, d)).
Proof. exact KeyProofs.C06_date_format. Qed.
Print Assumptions C06_date_format.

Theorem C06_date_format_inj :
  forall y m d y' m' d',
  (0 <= y <= 9999)%Z -> (1 <= m <= 12)%Z -> (1 <= d <= 31)%Z ->
  (0 <= y' <= 9999)%Z -> (1 <= m' <= 12)%Z -> (1 <= d' <= 31)%Z ->
  yyyymmdd_of_civil (y, m, d) = yyyymmdd_of_civil (y', m', d') -> (y, m, d) = (y', m', d').
Proof. exact KeyProofs.C06_date_format_inj. Qed.
Print Assumptions C06_date_format_inj.
