(* Property C02: statement pins.  Nothing but restated theorems closed by [exact], with
   Print Assumptions under each.  Written by tools/mkprops.py at development time; committed. *)
From Coq Require Import List Bool NArith ZArith Lia.
From Coq Require Import Sorting.Permutation Sorting.Sorted.
From Coq Require Import Strings.Byte.
From Verif Require Import Base.Bytes Base.Hex Base.Utf8 Crypto.Hmac Time.Calendar Time.Iso8601 Time.Render.
From Verif Require Import Generated.SrcConsts Model.Errors Model.Uri Model.Query Model.Headers Model.Labels Model.Requirements Model.Validate.
From Verif Require Import Spec.PathSpec Spec.QuerySpec Spec.Signer Spec.RequestSpec.
From Verif Require Import Proofs.PathProofs Proofs.QueryProofs Proofs.HeaderProofs Proofs.KeyProofs Proofs.ReqProofs.
From Verif Require Import Proofs.PipelineProofs Proofs.SelectionProofs.
From Verif Require Proofs.AuthProofs Proofs.IsoProofs.
From Verif Require Import Proofs.SoundnessProofs.
From Verif Require Import Proofs.PathProofs Proofs.QueryProofs Proofs.HeaderProofs Proofs.KeyProofs.
From Coq Require Import List Bool NArith Arith Lia Wf_nat.
From Verif Require Import Base.Bytes Base.Hex Generated.SrcConsts Model.Uri Spec.PathSpec.
From Coq Require Import List Bool NArith Lia.
From Verif Require Import Base.Bytes Base.Hex Generated.SrcConsts Model.Uri Model.Query Spec.PathSpec Spec.QuerySpec.
From Verif Require Import Base.Bytes Model.Headers Model.Validate Spec.PathSpec Spec.Signer.
From Coq Require Import Lia.
From Coq Require Import ZArith Lia List Bool.
From Coq Require Import ZifyBool.
From Verif Require Import Base.Bytes Time.Calendar Time.Iso8601 Time.Render Spec.Grammar.
From Verif Require Import Proofs.CalendarProofs.
From Verif Require Import Proofs.CompletenessProofs Proofs.SoundnessProofs Proofs.PathProofs Proofs.QueryProofs Proofs.HeaderProofs Proofs.IsoProofs.
Local Notation fresh := AuthProofs.fresh.
Local Open Scope byte_scope.
Local Open Scope Z_scope.

Theorem C02_spec_signed_accepted :
  forall (H : bytes -> bytes), forall rq cf pv cr pts body ap ts ak key pr se sts,
    from_request_parts H rq cf = Ok (cr, pts, body) ->
    has_plus (rq_path rq) = false ->
    presented_params H rq cf = Some ap ->
    parse_iso8601 (ap_timestamp ap) = Some ts ->
    fresh ts (cf_now cf) ->
    split_on "/"%byte (ap_credential ap) = [ak; yyyymmdd ts; cf_region cf; cf_service cf; s2b "aws4_request"] ->
    pv_ready pv = None ->
    pv_answer pv (expected_gsk cf ap ts) = AnsOk key pr se ->
    spec_request_sts H rq cf ap ts = Some sts ->
    ap_signature ap = lower_hex (hmac H key sts) ->
    validate H rq cf pv = ([expected_gsk cf ap ts], Accepted pts body pr se).
Proof. exact CompletenessProofs.C02_spec_signed_accepted. Qed.
Print Assumptions C02_spec_signed_accepted.

Theorem C02_accept_iff_spec_signature :
  forall (H : bytes -> bytes), forall rq cf pv pr se,
    has_plus (rq_path rq) = false ->
    ((exists calls p b, validate H rq cf pv = (calls, Accepted p b pr se))
     <->
     (exists ap ts ak key sts,
        presented_params H rq cf = Some ap /\
        parse_iso8601 (ap_timestamp ap) = Some ts /\
        fresh ts (cf_now cf) /\
        split_on "/"%byte (ap_credential ap) = [ak; yyyymmdd ts; cf_region cf; cf_service cf; s2b "aws4_request"] /\
        pv_ready pv = None /\
        pv_answer pv (expected_gsk cf ap ts) = AnsOk key pr se /\
        spec_request_sts H rq cf ap ts = Some sts /\
        ap_signature ap = lower_hex (hmac H key sts))).
Proof. exact CompletenessProofs.C02_accept_iff_spec_signature. Qed.
Print Assumptions C02_accept_iff_spec_signature.

Theorem C02_presented_params_intro :
  forall (H : bytes -> bytes), forall rq cf,
    request_failure rq cf = None ->                                   
    params_failure (st_canonical H rq cf) = None ->                   
    host_or_authority (ap_signed (sel_params (st_canonical H rq cf))) ->
    requirements_met (cf_reqs cf) (rq_headers rq) (ap_signed (sel_params (st_canonical H rq cf))) ->
    from_request_parts H rq cf = Ok (st_canonical H rq cf, st_parts rq cf, spec_payload rq cf)
    /\ presented_params H rq cf = Some (sel_params (st_canonical H rq cf)).
Proof. exact CompletenessProofs.C02_presented_params_intro. Qed.
Print Assumptions C02_presented_params_intro.

Theorem C02_spec_path_same_path :
  forall s3 p1 p2, same_path p1 p2 -> spec_path s3 p1 = spec_path s3 p2.
Proof. exact CompletenessProofs.spec_path_same_path. Qed.
Print Assumptions C02_spec_path_same_path.

Theorem C02_canon_path_same_path :
  forall s3 p1 p2,
  has_plus p1 = false -> has_plus p2 = false -> same_path p1 p2 -> canon_path s3 p1 = canon_path s3 p2.
Proof. exact CompletenessProofs.canon_path_same_path. Qed.
Print Assumptions C02_canon_path_same_path.

Theorem C11_block_trimall :
  forall hs1 hs2 signed,
  (forall n, In n signed -> agree_on n hs1 hs2) ->
  spec_header_block hs1 signed = spec_header_block hs2 signed.
Proof. exact CompletenessProofs.C11_block_trimall. Qed.
Print Assumptions C11_block_trimall.

Theorem C02_spelling_insensitive_components :
  forall rq1 rq2 cf,
    same_logical rq1 rq2 -> cf_fold cf = false ->
    spec_path (cf_s3 cf) (rq_path rq1) = spec_path (cf_s3 cf) (rq_path rq2)
    /\ option_map spec_query_of_pairs (spec_all_pairs rq1 cf) = option_map spec_query_of_pairs (spec_all_pairs rq2 cf)
    /\ (forall signed, spec_header_block (rq_headers rq1) signed = spec_header_block (rq_headers rq2) signed)
    /\ spec_payload rq1 cf = spec_payload rq2 cf
    /\ rq_method rq1 = rq_method rq2.
Proof. exact CompletenessProofs.C02_spelling_insensitive_components. Qed.
Print Assumptions C02_spelling_insensitive_components.

Theorem C02_spelling_insensitive_sts :
  forall (H : bytes -> bytes), forall rq1 rq2 cf ap ts,
    same_logical rq1 rq2 -> cf_fold cf = false ->
    spec_request_sts H rq1 cf ap ts = spec_request_sts H rq2 cf ap ts.
Proof. exact CompletenessProofs.C02_spelling_insensitive_sts. Qed.
Print Assumptions C02_spelling_insensitive_sts.

Theorem C02_spelling_insensitive :
  forall (H : bytes -> bytes), forall rq1 rq2 cf pv ap,
    same_logical rq1 rq2 -> cf_fold cf = false ->
    presented_params H rq1 cf = Some ap -> presented_params H rq2 cf = Some ap ->
    fst (validate H rq1 cf pv) = fst (validate H rq2 cf pv)
    /\ same_verdict (snd (validate H rq1 cf pv)) (snd (validate H rq2 cf pv)).
Proof. exact CompletenessProofs.C02_spelling_insensitive. Qed.
Print Assumptions C02_spelling_insensitive.

Theorem C02_spelling_insensitive_accept :
  forall (H : bytes -> bytes), forall rq1 rq2 cf pv ap calls pr se,
    same_logical rq1 rq2 -> cf_fold cf = false ->
    presented_params H rq1 cf = Some ap -> presented_params H rq2 cf = Some ap ->
    ((exists p b, validate H rq1 cf pv = (calls, Accepted p b pr se)) <->
     (exists p b, validate H rq2 cf pv = (calls, Accepted p b pr se))).
Proof. exact CompletenessProofs.C02_spelling_insensitive_accept. Qed.
Print Assumptions C02_spelling_insensitive_accept.

Theorem C02_presented_params_header_carrier :
  forall (H : bytes -> bytes), forall rq1 rq2 cf,
    same_logical rq1 rq2 -> cf_fold cf = false ->
    present (s2b "authorization") (rq_headers rq1) ->
    presented_params H rq1 cf = presented_params H rq2 cf.
Proof. exact CompletenessProofs.C02_presented_params_header_carrier. Qed.
Print Assumptions C02_presented_params_header_carrier.

Theorem C02_spelling_insensitive_header_carrier :
  forall (H : bytes -> bytes), forall rq1 rq2 cf pv,
    same_logical rq1 rq2 -> cf_fold cf = false ->
    present (s2b "authorization") (rq_headers rq1) ->
    fst (validate H rq1 cf pv) = fst (validate H rq2 cf pv)
    /\ same_verdict (snd (validate H rq1 cf pv)) (snd (validate H rq2 cf pv)).
Proof. exact CompletenessProofs.C02_spelling_insensitive_header_carrier. Qed.
Print Assumptions C02_spelling_insensitive_header_carrier.

Theorem C02_spelling_insensitive_folded_sts :
  forall (H : bytes -> bytes), forall rq1 rq2 cf ap ts,
    same_logical_folded rq1 rq2 -> spec_folded rq1 cf = true ->
    spec_request_sts H rq1 cf ap ts = spec_request_sts H rq2 cf ap ts.
Proof. exact CompletenessProofs.C02_spelling_insensitive_folded_sts. Qed.
Print Assumptions C02_spelling_insensitive_folded_sts.

Theorem C02_spelling_insensitive_folded :
  forall (H : bytes -> bytes), forall rq1 rq2 cf pv ap,
    same_logical_folded rq1 rq2 -> spec_folded rq1 cf = true ->
    presented_params H rq1 cf = Some ap -> presented_params H rq2 cf = Some ap ->
    fst (validate H rq1 cf pv) = fst (validate H rq2 cf pv)
    /\ same_verdict (snd (validate H rq1 cf pv)) (snd (validate H rq2 cf pv)).
Proof. exact CompletenessProofs.C02_spelling_insensitive_folded. Qed.
Print Assumptions C02_spelling_insensitive_folded.

Theorem C02_reference_signer_accepted :
  forall (H : bytes -> bytes), forall rq0 cf pv cred ak ts signed key pr se d,
    let sig := spec_sign H key rq0 cf cred ts signed in
    let rq := attach_authorization rq0 (authorization_value cred signed sig) in
    let ap := {| ap_credential := cred; ap_signature := sig;
                 ap_token := option_map latin1
                               (option_map norm_value (first_raw (s2b "x-amz-security-token") (rq_headers rq0)));
                 ap_signed := signed; ap_timestamp := latin1 (norm_value d) |} in
    
    has_plus (rq_path rq0) = false ->
    
    request_failure rq0 cf = None ->
    ~ present (s2b "authorization") (rq_headers rq0) ->
    qget (s2b "X-Amz-Algorithm") (st_qm rq0 cf) = None ->
    spec_date (rq_headers rq0) = Some d ->
    parse_iso8601 (latin1 (norm_value d)) = Some ts ->
    
    plain cred ->
    split_on "/"%byte cred = [ak; yyyymmdd ts; cf_region cf; cf_service cf; s2b "aws4_request"] ->
    Forall plain signed -> Forall (fun n => ~ In ";"%byte n) signed -> sort_bytes signed = signed ->
    host_or_authority signed ->
    ~ In (s2b "authorization") signed ->
    requirements_met (cf_reqs cf) (rq_headers rq) signed ->
    
    fresh ts (cf_now cf) -> pv_ready pv = None ->
    pv_answer pv (expected_gsk cf ap ts) = AnsOk key pr se ->
    validate H rq cf pv = ([expected_gsk cf ap ts], Accepted (st_parts rq cf) (spec_payload rq cf) pr se).
Proof. exact CompletenessProofs.C02_reference_signer_accepted. Qed.
Print Assumptions C02_reference_signer_accepted.

Theorem C02_reference_signer_accepted_compact :
  forall (H : bytes -> bytes), forall rq0 cf pv cred ak ts signed key pr se,
    let sig := spec_sign H key rq0 cf cred ts signed in
    let rq := attach_authorization rq0 (authorization_value cred signed sig) in
    let ap := {| ap_credential := cred; ap_signature := sig;
                 ap_token := option_map latin1
                               (option_map norm_value (first_raw (s2b "x-amz-security-token") (rq_headers rq0)));
                 ap_signed := signed; ap_timestamp := render_compact ts |} in
    has_plus (rq_path rq0) = false ->
    request_failure rq0 cf = None ->
    ~ present (s2b "authorization") (rq_headers rq0) ->
    qget (s2b "X-Amz-Algorithm") (st_qm rq0 cf) = None ->
    
    first_raw (s2b "x-amz-date") (rq_headers rq0) = Some (render_compact ts) ->
    (0 <= ts < 253402300800 * ns_per_s)%Z -> (ts mod ns_per_s = 0)%Z ->
    plain cred ->
    split_on "/"%byte cred = [ak; yyyymmdd ts; cf_region cf; cf_service cf; s2b "aws4_request"] ->
    Forall plain signed -> Forall (fun n => ~ In ";"%byte n) signed -> sort_bytes signed = signed ->
    host_or_authority signed ->
    ~ In (s2b "authorization") signed ->
    requirements_met (cf_reqs cf) (rq_headers rq) signed ->
    fresh ts (cf_now cf) -> pv_ready pv = None ->
    pv_answer pv (expected_gsk cf ap ts) = AnsOk key pr se ->
    validate H rq cf pv = ([expected_gsk cf ap ts], Accepted (st_parts rq cf) (spec_payload rq cf) pr se).
Proof. exact CompletenessProofs.C02_reference_signer_accepted_compact. Qed.
Print Assumptions C02_reference_signer_accepted_compact.

Theorem C02_no_algorithm_parameter :
  forall (H : bytes -> bytes), forall rq cf pairs,
  request_failure rq cf = None ->
  spec_all_pairs rq cf = Some pairs ->
  (forall v, ~ In (s2b "X-Amz-Algorithm", v) pairs) ->
  qget (s2b "X-Amz-Algorithm") (st_qm rq cf) = None.
Proof. exact CompletenessProofs.C02_no_algorithm_parameter. Qed.
Print Assumptions C02_no_algorithm_parameter.

Theorem C02_model_creq_is_spec :
  forall (H : bytes -> bytes), forall rq cf cr pts body,
    from_request_parts H rq cf = Ok (cr, pts, body) ->
    has_plus (rq_path rq) = false ->
    exists path pairs,
      spec_path (cf_s3 cf) (rq_path rq) = Some path /\
      spec_all_pairs rq cf = Some pairs /\
      forall signed,
        canonical_request cr signed =
        spec_canonical_request H (rq_method rq) path (spec_query_of_pairs pairs) (rq_headers rq) signed
                               (spec_payload rq cf).
Proof. exact SoundnessProofs.model_creq_is_spec. Qed.
Print Assumptions C02_model_creq_is_spec.

Theorem C01_accept_implies_signature :
  forall (H : bytes -> bytes), forall rq cf pv calls p b pr se,
    validate H rq cf pv = (calls, Accepted p b pr se) ->
    has_plus (rq_path rq) = false ->
    exists ap ts g key sts,
      calls = [g] /\
      g = expected_gsk cf ap ts /\
      pv_ready pv = None /\
      pv_answer pv g = AnsOk key pr se /\
      presented_params H rq cf = Some ap /\
      parse_iso8601 (ap_timestamp ap) = Some ts /\
      spec_request_sts H rq cf ap ts = Some sts /\
      ap_signature ap = lower_hex (hmac H key sts).
Proof. exact SoundnessProofs.C01_accept_implies_signature. Qed.
Print Assumptions C01_accept_implies_signature.

Theorem C09_model_is_spec :
  forall s3 p, has_plus p = false -> canon_path s3 p = spec_path s3 p.
Proof. exact PathProofs.C09_model_is_spec. Qed.
Print Assumptions C09_model_is_spec.

Theorem C09_spelling_insensitive :
  forall s3 r1 r2,
  has_plus r1 = false -> has_plus r2 = false -> r1 <> [] -> r2 <> [] ->
  map_opt (pct_decode false) (split_on "/"%byte r1) = map_opt (pct_decode false) (split_on "/"%byte r2) ->
  canon_path s3 ("/"%byte :: r1) = canon_path s3 ("/"%byte :: r2).
Proof. exact PathProofs.C09_spelling_insensitive. Qed.
Print Assumptions C09_spelling_insensitive.

Theorem C10_model_is_spec :
  forall q, option_map canon_query (query_map q) = spec_query q.
Proof. exact QueryProofs.C10_model_is_spec. Qed.
Print Assumptions C10_model_is_spec.

Theorem C10_multiset :
  forall q1 q2 d1 d2,
  decoded_pairs q1 = Some d1 -> decoded_pairs q2 = Some d2 -> Permutation d1 d2 ->
  option_map canon_query (query_map q1) = option_map canon_query (query_map q2).
Proof. exact QueryProofs.C10_multiset. Qed.
Print Assumptions C10_multiset.

Theorem C11_value_normal_form :
  forall v, norm_value v = spec_trimall v.
Proof. exact HeaderProofs.C11_value_normal_form. Qed.
Print Assumptions C11_value_normal_form.

Theorem C11_block_is_spec :
  forall hs signed, header_lines (normalize_headers hs) signed = spec_header_block hs signed.
Proof. exact HeaderProofs.C11_block_is_spec. Qed.
Print Assumptions C11_block_is_spec.

Theorem C11_block_per_name_order :
  forall hs hs' signed,
  (forall n, values_of n hs = values_of n hs') -> spec_header_block hs signed = spec_header_block hs' signed.
Proof. exact HeaderProofs.C11_block_per_name_order. Qed.
Print Assumptions C11_block_per_name_order.

Theorem C11_block_name_case :
  forall hs hs' signed,
  map (fun nv => (lower (fst nv), snd nv)) hs = map (fun nv => (lower (fst nv), snd nv)) hs' ->
  spec_header_block hs signed = spec_header_block hs' signed.
Proof. exact HeaderProofs.C11_block_name_case. Qed.
Print Assumptions C11_block_name_case.

Theorem C02_norm_value_pad :
  forall v n m, norm_value (repeat " "%byte n ++ v ++ repeat " "%byte m) = norm_value v.
Proof. exact HeaderProofs.norm_value_pad. Qed.
Print Assumptions C02_norm_value_pad.

Theorem C02_norm_value_space_run :
  forall a b n, norm_value (a ++ repeat " "%byte (S n) ++ b) = norm_value (a ++ " "%byte :: b).
Proof. exact HeaderProofs.norm_value_space_run. Qed.
Print Assumptions C02_norm_value_space_run.

Theorem C16_render_roundtrip :
  forall t,
  0 <= t ->  t < 253402300800 * ns_per_s  ->
  t mod ns_per_s = 0 ->
  parse_iso8601 (render_compact t) = Some t.
Proof. exact IsoProofs.C16_render_roundtrip. Qed.
Print Assumptions C16_render_roundtrip.
