(* Property C02: statement pins.  Nothing but restated theorems closed by [exact], with
   Print Assumptions under each.  Written by tools/mkprops.py at development time; committed. *)
From Coq Require Import List Bool NArith ZArith Lia.
From Coq Require Import Sorting.Permutation Sorting.Sorted.
From Coq Require Import Strings.Byte.
From Verif Require Import Base.Bytes Base.Hex Base.Utf8 Crypto.Hmac Time.Calendar Time.Iso8601 Time.Render.
From Verif Require Import Generated.SrcConsts Model.Errors Model.Uri Model.Query Model.Headers Model.Labels Model.Requirements Model.Validate.
From Verif Require Import Spec.PathSpec Spec.QuerySpec Spec.Signer Spec.RequestSpec.
From Verif Require Import Proofs.PathProofs Proofs.QueryProofs Proofs.HeaderProofs Proofs.KeyProofs.
From Coq Require Import List Bool NArith Arith Lia Wf_nat.
From Verif Require Import Base.Bytes Base.Hex Generated.SrcConsts Model.Uri Spec.PathSpec.
From Coq Require Import List Bool NArith Lia.
From Verif Require Import Base.Bytes Base.Hex Generated.SrcConsts Model.Uri Model.Query Spec.PathSpec Spec.QuerySpec.
From Verif Require Import Base.Bytes Model.Headers Model.Validate Spec.PathSpec Spec.Signer.
From Coq Require Import Lia.
From Coq Require Import ZArith Lia List Bool.
From Coq Require Import ZifyBool.
From Verif Require Import Base.Bytes Time.Calendar Time.Iso8601 Time.Render Spec.Grammar.
From Verif Require Import Proofs.CalendarProofs.
From Verif Require Import Proofs.SoundnessProofs Proofs.PathProofs Proofs.QueryProofs Proofs.HeaderProofs Proofs.IsoProofs.
Local Open Scope byte_scope.
Local Open Scope Z_scope.

Theorem C02_model_creq_is_spec :
  forall (H : bytes -> bytes), forall rq cf cr pts body,
    from_request_parts H rq cf = Ok (cr, pts, body) ->
    has_plus (rq_path rq) = false ->
    exists path pairs,
      spec_path (cf_s3 cf) (rq_path rq) = Some path /\
      spec_all_pairs rq cf = Some pairs /\
      forall signed,
        canonical_request cr signed =
        spec_canonical_request H (rq_method rq) path (spec_query_of_pairs pairs) (rq_headers rq) signed
                               (spec_payload rq cf).
Proof. exact SoundnessProofs.model_creq_is_spec. Qed.
Print Assumptions C02_model_creq_is_spec.

Theorem C01_accept_implies_signature :
  forall (H : bytes -> bytes), forall rq cf pv calls p b pr se,
    validate H rq cf pv = (calls, Accepted p b pr se) ->
    has_plus (rq_path rq) = false ->
    exists ap ts g key sts,
      calls = [g] /\
      g = expected_gsk cf ap ts /\
      pv_ready pv = None /\
      pv_answer pv g = AnsOk key pr se /\
      presented_params H rq cf = Some ap /\
      parse_iso8601 (ap_timestamp ap) = Some ts /\
      spec_request_sts H rq cf ap ts = Some sts /\
      ap_signature ap = lower_hex (hmac H key sts).
Proof. exact SoundnessProofs.C01_accept_implies_signature. Qed.
Print Assumptions C01_accept_implies_signature.

Theorem C09_model_is_spec :
  forall s3 p, has_plus p = false -> canon_path s3 p = spec_path s3 p.
Proof. exact PathProofs.C09_model_is_spec. Qed.
Print Assumptions C09_model_is_spec.

Theorem C09_spelling_insensitive :
  forall s3 r1 r2,
  has_plus r1 = false -> has_plus r2 = false -> r1 <> [] -> r2 <> [] ->
  map_opt (pct_decode false) (split_on "/"%byte r1) = map_opt (pct_decode false) (split_on "/"%byte r2) ->
  canon_path s3 ("/"%byte :: r1) = canon_path s3 ("/"%byte :: r2).
Proof. exact PathProofs.C09_spelling_insensitive. Qed.
Print Assumptions C09_spelling_insensitive.

Theorem C10_model_is_spec :
  forall q, option_map canon_query (query_map q) = spec_query q.
Proof. exact QueryProofs.C10_model_is_spec. Qed.
Print Assumptions C10_model_is_spec.

Theorem C10_multiset :
  forall q1 q2 d1 d2,
  decoded_pairs q1 = Some d1 -> decoded_pairs q2 = Some d2 -> Permutation d1 d2 ->
  option_map canon_query (query_map q1) = option_map canon_query (query_map q2).
Proof. exact QueryProofs.C10_multiset. Qed.
Print Assumptions C10_multiset.

Theorem C11_value_normal_form :
  forall v, norm_value v = spec_trimall v.
Proof. exact HeaderProofs.C11_value_normal_form. Qed.
Print Assumptions C11_value_normal_form.

Theorem C11_block_is_spec :
  forall hs signed, header_lines (normalize_headers hs) signed = spec_header_block hs signed.
Proof. exact HeaderProofs.C11_block_is_spec. Qed.
Print Assumptions C11_block_is_spec.

Theorem C11_block_per_name_order :
  forall hs hs' signed,
  (forall n, values_of n hs = values_of n hs') -> spec_header_block hs signed = spec_header_block hs' signed.
Proof. exact HeaderProofs.C11_block_per_name_order. Qed.
Print Assumptions C11_block_per_name_order.

Theorem C11_block_name_case :
  forall hs hs' signed,
  map (fun nv => (lower (fst nv), snd nv)) hs = map (fun nv => (lower (fst nv), snd nv)) hs' ->
  spec_header_block hs signed = spec_header_block hs' signed.
Proof. exact HeaderProofs.C11_block_name_case. Qed.
Print Assumptions C11_block_name_case.

Theorem C02_norm_value_pad :
  forall v n m, norm_value (repeat " "%byte n ++ v ++ repeat " "%byte m) = norm_value v.
Proof. exact HeaderProofs.norm_value_pad. Qed.
Print Assumptions C02_norm_value_pad.

Theorem C02_norm_value_space_run :
  forall a b n, norm_value (a ++ repeat " "%byte (S n) ++ b) = norm_value (a ++ " "%byte :: b).
Proof. exact HeaderProofs.norm_value_space_run. Qed.
Print Assumptions C02_norm_value_space_run.

Theorem C16_render_roundtrip :
  forall t,
  0 <= t ->  t < 253402300800 * ns_per_s  ->
  t mod ns_per_s = 0 ->
  parse_iso8601 (render_compact t) = Some t.
Proof. exact IsoProofs.C16_render_roundtrip. Qed.
Print Assumptions C16_render_roundtrip.
