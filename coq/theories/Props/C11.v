(* Property C11: statement pins.  Nothing but restated theorems closed by [exact], with
   Print Assumptions under each.  Written by tools/mkprops.py at development time; committed. *)
From Verif Require Import Base.Bytes Model.Headers Model.Validate Spec.PathSpec Spec.Signer.
From Coq Require Import Strings.Byte.
From Coq Require Import Lia.
From Verif Require Import Proofs.HeaderProofs.

Theorem C11_value_normal_form :
  forall v, norm_value v = spec_trimall v.
Proof. exact HeaderProofs.C11_value_normal_form. Qed.
Print Assumptions C11_value_normal_form.

Theorem C11_norm_value_idempotent :
  forall v, norm_value (norm_value v) = norm_value v.
Proof. exact HeaderProofs.norm_value_idempotent. Qed.
Print Assumptions C11_norm_value_idempotent.

Theorem C11_norm_value_pad :
  forall v n m, norm_value (repeat " "%byte n ++ v ++ repeat " "%byte m) = norm_value v.
Proof. exact HeaderProofs.norm_value_pad. Qed.
Print Assumptions C11_norm_value_pad.

Theorem C11_norm_value_space_run :
  forall a b n, norm_value (a ++ repeat " "%byte (S n) ++ b) = norm_value (a ++ " "%byte :: b).
Proof. exact HeaderProofs.norm_value_space_run. Qed.
Print Assumptions C11_norm_value_space_run.

Theorem C11_norm_value_shape :
  forall v,
  (forall r, norm_value v <> " "%byte :: r) /\ (forall r, norm_value v <> r ++ [" "%byte])
  /\ (forall a b, norm_value v <> a ++ " "%byte :: " "%byte :: b).
Proof. exact HeaderProofs.norm_value_shape. Qed.
Print Assumptions C11_norm_value_shape.

Theorem C11_hget_normalize_headers :
  forall hs n,
  hget n (normalize_headers hs) =
  match values_of n hs with [] => None | vs => Some (map norm_value vs) end.
Proof. exact HeaderProofs.hget_normalize_headers. Qed.
Print Assumptions C11_hget_normalize_headers.

Theorem C11_block_is_spec :
  forall hs signed, header_lines (normalize_headers hs) signed = spec_header_block hs signed.
Proof. exact HeaderProofs.C11_block_is_spec. Qed.
Print Assumptions C11_block_is_spec.

Theorem C11_block_per_name_order :
  forall hs hs' signed,
  (forall n, values_of n hs = values_of n hs') -> spec_header_block hs signed = spec_header_block hs' signed.
Proof. exact HeaderProofs.C11_block_per_name_order. Qed.
Print Assumptions C11_block_per_name_order.

Theorem C11_block_name_case :
  forall hs hs' signed,
  map (fun nv => (lower (fst nv), snd nv)) hs = map (fun nv => (lower (fst nv), snd nv)) hs' ->
  spec_header_block hs signed = spec_header_block hs' signed.
Proof. exact HeaderProofs.C11_block_name_case. Qed.
Print Assumptions C11_block_name_case.

Theorem C11_block_unsigned :
  forall (hs : list (bytes * bytes)) extra signed,
  (forall nv, In nv extra -> ~ In (lower (fst nv)) signed) ->
  forall pre post, spec_header_block (pre ++ extra ++ post) signed = spec_header_block (pre ++ post) signed.
Proof. exact HeaderProofs.C11_block_unsigned. Qed.
Print Assumptions C11_block_unsigned.
