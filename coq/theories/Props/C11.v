(* Property C11: statement pins.  Nothing but restated theorems closed by [exact], with
   Print Assumptions under each.  Written by tools/mkprops.py at development time; committed. *)
From Verif Require Import Base.Bytes Model.Headers Model.Validate Spec.PathSpec Spec.Signer.
From Coq Require Import Strings.Byte.
From Coq Require Import Lia.
From Coq Require Import List Bool NArith ZArith Lia.
From Coq Require Import Sorting.Permutation Sorting.Sorted.
From Verif Require Import Base.Bytes Base.Hex Base.Utf8 Crypto.Hmac Time.Calendar Time.Iso8601 Time.Render.
From Verif Require Import Generated.SrcConsts Model.Errors Model.Uri Model.Query Model.Headers Model.Labels Model.Requirements Model.Validate.
From Verif Require Import Spec.PathSpec Spec.QuerySpec Spec.Signer Spec.RequestSpec.
From Verif Require Import Proofs.PathProofs Proofs.QueryProofs Proofs.HeaderProofs Proofs.KeyProofs Proofs.ReqProofs.
From Verif Require Import Proofs.PipelineProofs Proofs.SelectionProofs.
From Verif Require Proofs.AuthProofs Proofs.IsoProofs.
From Verif Require Import Proofs.SoundnessProofs.
From Verif Require Import Proofs.HeaderProofs Proofs.CompletenessProofs.

Theorem C11_value_normal_form :
  forall v, norm_value v = spec_trimall v.
Proof. exact HeaderProofs.C11_value_normal_form. Qed.
Print Assumptions C11_value_normal_form.

Theorem C11_norm_value_idempotent :
  forall v, norm_value (norm_value v) = norm_value v.
Proof. exact HeaderProofs.norm_value_idempotent. Qed.
Print Assumptions C11_norm_value_idempotent.

Theorem C11_norm_value_pad :
  forall v n m, norm_value (repeat " "%byte n ++ v ++ repeat " "%byte m) = norm_value v.
Proof. exact HeaderProofs.norm_value_pad. Qed.
Print Assumptions C11_norm_value_pad.

Theorem C11_norm_value_space_run :
  forall a b n, norm_value (a ++ repeat " "%byte (S n) ++ b) = norm_value (a ++ " "%byte :: b).
Proof. exact HeaderProofs.norm_value_space_run. Qed.
Print Assumptions C11_norm_value_space_run.

Theorem C11_norm_value_shape :
  forall v,
  (forall r, norm_value v <> " "%byte :: r) /\ (forall r, norm_value v <> r ++ [" "%byte])
  /\ (forall a b, norm_value v <> a ++ " "%byte :: " "%byte :: b).
Proof. exact HeaderProofs.norm_value_shape. Qed.
Print Assumptions C11_norm_value_shape.

Theorem C11_hget_normalize_headers :
  forall hs n,
  hget n (normalize_headers hs) =
  match values_of n hs with [] => None | vs => Some (map norm_value vs) end.
Proof. exact HeaderProofs.hget_normalize_headers. Qed.
Print Assumptions C11_hget_normalize_headers.

Theorem C11_block_is_spec :
  forall hs signed, header_lines (normalize_headers hs) signed = spec_header_block hs signed.
Proof. exact HeaderProofs.C11_block_is_spec. Qed.
Print Assumptions C11_block_is_spec.

Theorem C11_block_per_name_order :
  forall hs hs' signed,
  (forall n, values_of n hs = values_of n hs') -> spec_header_block hs signed = spec_header_block hs' signed.
Proof. exact HeaderProofs.C11_block_per_name_order. Qed.
Print Assumptions C11_block_per_name_order.

Theorem C11_block_name_case :
  forall hs hs' signed,
  map (fun nv => (lower (fst nv), snd nv)) hs = map (fun nv => (lower (fst nv), snd nv)) hs' ->
  spec_header_block hs signed = spec_header_block hs' signed.
Proof. exact HeaderProofs.C11_block_name_case. Qed.
Print Assumptions C11_block_name_case.

Theorem C11_block_unsigned :
  forall (hs : list (bytes * bytes)) extra signed,
  (forall nv, In nv extra -> ~ In (lower (fst nv)) signed) ->
  forall pre post, spec_header_block (pre ++ extra ++ post) signed = spec_header_block (pre ++ post) signed.
Proof. exact HeaderProofs.C11_block_unsigned. Qed.
Print Assumptions C11_block_unsigned.

Theorem C11_block_trimall :
  forall hs1 hs2 signed,
  (forall n, In n signed -> agree_on n hs1 hs2) ->
  spec_header_block hs1 signed = spec_header_block hs2 signed.
Proof. exact CompletenessProofs.C11_block_trimall. Qed.
Print Assumptions C11_block_trimall.

Theorem C11_unsigned_no_influence :
  forall (H : bytes -> bytes), forall rq hs1 hs2 cf pv,
    let rq1 := with_headers rq hs1 in
    let rq2 := with_headers rq hs2 in
    let signed := ap_signed (sel_params (st_canonical H rq1 cf)) in
    
    (forall n, In n signed -> agree_on n hs1 hs2) ->
    
    (forall n, In n consulted_names -> agree_on n hs1 hs2) ->
    (cf_fold cf = true -> content_type_charset hs1 = content_type_charset hs2) ->
    
    (forall c, In c (if_in_request (cf_reqs cf)) -> (present (lower c) hs1 <-> present (lower c) hs2)) ->
    
    (forall p n, In p (prefixes (cf_reqs cf)) -> starts_with (lower p) n = true ->
                 (present n hs1 <-> present n hs2)) ->
    fst (validate H rq1 cf pv) = fst (validate H rq2 cf pv)
    /\ outcome_modulo_headers hs1 hs2 (snd (validate H rq1 cf pv)) (snd (validate H rq2 cf pv)).
Proof. exact CompletenessProofs.C11_unsigned_no_influence. Qed.
Print Assumptions C11_unsigned_no_influence.

Theorem C11_unsigned_no_influence_check :
  forall (H : bytes -> bytes), forall rq hs1 hs2 cf pv,
  let rq1 := with_headers rq hs1 in
  let rq2 := with_headers rq hs2 in
  forallb (agree_check hs1 hs2) (ap_signed (sel_params (st_canonical H rq1 cf)) ++ consulted_names) = true ->
  (cf_fold cf = true -> first_raw (s2b "content-type") hs1 = first_raw (s2b "content-type") hs2) ->
  presence_check (fun n => existsb (fun c => bytes_eqb (lower c) n) (if_in_request (cf_reqs cf))) hs1 hs2 = true ->
  presence_check (fun n => existsb (fun p => starts_with (lower p) n) (prefixes (cf_reqs cf))) hs1 hs2 = true ->
  fst (validate H rq1 cf pv) = fst (validate H rq2 cf pv)
  /\ outcome_modulo_headers hs1 hs2 (snd (validate H rq1 cf pv)) (snd (validate H rq2 cf pv)).
Proof. exact CompletenessProofs.C11_unsigned_no_influence_check. Qed.
Print Assumptions C11_unsigned_no_influence_check.

Theorem C11_signed_injective :
  forall signed hs hs',
  NoDup signed -> Forall name_ok signed ->
  (forall n, In n signed -> values_ok hs n /\ values_ok hs' n) ->
  spec_header_block hs signed = spec_header_block hs' signed ->
  forall n, In n signed -> agree_on n hs hs'.
Proof. exact CompletenessProofs.C11_signed_injective. Qed.
Print Assumptions C11_signed_injective.

Theorem C11_signed_value_change :
  forall (H : bytes -> bytes) signed hs hs' n m p q pl,
  NoDup signed -> Forall name_ok signed ->
  (forall n, In n signed -> values_ok hs n /\ values_ok hs' n) ->
  In n signed -> ~ agree_on n hs hs' ->
  spec_header_block hs signed <> spec_header_block hs' signed
  /\ spec_canonical_request H m p q hs signed pl <> spec_canonical_request H m p q hs' signed pl.
Proof. exact CompletenessProofs.C11_signed_value_change. Qed.
Print Assumptions C11_signed_value_change.

Theorem C11_signed_value_change_refused :
  forall (H : bytes -> bytes), forall rq hs1 hs2 cf pv ap n,
    let rq1 := with_headers rq hs1 in
    let rq2 := with_headers rq hs2 in
    has_plus (rq_path rq) = false ->
    presented_params H rq1 cf = Some ap -> presented_params H rq2 cf = Some ap ->
    NoDup (ap_signed ap) -> Forall name_ok (ap_signed ap) ->
    (forall m, In m (ap_signed ap) -> values_ok hs1 m /\ values_ok hs2 m) ->
    In n (ap_signed ap) -> ~ agree_on n hs1 hs2 ->
    (exists calls p b pr se, validate H rq1 cf pv = (calls, Accepted p b pr se)) ->
    (exists k, snd (validate H rq2 cf pv) = Refused k)
    \/ (exists key t scope creq1 creq2,
          creq1 <> creq2 /\
          hmac H key (spec_string_to_sign H t scope creq1) = hmac H key (spec_string_to_sign H t scope creq2)).
Proof. exact CompletenessProofs.C11_signed_value_change_refused. Qed.
Print Assumptions C11_signed_value_change_refused.
