(* Property C15: statement pins.  Nothing but restated theorems closed by [exact], with
   Print Assumptions under each.  Written by tools/mkprops.py at development time; committed. *)
From Coq Require Import List Bool NArith ZArith Lia.
From Coq Require Import Sorting.Permutation Sorting.Sorted.
From Coq Require Import Strings.Byte.
From Verif Require Import Base.Bytes Base.Hex Base.Utf8 Crypto.Hmac Time.Calendar Time.Iso8601 Time.Render.
From Verif Require Import Generated.SrcConsts Model.Errors Model.Uri Model.Query Model.Headers Model.Labels Model.Requirements Model.Validate.
From Verif Require Import Spec.PathSpec Spec.QuerySpec Spec.Signer Spec.RequestSpec.
From Verif Require Import Proofs.PathProofs Proofs.QueryProofs Proofs.HeaderProofs Proofs.KeyProofs.
From Verif Require Import Proofs.SoundnessProofs.

Theorem C15_unfolded :
  forall (H : bytes -> bytes), forall rq cf pv calls p b pr se,
    validate H rq cf pv = (calls, Accepted p b pr se) ->
    spec_folded rq cf = false ->
    pt_method p = rq_method rq /\ pt_uri p = rq_uri rq /\ pt_version p = rq_version rq /\
    pt_headers p = rq_headers rq /\ b = rq_body rq.
Proof. exact SoundnessProofs.C15_unfolded. Qed.
Print Assumptions C15_unfolded.

Theorem C15_folded :
  forall (H : bytes -> bytes), forall rq cf pv calls p b pr se,
    validate H rq cf pv = (calls, Accepted p b pr se) ->
    spec_folded rq cf = true ->
    exists path pairs back,
      pt_method p = rq_method rq /\ pt_version p = rq_version rq /\ pt_headers p = rq_headers rq /\
      b = [] /\
      canon_path (cf_s3 cf) (rq_path rq) = Some path /\
      spec_all_pairs rq cf = Some pairs /\
      
      pt_uri p = with_query path (spec_query_of_pairs pairs) /\
      split_once "?"%byte (pt_uri p) =
        (if Query.is_nil (spec_query_of_pairs pairs) then None else Some (path, spec_query_of_pairs pairs)) /\
      
      decoded_pairs (spec_query_of_pairs pairs) = Some back /\
      Permutation back (filter not_signature pairs).
Proof. exact SoundnessProofs.C15_folded. Qed.
Print Assumptions C15_folded.

Theorem C15_identity :
  forall (H : bytes -> bytes), forall rq cf pv calls p b pr se,
    validate H rq cf pv = (calls, Accepted p b pr se) ->
    exists g key, calls = [g] /\ pv_ready pv = None /\ pv_answer pv g = AnsOk key pr se.
Proof. exact SoundnessProofs.C15_identity. Qed.
Print Assumptions C15_identity.

Theorem C12_values_order :
  forall (H : bytes -> bytes), forall rq cf cr pts body,
    from_request_parts H rq cf = Ok (cr, pts, body) ->
    exists pairs, spec_all_pairs rq cf = Some pairs /\
      forall k, vals k (cr_query cr) = values_in k (map enc_pair pairs).
Proof. exact SoundnessProofs.C12_values_order. Qed.
Print Assumptions C12_values_order.

Theorem C15_decoded_pairs_spec_query :
  forall ps,
  exists out, decoded_pairs (spec_query_of_pairs ps) = Some out /\ Permutation out (filter not_signature ps).
Proof. exact SoundnessProofs.decoded_pairs_spec_query. Qed.
Print Assumptions C15_decoded_pairs_spec_query.
