(* Property C10: statement pins.  Nothing but restated theorems closed by [exact], with
   Print Assumptions under each.  Written by tools/mkprops.py at development time; committed. *)
From Coq Require Import List Bool NArith Lia.
From Coq Require Import Sorting.Permutation Sorting.Sorted.
From Coq Require Import Strings.Byte.
From Verif Require Import Base.Bytes Base.Hex Generated.SrcConsts Model.Uri Model.Query Spec.PathSpec Spec.QuerySpec.
From Coq Require Import List Bool NArith Arith Lia.
From Verif Require Import Base.Bytes Base.Hex Generated.SrcConsts Model.Uri Model.UriImp.
From Verif Require Import Proofs.PathProofs.
From Verif Require Import Proofs.QueryProofs Proofs.UriImpProofs.
Local Open Scope byte_scope.

Theorem C10_sort_pairs_perm :
  forall l, Permutation (sort_pairs l) l.
Proof. exact QueryProofs.sort_pairs_perm. Qed.
Print Assumptions C10_sort_pairs_perm.

Theorem C10_sort_pairs_sorted :
  forall l,
  StronglySorted (fun a b => pair_leb a b = true) (sort_pairs l).
Proof. exact QueryProofs.sort_pairs_sorted. Qed.
Print Assumptions C10_sort_pairs_sorted.

Theorem C10_sort_pairs_unique :
  forall l1 l2, Permutation l1 l2 -> sort_pairs l1 = sort_pairs l2.
Proof. exact QueryProofs.sort_pairs_unique. Qed.
Print Assumptions C10_sort_pairs_unique.

Theorem C10_order_independent :
  forall m m', Permutation m m' ->
  canon_query_in_order m = canon_query_in_order m'.
Proof. exact QueryProofs.C10_order_independent. Qed.
Print Assumptions C10_order_independent.

Theorem C10_model_is_spec :
  forall q, option_map canon_query (query_map q) = spec_query q.
Proof. exact QueryProofs.C10_model_is_spec. Qed.
Print Assumptions C10_model_is_spec.

Theorem C10_error_iff :
  forall q, query_map q = None <-> decoded_pairs q = None.
Proof. exact QueryProofs.C10_error_iff. Qed.
Print Assumptions C10_error_iff.

Theorem C10_multiset :
  forall q1 q2 d1 d2,
  decoded_pairs q1 = Some d1 -> decoded_pairs q2 = Some d2 -> Permutation d1 d2 ->
  option_map canon_query (query_map q1) = option_map canon_query (query_map q2).
Proof. exact QueryProofs.C10_multiset. Qed.
Print Assumptions C10_multiset.

Theorem C10_lists_every_pair :
  forall q d,
  decoded_pairs q = Some d ->
  exists out, spec_query q = Some (join ["&"%byte] (map (fun kv => fst kv ++ "="%byte :: snd kv) out))
    /\ Permutation out (map (fun kv => (pct_encode (fst kv), pct_encode (snd kv)))
                            (filter (fun kv => negb (bytes_eqb (fst kv) x_amz_signature)) d))
    /\ StronglySorted (fun a b => pair_cmp_leb a b = true) out.
Proof. exact QueryProofs.C10_lists_every_pair. Qed.
Print Assumptions C10_lists_every_pair.

Theorem C10_qmap_extend_flatten_perm :
  forall m b,
  Permutation (flatten (qmap_extend m b)) (flatten m ++ flatten b).
Proof. exact QueryProofs.qmap_extend_flatten_perm. Qed.
Print Assumptions C10_qmap_extend_flatten_perm.

Theorem C10_query_map_flatten_perm :
  forall q m, query_map q = Some m ->
  exists ps, map_opt (fun kv => match normalize_elem (fst kv), normalize_elem (snd kv) with
                                | Some k, Some v => Some (k, v) | _, _ => None end) (raw_pairs q) = Some ps
             /\ Permutation (flatten m) ps.
Proof. exact QueryProofs.query_map_flatten_perm. Qed.
Print Assumptions C10_query_map_flatten_perm.

Theorem C10_normalize_elem_imp_correct :
  forall s,
  normalize_elem_imp s = Done (normalize_elem s).
Proof. exact UriImpProofs.normalize_elem_imp_correct. Qed.
Print Assumptions C10_normalize_elem_imp_correct.
