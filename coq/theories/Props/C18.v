(* Property C18: statement pins.  Nothing but restated theorems closed by [exact], with
   Print Assumptions under each.  Written by tools/mkprops.py at development time; committed. *)
From Coq Require Import List Bool NArith ZArith Lia.
From Coq Require Import Sorting.Permutation.
From Coq Require Import Strings.Byte.
From Verif Require Import Base.Bytes Base.Hex Base.Utf8 Crypto.Hmac Time.Calendar Time.Iso8601 Time.Render.
From Verif Require Import Generated.SrcConsts Model.Errors Model.Uri Model.Query Model.Headers Model.Labels Model.Requirements Model.Validate Spec.PathSpec Spec.QuerySpec Spec.Signer Spec.RequestSpec.
From Verif Require Import Proofs.QueryProofs Proofs.HeaderProofs Proofs.PipelineProofs.
From Verif Require Proofs.KeyProofs Crypto.Sha256.
From Coq Require Import List Bool NArith Lia.
From Coq Require Import Sorting.Permutation Sorting.Sorted.
From Verif Require Import Base.Bytes Base.Hex Generated.SrcConsts Model.Uri Model.Query Spec.PathSpec Spec.QuerySpec.
From Verif Require Import Proofs.SelectionProofs Proofs.QueryProofs.

Theorem C18_normalize_headers_nodup :
  forall hs, NoDup (map fst (normalize_headers hs)).
Proof. exact SelectionProofs.normalize_headers_nodup. Qed.
Print Assumptions C18_normalize_headers_nodup.

Theorem C18_query_map_nodup :
  forall q m, query_map q = Some m -> NoDup (map fst m).
Proof. exact SelectionProofs.query_map_nodup. Qed.
Print Assumptions C18_query_map_nodup.

Theorem C18_qmap_extend_nodup :
  forall m b, NoDup (map fst m) -> NoDup (map fst (qmap_extend m b)).
Proof. exact SelectionProofs.qmap_extend_nodup. Qed.
Print Assumptions C18_qmap_extend_nodup.

Theorem C18_reqs_ok_perm :
  forall rs hm hm' signed,
  NoDup (map fst hm) -> Permutation hm hm' -> reqs_ok rs hm signed = reqs_ok rs hm' signed.
Proof. exact SelectionProofs.reqs_ok_perm. Qed.
Print Assumptions C18_reqs_ok_perm.

Theorem C18_header_lines_perm :
  forall hm hm' signed,
  NoDup (map fst hm) -> Permutation hm hm' -> header_lines hm signed = header_lines hm' signed.
Proof. exact SelectionProofs.header_lines_perm. Qed.
Print Assumptions C18_header_lines_perm.

Theorem C18_order_independent :
  forall cr q' h' rs signed,
    NoDup (map fst (cr_headers cr)) ->
    Permutation (cr_query cr) q' -> Permutation (cr_headers cr) h' ->
    canon_query_in_order q' = canon_query_in_order (cr_query cr)
    /\ canonical_request (with_maps cr q' h') signed = canonical_request cr signed
    /\ reqs_ok rs h' signed = reqs_ok rs (cr_headers cr) signed.
Proof. exact SelectionProofs.C18_order_independent. Qed.
Print Assumptions C18_order_independent.

Theorem C18_authenticator_order_independent :
  forall (H : bytes -> bytes), forall cr q' h' rs,
    cr_nodup cr -> Permutation (cr_query cr) q' -> Permutation (cr_headers cr) h' ->
    get_authenticator H (with_maps cr q' h') rs = get_authenticator H cr rs.
Proof. exact SelectionProofs.C18_authenticator_order_independent. Qed.
Print Assumptions C18_authenticator_order_independent.

Theorem C18_validate_order_independent :
  forall (H : bytes -> bytes), forall cr pts body q' h' cf pv,
    cr_nodup cr -> Permutation (cr_query cr) q' -> Permutation (cr_headers cr) h' ->
    (validate_after H) (with_maps cr q' h', pts, body) cf pv = (validate_after H) (cr, pts, body) cf pv.
Proof. exact SelectionProofs.C18_validate_order_independent. Qed.
Print Assumptions C18_validate_order_independent.

Theorem C18_from_request_parts_nodup :
  forall (H : bytes -> bytes), forall rq cf cr pts body,
    from_request_parts H rq cf = Ok (cr, pts, body) -> cr_nodup cr.
Proof. exact SelectionProofs.from_request_parts_nodup. Qed.
Print Assumptions C18_from_request_parts_nodup.

Theorem C18_folded_uri_order_independent :
  forall path m m',
    Permutation m m' ->
    path ++ (if is_nil (canon_query_in_order m) then [] else "?"%byte :: canon_query_in_order m) =
    path ++ (if is_nil (canon_query_in_order m') then [] else "?"%byte :: canon_query_in_order m').
Proof. exact SelectionProofs.C18_folded_uri_order_independent. Qed.
Print Assumptions C18_folded_uri_order_independent.

Theorem C18_history_independent :
  forall (H : bytes -> bytes), forall (l l' : list (request * config * provider)),
    Permutation l l' ->
    forall x, In x l ->
      In (x, validate H (fst (fst x)) (snd (fst x)) (snd x))
         (map (fun y => (y, validate H (fst (fst y)) (snd (fst y)) (snd y))) l').
Proof. exact SelectionProofs.C18_history_independent. Qed.
Print Assumptions C18_history_independent.

Theorem C18_fold_order_independent :
  forall m b b',
  NoDup (map fst m) -> NoDup (map fst b) -> Forall (fun kv => snd kv <> []) b -> Permutation b b' ->
  Permutation (qmap_extend m b) (qmap_extend m b')
  /\ canon_query (qmap_extend m b) = canon_query (qmap_extend m b').
Proof. exact SelectionProofs.C18_fold_order_independent. Qed.
Print Assumptions C18_fold_order_independent.

Theorem C10_order_independent :
  forall m m', Permutation m m' ->
  canon_query_in_order m = canon_query_in_order m'.
Proof. exact QueryProofs.C10_order_independent. Qed.
Print Assumptions C10_order_independent.
