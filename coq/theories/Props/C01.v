(* Property C01: statement pins.  Nothing but restated theorems closed by [exact], with
   Print Assumptions under each.  Written by tools/mkprops.py at development time; committed. *)
From Coq Require Import List Bool NArith ZArith Lia.
From Coq Require Import Sorting.Permutation Sorting.Sorted.
From Coq Require Import Strings.Byte.
From Verif Require Import Base.Bytes Base.Hex Base.Utf8 Crypto.Hmac Time.Calendar Time.Iso8601 Time.Render.
From Verif Require Import Generated.SrcConsts Model.Errors Model.Uri Model.Query Model.Headers Model.Labels Model.Requirements Model.Validate.
From Verif Require Import Spec.PathSpec Spec.QuerySpec Spec.Signer Spec.RequestSpec.
From Verif Require Import Proofs.PathProofs Proofs.QueryProofs Proofs.HeaderProofs Proofs.KeyProofs.
From Coq Require Import Lia.
From Verif Require Import Base.Bytes Base.Hex Crypto.Hmac Time.Calendar Time.Render Generated.SrcConsts Model.SigningKey Model.Validate.
From Verif Require Import Proofs.SoundnessProofs Proofs.KeyProofs.

Theorem C01_model_creq_is_spec :
  forall (H : bytes -> bytes), forall rq cf cr pts body,
    from_request_parts H rq cf = Ok (cr, pts, body) ->
    has_plus (rq_path rq) = false ->
    exists path pairs,
      spec_path (cf_s3 cf) (rq_path rq) = Some path /\
      spec_all_pairs rq cf = Some pairs /\
      forall signed,
        canonical_request cr signed =
        spec_canonical_request H (rq_method rq) path (spec_query_of_pairs pairs) (rq_headers rq) signed
                               (spec_payload rq cf).
Proof. exact SoundnessProofs.model_creq_is_spec. Qed.
Print Assumptions C01_model_creq_is_spec.

Theorem C01_accept_implies_signature :
  forall (H : bytes -> bytes), forall rq cf pv calls p b pr se,
    validate H rq cf pv = (calls, Accepted p b pr se) ->
    has_plus (rq_path rq) = false ->
    exists ap ts g key sts,
      calls = [g] /\
      g = expected_gsk cf ap ts /\
      pv_ready pv = None /\
      pv_answer pv g = AnsOk key pr se /\
      presented_params H rq cf = Some ap /\
      parse_iso8601 (ap_timestamp ap) = Some ts /\
      spec_request_sts H rq cf ap ts = Some sts /\
      ap_signature ap = lower_hex (hmac H key sts).
Proof. exact SoundnessProofs.C01_accept_implies_signature. Qed.
Print Assumptions C01_accept_implies_signature.

Theorem C01_accept_implies_signature_modulo_path :
  forall (H : bytes -> bytes), forall rq cf pv calls p b pr se,
    validate H rq cf pv = (calls, Accepted p b pr se) ->
    exists ap ts g key path pairs ak scope,
      calls = [g] /\ g = expected_gsk cf ap ts /\ pv_ready pv = None /\
      pv_answer pv g = AnsOk key pr se /\
      presented_params H rq cf = Some ap /\
      parse_iso8601 (ap_timestamp ap) = Some ts /\
      canon_path (cf_s3 cf) (rq_path rq) = Some path /\
      spec_all_pairs rq cf = Some pairs /\
      split_once "/"%byte (ap_credential ap) = Some (ak, scope) /\
      ap_signature ap =
        lower_hex (hmac H key
          (spec_string_to_sign H (render_compact ts) scope
             (spec_canonical_request H (rq_method rq) path (spec_query_of_pairs pairs) (rq_headers rq)
                                     (ap_signed ap) (spec_payload rq cf)))).
Proof. exact SoundnessProofs.C01_accept_implies_signature_modulo_path. Qed.
Print Assumptions C01_accept_implies_signature_modulo_path.

Theorem C01_cross_request :
  forall (H : bytes -> bytes), forall rq1 cf1 pv1 calls1 p1 b1 pr1 se1 rq2 cf2 pv2 calls2 p2 b2 pr2 se2 ap1 ap2,
    validate H rq1 cf1 pv1 = (calls1, Accepted p1 b1 pr1 se1) ->
    validate H rq2 cf2 pv2 = (calls2, Accepted p2 b2 pr2 se2) ->
    has_plus (rq_path rq1) = false -> has_plus (rq_path rq2) = false ->
    presented_params H rq1 cf1 = Some ap1 -> presented_params H rq2 cf2 = Some ap2 ->
    ap_signature ap1 = ap_signature ap2 ->
    exists ts1 ts2 g1 g2 key1 key2 sts1 sts2,
      calls1 = [g1] /\ calls2 = [g2] /\
      pv_answer pv1 g1 = AnsOk key1 pr1 se1 /\ pv_answer pv2 g2 = AnsOk key2 pr2 se2 /\
      parse_iso8601 (ap_timestamp ap1) = Some ts1 /\ parse_iso8601 (ap_timestamp ap2) = Some ts2 /\
      spec_request_sts H rq1 cf1 ap1 ts1 = Some sts1 /\ spec_request_sts H rq2 cf2 ap2 ts2 = Some sts2 /\
      hmac H key1 sts1 = hmac H key2 sts2.
Proof. exact SoundnessProofs.C01_cross_request. Qed.
Print Assumptions C01_cross_request.

Theorem C01_signature_shape :
  forall (H : bytes -> bytes), forall rq cf pv calls p b pr se,
    validate H rq cf pv = (calls, Accepted p b pr se) ->
    exists ap x,
      presented_params H rq cf = Some ap /\
      List.length (ap_signature ap) = (2 * List.length (H x))%nat /\
      Forall (fun c => is_ascii_digit c = true \/ in_range 97 102 c = true) (ap_signature ap).
Proof. exact SoundnessProofs.C01_signature_shape. Qed.
Print Assumptions C01_signature_shape.

Theorem C01_signature_length :
  forall (H : bytes -> bytes), forall n rq cf pv calls p b pr se ap,
    (forall x, List.length (H x) = n) ->
    validate H rq cf pv = (calls, Accepted p b pr se) ->
    presented_params H rq cf = Some ap ->
    List.length (ap_signature ap) = (2 * n)%nat.
Proof. exact SoundnessProofs.C01_signature_length. Qed.
Print Assumptions C01_signature_length.

Theorem C01_bad_signature_refused :
  forall (H : bytes -> bytes), forall rq cf pv ap,
    presented_params H rq cf = Some ap ->
    (ap_signature ap = [] /\ (forall x, H x <> [])
     \/ exists c, In c (ap_signature ap) /\ is_ascii_digit c = false /\ in_range 97 102 c = false) ->
    forall calls p b pr se, validate H rq cf pv <> (calls, Accepted p b pr se).
Proof. exact SoundnessProofs.C01_bad_signature_refused. Qed.
Print Assumptions C01_bad_signature_refused.

Theorem C01_canonical_request_injective :
  forall (H : bytes -> bytes), forall m p q hs signed pl m' p' q' hs' signed' pl',
    no_nl m -> no_nl p -> no_nl q -> Forall no_nl signed ->
    no_nl m' -> no_nl p' -> no_nl q' -> Forall no_nl signed' ->
    spec_canonical_request H m p q hs signed pl = spec_canonical_request H m' p' q' hs' signed' pl' ->
    m = m' /\ p = p' /\ q = q' /\
    spec_header_block hs signed = spec_header_block hs' signed' /\
    join [";"%byte] signed = join [";"%byte] signed' /\
    lower_hex (H pl) = lower_hex (H pl') /\ H pl = H pl'.
Proof. exact SoundnessProofs.C01_canonical_request_injective. Qed.
Print Assumptions C01_canonical_request_injective.

Theorem C01_string_to_sign_injective :
  forall (H : bytes -> bytes), forall t sc creq t' sc' creq',
    no_nl sc -> no_nl sc' ->
    spec_string_to_sign H t sc creq = spec_string_to_sign H t' sc' creq' ->
    t = t' /\ sc = sc' /\ H creq = H creq'.
Proof. exact SoundnessProofs.C01_string_to_sign_injective. Qed.
Print Assumptions C01_string_to_sign_injective.

Theorem C01_equal_sts_equal_components :
  forall (H : bytes -> bytes), forall rq1 cf1 ap1 ts1 rq2 cf2 ap2 ts2 s,
    spec_request_sts H rq1 cf1 ap1 ts1 = Some s ->
    spec_request_sts H rq2 cf2 ap2 ts2 = Some s ->
    no_nl (ap_credential ap1) -> no_nl (ap_credential ap2) ->
    no_nl (rq_method rq1) -> no_nl (rq_method rq2) ->
    Forall no_nl (ap_signed ap1) -> Forall no_nl (ap_signed ap2) ->
    exists path1 path2 pairs1 pairs2 ak1 ak2 scope creq1 creq2,
      spec_path (cf_s3 cf1) (rq_path rq1) = Some path1 /\ spec_path (cf_s3 cf2) (rq_path rq2) = Some path2 /\
      spec_all_pairs rq1 cf1 = Some pairs1 /\ spec_all_pairs rq2 cf2 = Some pairs2 /\
      split_once "/"%byte (ap_credential ap1) = Some (ak1, scope) /\
      split_once "/"%byte (ap_credential ap2) = Some (ak2, scope) /\
      render_compact ts1 = render_compact ts2 /\
      creq1 = spec_canonical_request H (rq_method rq1) path1 (spec_query_of_pairs pairs1) (rq_headers rq1)
                                     (ap_signed ap1) (spec_payload rq1 cf1) /\
      creq2 = spec_canonical_request H (rq_method rq2) path2 (spec_query_of_pairs pairs2) (rq_headers rq2)
                                     (ap_signed ap2) (spec_payload rq2 cf2) /\
      H creq1 = H creq2 /\
      (creq1 = creq2 ->
         rq_method rq1 = rq_method rq2 /\ path1 = path2 /\
         spec_query_of_pairs pairs1 = spec_query_of_pairs pairs2 /\
         spec_header_block (rq_headers rq1) (ap_signed ap1) = spec_header_block (rq_headers rq2) (ap_signed ap2) /\
         join [";"%byte] (ap_signed ap1) = join [";"%byte] (ap_signed ap2) /\
         H (spec_payload rq1 cf1) = H (spec_payload rq2 cf2)).
Proof. exact SoundnessProofs.C01_equal_sts_equal_components. Qed.
Print Assumptions C01_equal_sts_equal_components.

Theorem C01_signed_list_injective :
  forall s s' : list bytes,
  Forall (fun n => n <> [] /\ ~ In ";"%byte n) s -> Forall (fun n => n <> [] /\ ~ In ";"%byte n) s' ->
  join [";"%byte] s = join [";"%byte] s' -> s = s'.
Proof. exact SoundnessProofs.C01_signed_list_injective. Qed.
Print Assumptions C01_signed_list_injective.

Theorem C01_ct_eq_spec :
  forall a b, ct_eq a b = true <-> a = b.
Proof. exact KeyProofs.ct_eq_spec. Qed.
Print Assumptions C01_ct_eq_spec.

Theorem C01_lower_hex_inj :
  forall a b, lower_hex a = lower_hex b -> a = b.
Proof. exact KeyProofs.lower_hex_inj. Qed.
Print Assumptions C01_lower_hex_inj.

Theorem C01_lower_hex_length :
  forall a, length (lower_hex a) = (2 * length a)%nat.
Proof. exact KeyProofs.lower_hex_length. Qed.
Print Assumptions C01_lower_hex_length.

Theorem C01_lower_hex_alphabet :
  forall a,
  Forall (fun c => is_ascii_digit c = true \/ in_range 97 102 c = true) (lower_hex a).
Proof. exact KeyProofs.lower_hex_alphabet. Qed.
Print Assumptions C01_lower_hex_alphabet.
