(* Property C04: statement pins.  Nothing but restated theorems closed by [exact], with
   Print Assumptions under each.  Written by tools/mkprops.py at development time; committed. *)
From Coq Require Import ZArith Lia List Bool.
From Coq Require Import Strings.Byte.
From Verif Require Import Base.Bytes Base.Hex Crypto.Hmac Time.Calendar Time.Iso8601 Time.Render.
From Verif Require Import Generated.SrcConsts Model.Errors Model.Requirements Model.Validate.
From Coq Require Import List Bool NArith ZArith Lia.
From Verif Require Import Base.Bytes Base.Hex Base.Utf8 Crypto.Hmac Time.Calendar Time.Iso8601 Time.Render.
From Verif Require Import Generated.SrcConsts Model.Errors Model.Uri Model.Query Model.Headers Model.Labels Model.Requirements Model.Validate Spec.PathSpec Spec.QuerySpec Spec.Signer Spec.RequestSpec.
From Verif Require Import Proofs.QueryProofs Proofs.HeaderProofs.
From Verif Require Proofs.KeyProofs Crypto.Sha256.
From Verif Require Import Proofs.AuthProofs Proofs.PipelineProofs.

Theorem C04_constant :
  allowed_mismatch_ns = (900 * 1000000000)%Z.
Proof. exact AuthProofs.C04_constant. Qed.
Print Assumptions C04_constant.

Theorem C04_constant_minutes :
  src_allowed_mismatch_ns = (15 * 60 * 1000000000)%Z /\ ns_per_s = 1000000000%Z.
Proof. exact AuthProofs.C04_constant_minutes. Qed.
Print Assumptions C04_constant_minutes.

Theorem C04_window :
  forall t now,
    (freshness_stage t now = Ok tt <-> fresh t now) /\
    (freshness_stage t now = Err SignatureDoesNotMatch <-> ~ fresh t now).
Proof. exact AuthProofs.C04_window. Qed.
Print Assumptions C04_window.

Theorem C04_accept_implies_fresh :
  forall (H : bytes -> bytes), forall rq cf pv calls p b pr se,
    validate H rq cf pv = (calls, Accepted p b pr se) ->
    exists cr pts body ap ts,
      from_request_parts H rq cf = Ok (cr, pts, body) /\
      get_auth_parameters cr (cf_reqs cf) = Ok ap /\
      parse_iso8601 (ap_timestamp ap) = Some ts /\
      fresh ts (cf_now cf).
Proof. exact AuthProofs.C04_accept_implies_fresh. Qed.
Print Assumptions C04_accept_implies_fresh.

Theorem C04_stale_refused_no_lookup :
  forall (H : bytes -> bytes), forall au cf pv,
    ~ fresh (au_timestamp au) (cf_now cf) ->
    validate_signature H au cf pv = ([], Err SignatureDoesNotMatch).
Proof. exact AuthProofs.C04_stale_refused_no_lookup. Qed.
Print Assumptions C04_stale_refused_no_lookup.

Theorem C04_stale_refused_no_lookup_validate :
  forall (H : bytes -> bytes), forall rq cf pv cr pts body au,
    from_request_parts H rq cf = Ok (cr, pts, body) ->
    get_authenticator H cr (cf_reqs cf) = Ok au ->
    ~ fresh (au_timestamp au) (cf_now cf) ->
    validate H rq cf pv = ([], Refused SignatureDoesNotMatch).
Proof. exact AuthProofs.C04_stale_refused_no_lookup_validate. Qed.
Print Assumptions C04_stale_refused_no_lookup_validate.

Theorem C04_stale_refused_no_lookup_params :
  forall (H : bytes -> bytes), forall rq cf pv cr pts body ap ts,
    from_request_parts H rq cf = Ok (cr, pts, body) ->
    get_auth_parameters cr (cf_reqs cf) = Ok ap ->
    parse_iso8601 (ap_timestamp ap) = Some ts ->
    ~ fresh ts (cf_now cf) ->
    validate H rq cf pv = ([], Refused SignatureDoesNotMatch).
Proof. exact AuthProofs.C04_stale_refused_no_lookup_params. Qed.
Print Assumptions C04_stale_refused_no_lookup_params.

Theorem C04_fresh_never_rejected_by_time :
  forall au region service now,
    fresh (au_timestamp au) now ->
    prevalidate au region service now allowed_mismatch_ns = scope_check au region service.
Proof. exact AuthProofs.C04_fresh_never_rejected_by_time. Qed.
Print Assumptions C04_fresh_never_rejected_by_time.

Theorem C04_scope_check_uses_date_only :
  forall au region service,
    scope_check au region service =
    scope_check_on (au_credential au) (yyyymmdd (au_timestamp au)) region service.
Proof. exact AuthProofs.C04_scope_check_uses_date_only. Qed.
Print Assumptions C04_scope_check_uses_date_only.

Theorem C04_fresh_same_day_same_decision :
  forall au au' region service now,
    fresh (au_timestamp au) now -> fresh (au_timestamp au') now ->
    au_credential au = au_credential au' ->
    day_of_instant (au_timestamp au) = day_of_instant (au_timestamp au') ->
    prevalidate au region service now allowed_mismatch_ns =
    prevalidate au' region service now allowed_mismatch_ns.
Proof. exact AuthProofs.C04_fresh_same_day_same_decision. Qed.
Print Assumptions C04_fresh_same_day_same_decision.

Theorem C04_textual_independence :
  forall (H : bytes -> bytes), forall cr1 cr2 ap1 ap2 t,
    ap_credential ap1 = ap_credential ap2 -> ap_signature ap1 = ap_signature ap2 ->
    ap_token ap1 = ap_token ap2 ->
    canonical_request cr1 (ap_signed ap1) = canonical_request cr2 (ap_signed ap2) ->
    parse_iso8601 (ap_timestamp ap1) = Some t -> parse_iso8601 (ap_timestamp ap2) = Some t ->
    (authenticator_from_params H) cr1 ap1 = (authenticator_from_params H) cr2 ap2 /\
    (authenticator_from_params H) cr1 ap1 = Ok ((authenticator_of H) cr1 ap1 t).
Proof. exact AuthProofs.C04_textual_independence. Qed.
Print Assumptions C04_textual_independence.

Theorem C04_get_authenticator_factors :
  forall (H : bytes -> bytes), forall cr rs,
    get_authenticator H cr rs = bind (get_auth_parameters cr rs) ((authenticator_from_params H) cr).
Proof. exact AuthProofs.C04_get_authenticator_factors. Qed.
Print Assumptions C04_get_authenticator_factors.

Theorem C04_textual_independence_decision :
  forall (H : bytes -> bytes), forall cr1 cr2 ap1 ap2 au1 au2 t now,
    parse_iso8601 (ap_timestamp ap1) = Some t -> parse_iso8601 (ap_timestamp ap2) = Some t ->
    (authenticator_from_params H) cr1 ap1 = Ok au1 -> (authenticator_from_params H) cr2 ap2 = Ok au2 ->
    freshness_stage (au_timestamp au1) now = freshness_stage (au_timestamp au2) now /\
    (fresh (au_timestamp au1) now <-> fresh (au_timestamp au2) now).
Proof. exact AuthProofs.C04_textual_independence_decision. Qed.
Print Assumptions C04_textual_independence_decision.

Theorem C04_textual_independence_verdict :
  forall (H : bytes -> bytes), forall cr1 cr2 ap1 ap2 au1 au2 t cf pv,
    ap_credential ap1 = ap_credential ap2 -> ap_signature ap1 = ap_signature ap2 ->
    ap_token ap1 = ap_token ap2 ->
    canonical_request cr1 (ap_signed ap1) = canonical_request cr2 (ap_signed ap2) ->
    parse_iso8601 (ap_timestamp ap1) = Some t -> parse_iso8601 (ap_timestamp ap2) = Some t ->
    (authenticator_from_params H) cr1 ap1 = Ok au1 -> (authenticator_from_params H) cr2 ap2 = Ok au2 ->
    validate_signature H au1 cf pv = validate_signature H au2 cf pv.
Proof. exact AuthProofs.C04_textual_independence_verdict. Qed.
Print Assumptions C04_textual_independence_verdict.

Theorem C04_textual_independence_validate :
  forall (H : bytes -> bytes), forall rq1 rq2 cf pv cr1 cr2 pts1 pts2 body1 body2 ap1 ap2 t,
    from_request_parts H rq1 cf = Ok (cr1, pts1, body1) ->
    from_request_parts H rq2 cf = Ok (cr2, pts2, body2) ->
    get_auth_parameters cr1 (cf_reqs cf) = Ok ap1 -> get_auth_parameters cr2 (cf_reqs cf) = Ok ap2 ->
    ap_credential ap1 = ap_credential ap2 -> ap_signature ap1 = ap_signature ap2 ->
    ap_token ap1 = ap_token ap2 ->
    canonical_request cr1 (ap_signed ap1) = canonical_request cr2 (ap_signed ap2) ->
    parse_iso8601 (ap_timestamp ap1) = Some t -> parse_iso8601 (ap_timestamp ap2) = Some t ->
    exists calls r,
      validate H rq1 cf pv = (calls, lift_outcome pts1 body1 r) /\
      validate H rq2 cf pv = (calls, lift_outcome pts2 body2 r).
Proof. exact AuthProofs.C04_textual_independence_validate. Qed.
Print Assumptions C04_textual_independence_validate.

Theorem C13_expired :
  forall (H : bytes -> bytes), forall rq cf pv cr pts body au,
    from_request_parts H rq cf = Ok (cr, pts, body) ->
    get_authenticator H cr (cf_reqs cf) = Ok au ->
    (au_timestamp au < cf_now cf - allowed_mismatch_ns)%Z ->
    validate H rq cf pv = ([], Refused SignatureDoesNotMatch).
Proof. exact PipelineProofs.C13_expired. Qed.
Print Assumptions C13_expired.

Theorem C13_not_yet_valid :
  forall (H : bytes -> bytes), forall rq cf pv cr pts body au,
    from_request_parts H rq cf = Ok (cr, pts, body) ->
    get_authenticator H cr (cf_reqs cf) = Ok au ->
    (cf_now cf + allowed_mismatch_ns < au_timestamp au)%Z ->
    validate H rq cf pv = ([], Refused SignatureDoesNotMatch).
Proof. exact PipelineProofs.C13_not_yet_valid. Qed.
Print Assumptions C13_not_yet_valid.
