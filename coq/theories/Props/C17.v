(* Property C17: statement pins.  Nothing but restated theorems closed by [exact], with
   Print Assumptions under each.  Written by tools/mkprops.py at development time; committed. *)
From Coq Require Import List Bool NArith ZArith Lia.
From Coq Require Import Sorting.Permutation.
From Coq Require Import Strings.Byte.
From Verif Require Import Base.Bytes Base.Hex Base.Utf8 Crypto.Hmac Time.Calendar Time.Iso8601 Time.Render.
From Verif Require Import Generated.SrcConsts Model.Errors Model.Uri Model.Query Model.Headers Model.Labels Model.Requirements Model.Validate Spec.PathSpec Spec.QuerySpec Spec.Signer Spec.RequestSpec.
From Verif Require Import Proofs.QueryProofs Proofs.HeaderProofs Proofs.PipelineProofs.
From Verif Require Proofs.KeyProofs Crypto.Sha256.
From Coq Require Import String List Bool Arith Lia.
From Verif Require Import Base.Bytes Base.Hex Crypto.Hmac Generated.SrcConsts Model.Errors Model.Validate Model.Leakage Spec.Audit.
From Verif Require Import Proofs.SelectionProofs Proofs.StaticC17.
Local Open Scope string_scope.

Theorem C17_calls_independent_of_key :
  forall (H : bytes -> bytes), forall rq cf pv1 pv2,
    same_but_key pv1 pv2 -> fst (validate H rq cf pv1) = fst (validate H rq cf pv2).
Proof. exact SelectionProofs.C17_calls_independent_of_key. Qed.
Print Assumptions C17_calls_independent_of_key.

Theorem C17_refusal_independent_of_key :
  forall (H : bytes -> bytes), forall rq cf pv1 pv2 k1 k2,
    same_but_key pv1 pv2 ->
    snd (validate H rq cf pv1) = Refused k1 ->
    snd (validate H rq cf pv2) = Refused k2 ->
    k1 = k2 /\ fst (validate H rq cf pv1) = fst (validate H rq cf pv2).
Proof. exact SelectionProofs.C17_refusal_independent_of_key. Qed.
Print Assumptions C17_refusal_independent_of_key.

Theorem C17_refusal_independent_of_presented_signature_match :
  forall (H : bytes -> bytes), forall rq cf pv key p s k,
    pre_failure H rq cf = None ->
    prov_answer pv (the_call (st_au H rq cf) cf) = AnsOk key p s ->
    snd (validate H rq cf pv) = Refused k ->
    k = SignatureDoesNotMatch.
Proof. exact SelectionProofs.C17_refusal_independent_of_presented_signature_match. Qed.
Print Assumptions C17_refusal_independent_of_presented_signature_match.

Theorem C17_key_enters_only_the_comparison :
  forall (H : bytes -> bytes), forall rq cf pv1 pv2,
    same_but_key pv1 pv2 ->
    (forall key1 p1 s1 key2 p2 s2,
        prov_answer pv1 (the_call (st_au H rq cf) cf) = AnsOk key1 p1 s1 ->
        prov_answer pv2 (the_call (st_au H rq cf) cf) = AnsOk key2 p2 s2 ->
        ct_eq (au_signature (st_au H rq cf)) (lower_hex (hmac H key1 (sts_of (st_au H rq cf)))) =
        ct_eq (au_signature (st_au H rq cf)) (lower_hex (hmac H key2 (sts_of (st_au H rq cf))))) ->
    validate H rq cf pv1 = validate H rq cf pv2.
Proof. exact SelectionProofs.C17_key_enters_only_the_comparison. Qed.
Print Assumptions C17_key_enters_only_the_comparison.

Theorem C17_log_sites :
  forallb log_site_clean src_log_sites = true.
Proof. exact StaticC17.C17_log_sites. Qed.
Print Assumptions C17_log_sites.

Theorem C17_error_sites :
  forallb error_site_clean src_error_sites = true.
Proof. exact StaticC17.C17_error_sites. Qed.
Print Assumptions C17_error_sites.

Theorem C17_renderings_constant :
  forallb rendering_constant src_key_renderings = true
  /\ forallb (fun ty => has_rendering ty "Debug" && has_rendering ty "Display") key_types = true
  /\ forallb (fun d => negb (mem_str (snd d) ["Debug"; "Display"])) src_key_derives = true.
Proof. exact StaticC17.C17_renderings_constant. Qed.
Print Assumptions C17_renderings_constant.

Theorem C17_expected_signature_only_at_trace :
  forallb (fun s => let '(_, lvl, ids) := s in
                    negb (mem_str "expected_signature" ids) || String.eqb lvl "trace") src_log_sites = true.
Proof. exact StaticC17.C17_expected_signature_only_at_trace. Qed.
Print Assumptions C17_expected_signature_only_at_trace.
