(* Error taxonomy of error.rs.  The kind enum is hand-written (so that model files keep compiling
   when the source changes); the code and status *tables* are the regenerated ones. *)
From Verif Require Import Base.Bytes Generated.SrcConsts.
From Coq Require Import Strings.String.

Inductive kind :=
| ExpiredToken | IO | InternalServiceError | InvalidBodyEncoding | InvalidClientTokenId
| InvalidContentType | InvalidRequestMethod | IncompleteSignature | InvalidURIPath
| MalformedQueryString | MissingAuthenticationToken | SignatureDoesNotMatch.

Definition all_kinds : list kind :=
  [ExpiredToken; IO; InternalServiceError; InvalidBodyEncoding; InvalidClientTokenId;
   InvalidContentType; InvalidRequestMethod; IncompleteSignature; InvalidURIPath;
   MalformedQueryString; MissingAuthenticationToken; SignatureDoesNotMatch].

Definition kind_name (k : kind) : string :=
  match k with
  | ExpiredToken => "ExpiredToken" | IO => "IO" | InternalServiceError => "InternalServiceError"
  | InvalidBodyEncoding => "InvalidBodyEncoding" | InvalidClientTokenId => "InvalidClientTokenId"
  | InvalidContentType => "InvalidContentType" | InvalidRequestMethod => "InvalidRequestMethod"
  | IncompleteSignature => "IncompleteSignature" | InvalidURIPath => "InvalidURIPath"
  | MalformedQueryString => "MalformedQueryString"
  | MissingAuthenticationToken => "MissingAuthenticationToken"
  | SignatureDoesNotMatch => "SignatureDoesNotMatch"
  end%string.

(* index used on the wire between harness and driver *)
Definition kind_id (k : kind) : N :=
  match k with
  | ExpiredToken => 0 | IO => 1 | InternalServiceError => 2 | InvalidBodyEncoding => 3
  | InvalidClientTokenId => 4 | InvalidContentType => 5 | InvalidRequestMethod => 6
  | IncompleteSignature => 7 | InvalidURIPath => 8 | MalformedQueryString => 9
  | MissingAuthenticationToken => 10 | SignatureDoesNotMatch => 11
  end%N.

Definition kind_eqb (a b : kind) : bool := N.eqb (kind_id a) (kind_id b).

Fixpoint lookup_str {V} (k : string) (l : list (string * V)) : option V :=
  match l with
  | [] => None
  | (k', v) :: r => if String.eqb k k' then Some v else lookup_str k r
  end.

(* error_code / http_status through the regenerated `match` tables *)
Definition code (k : kind) : option bytes :=
  match lookup_str (kind_name k) src_error_code_table with
  | Some c => Some c
  | None => src_error_code_default
  end.

Definition status (k : kind) : option N :=
  match lookup_str (kind_name k) src_http_status_table with
  | Some c => Some c
  | None => src_http_status_default
  end.

(* From<Box<dyn Error>> / the downcast in get_signing_key: a SignatureError passes through
   unchanged, anything else becomes InternalServiceError. *)
Inductive boxed_error := BoxSig (k : kind) | BoxForeign.
Definition from_box (e : boxed_error) : kind :=
  match e with BoxSig k => k | BoxForeign => InternalServiceError end.
