(* Imperative-style ("line by line") models of the two index-based loops of src/canonical.rs:

     normalize_uri_element   (byte loop, index [i], look-ahead [i + 2 >= len])
     canonicalize_uri_path   (component loop, [Vec::remove], [i -= 1], [components[i] = ...])

   Model/Uri.v models the same two functions *structurally* ([normalize_elem] recurses on the
   remaining bytes, [path_loop] on the remaining components with an explicit stack); that
   translation is by hand.  Here every Rust statement has a counterpart: the loop variables are
   the Rust loop variables ([i], [result], [components]), vectors are lists accessed by index
   ([nth], [remove_nth], [set_nth]), appending is [++] at the end, and every implicit Rust
   bounds check / [assert!] is an explicit test that yields [Panic].  [while] loops become
   recursion on explicit fuel; running out of fuel is the distinguishable value [OutOfFuel].

   Proofs/UriImpProofs.v proves both loops equal to the structural models of Model/Uri.v for
   every input (never [Panic], never [OutOfFuel]).

   What is still taken over unchanged from Model/Uri.v and Base (library calls of the crate,
   not loops of the crate): [unreserved] (is_rfc3986_unreserved), [pct] ('%' + u8_to_upper_hex),
   [unhex2] (hex::decode of a two-byte slice), [collapse_slashes] (the regex "//+" replace_all),
   [split_on] (str::split), [join] (slice::join), [bytes_eqb] (== on str).

   No proofs in this file. *)
From Verif Require Import Base.Bytes Base.Hex Generated.SrcConsts Model.Uri.
From Coq Require Import Strings.Byte Arith.PeanoNat.
Local Open Scope byte_scope.

(* Outcome of running a piece of Rust code with a fuel bound on its loops.
   [Done r]    : the code returned [r] (for the functions below [r : option _],
                 [None] = [Err(InvalidURIPath/MalformedQueryString)], as in Model/Uri.v);
   [Panic]     : an index / slice / [remove] out of bounds, an integer underflow or a failed
                 [assert!] (Rust would unwind);
   [OutOfFuel] : the fuel given to a [while] loop did not suffice (an artefact of the model). *)
Inductive res (A : Type) : Type :=
| Done (r : A)
| Panic
| OutOfFuel.
Arguments Done {A} r.
Arguments Panic {A}.
Arguments OutOfFuel {A}.

Definition bind {A B} (x : res A) (k : A -> res B) : res B :=
  match x with
  | Done a => k a
  | Panic => Panic
  | OutOfFuel => OutOfFuel
  end.

(* ------------------------------------------------------------------------------------------ *)
(* Vec / slice primitives with their bounds checks                                             *)
(* ------------------------------------------------------------------------------------------ *)

(* the list [l] without its element at index [n] (total; [vec_remove] adds the bounds check) *)
Fixpoint remove_nth {A} (n : nat) (l : list A) : list A :=
  match l with
  | [] => []
  | x :: r => match n with O => r | S n' => x :: remove_nth n' r end
  end.

(* the list [l] with the element at index [n] replaced by [v] *)
Fixpoint set_nth {A} (n : nat) (v : A) (l : list A) : list A :=
  match l with
  | [] => []
  | x :: r => match n with O => v :: r | S n' => x :: set_nth n' v r end
  end.

(* [v[i]] (read): panics unless [i < v.len()] *)
Definition vec_get {A} (i : nat) (l : list A) (d : A) : res A :=
  if i <? List.length l then Done (nth i l d) else Panic.

(* [v.remove(i)]: panics unless [i < v.len()] *)
Definition vec_remove {A} (i : nat) (l : list A) : res (list A) :=
  if i <? List.length l then Done (remove_nth i l) else Panic.

(* [v[i] = x]: panics unless [i < v.len()] *)
Definition vec_set {A} (i : nat) (v : A) (l : list A) : res (list A) :=
  if i <? List.length l then Done (set_nth i v l) else Panic.

(* [i -= 1] on usize: panics (overflow check) when [i = 0] *)
Definition usize_dec (i : nat) : res nat :=
  match i with O => Panic | S j => Done j end.

(* ------------------------------------------------------------------------------------------ *)
(* normalize_uri_element                                                                       *)
(* ------------------------------------------------------------------------------------------ *)

(*  let path_component = uri_el.as_bytes();     [s]
    let mut i = 0;                              [i]
    let result = &mut Vec::<u8>::new();         [result]
    while i < path_component.len() { ... }      one unfolding of [normalize_loop] per iteration
    Ok(from_utf8(result.as_slice()).unwrap().to_string())                                      *)
Fixpoint normalize_loop (fuel : nat) (s : bytes) (i : nat) (result : bytes)
  : res (option bytes) :=
  match fuel with
  | O => OutOfFuel
  | S fuel' =>
      if i <? List.length s then                                (* while i < path_component.len() *)
        let c := nth i s x00 in                                 (* let c = path_component[i];     *)
        if unreserved c then                                    (* if is_rfc3986_unreserved(c)    *)
          normalize_loop fuel' s (i + 1) (result ++ [c])        (*   result.push(c); i += 1;      *)
        else if beqb c "%" then                                 (* else if c == b'%'              *)
          if List.length s <=? i + 2 then                       (*   if i + 2 >= len              *)
            Done None                                           (*     return Err(..)             *)
          else
            if negb (i + 3 <=? List.length s) then Panic        (*   &path_component[i+1..i+3]    *)
            else
              let h := nth (i + 1) s x00 in                     (*   hex_digits[0]                *)
              let l := nth (i + 2) s x00 in                     (*   hex_digits[1]                *)
              match unhex2 h l with                             (*   match hex::decode(hex_digits)*)
              | Some v =>                                       (*   Ok(value) => c = value[0]    *)
                  normalize_loop fuel' s (i + 3)                (*     i += 3                     *)
                    (result ++ (if unreserved v then [v]        (*     result.push(c)             *)
                                else pct v))                    (*     push '%', extend upper hex *)
              | None => Done None                               (*   Err(_) => return Err(..)     *)
              end
        else if beqb c "+" then                                 (* else if c == b'+'              *)
          normalize_loop fuel' s (i + 1) (result ++ s2b "%20")  (*   extend_from_slice(b"%20")    *)
        else                                                    (* else                           *)
          normalize_loop fuel' s (i + 1) (result ++ pct c)      (*   push '%', extend upper hex   *)
      else Done (Some result)                                   (* Ok(result)                     *)
  end.

(* [i] increases by at least one in every iteration that does not return and the loop is left
   as soon as [i >= len]; so there are at most [len] iterations plus the final failing test. *)
Definition normalize_elem_imp (s : bytes) : res (option bytes) :=
  normalize_loop (S (List.length s)) s 0 [].

(* ------------------------------------------------------------------------------------------ *)
(* canonicalize_uri_path                                                                       *)
(* ------------------------------------------------------------------------------------------ *)

(*  let mut i = 1;
    while i < components.len() { ... }          one unfolding of [path_loop_imp] per iteration *)
Fixpoint path_loop_imp (fuel : nat) (s3 : bool) (components : list bytes) (i : nat)
  : res (option (list bytes)) :=
  match fuel with
  | O => OutOfFuel
  | S fuel' =>
      if i <? List.length components then                       (* while i < components.len()     *)
        bind (vec_get i components []) (fun ci =>               (* &components[i]                 *)
        bind (normalize_elem_imp ci) (fun r =>                  (* normalize_uri_path_component   *)
        match r with
        | None => Done None                                     (* ...?                           *)
        | Some component =>
            if bytes_eqb component dot && negb s3 then          (* if component == "." && !s3     *)
              bind (vec_remove i components) (fun components => (*   components.remove(i);        *)
              path_loop_imp fuel' s3 components i)
            else if bytes_eqb component dotdot && negb s3 then  (* else if component == ".." && !s3 *)
              if i <=? 1 then Done None                         (*   if i <= 1 { return Err(..) } *)
              else
                bind (vec_remove (i - 1) components) (fun components =>  (* components.remove(i - 1); *)
                bind (vec_remove (i - 1) components) (fun components =>  (* components.remove(i - 1); *)
                bind (usize_dec i) (fun i =>                             (* i -= 1;                   *)
                path_loop_imp fuel' s3 components i)))
            else                                                (* else                           *)
              bind (vec_set i component components) (fun components => (* components[i] = component; *)
              path_loop_imp fuel' s3 components (i + 1))        (*   i += 1;                      *)
        end))
      else Done (Some components)
  end.

(* Fuel.  Let m = 2 * components.len() - i.  An iteration that does not return changes
   (len, i) to (len-1, i) ["."], (len-2, i-1) [".."] or (len, i+1) [other]; m decreases by
   2, 3 and 1 respectively, and an iteration only starts when i < len, i.e. m > len >= 0.
   Starting from i = 1 there are therefore fewer than 2 * len iterations, plus the final
   failing test [i < len]. *)
Definition canon_path_imp (s3 : bool) (p : bytes) : res (option bytes) :=
  if Nat.eqb (List.length p) 0 || bytes_eqb p slash then             (* uri_path.is_empty() || == "/"  *)
    Done (Some slash)
  else if negb (starts_with slash p) then                       (* !uri_path.starts_with('/')     *)
    Done None
  else
    let uri_path := if s3 then p else collapse_slashes p in     (* MULTISLASH.replace_all(.., "/") *)
    let components := split_on "/" uri_path in                  (* uri_path.split('/').collect()  *)
    bind (path_loop_imp (2 * List.length components + 2) s3 components 1) (fun r =>
    match r with
    | None => Done None
    | Some components =>
        if Nat.eqb (List.length components) 0 then Panic              (* assert!(!components.is_empty()) *)
        else
          match List.length components with                     (* match components.len()         *)
          | 1 => Done (Some slash)                              (*   1 => Ok("/")                 *)
          | _ => Done (Some (join slash components))            (*   _ => Ok(components.join("/")) *)
          end
    end).
