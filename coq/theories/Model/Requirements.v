(* Model of the SignedHeaderRequirements containers (canonical.rs:703-877).
   A requirement set is three lists of declared names (any letter case). *)
From Verif Require Import Base.Bytes.

Record reqs := { always_present : list bytes; if_in_request : list bytes; prefixes : list bytes }.

Definition no_reqs : reqs := {| always_present := []; if_in_request := []; prefixes := [] |}.

(* add_*: appended unless an element *equal to the lower-cased new name* is already there *)
Definition add_name (l : list bytes) (h : bytes) : list bytes :=
  if mem_bytes (lower h) l then l else l ++ [h].

(* remove_*: retain elements whose lower-casing differs from the lower-cased name *)
Definition remove_name (l : list bytes) (h : bytes) : list bytes :=
  filter (fun x => negb (bytes_eqb (lower x) (lower h))) l.

Inductive req_op :=
| AddAlways (h : bytes) | AddIfReq (h : bytes) | AddPrefix (h : bytes)
| RemAlways (h : bytes) | RemIfReq (h : bytes) | RemPrefix (h : bytes).

Definition apply_op (r : reqs) (o : req_op) : reqs :=
  match o with
  | AddAlways h => {| always_present := add_name (always_present r) h; if_in_request := if_in_request r; prefixes := prefixes r |}
  | AddIfReq h => {| always_present := always_present r; if_in_request := add_name (if_in_request r) h; prefixes := prefixes r |}
  | AddPrefix h => {| always_present := always_present r; if_in_request := if_in_request r; prefixes := add_name (prefixes r) h |}
  | RemAlways h => {| always_present := remove_name (always_present r) h; if_in_request := if_in_request r; prefixes := prefixes r |}
  | RemIfReq h => {| always_present := always_present r; if_in_request := remove_name (if_in_request r) h; prefixes := prefixes r |}
  | RemPrefix h => {| always_present := always_present r; if_in_request := if_in_request r; prefixes := remove_name (prefixes r) h |}
  end.

Definition apply_ops (r : reqs) (ops : list req_op) : reqs := fold_left apply_op ops r.
