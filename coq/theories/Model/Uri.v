(* Model of the URI element / path canonicalisation of src/canonical.rs:
     is_rfc3986_unreserved, u8_to_upper_hex, normalize_uri_element (1131),
     canonicalize_uri_path (917), unescape_uri_encoding (1319).
   No proofs in this file. *)
From Verif Require Import Base.Bytes Base.Hex Generated.SrcConsts.
From Coq Require Import Strings.Byte.
Local Open Scope byte_scope.

(* is_rfc3986_unreserved: the boolean expression is regenerated from the source. *)
Definition unreserved (c : byte) : bool := src_is_rfc3986_unreserved c.

(* u8_to_upper_hex over the regenerated HEX_DIGITS_UPPER table. *)
Definition upper_hex_src (b : byte) : bytes :=
  [nth (N.to_nat (b2n b / 16)) src_HEX_DIGITS_UPPER x00;
   nth (N.to_nat (b2n b mod 16)) src_HEX_DIGITS_UPPER x00].

Definition pct (b : byte) : bytes := "%" :: upper_hex_src b.

(* normalize_uri_element.  [None] = the error of the element type
   (InvalidURIPath / MalformedQueryString); the two element types differ only in that kind.
   The byte loop with index [i] becomes structural recursion with a two-byte look-ahead:
   [i + 2 >= len] (incomplete escape) is "fewer than two bytes follow the '%'". *)
Fixpoint normalize_elem (s : bytes) : option bytes :=
  match s with
  | [] => Some []
  | c :: r =>
      if unreserved c then option_map (cons c) (normalize_elem r)
      else if beqb c "%" then
        match r with
        | h :: l :: r' =>
            match unhex2 h l with
            | Some v =>
                option_map (app (if unreserved v then [v] else pct v)) (normalize_elem r')
            | None => None
            end
        | _ => None
        end
      else if beqb c "+" then option_map (app (s2b "%20")) (normalize_elem r)
      else option_map (app (pct c)) (normalize_elem r)
  end.

(* MULTISLASH.replace_all(path, "/"): every maximal run of two or more '/' becomes one '/'. *)
Fixpoint collapse_slashes (s : bytes) : bytes :=
  match s with
  | [] => []
  | c :: r =>
      if beqb c "/" then
        match r with
        | c' :: _ => if beqb c' "/" then collapse_slashes r else c :: collapse_slashes r
        | [] => [c]
        end
      else c :: collapse_slashes r
  end.

Definition dot : bytes := ["."].
Definition dotdot : bytes := ["."; "."].

(* The component loop.  [stack] holds the kept, normalised components components[1..i)
   in reverse order.  [None] = InvalidURIPath. *)
Fixpoint path_loop (s3 : bool) (comps : list bytes) (stack : list bytes) : option (list bytes) :=
  match comps with
  | [] => Some (rev stack)
  | c :: rest =>
      match normalize_elem c with
      | None => None
      | Some n =>
          if negb s3 && bytes_eqb n dot then path_loop s3 rest stack
          else if negb s3 && bytes_eqb n dotdot then
            match stack with
            | [] => None                    (* i <= 1: navigates above root *)
            | _ :: stack' => path_loop s3 rest stack'
            end
          else path_loop s3 rest (n :: stack)
      end
  end.

Definition slash : bytes := ["/"].

(* canonicalize_uri_path.  [None] = Err(InvalidURIPath). *)
Definition canon_path (s3 : bool) (p : bytes) : option bytes :=
  match p with
  | [] => Some slash
  | c :: r =>
      if bytes_eqb p slash then Some slash
      else if negb (beqb c "/") then None
      else
        let p' := if s3 then p else collapse_slashes p in
        match split_on "/" p' with
        | [] => Some slash                       (* unreachable: split yields >= 1 piece *)
        | _ :: comps =>
            match path_loop s3 comps [] with
            | None => None
            | Some [] => Some slash
            | Some kept => Some ("/" :: join slash kept)
            end
        end
  end.

(* unescape_uri_encoding on a *normalised* element: every %XY becomes the char U+00XY, i.e.
   (as UTF-8) one byte below 0x80 and two bytes above; other bytes likewise.
   [None] = the documented panic on a malformed escape. *)
Definition latin1_char (b : byte) : bytes :=
  if N.ltb (b2n b) 128 then [b]
  else [n2b (192 + b2n b / 64); n2b (128 + b2n b mod 64)].

Fixpoint unescape (s : bytes) : option bytes :=
  match s with
  | [] => Some []
  | c :: r =>
      if beqb c "%" then
        match r with
        | h :: l :: r' =>
            match unhex2 h l with
            | Some v => option_map (app (latin1_char v)) (unescape r')
            | None => None
            end
        | _ => None
        end
      else option_map (app (latin1_char c)) (unescape r)
  end.
