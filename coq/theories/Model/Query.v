(* Model of query_string_to_normalized_map (canonical.rs:1205) and
   canonicalize_query_to_string (896, as repaired: sorts (name, value) pairs).
   HashMap<String, Vec<String>> is an association list keyed by the normalised name (first
   occurrence order) with values in arrival order.  No proofs in this file. *)
From Verif Require Import Base.Bytes Model.Uri Generated.SrcConsts.
From Coq Require Import Strings.Byte.

Definition qmap := list (bytes * list bytes).

Fixpoint qmap_push (k v : bytes) (m : qmap) : qmap :=
  match m with
  | [] => [(k, [v])]
  | (k', vs) :: r =>
      if bytes_eqb k k' then (k', vs ++ [v]) :: r else (k', vs) :: qmap_push k v r
  end.

Definition is_nil {A} (l : list A) : bool := match l with [] => true | _ => false end.

(* one `name[=value]` component; [None] = MalformedQueryString *)
Definition parse_component (c : bytes) : option (bytes * bytes) :=
  let kv := match split_once "="%byte c with Some kv => kv | None => (c, []) end in
  match normalize_elem (fst kv) with
  | None => None
  | Some nk =>
      match normalize_elem (snd kv) with
      | None => None
      | Some nv => Some (nk, nv)
      end
  end.

Fixpoint parse_components (cs : list bytes) (m : qmap) : option qmap :=
  match cs with
  | [] => Some m
  | c :: r =>
      if is_nil c then parse_components r m
      else match parse_component c with
           | None => None
           | Some (k, v) => parse_components r (qmap_push k v m)
           end
  end.

Definition query_map (q : bytes) : option qmap :=
  if is_nil q then Some [] else parse_components (split_on "&"%byte q) [].

(* HashMap::get *)
Definition qget (k : bytes) (m : qmap) : option (list bytes) := assoc k m.

(* the repaired form folding: body values are appended per name *)
Definition qmap_extend (m body : qmap) : qmap :=
  fold_left (fun acc kv => fold_left (fun acc' v => qmap_push (fst kv) v acc') (snd kv) acc) body m.

Definition pair_leb (a b : bytes * bytes) : bool :=
  match bytes_cmp (fst a) (fst b) with
  | Lt => true
  | Gt => false
  | Eq => bytes_leb (snd a) (snd b)
  end.

Fixpoint insert_pair (x : bytes * bytes) (l : list (bytes * bytes)) : list (bytes * bytes) :=
  match l with
  | [] => [x]
  | y :: r => if pair_leb x y then x :: l else y :: insert_pair x r
  end.

Definition sort_pairs (l : list (bytes * bytes)) : list (bytes * bytes) :=
  fold_right insert_pair [] l.

Definition flatten (m : qmap) : list (bytes * bytes) :=
  flat_map (fun kv => map (fun v => (fst kv, v)) (snd kv)) m.

Definition render_pair (kv : bytes * bytes) : bytes := fst kv ++ "="%byte :: snd kv.

(* [order] stands for the HashMap iteration order: any permutation of the entries *)
Definition canon_query_in_order (order : qmap) : bytes :=
  let kept := filter (fun kv => negb (bytes_eqb (fst kv) src_canonical_X_AMZ_SIGNATURE)) order in
  join ["&"%byte] (map render_pair (sort_pairs (flatten kept))).

Definition canon_query (m : qmap) : bytes := canon_query_in_order m.
