(* Model of the validation pipeline: CanonicalRequest::from_request_parts, get_auth_parameters*,
   get_authenticator_from_auth_parameters (canonical.rs), prevalidate, get_string_to_sign,
   get_signing_key, validate_signature (auth.rs), sigv4_validate_request (signature.rs).
   Written against the repaired tree (D2, D4, D5, D6).  No proofs in this file. *)
From Verif Require Import Base.Bytes Base.Hex Base.Utf8 Crypto.Hmac Time.Calendar Time.Iso8601 Time.Render.
From Verif Require Import Generated.SrcConsts Model.Errors Model.Uri Model.Query Model.Headers Model.Labels
  Model.Requirements.
From Coq Require Import Strings.Byte.

(* ---- results with explicit panics ---- *)
Inductive res (A : Type) := Ok (a : A) | Err (k : kind) | Panic (site : N).
Arguments Ok {A} a.
Arguments Err {A} k.
Arguments Panic {A} site.

Definition bind {A B} (r : res A) (f : A -> res B) : res B :=
  match r with Ok a => f a | Err k => Err k | Panic s => Panic s end.
Notation "x <- r ;; k" := (bind r (fun x => k)) (at level 61, r at next level, right associativity).

Definition of_opt {A} (k : kind) (o : option A) : res A :=
  match o with Some a => Ok a | None => Err k end.

(* panic sites (numbers only label the source location) *)
Definition site_uri_rebuild : N := 1.        (* canonical.rs Uri::builder()...expect  (removed by the D6 repair) *)
Definition site_builder_build : N := 2.      (* canonical.rs builder.build().expect("all fields should be set") *)
Definition site_unescape : N := 3.           (* unescape_uri_encoding on a malformed escape *)
Definition site_access_key : N := 4.         (* auth.rs split('/').next().expect *)
Definition site_cscope : N := 5.             (* auth.rs split_once('/').expect *)
Definition site_gsk_build : N := 6.          (* auth.rs GetSigningKeyRequest builder expect *)

(* ---- inputs ---- *)
Record request := {
  rq_method : bytes;
  rq_path : bytes;                       (* uri.path() *)
  rq_query : option bytes;               (* uri.query() *)
  rq_uri : bytes;                        (* the URI as submitted (pass-through) *)
  rq_version : N;                        (* pass-through *)
  rq_headers : list (bytes * bytes);     (* (wire name, raw value), arrival order *)
  rq_body : bytes;
  rq_decoded : option bytes              (* oracle: body decoded by a non-UTF-8 known charset *)
}.

Record config := {
  cf_region : bytes;
  cf_service : bytes;
  cf_now : Z;                            (* server time, ns since the Unix epoch *)
  cf_reqs : reqs;
  cf_s3 : bool;
  cf_fold : bool
}.

Record gsk_request := {
  g_access_key : bytes;
  g_token : option bytes;
  g_date : Z * Z * Z;
  g_region : bytes;
  g_service : bytes
}.

Inductive gsk_answer :=
| AnsOk (key principal session : bytes)
| AnsErr (e : boxed_error).

Record provider := {
  pv_ready_pending : nat;                (* poll_ready returns Pending this many times first *)
  pv_ready : option boxed_error;         (* then Ready(Err e) or Ready(Ok) *)
  pv_call_pending : nat;                 (* the returned future is Pending this many times *)
  pv_answer : gsk_request -> gsk_answer
}.

(* ---- canonical request construction ---- *)
Record canonical := {
  cr_method : bytes;
  cr_path : bytes;
  cr_query : qmap;
  cr_headers : hmap;
  cr_body_sha256 : bytes
}.

Record parts := {
  pt_method : bytes;
  pt_uri : bytes;
  pt_version : N;
  pt_headers : list (bytes * bytes)
}.

Definition max_uri_len : N := 65534%N.

Section PIPELINE.
  Variable H : bytes -> bytes.

  Definition sha256_hex (b : bytes) : bytes := lower_hex (H b).

  (* from_request_parts *)
  Definition from_request_parts (rq : request) (cf : config) : res (canonical * parts * bytes) :=
    path <- of_opt InvalidURIPath (canon_path (cf_s3 cf) (rq_path rq)) ;;
    let ct := content_type_charset (rq_headers rq) in
    qm <- of_opt MalformedQueryString (query_map (match rq_query rq with Some q => q | None => [] end)) ;;
    let unfolded :=
      Ok (qm, {| pt_method := rq_method rq; pt_uri := rq_uri rq; pt_version := rq_version rq;
                 pt_headers := rq_headers rq |}, rq_body rq) in
    folded <-
      (if cf_fold cf then
         match ct with
         | Some (ctype, charset) =>
             if bytes_eqb ctype src_canonical_APPLICATION_X_WWW_FORM_URLENCODED then
               cls <- (match charset with
                       | None => Ok CsUtf8
                       | Some cs => match classify_label (flat_map latin1_char cs) with
                                    | CsUnknown => Err InvalidBodyEncoding
                                    | c => Ok c
                                    end
                       end) ;;
               decoded <- of_opt InvalidBodyEncoding
                            (match cls with
                             | CsUtf8 => if utf8_valid (rq_body rq) then Some (rq_body rq) else None
                             | _ => rq_decoded rq
                             end) ;;
               bm <- of_opt MalformedQueryString (query_map decoded) ;;
               let merged := qmap_extend qm bm in
               let qs := canon_query merged in
               let pq := path ++ (if is_nil qs then [] else "?"%byte :: qs) in
               if N.ltb max_uri_len (N.of_nat (length pq)) then Err MalformedQueryString
               else Ok (merged, {| pt_method := rq_method rq; pt_uri := pq; pt_version := rq_version rq;
                                   pt_headers := rq_headers rq |}, [])
             else unfolded
         | None => unfolded
         end
       else unfolded) ;;
    let '(qm', pts, body') := folded in
    Ok ({| cr_method := rq_method rq; cr_path := path; cr_query := qm';
           cr_headers := normalize_headers (rq_headers rq); cr_body_sha256 := sha256_hex body' |},
        pts, body').

  (* canonical_request(signed_headers) *)
  Definition header_lines (hm : hmap) (signed : list bytes) : bytes :=
    flat_map (fun h => match hget h hm with
                       | Some (v :: vs) => h ++ ":"%byte :: join [","%byte] (v :: vs) ++ [x0a]
                       | Some [] => [x0a]
                       | None => []
                       end) signed.

  Definition nl : bytes := [x0a].

  Definition canonical_request (cr : canonical) (signed : list bytes) : bytes :=
    cr_method cr ++ nl ++ cr_path cr ++ nl ++ canon_query (cr_query cr) ++ nl ++
    header_lines (cr_headers cr) signed ++ nl ++ join [";"%byte] signed ++ nl ++ cr_body_sha256 cr.

  (* ---- authentication parameters ---- *)
  Record auth_params := {
    ap_credential : bytes;
    ap_signature : bytes;
    ap_token : option bytes;
    ap_signed : list bytes;
    ap_timestamp : bytes
  }.

  Definition latin1 (s : bytes) : bytes := flat_map latin1_char s.

  Fixpoint insert_sorted (x : bytes) (l : list bytes) : list bytes :=
    match l with
    | [] => [x]
    | y :: r => if bytes_leb x y then x :: l else y :: insert_sorted x r
    end.
  Definition sort_bytes (l : list bytes) : list bytes := fold_right insert_sorted [] l.

  (* HashMap::insert on the parameter map: last value wins *)
  Fixpoint pmap_insert (k v : bytes) (m : list (bytes * bytes)) : list (bytes * bytes) :=
    match m with
    | [] => [(k, v)]
    | (k', v') :: r => if bytes_eqb k k' then (k', v) :: r else (k', v') :: pmap_insert k v r
    end.

  Fixpoint parse_auth_params (ps : list bytes) (m : list (bytes * bytes)) : res (list (bytes * bytes)) :=
    match ps with
    | [] => Ok m
    | p :: r =>
        let p := trim_ascii p in
        if is_nil p then parse_auth_params r m
        else match split_once "="%byte p with
             | None => Err IncompleteSignature                    (* rule 6b *)
             | Some (k, v) => parse_auth_params r (pmap_insert k v m)
             end
    end.

  Definition first_value (o : option (list bytes)) : option bytes :=
    match o with Some (v :: _) => Some v | _ => None end.

  Definition auth_params_from_header (cr : canonical) (auth_header : bytes) : res auth_params :=
    let h := trim_ascii auth_header in
    let ap := match split_once " "%byte h with Some ap => ap | None => (h, []) end in
    if negb (bytes_eqb (fst ap) src_canonical_AWS4_HMAC_SHA256_BYTES) then Err IncompleteSignature   (* 6a *)
    else
      pm <- parse_auth_params (split_on ","%byte (snd ap)) [] ;;
      let cred := assoc src_canonical_CREDENTIAL pm in
      let sig := assoc src_canonical_SIGNATURE pm in
      let sh := assoc src_canonical_SIGNED_HEADERS pm in
      let date :=
        match hget src_canonical_X_AMZ_DATE_LOWER (cr_headers cr) with
        | Some vs => first_value (Some vs)
        | None => first_value (hget src_canonical_DATE (cr_headers cr))
        end in
      match cred, sig, sh, date with
      | Some c, Some s, Some shv, Some d =>
          Ok {| ap_credential := latin1 c;
                ap_signature := latin1 s;
                ap_token := option_map latin1 (first_value (hget src_canonical_X_AMZ_SECURITY_TOKEN_LOWER (cr_headers cr)));
                ap_signed := sort_bytes (map latin1 (split_on ";"%byte shv));
                ap_timestamp := latin1 d |}
      | _, _, _, _ => Err IncompleteSignature                      (* 6d *)
      end.

  Definition unescape_or_panic (v : bytes) : res bytes :=
    match unescape v with Some x => Ok x | None => Panic site_unescape end.

  Definition auth_params_from_query (cr : canonical) (alg : bytes) : res auth_params :=
    if negb (bytes_eqb alg src_canonical_AWS4_HMAC_SHA256) then Err MissingAuthenticationToken      (* 7a *)
    else
      let q k := first_value (qget k (cr_query cr)) in
      match q src_canonical_X_AMZ_CREDENTIAL, q src_canonical_X_AMZ_SIGNATURE,
            q src_canonical_X_AMZ_SIGNED_HEADERS, q src_canonical_X_AMZ_DATE with
      | Some c, Some s, Some shv, Some d =>
          c' <- unescape_or_panic c ;;
          s' <- unescape_or_panic s ;;
          sh' <- unescape_or_panic shv ;;
          d' <- unescape_or_panic d ;;
          tok <- (match q src_canonical_X_AMZ_SECURITY_TOKEN with
                  | Some t => t' <- unescape_or_panic t ;; Ok (Some t')
                  | None => Ok None
                  end) ;;
          Ok {| ap_credential := c'; ap_signature := s'; ap_token := tok;
                ap_signed := sort_bytes (split_on ";"%byte sh');
                ap_timestamp := d' |}
      | _, _, _, _ => Err IncompleteSignature                      (* 7d *)
      end.

  Definition host_b : bytes := s2b "host".
  Definition authority_b : bytes := s2b ":authority".

  (* the three requirement loops; [keys] is the HashMap key iteration order *)
  Definition reqs_ok (rs : reqs) (hm : hmap) (signed : list bytes) : bool :=
    forallb (fun a => mem_bytes (lower a) signed) (always_present rs)
    && forallb (fun c => negb (match hget (lower c) hm with Some _ => true | None => false end)
                         || mem_bytes (lower c) signed) (if_in_request rs)
    && forallb (fun p => forallb (fun kv => negb (starts_with (lower p) (fst kv)) || mem_bytes (fst kv) signed) hm)
               (prefixes rs).

  (* rule 5: carrier selection; rules 6a-6d / 7a-7d *)
  Definition carrier_params (cr : canonical) : res auth_params :=
    let auth := hget src_canonical_AUTHORIZATION (cr_headers cr) in
    let alg := qget src_canonical_X_AMZ_ALGORITHM (cr_query cr) in
    match auth, alg with
    | Some (a :: _), None => auth_params_from_header cr a
    | None, Some (a :: _) => auth_params_from_query cr a
    | Some _, Some _ => Err SignatureDoesNotMatch
    | None, None => Err MissingAuthenticationToken
    | _, _ => Panic 7                                      (* empty value vector: unreachable *)
    end.

  Definition host_signed (signed : list bytes) : bool :=
    mem_bytes host_b signed || mem_bytes authority_b signed.

  Definition get_auth_parameters (cr : canonical) (rs : reqs) : res auth_params :=
    ap <- carrier_params cr ;;
    if negb (host_signed (ap_signed ap)) then Err SignatureDoesNotMatch                 (* rule 8 *)
    else if negb (reqs_ok rs (cr_headers cr) (ap_signed ap)) then Err SignatureDoesNotMatch
    else Ok ap.

  (* ---- authenticator ---- *)
  Record authenticator := {
    au_creq_sha256 : bytes;
    au_credential : bytes;
    au_token : option bytes;
    au_signature : bytes;
    au_timestamp : Z
  }.

  Definition get_authenticator (cr : canonical) (rs : reqs) : res authenticator :=
    ap <- get_auth_parameters cr rs ;;
    ts <- of_opt IncompleteSignature (parse_iso8601 (ap_timestamp ap)) ;;             (* rule 9 *)
    Ok {| au_creq_sha256 := H (canonical_request cr (ap_signed ap));
          au_credential := ap_credential ap; au_token := ap_token ap;
          au_signature := ap_signature ap; au_timestamp := ts |}.

  Definition allowed_mismatch_ns : Z := src_allowed_mismatch_ns.

  Definition prevalidate (au : authenticator) (region service : bytes) (now mismatch : Z) : res unit :=
    let t := au_timestamp au in
    if Z.ltb t (now - mismatch) then Err SignatureDoesNotMatch                      (* rule 10 *)
    else if Z.ltb (now + mismatch) t then Err SignatureDoesNotMatch                 (* rule 11 *)
    else
      match split_on "/"%byte (au_credential au) with
      | [_; d; r; s; term] =>
          if bytes_eqb r region && bytes_eqb s service && bytes_eqb term src_auth_AWS4_REQUEST
             && bytes_eqb d (yyyymmdd t)
          then Ok tt else Err SignatureDoesNotMatch                                  (* rule 13 *)
      | _ => Err IncompleteSignature                                                 (* rule 12 *)
      end.

  Definition string_to_sign (au : authenticator) : res bytes :=
    match split_once "/"%byte (au_credential au) with
    | None => Panic site_cscope
    | Some (_, cscope) =>
        Ok (src_auth_AWS4_HMAC_SHA256 ++ nl ++ render_compact (au_timestamp au) ++ nl ++ cscope ++ nl
            ++ lower_hex (au_creq_sha256 au))
    end.

  Definition gsk_request_of (au : authenticator) (region service : bytes) : gsk_request :=
    {| g_access_key := match split_on "/"%byte (au_credential au) with a :: _ => a | [] => [] end;
       g_token := au_token au;
       g_date := civil_of_days (day_of_instant (au_timestamp au));
       g_region := region; g_service := service |}.

  (* tower oneshot: poll_ready to completion, then one call, then the future to completion *)
  Definition oneshot (pv : provider) (rq : gsk_request) : list gsk_request * gsk_answer :=
    match pv_ready pv with
    | Some e => ([], AnsErr e)
    | None => ([rq], pv_answer pv rq)
    end.

  (* subtle::ConstantTimeEq for slices: 0 on a length mismatch, else or-fold of byte xors *)
  Definition ct_eq (a b : bytes) : bool :=
    Nat.eqb (length a) (length b)
    && N.eqb (fold_left (fun acc p => N.lor acc (N.lxor (b2n (fst p)) (b2n (snd p)))) (combine a b) 0%N) 0%N.

  Inductive outcome :=
  | Accepted (p : parts) (body principal session : bytes)
  | Refused (k : kind)
  | Panicked (site : N).

  Definition validate_signature (au : authenticator) (cf : config) (pv : provider)
    : list gsk_request * res (bytes * bytes) :=
    match prevalidate au (cf_region cf) (cf_service cf) (cf_now cf) allowed_mismatch_ns with
    | Err k => ([], Err k)
    | Panic s => ([], Panic s)
    | Ok _ =>
        match string_to_sign au with
        | Err k => ([], Err k)
        | Panic s => ([], Panic s)
        | Ok sts =>
            let '(calls, ans) := oneshot pv (gsk_request_of au (cf_region cf) (cf_service cf)) in
            match ans with
            | AnsErr e => (calls, Err (from_box e))
            | AnsOk key principal session =>
                let expected := lower_hex (hmac H key sts) in
                if ct_eq (au_signature au) expected then (calls, Ok (principal, session))
                else (calls, Err SignatureDoesNotMatch)
            end
        end
    end.

  (* sigv4_validate_request *)
  Definition validate (rq : request) (cf : config) (pv : provider) : list gsk_request * outcome :=
    match from_request_parts rq cf with
    | Err k => ([], Refused k)
    | Panic s => ([], Panicked s)
    | Ok (cr, pts, body) =>
        match get_authenticator cr (cf_reqs cf) with
        | Err k => ([], Refused k)
        | Panic s => ([], Panicked s)
        | Ok au =>
            let '(calls, r) := validate_signature au cf pv in
            (calls, match r with
                    | Ok (principal, session) => Accepted pts body principal session
                    | Err k => Refused k
                    | Panic s => Panicked s
                    end)
        end
    end.
End PIPELINE.
