(* Leakage model of the signature comparison (property C07): what an observer of the executed
   instruction sequence learns.  A comparison returns its verdict together with the list of
   abstract machine steps it took; the steps of the constant-time comparison depend only on the
   lengths of its operands, those of an early-exit comparison on the position of the first
   difference.  No proofs in this file. *)
From Verif Require Import Base.Bytes Base.Hex Crypto.Hmac Model.Errors Model.Validate.
From Coq Require Import Strings.Byte.

Inductive step :=
| StLen (equal : bool)        (* the length test and its outcome *)
| StByte                      (* one byte pair combined (xor / or), no branch on data *)
| StBranch (taken : bool).    (* a data-dependent branch and the way it went *)

(* subtle::ConstantTimeEq for slices: one length test, then every pair is visited *)
Definition ct_eq_steps (a b : bytes) : list step :=
  StLen (Nat.eqb (length a) (length b))
  :: (if Nat.eqb (length a) (length b) then map (fun _ => StByte) (combine a b) else []).

Definition ct_eq_leaky (a b : bytes) : bool * list step := (ct_eq a b, ct_eq_steps a b).

(* slice == / memcmp with a byte-wise early exit: stops at the first differing pair *)
Fixpoint early_exit_steps (a b : bytes) : list step :=
  match a, b with
  | x :: a', y :: b' => if beqb x y then StBranch false :: early_exit_steps a' b' else [StBranch true]
  | _, _ => []
  end.

Definition early_exit_leaky (a b : bytes) : bool * list step :=
  (bytes_eqb a b,
   StLen (Nat.eqb (length a) (length b)) :: (if Nat.eqb (length a) (length b) then early_exit_steps a b else [])).

(* how the source's comparison expression (regenerated into Generated/SrcConsts.v) is classified *)
Inductive comparator := CmpCtEq | CmpOther.

Section LEAK.
  Variable H : bytes -> bytes.

  (* the steps of validate_signature that depend on the presented signature: only the final
     comparison does (everything before it is a function of the other authenticator fields) *)
  Definition validate_signature_steps (au : authenticator) (cf : config) (pv : provider) : list step :=
    match prevalidate au (cf_region cf) (cf_service cf) (cf_now cf) allowed_mismatch_ns with
    | Ok _ =>
        match string_to_sign au with
        | Ok sts =>
            match snd (oneshot pv (gsk_request_of au (cf_region cf) (cf_service cf))) with
            | AnsOk key _ _ => ct_eq_steps (au_signature au) (lower_hex (hmac H key sts))
            | AnsErr _ => []
            end
        | _ => []
        end
    | _ => []
    end.
End LEAK.
