(* Model of signing_key.rs: KSecretKey<M> (fixed buffer + stored length) and the HMAC chain.
   Theorems are for an arbitrary hash [H]; [from_str] follows the repaired code (D3). *)
From Verif Require Import Base.Bytes Crypto.Hmac Time.Render Generated.SrcConsts.

Record ksecret := { ks_buf : bytes; ks_len : nat }.

Inductive from_str_result := FsOk (k : ksecret) | FsKeyTooLong | FsPanic.

Definition aws4 : bytes := s2b "AWS4".

(* FromStr for KSecretKey<M> *)
Definition from_str (M : nat) (raw : bytes) : from_str_result :=
  let len := length raw in
  if Nat.ltb M (len + 4) then FsKeyTooLong
  else FsOk {| ks_buf := aws4 ++ raw ++ repeat x00 (M - 4 - len); ks_len := len + 4 |}.

(* AsRef<[u8]>: &prefixed_key[4..len] *)
Definition secret_as_ref (k : ksecret) : bytes := firstn (ks_len k - 4) (skipn 4 (ks_buf k)).

Section KEYS.
  Variable H : bytes -> bytes.
  Let mac := hmac H.

  (* date is the civil date (y, m, d); formatted %Y%m%d *)
  Definition to_kdate (k : ksecret) (date : Z * Z * Z) : bytes := mac (ks_buf k) (yyyymmdd_of_civil date).
  Definition kdate_to_kregion (kd region : bytes) : bytes := mac kd region.
  Definition kregion_to_kservice (kr service : bytes) : bytes := mac kr service.
  Definition kservice_to_ksigning (ksv : bytes) : bytes := mac ksv src_signing_key_AWS4_REQUEST.

  (* the shortcut methods, composed exactly as in the source *)
  Definition kregion_to_ksigning (kr service : bytes) := kservice_to_ksigning (kregion_to_kservice kr service).
  Definition kdate_to_kservice (kd region service : bytes) := kregion_to_kservice (kdate_to_kregion kd region) service.
  Definition kdate_to_ksigning (kd region service : bytes) := kregion_to_ksigning (kdate_to_kregion kd region) service.
  Definition to_kregion (k : ksecret) date region := kdate_to_kregion (to_kdate k date) region.
  Definition to_kservice (k : ksecret) date region service := kdate_to_kservice (to_kdate k date) region service.
  Definition to_ksigning (k : ksecret) date region service := kdate_to_ksigning (to_kdate k date) region service.
End KEYS.
