(* Model of normalize_header_value (1076), normalize_headers (1061),
   get_content_type_and_charset (1005).  No proofs in this file. *)
From Verif Require Import Base.Bytes Generated.SrcConsts.
From Coq Require Import Strings.Byte.

Definition is_space (b : byte) : bool := beqb b " "%byte.

(* the loop: leading spaces dropped, runs collapsed ([last] = last_was_space) *)
Fixpoint nhv_loop (v : bytes) (last : bool) : bytes :=
  match v with
  | [] => []
  | c :: r =>
      if is_space c then (if last then nhv_loop r true else c :: nhv_loop r true)
      else c :: nhv_loop r false
  end.

(* then trailing spaces popped (at most one remains after the loop) *)
Definition norm_value (v : bytes) : bytes := trim_end is_space (nhv_loop v true).

Definition hmap := list (bytes * list bytes).

Fixpoint hmap_push (k v : bytes) (m : hmap) : hmap :=
  match m with
  | [] => [(k, [v])]
  | (k', vs) :: r =>
      if bytes_eqb k k' then (k', vs ++ [v]) :: r else (k', vs) :: hmap_push k v r
  end.

(* headers arrive as (wire name, raw value) in arrival order; `http` lower-cases names and
   the code lower-cases again *)
Definition normalize_headers (hs : list (bytes * bytes)) : hmap :=
  fold_left (fun m nv => hmap_push (lower (fst nv)) (norm_value (snd nv)) m) hs [].

Definition hget (k : bytes) (m : hmap) : option (list bytes) := assoc k m.

(* HeaderMap::get(name): the first raw value of that name *)
Fixpoint first_raw (name : bytes) (hs : list (bytes * bytes)) : option bytes :=
  match hs with
  | [] => None
  | (n, v) :: r => if bytes_eqb (lower n) name then Some v else first_raw name r
  end.

(* the options after the media type: first `charset=value` wins; `charset` without '=' is skipped *)
Fixpoint find_charset (opts : list bytes) : option bytes :=
  match opts with
  | [] => None
  | o :: r =>
      let o := trim_ascii o in
      match split_once "="%byte o with
      | Some (n, v) => if bytes_eqb (lower n) src_canonical_CHARSET then Some v else find_charset r
      | None => find_charset r
      end
  end.

(* (content type, charset) as raw Latin-1 bytes *)
Definition content_type_charset (hs : list (bytes * bytes)) : option (bytes * option bytes) :=
  match first_raw src_canonical_CONTENT_TYPE hs with
  | None => None
  | Some v =>
      match split_on ";"%byte v with
      | [] => None                                  (* unreachable *)
      | ct :: opts => Some (trim_ascii ct, find_charset opts)
      end
  end.
