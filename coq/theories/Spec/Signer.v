(* Reference SigV4 string-to-sign of a request as received, assembled from the *specification*
   normal forms (PathSpec, QuerySpec, the header rule below), for an arbitrary hash. *)
From Verif Require Import Base.Bytes Base.Hex Spec.PathSpec Spec.QuerySpec.
From Coq Require Import Strings.Byte.

(* SigV4 "Trimall": split on spaces, drop empties, join with one space *)
Definition spec_trimall (v : bytes) : bytes :=
  join [" "%byte] (filter (fun p => negb (is_nil p)) (split_on " "%byte v)).

(* values of header [name] (lower-case) in arrival order *)
Definition values_of (name : bytes) (hs : list (bytes * bytes)) : list bytes :=
  map snd (filter (fun nv => bytes_eqb (lower (fst nv)) name) hs).

Definition spec_header_block (hs : list (bytes * bytes)) (signed : list bytes) : bytes :=
  flat_map (fun n => match values_of n hs with
                     | [] => []
                     | vs => n ++ ":"%byte :: join [","%byte] (map spec_trimall vs) ++ [x0a]
                     end) signed.

Section SPEC.
  Variable H : bytes -> bytes.

  Definition spec_canonical_request (method path query : bytes) (hs : list (bytes * bytes))
             (signed : list bytes) (payload : bytes) : bytes :=
    method ++ [x0a] ++ path ++ [x0a] ++ query ++ [x0a] ++ spec_header_block hs signed ++ [x0a]
    ++ join [";"%byte] signed ++ [x0a] ++ lower_hex (H payload).

  Definition spec_string_to_sign (timestamp scope creq : bytes) : bytes :=
    s2b "AWS4-HMAC-SHA256" ++ [x0a] ++ timestamp ++ [x0a] ++ scope ++ [x0a] ++ lower_hex (H creq).
End SPEC.
