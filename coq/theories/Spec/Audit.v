(* Audited static facts about the source text (regenerated into Generated/SrcConsts.v on every run):
   the comparison expression forms that are constant-time, the identifiers that carry key material,
   and the inventory of panic-capable sites for which an unreachability argument exists. *)
From Coq Require Import String List.
Import ListNotations.
Local Open Scope string_scope.

(* C07: spellings of the final comparison that go through subtle::ConstantTimeEq *)
Definition ct_compare_forms : list string :=
  ["signature_bytes.ct_eq(expected_signature_bytes).into()";
   "expected_signature_bytes.ct_eq(signature_bytes).into()";
   "bool::from(signature_bytes.ct_eq(expected_signature_bytes))";
   "bool::from(expected_signature_bytes.ct_eq(signature_bytes))"].

(* C17: identifiers that hold key material or the expected signature *)
Definition tainted_idents : list string :=
  ["response"; "signing_key"; "key"; "key_bytes"; "prefixed_key"; "raw"; "expected_signature";
   "expected_signature_bytes"; "k_secret"; "k_date"; "k_region"; "k_service"; "k_signing";
   "kdate"; "kregion"; "kservice"; "ksigning"; "secret"; "secret_key"].

Definition key_types : list string := ["KSecretKey"; "KDateKey"; "KRegionKey"; "KServiceKey"; "KSigningKey"].

Definition mem_str (s : string) (l : list string) : bool := existsb (String.eqb s) l.

(* a log level at which records are within the property's scope (debug and above) *)
Definition level_in_scope (lvl : string) : bool := negb (String.eqb lvl "trace").

Definition site_idents_clean (ids : list string) : bool := forallb (fun i => negb (mem_str i tainted_idents)) ids.

(* C08: panic-capable sites of the non-test source (module, normalised statement) that have been
   audited: each is either unreachable from the public operations (argued in DESIGN.md section 6/C08
   and, for the sites on the validation pipeline, proved as C08_validate_never_panics over the model's
   explicit Panic branches), guarded by the condition that precedes it, or is a documented panic
   (unescape_uri_encoding on malformed escapes). *)
Definition audited_panic_sites : list (string * string) :=
  [("auth", "let cscope_date = credential_parts[1];");
   ("auth", "let cscope_region = credential_parts[2];");
   ("auth", "let cscope_service = credential_parts[3];");
   ("auth", "let cscope_term = credential_parts[4];");
   ("auth", "let access_key = self.credential().split('/').next().expect("""").to_string();");
   ("auth", ".expect("""");");
   ("auth", "let cscope = self.credential().split_once('/').map(|x| x.1).expect("""");");
   ("canonical", "static ref MULTISLASH: Regex = Regex::new("""").unwrap();");
   ("canonical", "static ref MULTISPACE: Regex = Regex::new("""").unwrap();");
   ("canonical", "static ref AWS4_HMAC_SHA256_RE: Regex = Regex::new(r"""").unwrap();");
   ("canonical", "assert!(result_slice.len() == SHA256_OUTPUT_LEN);");
   ("canonical", "result.as_mut_slice().clone_from_slice(result_slice);");
   ("canonical", "Ok(builder.build().expect(""""))");
   ("canonical", "parts[1]");
   ("canonical", "parameter_map.insert(parts[0], parts[1]);");
   ("canonical", "let timestamp_str = timestamp_str.expect("""");");
   ("canonical", "let timestamp_str = unescape_uri_encoding(&timestamp_str.expect("""")[0]);");
   ("canonical", "let component = normalize_uri_path_component(&components[i])?;");
   ("canonical", "components.remove(i);");
   ("canonical", "components.remove(i - 1);");
   ("canonical", "components[i] = component;");
   ("canonical", "assert!(!components.is_empty());");
   ("canonical", "Ok(s) => writeln!(result, """", key, s).unwrap(),");
   ("canonical", "Err(_) => writeln!(result, """", key, value).unwrap(),");
   ("canonical", "let result_except_last = &result[..result.len() - 1];");
   ("canonical", "let content_type = latin1_to_string(parts.next().expect(""""));");
   ("canonical", "let opt_name = opt_parts.next().unwrap();");
   ("canonical", "let c = path_component[i];");
   ("canonical", "let hex_digits = &path_component[i + 1..i + 3];");
   ("canonical", "assert_eq!(value.len(), 1);");
   ("canonical", "let message = format!("""", MSG_ILLEGAL_HEX_CHAR, hex_digits[0] as char, hex_digits[1] as char);");
   ("canonical", "Ok(from_utf8(result.as_slice()).unwrap().to_string())");
   ("canonical", "let result: [u8; 2] = [HEX_DIGITS_UPPER[((b >> 4) & 0xf) as usize], HEX_DIGITS_UPPER[(b & 0xf) as usize]];");
   ("canonical", "hex_digits[0] = chars.next().expect(MSG_INCOMPLETE_TRAILING_ESCAPE);");
   ("canonical", "hex_digits[1] = chars.next().expect(MSG_INCOMPLETE_TRAILING_ESCAPE);");
   ("canonical", "match u8::from_str_radix(from_utf8(&hex_digits).unwrap(), 16) {");
   ("canonical", "Err(_) => panic!("""", MSG_ILLEGAL_HEX_CHAR, hex_digits[0] as char, hex_digits[1] as char),");
   ("chronoutil", "r"""").unwrap();");
   ("chronoutil", "let year_match = cap.name("""").unwrap();");
   ("chronoutil", "let year = i32::from_str(year_str).unwrap();");
   ("chronoutil", "let month_match = cap.name("""").unwrap();");
   ("chronoutil", "let month = u32::from_str(month_str).unwrap();");
   ("chronoutil", "let day_match = cap.name("""").unwrap();");
   ("chronoutil", "let day = u32::from_str(day_str).unwrap();");
   ("chronoutil", "let hour_match = cap.name("""").unwrap();");
   ("chronoutil", "let hour = u32::from_str(hour_str).unwrap();");
   ("chronoutil", "let minute_match = cap.name("""").unwrap();");
   ("chronoutil", "let minute = u32::from_str(minute_str).unwrap();");
   ("chronoutil", "let second_match = cap.name("""").unwrap();");
   ("chronoutil", "let second = u32::from_str(second_str).unwrap();");
   ("chronoutil", "u32::from_str(&frac_str).unwrap()");
   ("chronoutil", "let offset_match = cap.name("""").unwrap();");
   ("chronoutil", "assert_eq!(offset_condensed.len(), 5);");
   ("chronoutil", "let (sign_str, hm) = offset_condensed.split_at(1);");
   ("chronoutil", "let (hour_off_str, minute_off_str) = hm.split_at(2);");
   ("chronoutil", "let hour = i32::from_str(hour_off_str).unwrap();");
   ("chronoutil", "let min = i32::from_str(minute_off_str).unwrap();");
   ("crypto", "let mut mac = Hmac::<Sha256>::new_from_slice(key).expect("""");");
   ("signing_key", "&self.prefixed_key[4..self.len]");
   ("signing_key", "prefixed_key[..4].copy_from_slice(b"""");");
   ("signing_key", "prefixed_key[4..4 + len].copy_from_slice(raw.as_bytes());");
   ("signing_key", "key_bytes.copy_from_slice(key.as_ref());")].
