(* Independent specification of the SigV4 canonical query string (property C10). *)
From Verif Require Import Base.Bytes Base.Hex Spec.PathSpec.
From Coq Require Import Strings.Byte.

(* split on '&', drop empty pieces, split each at the first '=' (absent => empty value) *)
Definition raw_pairs (q : bytes) : list (bytes * bytes) :=
  map (fun c => match split_once "="%byte c with Some kv => kv | None => (c, []) end)
      (filter (fun c => negb (is_nil c)) (split_on "&"%byte q)).

(* decoded (name, value) pairs; None = a malformed escape somewhere *)
Definition decoded_pairs (q : bytes) : option (list (bytes * bytes)) :=
  map_opt (fun kv => match pct_decode true (fst kv), pct_decode true (snd kv) with
                     | Some k, Some v => Some (k, v)
                     | _, _ => None
                     end) (raw_pairs q).

Definition x_amz_signature : bytes := s2b "X-Amz-Signature".

Definition pair_cmp_leb (a b : bytes * bytes) : bool :=
  match bytes_cmp (fst a) (fst b) with
  | Lt => true
  | Gt => false
  | Eq => bytes_leb (snd a) (snd b)
  end.

Fixpoint spec_insert (x : bytes * bytes) (l : list (bytes * bytes)) :=
  match l with
  | [] => [x]
  | y :: r => if pair_cmp_leb x y then x :: l else y :: spec_insert x r
  end.
Definition spec_sort (l : list (bytes * bytes)) := fold_right spec_insert [] l.

(* canonical query of a multiset of decoded pairs *)
Definition spec_query_of_pairs (ps : list (bytes * bytes)) : bytes :=
  let kept := filter (fun kv => negb (bytes_eqb (fst kv) x_amz_signature)) ps in
  let enc := map (fun kv => (pct_encode (fst kv), pct_encode (snd kv))) kept in
  join ["&"%byte] (map (fun kv => fst kv ++ "="%byte :: snd kv) (spec_sort enc)).

Definition spec_query (q : bytes) : option bytes :=
  option_map spec_query_of_pairs (decoded_pairs q).
