(* Specification-level reading of a request as received: which parameters enter the canonical
   query, which payload is hashed, and the reference string-to-sign / acceptance decision built
   from the specification normal forms (PathSpec, QuerySpec, Signer). *)
From Verif Require Import Base.Bytes Base.Hex Base.Utf8 Crypto.Hmac Time.Calendar Time.Iso8601 Time.Render.
From Verif Require Import Model.Errors Model.Uri Model.Headers Model.Labels Model.Requirements Model.Validate.
From Verif Require Import Spec.PathSpec Spec.QuerySpec Spec.Signer.
From Coq Require Import Strings.Byte.

Definition form_type : bytes := s2b "application/x-www-form-urlencoded".

(* is this request folded, by the property's wording: option on and media type exactly the form type *)
Definition spec_folded (rq : request) (cf : config) : bool :=
  cf_fold cf &&
  match content_type_charset (rq_headers rq) with
  | Some (ct, _) => bytes_eqb ct form_type
  | None => false
  end.

(* the body as text, under the charset named by the content type (UTF-8 when absent) *)
Definition spec_decoded_body (rq : request) : option bytes :=
  match content_type_charset (rq_headers rq) with
  | Some (_, Some cs) =>
      match classify_label (flat_map latin1_char cs) with
      | CsUtf8 => if utf8_valid (rq_body rq) then Some (rq_body rq) else None
      | CsOther => rq_decoded rq
      | CsUnknown => None
      end
  | _ => if utf8_valid (rq_body rq) then Some (rq_body rq) else None
  end.

(* all decoded parameters that enter the canonical query: URL first, then (when folded) the body *)
Definition spec_all_pairs (rq : request) (cf : config) : option (list (bytes * bytes)) :=
  match decoded_pairs (match rq_query rq with Some q => q | None => [] end) with
  | None => None
  | Some up =>
      if spec_folded rq cf then
        match spec_decoded_body rq with
        | None => None
        | Some b => option_map (app up) (decoded_pairs b)
        end
      else Some up
  end.

Definition spec_payload (rq : request) (cf : config) : bytes :=
  if spec_folded rq cf then [] else rq_body rq.

Section SPEC_REQUEST.
  Variable H : bytes -> bytes.

  (* the reference string-to-sign of the request as received, for presented parameters [ap] whose
     timestamp denotes [ts] *)
  Definition spec_request_sts (rq : request) (cf : config) (ap : auth_params) (ts : Z) : option bytes :=
    match spec_path (cf_s3 cf) (rq_path rq), spec_all_pairs rq cf, split_once "/"%byte (ap_credential ap) with
    | Some path, Some pairs, Some (_, scope) =>
        Some (spec_string_to_sign H (render_compact ts) scope
                (spec_canonical_request H (rq_method rq) path (spec_query_of_pairs pairs) (rq_headers rq)
                                        (ap_signed ap) (spec_payload rq cf)))
    | _, _, _ => None
    end.
End SPEC_REQUEST.
