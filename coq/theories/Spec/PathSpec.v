(* Independent specification of SigV4 path canonicalisation (property C09), written against
   the decoded path, not against the code.  No proofs in this file. *)
From Verif Require Import Base.Bytes Base.Hex.
From Coq Require Import Strings.Byte.
Local Open Scope byte_scope.

(* RFC 3986 unreserved: A-Z a-z 0-9 - . _ ~ *)
Definition spec_unreserved (b : byte) : bool :=
  is_ascii_upper b || is_ascii_lower b || is_ascii_digit b
  || beqb b "-" || beqb b "." || beqb b "_" || beqb b "~".

(* Percent-decoding.  [plus_space] selects the query flavour ('+' denotes a space). *)
Fixpoint pct_decode (plus_space : bool) (s : bytes) : option bytes :=
  match s with
  | [] => Some []
  | c :: r =>
      if beqb c "%" then
        match r with
        | h :: l :: r' =>
            match unhex2 h l with
            | Some v => option_map (cons v) (pct_decode plus_space r')
            | None => None
            end
        | _ => None
        end
      else if plus_space && beqb c "+" then option_map (cons " ") (pct_decode plus_space r)
      else option_map (cons c) (pct_decode plus_space r)
  end.

(* Percent-encoding, exactly once, uppercase hex. *)
Definition pct_encode_byte (b : byte) : bytes :=
  if spec_unreserved b then [b] else "%" :: upper_hex b.
Definition pct_encode (s : bytes) : bytes := flat_map pct_encode_byte s.

Fixpoint map_opt {A B} (f : A -> option B) (l : list A) : option (list B) :=
  match l with
  | [] => Some []
  | x :: r =>
      match f x, map_opt f r with
      | Some y, Some ys => Some (y :: ys)
      | _, _ => None
      end
  end.

Definition is_nil {A} (l : list A) : bool := match l with [] => true | _ => false end.

(* dot-segment resolution on decoded segments; [None] = climbs above the root *)
Fixpoint resolve_dots (segs : list bytes) (stack : list bytes) : option (list bytes) :=
  match segs with
  | [] => Some (rev stack)
  | s :: rest =>
      if bytes_eqb s ["."] then resolve_dots rest stack
      else if bytes_eqb s ["."; "."] then
        match stack with
        | [] => None
        | _ :: st => resolve_dots rest st
        end
      else resolve_dots rest (s :: stack)
  end.

Definition render_path (segs : list bytes) : bytes :=
  match segs with
  | [] => ["/"]
  | _ => "/" :: join ["/"] (map pct_encode segs)
  end.

(* The reference normal form.  [None] = invalid path. *)
Definition spec_path (s3 : bool) (p : bytes) : option bytes :=
  match p with
  | [] => Some ["/"]
  | c :: rest =>
      if negb (beqb c "/") then None
      else if is_nil rest then Some ["/"]
      else
        match map_opt (pct_decode false) (split_on "/" rest) with
        | None => None
        | Some dsegs =>
            if s3 then Some (render_path dsegs)
            else
              let trailing := is_nil (last dsegs ["x"]) in
              match resolve_dots (filter (fun s => negb (is_nil s)) dsegs) [] with
              | None => None
              | Some kept => Some (render_path (kept ++ (if trailing then [[]] else [])))
              end
        end
  end.

(* The known-finding class D1: the raw path contains a literal '+'. *)
Definition has_plus (p : bytes) : bool := existsb (fun b => beqb b "+") p.
