(* Declarative grammar of the ISO-8601 date-times the library must accept (property C16), and the
   instant such a text denotes.  Written as a relation between the text and its fields, not as a
   parser. *)
From Verif Require Import Base.Bytes Time.Calendar Time.Iso8601.
From Coq Require Import Strings.Byte.
Local Open Scope Z_scope.

Definition digits2 (n : Z) : bytes := dec_fixed 2 (Z.to_N n).
Definition digits4 (n : Z) : bytes := dec_fixed 4 (Z.to_N n).

(* an optional separator *)
Definition sep (c : byte) (s : bytes) : Prop := s = [] \/ s = [c].

Definition digit_text (ds : list Z) : bytes := map (fun d => digit_byte (Z.to_N d)) ds.
Definition all_digits (ds : list Z) : Prop := Forall (fun d => 0 <= d <= 9) ds.

(* optional fraction: [.,] followed by one or more digits; value truncated to nanoseconds *)
Definition frac_ok (fr : bytes) (ns : Z) : Prop :=
  (fr = [] /\ ns = 0) \/
  (exists c ds, (c = "."%byte \/ c = ","%byte) /\ ds <> [] /\ all_digits ds
                /\ fr = c :: digit_text ds /\ ns = nanos_of ds 9).

(* zone designator: Z or +-hh[:]mm *)
Definition zone_ok (z : bytes) (off : Z) : Prop :=
  (z = ["Z"%byte] /\ off = 0) \/
  (exists sg sign hh mm sp,
      ((sg = "+"%byte /\ sign = 1) \/ (sg = "-"%byte /\ sign = -1))
      /\ sep ":"%byte sp /\ 0 <= hh <= max_offset_hour /\ 0 <= mm <= 59
      /\ z = sg :: digits2 hh ++ sp ++ digits2 mm
      /\ off = sign * (hh * 3600 + mm * 60)).

Definition wf_iso8601 (s : bytes) (f : iso_fields) : Prop :=
  exists s1 s2 s3 s4 fr z,
    s = digits4 (f_year f) ++ s1 ++ digits2 (f_month f) ++ s2 ++ digits2 (f_day f) ++ ["T"%byte]
        ++ digits2 (f_hour f) ++ s3 ++ digits2 (f_minute f) ++ s4 ++ digits2 (f_second f) ++ fr ++ z
    /\ sep "-"%byte s1 /\ sep "-"%byte s2 /\ sep ":"%byte s3 /\ sep ":"%byte s4
    /\ 0 <= f_year f <= 9999 /\ 1 <= f_month f <= 12 /\ 1 <= f_day f <= 31
    /\ 0 <= f_hour f <= 23 /\ 0 <= f_minute f <= 59 /\ 0 <= f_second f <= 61
    /\ frac_ok fr (f_nanos f) /\ zone_ok z (f_offset f).

(* the instant a reference parser assigns: calendar date must exist, second 60/61 is not an
   instant of the UTC day; offset applied; fraction already truncated in [f_nanos] *)
Definition denotes (f : iso_fields) (t : Z) : Prop :=
  valid_date (f_year f) (f_month f) (f_day f) = true /\ f_second f <= 59 /\
  t = ((days_of_civil (f_year f) (f_month f) (f_day f) - unix_epoch_day) * 86400
       + f_hour f * 3600 + f_minute f * 60 + f_second f - f_offset f) * ns_per_s + f_nanos f.
