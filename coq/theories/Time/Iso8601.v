(* Model of chronoutil.rs parse_from_iso8601: the anchored regex as a deterministic recogniser
   over bytes, then chrono's constructors.  An instant is a count of nanoseconds since
   1970-01-01T00:00:00Z.  No proofs in this file.
   Domain: strings whose code points are <= U+00FF (all that latin1_to_string and
   unescape_uri_encoding produce); on these `\d` matches exactly the ASCII digits. *)
From Verif Require Import Base.Bytes Time.Calendar.
From Coq Require Import Strings.Byte.
Local Open Scope Z_scope.

Definition digit_val (b : byte) : option Z :=
  if is_ascii_digit b then Some (Z.of_N (b2n b) - 48) else None.

Definition take2 (s : bytes) : option (Z * bytes) :=
  match s with
  | a :: b :: r =>
      match digit_val a, digit_val b with
      | Some x, Some y => Some (10 * x + y, r)
      | _, _ => None
      end
  | _ => None
  end.

Definition take4 (s : bytes) : option (Z * bytes) :=
  match take2 s with
  | Some (hi, r) => match take2 r with Some (lo, r') => Some (100 * hi + lo, r') | None => None end
  | None => None
  end.

Definition opt_byte (c : byte) (s : bytes) : bytes :=
  match s with
  | x :: r => if beqb x c then r else s
  | [] => s
  end.

(* [0-9]+ : the digits and the rest; None if there is no digit *)
Fixpoint take_digits (s : bytes) : list Z * bytes :=
  match s with
  | c :: r =>
      match digit_val c with
      | Some d => let '(ds, rest) := take_digits r in (d :: ds, rest)
      | None => ([], s)
      end
  | [] => ([], [])
  end.

(* the first nine fraction digits, right-padded with zeros, as a number of nanoseconds *)
Fixpoint nanos_of (ds : list Z) (width : nat) : Z :=
  match width with
  | O => 0
  | S w =>
      match ds with
      | d :: r => d * 10 ^ Z.of_nat w + nanos_of r w
      | [] => 0
      end
  end.

Record iso_fields := {
  f_year : Z; f_month : Z; f_day : Z; f_hour : Z; f_minute : Z; f_second : Z;
  f_nanos : Z; f_offset : Z  (* seconds east of UTC *)
}.

(* maximal offset hour the regex admits: `[01][0-9]` = 19 on the pinned tree,
   `[01][0-9]|2[0-3]` = 23 after the repair of D7.  The regex text itself is pinned against the
   regenerated source constant in Proofs/SrcPins.v. *)
Definition max_offset_hour : Z := 23.

Definition parse_offset (s : bytes) : option Z :=
  match s with
  | [c] => if beqb c "Z"%byte then Some 0 else None
  | sg :: r =>
      if beqb sg "+"%byte || beqb sg "-"%byte then
        match take2 r with
        | Some (hh, r1) =>
            match take2 (opt_byte ":"%byte r1) with
            | Some (mm, []) =>
                if (hh <=? max_offset_hour) && (mm <=? 59) then
                  Some ((if beqb sg "-"%byte then -1 else 1) * (hh * 3600 + mm * 60))
                else None
            | _ => None
            end
        | None => None
        end
      else None
  | [] => None
  end.

(* the regex: Some fields iff the whole string matches *)
Definition iso_regex (s : bytes) : option iso_fields :=
  match take4 s with
  | None => None
  | Some (y, r) =>
  match take2 (opt_byte "-"%byte r) with
  | None => None
  | Some (mo, r) =>
  match take2 (opt_byte "-"%byte r) with
  | None => None
  | Some (d, r) =>
  match r with
  | t :: r =>
  if negb (beqb t "T"%byte) then None else
  match take2 r with
  | None => None
  | Some (h, r) =>
  match take2 (opt_byte ":"%byte r) with
  | None => None
  | Some (mi, r) =>
  match take2 (opt_byte ":"%byte r) with
  | None => None
  | Some (sec, r) =>
      let frac :=
        match r with
        | c :: r' =>
            if beqb c "."%byte || beqb c ","%byte then
              match take_digits r' with
              | ([], _) => None                       (* [.,] must be followed by a digit *)
              | (ds, rest) => Some (nanos_of ds 9, rest)
              end
            else Some (0, r)
        | [] => Some (0, r)
        end in
      match frac with
      | None => None
      | Some (ns, r) =>
          match parse_offset r with
          | None => None
          | Some off =>
              if (1 <=? mo) && (mo <=? 12) && (1 <=? d) && (d <=? 31) && (h <=? 23) && (mi <=? 59) && (sec <=? 61)
              then Some {| f_year := y; f_month := mo; f_day := d; f_hour := h; f_minute := mi;
                           f_second := sec; f_nanos := ns; f_offset := off |}
              else None
          end
      end
  end end end
  | [] => None
  end end end end.

Definition ns_per_s : Z := 1000000000.

(* chrono: from_ymd_opt, from_hms_nano_opt (second 60/61 refused), east_opt, to UTC *)
Definition instant_of (f : iso_fields) : option Z :=
  if valid_date (f_year f) (f_month f) (f_day f) && (f_second f <=? 59) then
    let days := days_of_civil (f_year f) (f_month f) (f_day f) - unix_epoch_day in
    let local := days * 86400 + f_hour f * 3600 + f_minute f * 60 + f_second f in
    Some ((local - f_offset f) * ns_per_s + f_nanos f)
  else None.

Definition parse_iso8601 (s : bytes) : option Z :=
  match iso_regex s with
  | Some f => instant_of f
  | None => None
  end.
