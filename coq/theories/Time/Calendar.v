(* Proleptic Gregorian calendar over Z (the part of `chrono` the library relies on):
   day numbers, validity of civil dates.  Days are counted from 0001-01-01 (= day 0);
   [unix_epoch_day] is 1970-01-01.  No proofs in this file. *)
From Coq Require Import ZArith List Bool.
Import ListNotations.
Local Open Scope Z_scope.

Definition is_leap (y : Z) : bool :=
  (Z.eqb (y mod 4) 0 && negb (Z.eqb (y mod 100) 0)) || Z.eqb (y mod 400) 0.

(* days from 0001-01-01 to y-01-01 (floor division: valid for every integer year) *)
Definition days_before_year (y : Z) : Z :=
  365 * (y - 1) + (y - 1) / 4 - (y - 1) / 100 + (y - 1) / 400.

Definition year_length (y : Z) : Z := if is_leap y then 366 else 365.

Definition days_in_month (leap : bool) (m : Z) : Z :=
  match m with
  | 1 => 31 | 2 => if leap then 29 else 28 | 3 => 31 | 4 => 30 | 5 => 31 | 6 => 30
  | 7 => 31 | 8 => 31 | 9 => 30 | 10 => 31 | 11 => 30 | 12 => 31
  | _ => 0
  end.

(* days from y-01-01 to y-m-01 *)
Definition days_before_month (leap : bool) (m : Z) : Z :=
  let l := if leap then 1 else 0 in
  match m with
  | 1 => 0 | 2 => 31 | 3 => 59 + l | 4 => 90 + l | 5 => 120 + l | 6 => 151 + l
  | 7 => 181 + l | 8 => 212 + l | 9 => 243 + l | 10 => 273 + l | 11 => 304 + l | 12 => 334 + l
  | _ => 0
  end.

(* NaiveDate::from_ymd_opt succeeds (within chrono's year range) iff *)
Definition valid_date (y m d : Z) : bool :=
  (1 <=? m) && (m <=? 12) && (1 <=? d) && (d <=? days_in_month (is_leap y) m).

Definition days_of_civil (y m d : Z) : Z :=
  days_before_year y + days_before_month (is_leap y) m + (d - 1).

(* inverse: 400/100/4/1-year decomposition *)
Definition year_of_day (n : Z) : Z :=
  let n400 := n / 146097 in
  let r400 := n mod 146097 in
  let n100 := Z.min 3 (r400 / 36524) in
  let r100 := r400 - n100 * 36524 in
  let n4 := r100 / 1461 in
  let r4 := r100 mod 1461 in
  let n1 := Z.min 3 (r4 / 365) in
  400 * n400 + 100 * n100 + 4 * n4 + n1 + 1.

Fixpoint month_scan (leap : bool) (doy : Z) (ms : list Z) : Z * Z :=
  match ms with
  | [] => (12, doy + 1)
  | m :: rest =>
      if doy <? days_in_month leap m then (m, doy + 1)
      else month_scan leap (doy - days_in_month leap m) rest
  end.

Definition civil_of_days (n : Z) : Z * Z * Z :=
  let y := year_of_day n in
  let doy := n - days_before_year y in
  let '(m, d) := month_scan (is_leap y) doy [1; 2; 3; 4; 5; 6; 7; 8; 9; 10; 11] in
  (y, m, d).

Definition unix_epoch_day : Z := 719162.   (* days_of_civil 1970 1 1 *)
