(* chrono formatting used by the library: "%Y%m%dT%H%M%SZ" and "%Y%m%d" of a UTC instant. *)
From Verif Require Import Base.Bytes Time.Calendar Time.Iso8601.
From Coq Require Import Strings.Byte.
Local Open Scope Z_scope.

(* %Y: four digits zero padded for 0..9999, otherwise an explicit sign ("{:+05}") *)
Definition render_year (y : Z) : bytes :=
  if (0 <=? y) && (y <=? 9999) then dec_fixed 4 (Z.to_N y)
  else if y <? 0 then "-"%byte :: (if -y <=? 9999 then dec_fixed 4 (Z.to_N (-y)) else dec (Z.to_N (-y)))
  else "+"%byte :: dec (Z.to_N y).

Definition two (n : Z) : bytes := dec_fixed 2 (Z.to_N n).

Definition day_of_instant (t : Z) : Z := (t / ns_per_s) / 86400 + unix_epoch_day.
Definition sod_of_instant (t : Z) : Z := (t / ns_per_s) mod 86400.

Definition yyyymmdd_of_civil (ymd : Z * Z * Z) : bytes :=
  let '(y, m, d) := ymd in render_year y ++ two m ++ two d.

Definition yyyymmdd (t : Z) : bytes := yyyymmdd_of_civil (civil_of_days (day_of_instant t)).

Definition render_compact (t : Z) : bytes :=
  let s := sod_of_instant t in
  yyyymmdd t ++ ["T"%byte] ++ two (s / 3600) ++ two ((s / 60) mod 60) ++ two (s mod 60) ++ ["Z"%byte].
