(* HMAC (RFC 2104) over an arbitrary hash function with a 64-byte block. *)
From Verif Require Import Base.Bytes.
Local Open Scope N_scope.

Section HMAC.
  Variable H : bytes -> bytes.

  Definition block_size : nat := 64.

  Definition xor_byte (a b : byte) : byte := n2b (N.lxor (b2n a) (b2n b)).

  Definition hmac_key_block (key : bytes) : bytes :=
    let k := if Nat.ltb block_size (length key) then H key else key in
    k ++ repeat x00 (block_size - length k).

  Definition hmac (key msg : bytes) : bytes :=
    let kb := hmac_key_block key in
    let ipad := map (xor_byte x36) kb in
    let opad := map (xor_byte x5c) kb in
    H (opad ++ H (ipad ++ msg)).
End HMAC.
