(* SHA-256 (FIPS 180-4) over N words, executable under vm_compute.  Used only to *run* the
   model; every theorem is proved for an arbitrary hash function. *)
From Verif Require Import Base.Bytes.
Local Open Scope N_scope.

Definition w32 (x : N) : N := N.land x 4294967295.
Definition add32 (a b : N) : N := w32 (a + b).
Definition rotr (n x : N) : N := N.lor (N.shiftr x n) (w32 (N.shiftl x (32 - n))).
Definition shr (n x : N) : N := N.shiftr x n.
Definition ch (x y z : N) : N := N.lxor (N.land x y) (N.land (N.lxor x 4294967295) z).
Definition maj (x y z : N) : N := N.lxor (N.lxor (N.land x y) (N.land x z)) (N.land y z).
Definition bsig0 x := N.lxor (N.lxor (rotr 2 x) (rotr 13 x)) (rotr 22 x).
Definition bsig1 x := N.lxor (N.lxor (rotr 6 x) (rotr 11 x)) (rotr 25 x).
Definition ssig0 x := N.lxor (N.lxor (rotr 7 x) (rotr 18 x)) (shr 3 x).
Definition ssig1 x := N.lxor (N.lxor (rotr 17 x) (rotr 19 x)) (shr 10 x).

Definition K256 : list N :=
  [0x428a2f98; 0x71374491; 0xb5c0fbcf; 0xe9b5dba5; 0x3956c25b; 0x59f111f1; 0x923f82a4; 0xab1c5ed5;
   0xd807aa98; 0x12835b01; 0x243185be; 0x550c7dc3; 0x72be5d74; 0x80deb1fe; 0x9bdc06a7; 0xc19bf174;
   0xe49b69c1; 0xefbe4786; 0x0fc19dc6; 0x240ca1cc; 0x2de92c6f; 0x4a7484aa; 0x5cb0a9dc; 0x76f988da;
   0x983e5152; 0xa831c66d; 0xb00327c8; 0xbf597fc7; 0xc6e00bf3; 0xd5a79147; 0x06ca6351; 0x14292967;
   0x27b70a85; 0x2e1b2138; 0x4d2c6dfc; 0x53380d13; 0x650a7354; 0x766a0abb; 0x81c2c92e; 0x92722c85;
   0xa2bfe8a1; 0xa81a664b; 0xc24b8b70; 0xc76c51a3; 0xd192e819; 0xd6990624; 0xf40e3585; 0x106aa070;
   0x19a4c116; 0x1e376c08; 0x2748774c; 0x34b0bcb5; 0x391c0cb3; 0x4ed8aa4a; 0x5b9cca4f; 0x682e6ff3;
   0x748f82ee; 0x78a5636f; 0x84c87814; 0x8cc70208; 0x90befffa; 0xa4506ceb; 0xbef9a3f7; 0xc67178f2].

Definition H0 : list N :=
  [0x6a09e667; 0xbb67ae85; 0x3c6ef372; 0xa54ff53a; 0x510e527f; 0x9b05688c; 0x1f83d9ab; 0x5be0cd19].

(* message schedule: [ws] holds the last 16 words, most recent first *)
Definition next_w (ws : list N) : N :=
  match ws with
  | w1 :: w2 :: _ :: _ :: _ :: _ :: w7 :: _ :: _ :: _ :: _ :: _ :: _ :: _ :: w15 :: w16 :: _ =>
      add32 (add32 (ssig1 w2) w7) (add32 (ssig0 w15) w16)
  | _ => 0
  end.

Definition round (st : list N) (k w : N) : list N :=
  match st with
  | [a; b; c; d; e; f; g; h] =>
      let t1 := add32 (add32 (add32 h (bsig1 e)) (add32 (ch e f g) k)) w in
      let t2 := add32 (bsig0 a) (maj a b c) in
      [add32 t1 t2; a; b; c; add32 d t1; e; f; g]
  | _ => st
  end.

(* first 16 rounds consume the block words; the remaining 48 extend the schedule *)
Fixpoint rounds_block (ws : list N) (ks : list N) (hist : list N) (st : list N) : list N * list N * list N :=
  match ws, ks with
  | w :: ws', k :: ks' => rounds_block ws' ks' (w :: hist) (round st k w)
  | _, _ => (st, hist, ks)
  end.

Fixpoint rounds_ext (ks : list N) (hist : list N) (st : list N) : list N :=
  match ks with
  | [] => st
  | k :: ks' =>
      let w := next_w hist in
      rounds_ext ks' (w :: firstn 15 hist) (round st k w)
  end.

Definition compress (hs : list N) (block : list N) : list N :=
  let '(st, hist, ks) := rounds_block block K256 [] hs in
  let st' := rounds_ext ks hist st in
  map (fun p => add32 (fst p) (snd p)) (combine hs st').

Fixpoint words_of_bytes (l : bytes) : list N :=
  match l with
  | a :: b :: c :: d :: r =>
      (b2n a * 16777216 + b2n b * 65536 + b2n c * 256 + b2n d) :: words_of_bytes r
  | _ => []
  end.

Definition bytes_of_word (w : N) : bytes :=
  [n2b (w / 16777216); n2b ((w / 65536) mod 256); n2b ((w / 256) mod 256); n2b (w mod 256)].

Definition pad (msg : bytes) : bytes :=
  let len := N.of_nat (length msg) in
  let zeros := N.to_nat ((55 + 64 - (len mod 64)) mod 64) in
  let bitlen := len * 8 in
  msg ++ [x80] ++ repeat x00 zeros ++
  bytes_of_word (bitlen / 4294967296) ++ bytes_of_word (bitlen mod 4294967296).

Fixpoint blocks (fuel : nat) (ws : list N) (hs : list N) : list N :=
  match fuel with
  | O => hs
  | S f =>
      match ws with
      | [] => hs
      | _ => blocks f (skipn 16 ws) (compress hs (firstn 16 ws))
      end
  end.

Definition sha256 (msg : bytes) : bytes :=
  let ws := words_of_bytes (pad msg) in
  flat_map bytes_of_word (blocks (S (length ws / 16)) ws H0).
