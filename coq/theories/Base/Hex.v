(* Hexadecimal digits: upper-case table (u8_to_upper_hex), lower-case (hex::encode),
   and decoding of one digit / a two-digit escape (hex::decode accepts both cases). *)
From Verif Require Import Base.Bytes.
Local Open Scope N_scope.

Definition hex_digit_upper (n : N) : byte :=
  if N.ltb n 10 then n2b (48 + n) else n2b (55 + n).   (* '0'+n / 'A'+n-10 *)

Definition hex_digit_lower (n : N) : byte :=
  if N.ltb n 10 then n2b (48 + n) else n2b (87 + n).   (* 'a'+n-10 *)

Definition upper_hex (b : byte) : bytes :=
  [hex_digit_upper (b2n b / 16); hex_digit_upper (b2n b mod 16)].

Definition lower_hex_byte (b : byte) : bytes :=
  [hex_digit_lower (b2n b / 16); hex_digit_lower (b2n b mod 16)].

Definition lower_hex (s : bytes) : bytes := flat_map lower_hex_byte s.

Definition unhex_digit (c : byte) : option N :=
  if is_ascii_digit c then Some (b2n c - 48)
  else if in_range 65 70 c then Some (b2n c - 55)
  else if in_range 97 102 c then Some (b2n c - 87)
  else None.

Definition unhex2 (h l : byte) : option byte :=
  match unhex_digit h, unhex_digit l with
  | Some a, Some b => Some (n2b (16 * a + b))
  | _, _ => None
  end.

(* Finite facts over all 256 bytes. *)
Lemma unhex2_upper_hex b :
  match upper_hex b with [h; l] => unhex2 h l = Some b | _ => False end.
Proof. destruct b; vm_compute; reflexivity. Qed.

Lemma unhex2_lower_hex b :
  match lower_hex_byte b with [h; l] => unhex2 h l = Some b | _ => False end.
Proof. destruct b; vm_compute; reflexivity. Qed.

Lemma upper_hex_length b : length (upper_hex b) = 2%nat.
Proof. reflexivity. Qed.
