(* Byte strings: [list byte] over Coq.Init.Byte (a 256-constructor inductive). *)
From Coq Require Export List NArith ZArith Bool.
From Coq Require Export Init.Byte.
From Coq Require Import Strings.Byte.
Export ListNotations.

Definition bytes := list byte.

Definition b2n (b : byte) : N := Byte.to_N b.
Definition n2b (n : N) : byte :=
  match Byte.of_N n with Some b => b | None => x00 end.

Definition beqb (a b : byte) : bool := Byte.eqb a b.

Lemma beqb_eq a b : beqb a b = true <-> a = b.
Proof.
  unfold beqb. split.
  - intro H. apply Byte.byte_dec_bl in H. exact H.
  - intros ->. apply Byte.byte_dec_lb. reflexivity.
Qed.

Lemma beqb_refl a : beqb a a = true.
Proof. apply beqb_eq. reflexivity. Qed.

Lemma beqb_neq a b : beqb a b = false <-> a <> b.
Proof.
  split.
  - intros H E. apply beqb_eq in E. congruence.
  - intro N. destruct (beqb a b) eqn:E; [apply beqb_eq in E; contradiction | reflexivity].
Qed.

Fixpoint bytes_eqb (a b : bytes) : bool :=
  match a, b with
  | [], [] => true
  | x :: a', y :: b' => beqb x y && bytes_eqb a' b'
  | _, _ => false
  end.

Lemma bytes_eqb_eq a b : bytes_eqb a b = true <-> a = b.
Proof.
  revert b; induction a as [|x a IH]; intros [|y b]; cbn.
  - split; reflexivity.
  - split; discriminate.
  - split; discriminate.
  - rewrite andb_true_iff, beqb_eq, IH. split.
    + intros [-> ->]; reflexivity.
    + intros E; inversion E; auto.
Qed.

Lemma bytes_eqb_refl a : bytes_eqb a a = true.
Proof. apply bytes_eqb_eq; reflexivity. Qed.

Lemma bytes_eqb_neq a b : bytes_eqb a b = false <-> a <> b.
Proof.
  split.
  - intros H E. apply bytes_eqb_eq in E. congruence.
  - intro N. destruct (bytes_eqb a b) eqn:E; [apply bytes_eqb_eq in E; contradiction | reflexivity].
Qed.

(* String literals: [s2b "host"] is the list of bytes of the literal.  A private literal type
   keeps Coq.Strings.String (which shadows [length], [concat], ...) out of the development. *)
Inductive blit : Set := BLit (l : list byte).
Definition blit_parse (l : list byte) : blit := BLit l.
Definition blit_print (b : blit) : list byte := match b with BLit l => l end.
Declare Scope blit_scope.
Delimit Scope blit_scope with blit.
Bind Scope blit_scope with blit.
String Notation blit blit_parse blit_print : blit_scope.
Definition s2b (b : blit) : bytes := blit_print b.
Arguments s2b _%blit_scope.

(* Lexicographic comparison of byte strings by unsigned byte value
   (Rust [Ord] for [str], [String], [&[u8]]). *)
Fixpoint bytes_cmp (a b : bytes) : comparison :=
  match a, b with
  | [], [] => Eq
  | [], _ :: _ => Lt
  | _ :: _, [] => Gt
  | x :: a', y :: b' =>
      match N.compare (b2n x) (b2n y) with
      | Eq => bytes_cmp a' b'
      | c => c
      end
  end.

Definition bytes_leb (a b : bytes) : bool :=
  match bytes_cmp a b with Gt => false | _ => true end.

Definition bytes_ltb (a b : bytes) : bool :=
  match bytes_cmp a b with Lt => true | _ => false end.

(* ASCII classes as in Rust's u8 methods. *)
Definition in_range (lo hi : N) (b : byte) : bool :=
  (N.leb lo (b2n b) && N.leb (b2n b) hi)%bool.

Definition is_ascii_digit (b : byte) : bool := in_range 48 57 b.
Definition is_ascii_upper (b : byte) : bool := in_range 65 90 b.
Definition is_ascii_lower (b : byte) : bool := in_range 97 122 b.
Definition is_ascii_alphanumeric (b : byte) : bool :=
  is_ascii_digit b || is_ascii_upper b || is_ascii_lower b.

(* u8::is_ascii_whitespace: space, \t, \n, \x0C, \r *)
Definition is_ascii_whitespace (b : byte) : bool :=
  match b with
  | x20 | x09 | x0a | x0c | x0d => true
  | _ => false
  end.

Definition to_ascii_lower (b : byte) : byte :=
  if is_ascii_upper b then n2b (b2n b + 32) else b.

Definition lower (s : bytes) : bytes := map to_ascii_lower s.

Lemma to_ascii_lower_idem b : to_ascii_lower (to_ascii_lower b) = to_ascii_lower b.
Proof. destruct b; reflexivity. Qed.

Lemma lower_idem s : lower (lower s) = lower s.
Proof. unfold lower. rewrite map_map. apply map_ext. apply to_ascii_lower_idem. Qed.

(* Generic list helpers over byte strings. *)

(* [split_on sep s] = Rust [s.split(sep)]: always at least one piece. *)
Fixpoint split_on (sep : byte) (s : bytes) : list bytes :=
  match s with
  | [] => [[]]
  | c :: r =>
      if beqb c sep then [] :: split_on sep r
      else match split_on sep r with
           | [] => [[c]]            (* unreachable *)
           | p :: ps => (c :: p) :: ps
           end
  end.

(* [split_once sep s] = Some (before, after) at the first [sep]. *)
Fixpoint split_once (sep : byte) (s : bytes) : option (bytes * bytes) :=
  match s with
  | [] => None
  | c :: r =>
      if beqb c sep then Some ([], r)
      else match split_once sep r with
           | Some (a, b) => Some (c :: a, b)
           | None => None
           end
  end.

Fixpoint join (sep : bytes) (l : list bytes) : bytes :=
  match l with
  | [] => []
  | [x] => x
  | x :: r => x ++ sep ++ join sep r
  end.

Fixpoint starts_with (p s : bytes) : bool :=
  match p, s with
  | [], _ => true
  | x :: p', y :: s' => beqb x y && starts_with p' s'
  | _ :: _, [] => false
  end.

Fixpoint mem_bytes (x : bytes) (l : list bytes) : bool :=
  match l with
  | [] => false
  | y :: r => bytes_eqb x y || mem_bytes x r
  end.

Lemma mem_bytes_In x l : mem_bytes x l = true <-> In x l.
Proof.
  induction l as [|y r IH]; cbn.
  - split; [discriminate | tauto].
  - rewrite orb_true_iff, IH, bytes_eqb_eq. split; intros [?|?]; auto.
Qed.

Fixpoint drop_while {A} (f : A -> bool) (l : list A) : list A :=
  match l with
  | [] => []
  | x :: r => if f x then drop_while f r else l
  end.

Definition trim_start (f : byte -> bool) (s : bytes) : bytes := drop_while f s.
Definition trim_end (f : byte -> bool) (s : bytes) : bytes := rev (drop_while f (rev s)).
Definition trim (f : byte -> bool) (s : bytes) : bytes := trim_end f (trim_start f s).

Definition trim_ascii (s : bytes) : bytes := trim is_ascii_whitespace s.

(* Association-list helpers: first binding wins on lookup. *)
Fixpoint assoc {V} (k : bytes) (l : list (bytes * V)) : option V :=
  match l with
  | [] => None
  | (k', v) :: r => if bytes_eqb k k' then Some v else assoc k r
  end.

(* decimal rendering *)
Definition digit_byte (d : N) : byte := n2b (48 + d).

Fixpoint dec_digits_fuel (fuel : nat) (n : N) (acc : bytes) : bytes :=
  match fuel with
  | O => acc
  | S f =>
      let acc' := digit_byte (n mod 10) :: acc in
      if N.eqb (n / 10) 0 then acc' else dec_digits_fuel f (n / 10) acc'
  end.

(* decimal digits of [n]; the fuel [1 + log2 n] always suffices (log10 <= log2). *)
Definition dec (n : N) : bytes := dec_digits_fuel (S (N.to_nat (N.log2 n))) n [].

(* exactly [w] decimal digits of [n mod 10^w], most significant first *)
Fixpoint dec_fixed (w : nat) (n : N) : bytes :=
  match w with
  | O => []
  | S w' => dec_fixed w' (n / 10) ++ [digit_byte (n mod 10)]
  end.
