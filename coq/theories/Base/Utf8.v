(* Strict UTF-8 validity (what `encoding`'s UTF_8 decoder accepts with DecoderTrap::Strict):
   shortest form, no surrogates, at most U+10FFFF. *)
From Verif Require Import Base.Bytes.
Local Open Scope N_scope.

Definition cont (b : byte) : bool := in_range 128 191 b.

Fixpoint utf8_valid (s : bytes) : bool :=
  match s with
  | [] => true
  | a :: r =>
      let x := b2n a in
      if x <? 128 then utf8_valid r
      else if x <? 194 then false
      else if x <? 224 then
        match r with b :: r' => cont b && utf8_valid r' | _ => false end
      else if x <? 240 then
        match r with
        | b :: c :: r' =>
            (if x =? 224 then in_range 160 191 b
             else if x =? 237 then in_range 128 159 b
             else cont b) && cont c && utf8_valid r'
        | _ => false
        end
      else if x <? 245 then
        match r with
        | b :: c :: d :: r' =>
            (if x =? 240 then in_range 144 191 b
             else if x =? 244 then in_range 128 143 b
             else cont b) && cont c && cont d && utf8_valid r'
        | _ => false
        end
      else false
  end.
