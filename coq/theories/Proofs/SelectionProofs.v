(* C17 (refusals carry nothing about the key), C18 (order independence) and C19 (selection among
   repeated authentication inputs) for the model of Model/Validate.v.  Builds on the stage
   equations of Proofs/PipelineProofs.v. *)
From Coq Require Import List Bool NArith ZArith Lia.
From Coq Require Import Sorting.Permutation.
From Coq Require Import Strings.Byte.
From Verif Require Import Base.Bytes Base.Hex Base.Utf8 Crypto.Hmac Time.Calendar Time.Iso8601 Time.Render.
From Verif Require Import Generated.SrcConsts Model.Errors Model.Uri Model.Query Model.Headers Model.Labels
  Model.Requirements Model.Validate Spec.PathSpec Spec.QuerySpec Spec.Signer Spec.RequestSpec.
From Verif Require Import Proofs.QueryProofs Proofs.HeaderProofs Proofs.PipelineProofs.
From Verif Require Proofs.KeyProofs Crypto.Sha256.

Notation is_nil := Query.is_nil.

(* ========================================================================================== *)
(* C17                                                                                         *)

(* two providers that differ at most in the key bytes of their successful answers *)
Definition same_but_key (pv1 pv2 : provider) : Prop :=
  pv_ready pv1 = pv_ready pv2
  /\ forall g, match pv_answer pv1 g, pv_answer pv2 g with
               | AnsOk _ p1 s1, AnsOk _ p2 s2 => p1 = p2 /\ s1 = s2
               | AnsErr e1, AnsErr e2 => e1 = e2
               | _, _ => False
               end.

Section C17.
  Variable H : bytes -> bytes.

  (* the provider is asked the same question whatever it answers *)
  Theorem C17_calls_independent_of_key : forall rq cf pv1 pv2,
    same_but_key pv1 pv2 -> fst (validate H rq cf pv1) = fst (validate H rq cf pv2).
  Proof.
    intros rq cf pv1 pv2 [R _]. rewrite !C13_calls. destruct (pre_failure H rq cf); [reflexivity|].
    unfold prov_calls. rewrite R. reflexivity.
  Qed.

  (* a refusal carries no information about the key or the expected signature *)
  Theorem C17_refusal_independent_of_key : forall rq cf pv1 pv2 k1 k2,
    same_but_key pv1 pv2 ->
    snd (validate H rq cf pv1) = Refused k1 ->
    snd (validate H rq cf pv2) = Refused k2 ->
    k1 = k2 /\ fst (validate H rq cf pv1) = fst (validate H rq cf pv2).
  Proof.
    intros rq cf pv1 pv2 k1 k2 S V1 V2. split; [|apply C17_calls_independent_of_key; exact S].
    destruct S as [R A]. revert V1 V2. rewrite !validate_eq.
    destruct (pre_failure H rq cf) as [k|]; cbn [snd]; [congruence|].
    unfold signature_failure, accepted_outcome, prov_answer. rewrite R.
    destruct (pv_ready pv2) as [e|]; [congruence|].
    specialize (A (the_call (st_au H rq cf) cf)).
    destruct (pv_answer pv1 (the_call (st_au H rq cf) cf)) as [key1 p1 s1|e1];
      destruct (pv_answer pv2 (the_call (st_au H rq cf) cf)) as [key2 p2 s2|e2]; try contradiction.
    - destruct (ct_eq _ _); [discriminate|]. destruct (ct_eq _ _); [discriminate|]. congruence.
    - subst e2. congruence.
  Qed.

  (* once the provider has produced a key, the only possible refusal is the constant
     SignatureDoesNotMatch: which key, and how the presented signature differs, is not reported *)
  Theorem C17_refusal_independent_of_presented_signature_match : forall rq cf pv key p s k,
    pre_failure H rq cf = None ->
    prov_answer pv (the_call (st_au H rq cf) cf) = AnsOk key p s ->
    snd (validate H rq cf pv) = Refused k ->
    k = SignatureDoesNotMatch.
  Proof.
    intros rq cf pv key p s k P A. rewrite validate_eq, P. cbn [snd].
    unfold signature_failure, accepted_outcome. rewrite A.
    destruct (ct_eq _ _); [discriminate|]. congruence.
  Qed.

  (* the key enters the outcome only through the truth value of one comparison *)
  Theorem C17_key_enters_only_the_comparison : forall rq cf pv1 pv2,
    same_but_key pv1 pv2 ->
    (forall key1 p1 s1 key2 p2 s2,
        prov_answer pv1 (the_call (st_au H rq cf) cf) = AnsOk key1 p1 s1 ->
        prov_answer pv2 (the_call (st_au H rq cf) cf) = AnsOk key2 p2 s2 ->
        ct_eq (au_signature (st_au H rq cf)) (lower_hex (hmac H key1 (sts_of (st_au H rq cf)))) =
        ct_eq (au_signature (st_au H rq cf)) (lower_hex (hmac H key2 (sts_of (st_au H rq cf))))) ->
    validate H rq cf pv1 = validate H rq cf pv2.
  Proof.
    intros rq cf pv1 pv2 [R A] C. rewrite !validate_eq.
    destruct (pre_failure H rq cf) as [k|]; [reflexivity|].
    revert C. unfold signature_failure, accepted_outcome, identity_of, prov_answer, prov_calls. rewrite R.
    destruct (pv_ready pv2) as [e|]; [reflexivity|].
    specialize (A (the_call (st_au H rq cf) cf)).
    destruct (pv_answer pv1 (the_call (st_au H rq cf) cf)) as [key1 p1 s1|e1];
      destruct (pv_answer pv2 (the_call (st_au H rq cf) cf)) as [key2 p2 s2|e2]; try contradiction.
    - destruct A as [-> ->]. intro C. rewrite (C _ _ _ _ _ _ eq_refl eq_refl). reflexivity.
    - subst e2. reflexivity.
  Qed.
End C17.

(* ========================================================================================== *)
(* C18                                                                                         *)

(* lookup in an association list with distinct keys (a HashMap) ignores the entry order *)
Lemma assoc_In {V} (l : list (bytes * V)) : NoDup (map fst l) ->
  forall k v, assoc k l = Some v <-> In (k, v) l.
Proof.
  induction l as [|[k' v'] r IH]; intros ND k v; cbn [assoc In].
  - split; [discriminate|tauto].
  - cbn [map fst] in ND. inversion ND as [|x l N1 N2]; subst.
    destruct (bytes_eqb k k') eqn:E.
    + apply bytes_eqb_eq in E. subst k'. split.
      * intro X. injection X as <-. left. reflexivity.
      * intros [X|X]; [injection X as <-; reflexivity|].
        exfalso. apply N1. apply in_map_iff. exists (k, v). split; [reflexivity|exact X].
    + rewrite (IH N2). split; [tauto|]. intros [X|X]; [|exact X].
      injection X as <- <-. rewrite bytes_eqb_refl in E. discriminate.
Qed.

Lemma assoc_perm {V} (l l' : list (bytes * V)) k :
  NoDup (map fst l) -> Permutation l l' -> assoc k l = assoc k l'.
Proof.
  intros ND P.
  assert (ND' : NoDup (map fst l')) by (eapply Permutation_NoDup; [apply Permutation_map; exact P|exact ND]).
  destruct (assoc k l) as [v|] eqn:E1; destruct (assoc k l') as [v'|] eqn:E2; try reflexivity.
  - apply (assoc_In _ ND) in E1. apply (Permutation_in _ P) in E1. apply (assoc_In _ ND') in E1. congruence.
  - apply (assoc_In _ ND) in E1. apply (Permutation_in _ P) in E1. apply (assoc_In _ ND') in E1. congruence.
  - apply (assoc_In _ ND') in E2. apply (Permutation_in _ (Permutation_sym P)) in E2.
    apply (assoc_In _ ND) in E2. congruence.
Qed.

Lemma forallb_perm {A} (f : A -> bool) l l' : Permutation l l' -> forallb f l = forallb f l'.
Proof.
  induction 1; cbn [forallb]; try congruence.
  destruct (f x), (f y); reflexivity.
Qed.

Lemma forallb_ext' {A} (f g : A -> bool) l : (forall x, f x = g x) -> forallb f l = forallb g l.
Proof. intro E. induction l as [|x r IH]; cbn [forallb]; [reflexivity|]. rewrite E, IH. reflexivity. Qed.

(* the maps built by the pipeline have distinct keys *)
Lemma in_keys_push x k v m : In x (map fst (qmap_push k v m)) -> x = k \/ In x (map fst m).
Proof.
  induction m as [|[k' vs] r IH]; cbn [qmap_push map fst In].
  - intros [<-|[]]. left; reflexivity.
  - destruct (bytes_eqb k k'); cbn [map fst In]; [tauto|]. intros [X|X]; [tauto|]. apply IH in X. tauto.
Qed.

Lemma qmap_push_nodup k v m : NoDup (map fst m) -> NoDup (map fst (qmap_push k v m)).
Proof.
  induction m as [|[k' vs] r IH]; cbn [qmap_push map fst]; intro ND.
  - constructor; [intros []|constructor].
  - inversion ND as [|x l N1 N2]; subst. destruct (bytes_eqb k k') eqn:E; cbn [map fst].
    + constructor; assumption.
    + constructor; [|apply IH; exact N2]. intro X. apply in_keys_push in X. destruct X as [X|X]; [|tauto].
      subst k'. rewrite bytes_eqb_refl in E. discriminate.
Qed.

Lemma hmap_push_nodup k v m : NoDup (map fst m) -> NoDup (map fst (hmap_push k v m)).
Proof. exact (qmap_push_nodup k v m). Qed.

Theorem normalize_headers_nodup hs : NoDup (map fst (normalize_headers hs)).
Proof.
  unfold normalize_headers.
  assert (G : forall m, NoDup (map fst m) ->
              NoDup (map fst (fold_left (fun m nv => hmap_push (lower (fst nv)) (norm_value (snd nv)) m) hs m))).
  { induction hs as [|x hs IH]; intros m ND; cbn [fold_left]; [exact ND|].
    apply IH. apply hmap_push_nodup. exact ND. }
  apply G. constructor.
Qed.

Lemma parse_components_nodup cs : forall m m',
  NoDup (map fst m) -> parse_components cs m = Some m' -> NoDup (map fst m').
Proof.
  induction cs as [|c r IH]; intros m m' ND; cbn [parse_components].
  - intro E. injection E as <-. exact ND.
  - destruct (is_nil c); [apply IH; exact ND|].
    destruct (parse_component c) as [[k v]|]; [|discriminate].
    apply IH. apply qmap_push_nodup. exact ND.
Qed.

Theorem query_map_nodup q m : query_map q = Some m -> NoDup (map fst m).
Proof.
  unfold query_map. destruct (is_nil q).
  - intro E. injection E as <-. constructor.
  - apply parse_components_nodup. constructor.
Qed.

Theorem qmap_extend_nodup m b : NoDup (map fst m) -> NoDup (map fst (qmap_extend m b)).
Proof.
  unfold qmap_extend. revert m. induction b as [|[k vs] b IH]; intros m ND; cbn [fold_left]; [exact ND|].
  apply IH. cbn [fst snd]. clear IH. revert m ND.
  induction vs as [|v vs IHv]; intros m ND; cbn [fold_left]; [exact ND|].
  apply IHv. apply qmap_push_nodup. exact ND.
Qed.

Definition cr_nodup (cr : canonical) : Prop :=
  NoDup (map fst (cr_headers cr)) /\ NoDup (map fst (cr_query cr)).

(* the same canonical request with its two maps stored in another order *)
Definition with_maps (cr : canonical) (q : qmap) (h : hmap) : canonical :=
  {| cr_method := cr_method cr; cr_path := cr_path cr; cr_query := q; cr_headers := h;
     cr_body_sha256 := cr_body_sha256 cr |}.

Theorem reqs_ok_perm : forall rs hm hm' signed,
  NoDup (map fst hm) -> Permutation hm hm' -> reqs_ok rs hm signed = reqs_ok rs hm' signed.
Proof.
  intros rs hm hm' signed ND P. unfold reqs_ok. f_equal; [f_equal|].
  - apply forallb_ext'. intro c. unfold hget. rewrite (assoc_perm hm hm' _ ND P). reflexivity.
  - apply forallb_ext'. intro p. apply forallb_perm. exact P.
Qed.

Theorem header_lines_perm : forall hm hm' signed,
  NoDup (map fst hm) -> Permutation hm hm' -> header_lines hm signed = header_lines hm' signed.
Proof.
  intros hm hm' signed ND P. unfold header_lines.
  induction signed as [|h r IH]; cbn [flat_map]; [reflexivity|].
  unfold hget at 1 3. rewrite (assoc_perm hm hm' _ ND P), IH. reflexivity.
Qed.

Section C18.
  Variable H : bytes -> bytes.

  (* every HashMap iteration of the pipeline: the query rendering, the header lookups of the
     canonical header block, and the three requirement loops *)
  Theorem C18_order_independent : forall cr q' h' rs signed,
    NoDup (map fst (cr_headers cr)) ->
    Permutation (cr_query cr) q' -> Permutation (cr_headers cr) h' ->
    canon_query_in_order q' = canon_query_in_order (cr_query cr)
    /\ canonical_request (with_maps cr q' h') signed = canonical_request cr signed
    /\ reqs_ok rs h' signed = reqs_ok rs (cr_headers cr) signed.
  Proof.
    intros cr q' h' rs signed ND Pq Ph.
    assert (Q : canon_query_in_order q' = canon_query_in_order (cr_query cr))
      by (symmetry; apply C10_order_independent; exact Pq).
    repeat split.
    - exact Q.
    - unfold canonical_request, with_maps, canon_query. cbn [cr_method cr_path cr_query cr_headers cr_body_sha256].
      rewrite Q, (header_lines_perm _ _ signed ND Ph). reflexivity.
    - symmetry. apply reqs_ok_perm; assumption.
  Qed.

  (* lifted: everything after from_request_parts is the same function of the permuted maps *)
  Theorem C18_authenticator_order_independent : forall cr q' h' rs,
    cr_nodup cr -> Permutation (cr_query cr) q' -> Permutation (cr_headers cr) h' ->
    get_authenticator H (with_maps cr q' h') rs = get_authenticator H cr rs.
  Proof.
    intros cr q' h' rs [NDh NDq] Pq Ph.
    assert (HG : forall k, hget k h' = hget k (cr_headers cr))
      by (intro k; unfold hget; symmetry; apply assoc_perm; assumption).
    assert (QG : forall k, qget k q' = qget k (cr_query cr))
      by (intro k; unfold qget; symmetry; apply assoc_perm; assumption).
    assert (CP : carrier_params (with_maps cr q' h') = carrier_params cr).
    { unfold carrier_params, auth_params_from_header, auth_params_from_query, with_maps.
      cbn [cr_query cr_headers]. rewrite !HG, !QG. reflexivity. }
    unfold get_authenticator, get_auth_parameters. rewrite CP.
    destruct (carrier_params cr) as [ap| |]; cbn [bind]; try reflexivity.
    destruct (C18_order_independent cr q' h' rs (ap_signed ap) NDh Pq Ph) as [_ [CR RO]].
    change (cr_headers (with_maps cr q' h')) with h'. rewrite RO.
    destruct (negb (host_signed (ap_signed ap))); cbn [bind]; [reflexivity|].
    destruct (negb (reqs_ok rs (cr_headers cr) (ap_signed ap))); cbn [bind]; [reflexivity|].
    rewrite CR. reflexivity.
  Qed.

  (* the tail of [validate] after from_request_parts *)
  Definition validate_after (x : canonical * parts * bytes) (cf : config) (pv : provider)
    : list gsk_request * outcome :=
    let '(cr, pts, body) := x in
    match get_authenticator H cr (cf_reqs cf) with
    | Err k => ([], Refused k)
    | Panic s => ([], Panicked s)
    | Ok au =>
        let '(calls, r) := validate_signature H au cf pv in
        (calls, match r with
                | Ok (principal, session) => Accepted pts body principal session
                | Err k => Refused k
                | Panic s => Panicked s
                end)
    end.

  Lemma validate_split rq cf pv :
    validate H rq cf pv =
    match from_request_parts H rq cf with
    | Err k => ([], Refused k)
    | Panic s => ([], Panicked s)
    | Ok x => validate_after x cf pv
    end.
  Proof. unfold validate, validate_after. destruct (from_request_parts H rq cf) as [[[cr pts] body]| |]; reflexivity. Qed.

  Theorem C18_validate_order_independent : forall cr pts body q' h' cf pv,
    cr_nodup cr -> Permutation (cr_query cr) q' -> Permutation (cr_headers cr) h' ->
    validate_after (with_maps cr q' h', pts, body) cf pv = validate_after (cr, pts, body) cf pv.
  Proof.
    intros cr pts body q' h' cf pv ND Pq Ph. unfold validate_after.
    rewrite (C18_authenticator_order_independent _ _ _ _ ND Pq Ph). reflexivity.
  Qed.

  (* and the maps from_request_parts builds do have distinct keys *)
  Theorem from_request_parts_nodup : forall rq cf cr pts body,
    from_request_parts H rq cf = Ok (cr, pts, body) -> cr_nodup cr.
  Proof.
    intros rq cf cr pts body E. rewrite from_request_parts_eq in E.
    destruct (request_failure rq cf) eqn:RF; [discriminate|]. injection E as <- _ _.
    unfold request_failure in RF.
    destruct (is_none (st_path rq cf)); [discriminate|].
    destruct (is_none (st_url_qm rq)) eqn:E1; [discriminate|].
    split; cbn [cr_headers cr_query st_canonical]; [apply normalize_headers_nodup|].
    apply is_none_false in E1. destruct E1 as [qm E1]. unfold st_qm. rewrite E1. cbn [odflt].
    pose proof (query_map_nodup _ _ E1) as G.
    destruct (spec_folded rq cf); [apply qmap_extend_nodup|]; exact G.
  Qed.

  (* the folded URI handed back to the application does not depend on the order either *)
  Theorem C18_folded_uri_order_independent : forall path m m',
    Permutation m m' ->
    path ++ (if is_nil (canon_query_in_order m) then [] else "?"%byte :: canon_query_in_order m) =
    path ++ (if is_nil (canon_query_in_order m') then [] else "?"%byte :: canon_query_in_order m').
  Proof. intros path m m' P. rewrite (C10_order_independent _ _ P). reflexivity. Qed.

  (* no state is threaded from one validation to the next: a batch is the map of the single
     validations, in whatever order it is processed *)
  Theorem C18_history_independent : forall (l l' : list (request * config * provider)),
    Permutation l l' ->
    forall x, In x l ->
      In (x, validate H (fst (fst x)) (snd (fst x)) (snd x))
         (map (fun y => (y, validate H (fst (fst y)) (snd (fst y)) (snd y))) l').
  Proof.
    intros l l' P x I. apply in_map_iff. exists x. split; [reflexivity|].
    eapply Permutation_in; eassumption.
  Qed.
End C18.

(* ========================================================================================== *)
(* C19                                                                                         *)

Lemma hd_values_of n hs : hd_error (values_of n hs) = first_raw n hs.
Proof.
  unfold values_of. induction hs as [|[n' v] r IH]; cbn [filter map first_raw fst snd]; [reflexivity|].
  destruct (bytes_eqb (lower n') n); [reflexivity|exact IH].
Qed.

(* of a repeated header only the first value (normalised) is ever read by the selection *)
Theorem C19_header_first_value : forall hs n,
  first_value (hget n (normalize_headers hs)) = option_map norm_value (first_raw n hs).
Proof.
  intros hs n. rewrite hget_normalize_headers, <- hd_values_of.
  destruct (values_of n hs); reflexivity.
Qed.

Lemma hget_none_first_raw hs n : hget n (normalize_headers hs) = None <-> first_raw n hs = None.
Proof.
  rewrite hget_normalize_headers, <- hd_values_of. destruct (values_of n hs); cbn; split; congruence.
Qed.

(* a later header of a name that already occurred changes no first value *)
Theorem C19_later_duplicate_ignored : forall hs1 x hs2 n,
  first_raw (lower (fst x)) hs1 <> None ->
  first_raw n (hs1 ++ x :: hs2) = first_raw n (hs1 ++ hs2).
Proof.
  intros hs1 [xn xv] hs2 n. cbn [fst].
  induction hs1 as [|[n' v] r IH]; cbn [first_raw app]; [congruence|].
  destruct (bytes_eqb (lower n') n) eqn:E1; [reflexivity|].
  destruct (bytes_eqb (lower n') (lower xn)) eqn:E2.
  - intros _. apply bytes_eqb_eq in E2.
    clear IH. induction r as [|[n'' v''] r IHr]; cbn [first_raw app].
    + rewrite <- E2, E1. reflexivity.
    + destruct (bytes_eqb (lower n'') n); [reflexivity|exact IHr].
  - exact IH.
Qed.

Definition spec_date (hs : list (bytes * bytes)) : option bytes :=
  match first_raw src_canonical_X_AMZ_DATE_LOWER hs with
  | Some v => Some v
  | None => first_raw src_canonical_DATE hs
  end.

(* the first x-amz-date header wins over any date header; otherwise the first date header *)
Theorem C19_first_date : forall cr hs,
  cr_headers cr = normalize_headers hs ->
  hdr_date cr = option_map norm_value (spec_date hs).
Proof.
  intros cr hs E. unfold hdr_date, spec_date. rewrite E.
  pose proof (C19_header_first_value hs src_canonical_X_AMZ_DATE_LOWER) as F.
  pose proof (hget_none_first_raw hs src_canonical_X_AMZ_DATE_LOWER) as N.
  destruct (hget src_canonical_X_AMZ_DATE_LOWER (normalize_headers hs)) as [vs|].
  - rewrite F. destruct (first_raw src_canonical_X_AMZ_DATE_LOWER hs); [reflexivity|].
    exfalso. destruct N as [_ N]. discriminate (N eq_refl).
  - destruct N as [N _]. rewrite (N eq_refl). apply C19_header_first_value.
Qed.

Theorem C19_first_token : forall cr hs,
  cr_headers cr = normalize_headers hs ->
  hdr_token cr = option_map norm_value (first_raw src_canonical_X_AMZ_SECURITY_TOKEN_LOWER hs).
Proof. intros cr hs E. unfold hdr_token. rewrite E. apply C19_header_first_value. Qed.

(* only the first Authorization header is parsed *)
Theorem C19_first_authorization : forall cr hs v,
  cr_headers cr = normalize_headers hs ->
  first_raw src_canonical_AUTHORIZATION hs = Some v ->
  qget src_canonical_X_AMZ_ALGORITHM (cr_query cr) = None ->
  carrier_params cr = auth_params_from_header cr (norm_value v).
Proof.
  intros cr hs v E F Q. unfold carrier_params. rewrite Q, E.
  pose proof (C19_header_first_value hs src_canonical_AUTHORIZATION) as X. rewrite F in X.
  destruct (hget src_canonical_AUTHORIZATION (normalize_headers hs)) as [[|a l]|]; cbn in X; try discriminate X.
  injection X as ->. reflexivity.
Qed.

(* pmap_insert is HashMap::insert *)
Lemma assoc_pmap_insert k k' v m :
  assoc k (pmap_insert k' v m) = if bytes_eqb k k' then Some v else assoc k m.
Proof.
  induction m as [|[k'' v''] r IH]; cbn [pmap_insert assoc].
  - reflexivity.
  - destruct (bytes_eqb k' k'') eqn:E1; cbn [assoc].
    + apply bytes_eqb_eq in E1. subst k''. destruct (bytes_eqb k k'); reflexivity.
    + rewrite IH. destruct (bytes_eqb k k'') eqn:E2; [|reflexivity].
      destruct (bytes_eqb k k') eqn:E3; [|reflexivity].
      apply bytes_eqb_eq in E2, E3. subst. rewrite bytes_eqb_refl in E1. discriminate.
Qed.

(* the value of the last piece "k=v" (after trimming) among [ps] *)
Fixpoint last_param (k : bytes) (ps : list bytes) : option bytes :=
  match ps with
  | [] => None
  | p :: r =>
      match last_param k r with
      | Some v => Some v
      | None =>
          match split_once "="%byte (trim_ascii p) with
          | Some (k', v) => if bytes_eqb k k' then Some v else None
          | None => None
          end
      end
  end.

Lemma trim_nil_split_once p : is_nil (trim_ascii p) = true -> split_once "="%byte (trim_ascii p) = None.
Proof. destruct (trim_ascii p); [reflexivity|discriminate]. Qed.

(* within the Authorization header the last occurrence of a parameter name wins *)
Theorem C19_last_param_wins : forall ps m pm k,
  parse_auth_params ps m = Ok pm ->
  assoc k pm = match last_param k ps with Some v => Some v | None => assoc k m end.
Proof.
  induction ps as [|p r IH]; intros m pm k; cbn [parse_auth_params last_param].
  - intro E. injection E as <-. reflexivity.
  - destruct (is_nil (trim_ascii p)) eqn:N.
    + intro E. rewrite (IH _ _ k E), (trim_nil_split_once _ N). destruct (last_param k r); reflexivity.
    + destruct (split_once "="%byte (trim_ascii p)) as [[k' v]|]; [|discriminate].
      intro E. rewrite (IH _ _ k E), assoc_pmap_insert.
      destruct (last_param k r); [reflexivity|]. destruct (bytes_eqb k k'); reflexivity.
Qed.

Corollary C19_last_param_wins_header : forall a k,
  bad_param_syntax a = false -> assoc k (hdr_pmap a) = last_param k (hdr_pieces a).
Proof.
  intros a k S. unfold hdr_pmap. pose proof (parse_auth_params_cases (hdr_pieces a) []) as P.
  unfold bad_param_syntax in S. rewrite S in P. destruct P as [pm P]. rewrite P.
  rewrite (C19_last_param_wins _ _ _ k P). destruct (last_param k (hdr_pieces a)); reflexivity.
Qed.

(* the normalised value of the first component named [k] *)
Fixpoint first_comp (k : bytes) (cs : list bytes) : option bytes :=
  match cs with
  | [] => None
  | c :: r =>
      if is_nil c then first_comp k r
      else match parse_component c with
           | Some (k', v) => if bytes_eqb k k' then Some v else first_comp k r
           | None => None
           end
  end.

Lemma qget_push n k v m :
  qget n (qmap_push k v m) =
  if bytes_eqb n k
  then Some (match qget n m with Some ws => ws ++ [v] | None => [v] end)
  else qget n m.
Proof. exact (hget_push n k v m). Qed.

Lemma first_value_push n k v m :
  first_value (qget n (qmap_push k v m)) =
  match first_value (qget n m) with
  | Some w => Some w
  | None => if bytes_eqb n k then Some v else None
  end.
Proof.
  rewrite qget_push. destruct (bytes_eqb n k).
  - destruct (qget n m) as [[|w ws]|]; reflexivity.
  - destruct (first_value (qget n m)); reflexivity.
Qed.

Lemma parse_components_first cs : forall m m' k,
  parse_components cs m = Some m' ->
  first_value (qget k m') =
  match first_value (qget k m) with Some v => Some v | None => first_comp k cs end.
Proof.
  induction cs as [|c r IH]; intros m m' k; cbn [parse_components first_comp].
  - intro E. injection E as <-. destruct (first_value (qget k m)); reflexivity.
  - destruct (is_nil c); [apply IH|].
    destruct (parse_component c) as [[k' v]|]; [|discriminate].
    intro E. rewrite (IH _ _ k E), first_value_push.
    destruct (first_value (qget k m)); [reflexivity|]. destruct (bytes_eqb k k'); reflexivity.
Qed.

(* of a repeated query parameter the first value is the one read *)
Theorem C19_first_query_value : forall q m k,
  query_map q = Some m ->
  first_value (qget k m) = first_comp k (split_on "&"%byte q).
Proof.
  intros q m k. unfold query_map. destruct q as [|c q]; cbn [is_nil].
  - intro E. injection E as <-. reflexivity.
  - intro E. rewrite (parse_components_first _ _ _ k E). reflexivity.
Qed.

Lemma push_values_first k' vs : forall m k,
  first_value (qget k (fold_left (fun acc v => qmap_push k' v acc) vs m)) =
  match first_value (qget k m) with
  | Some w => Some w
  | None => if bytes_eqb k k' then hd_error vs else None
  end.
Proof.
  induction vs as [|v vs IH]; intros m k; cbn [fold_left hd_error].
  - destruct (first_value (qget k m)); [reflexivity|]. destruct (bytes_eqb k k'); reflexivity.
  - rewrite IH, first_value_push. destruct (first_value (qget k m)); [reflexivity|].
    destruct (bytes_eqb k k'); reflexivity.
Qed.

(* with form folding, URL values come before body values *)
Theorem C19_url_before_body : forall m b k,
  Forall (fun kv => snd kv <> []) b ->
  first_value (qget k (qmap_extend m b)) =
  match first_value (qget k m) with Some v => Some v | None => first_value (qget k b) end.
Proof.
  intros m b k G. unfold qmap_extend. revert m.
  induction G as [|[k' vs] b G1 G2 IH]; intro m; cbn [fold_left].
  - destruct (first_value (qget k m)); reflexivity.
  - rewrite IH. cbn [fst snd] in *. rewrite push_values_first.
    destruct (first_value (qget k m)); [reflexivity|].
    unfold qget at 2. cbn [assoc]. destruct (bytes_eqb k k'); [|reflexivity].
    destruct vs; [congruence|reflexivity].
Qed.

Lemma qm_good_nonempty b : qm_good b -> Forall (fun kv => snd kv <> []) b.
Proof. intro G. eapply Forall_impl; [|exact G]. intros kv [N _]. exact N. Qed.

(* ------------------------------------------------------------------------------------------ *)
(* C18, continued: the loop of form folding over the body map                                  *)

Lemma push_values_qget k' vs : forall m k,
  qget k (fold_left (fun acc v => qmap_push k' v acc) vs m) =
  if bytes_eqb k k'
  then match vs with [] => qget k m | _ => Some (odflt [] (qget k m) ++ vs) end
  else qget k m.
Proof.
  induction vs as [|v vs IH]; intros m k; cbn [fold_left].
  - destruct (bytes_eqb k k'); reflexivity.
  - rewrite IH, qget_push. destruct (bytes_eqb k k'); [|reflexivity].
    assert (X : match qget k m with Some ws => ws ++ [v] | None => [v] end = odflt [] (qget k m) ++ [v])
      by (destruct (qget k m); reflexivity).
    rewrite X. cbn [odflt]. destruct vs as [|v' vs]; [reflexivity|].
    rewrite <- app_assoc. reflexivity.
Qed.

Definition merge_values (a b : option (list bytes)) : option (list bytes) :=
  match a, b with
  | Some x, Some y => Some (x ++ y)
  | Some x, None => Some x
  | None, Some y => Some y
  | None, None => None
  end.

(* form folding, seen through lookups: per name, URL values followed by body values *)
Theorem qget_qmap_extend : forall b m k,
  NoDup (map fst b) -> Forall (fun kv => snd kv <> []) b ->
  qget k (qmap_extend m b) = merge_values (qget k m) (qget k b).
Proof.
  unfold qmap_extend. induction b as [|[k' vs] b IH]; intros m k ND NE; cbn [fold_left].
  - destruct (qget k m); reflexivity.
  - cbn [map fst] in ND. inversion ND as [|x l N1 N2]; subst. inversion NE as [|x l E1 E2]; subst.
    cbn [fst snd] in *. rewrite (IH _ _ N2 E2), push_values_qget.
    assert (HD : qget k ((k', vs) :: b) = if bytes_eqb k k' then Some vs else qget k b) by reflexivity.
    rewrite HD. clear HD.
    destruct (bytes_eqb k k') eqn:E; [|reflexivity].
    apply bytes_eqb_eq in E. subst k'.
    assert (B : qget k b = None).
    { destruct (qget k b) as [ws|] eqn:Q; [|reflexivity]. exfalso. apply N1.
      unfold qget in Q. apply (assoc_In _ N2) in Q. apply in_map_iff. exists (k, ws). split; [reflexivity|exact Q]. }
    rewrite B. destruct vs as [|v vs]; [congruence|]. destruct (qget k m); reflexivity.
Qed.

(* two association lists with distinct keys and the same lookups are the same HashMap *)
Lemma nodup_keys_nodup {V} (l : list (bytes * V)) : NoDup (map fst l) -> NoDup l.
Proof.
  induction l as [|[k v] r IH]; cbn [map fst]; intro ND; [constructor|].
  inversion ND as [|x l N1 N2]; subst. constructor; [|apply IH; exact N2].
  intro X. apply N1. apply in_map_iff. exists (k, v). split; [reflexivity|exact X].
Qed.

Lemma same_lookups_perm {V} (l l' : list (bytes * V)) :
  NoDup (map fst l) -> NoDup (map fst l') -> (forall k, assoc k l = assoc k l') -> Permutation l l'.
Proof.
  intros ND ND' E. apply NoDup_Permutation; try (apply nodup_keys_nodup; assumption).
  intros [k v]. rewrite <- (assoc_In _ ND), <- (assoc_In _ ND'), E. tauto.
Qed.

(* iterating the body map in another order yields the same merged map, hence the same canonical
   query, the same rebuilt URI and (by C18_validate_order_independent) the same verdict *)
Theorem C18_fold_order_independent : forall m b b',
  NoDup (map fst m) -> NoDup (map fst b) -> Forall (fun kv => snd kv <> []) b -> Permutation b b' ->
  Permutation (qmap_extend m b) (qmap_extend m b')
  /\ canon_query (qmap_extend m b) = canon_query (qmap_extend m b').
Proof.
  intros m b b' NDm NDb NE P.
  assert (NDb' : NoDup (map fst b')) by (eapply Permutation_NoDup; [apply Permutation_map; exact P|exact NDb]).
  assert (NE' : Forall (fun kv => snd kv <> []) b') by (eapply Permutation_Forall; eassumption).
  assert (X : Permutation (qmap_extend m b) (qmap_extend m b')).
  { apply same_lookups_perm; try (apply qmap_extend_nodup; exact NDm).
    intro k. change (qget k (qmap_extend m b) = qget k (qmap_extend m b')).
    rewrite !qget_qmap_extend by assumption.
    assert (Q : qget k b = qget k b') by (apply assoc_perm; assumption). rewrite Q. reflexivity. }
  split; [exact X|]. unfold canon_query. apply C10_order_independent. exact X.
Qed.

Section C19.
  Variable H : bytes -> bytes.

  (* the parameters that are authenticated are a fixed selection from the canonical request *)
  Theorem C19_selection : forall rq cf cr pts body ap,
    from_request_parts H rq cf = Ok (cr, pts, body) ->
    carrier_params cr = Ok ap ->
    ap = sel_params cr.
  Proof.
    intros rq cf cr pts body ap E C.
    rewrite (carrier_params_eq _ (from_request_parts_good H _ _ _ _ _ E)) in C.
    destruct (params_failure cr); [discriminate|]. injection C as <-. reflexivity.
  Qed.

  (* ... on the header carrier, in terms of the raw headers of the request *)
  Theorem C19_selection_header : forall rq cf cr pts body ap a,
    from_request_parts H rq cf = Ok (cr, pts, body) ->
    carrier_params cr = Ok ap ->
    first_raw src_canonical_AUTHORIZATION (rq_headers rq) = Some a ->
    let ps := hdr_pieces (norm_value a) in
    ap_credential ap = latin1 (odflt [] (last_param src_canonical_CREDENTIAL ps))
    /\ ap_signature ap = latin1 (odflt [] (last_param src_canonical_SIGNATURE ps))
    /\ ap_signed ap = sort_bytes (map latin1 (split_on ";"%byte (odflt [] (last_param src_canonical_SIGNED_HEADERS ps))))
    /\ ap_timestamp ap = latin1 (odflt [] (option_map norm_value (spec_date (rq_headers rq))))
    /\ ap_token ap = option_map latin1
         (option_map norm_value (first_raw src_canonical_X_AMZ_SECURITY_TOKEN_LOWER (rq_headers rq))).
  Proof.
    intros rq cf cr pts body ap a E C F ps.
    assert (EH : cr_headers cr = normalize_headers (rq_headers rq)).
    { rewrite from_request_parts_eq in E. destruct (request_failure rq cf); [discriminate|].
      injection E as <- _ _. reflexivity. }
    pose proof (from_request_parts_good H _ _ _ _ _ E) as G.
    pose proof C as C'. rewrite (carrier_params_eq _ G) in C'.
    destruct (params_failure cr) eqn:PF; [discriminate|]. injection C' as <-.
    pose proof (C19_header_first_value (rq_headers rq) src_canonical_AUTHORIZATION) as X. rewrite F in X.
    assert (HA : has_auth cr = true /\ auth_value cr = norm_value a).
    { unfold has_auth, auth_value, auth_values, is_some. rewrite EH.
      destruct (hget src_canonical_AUTHORIZATION (normalize_headers (rq_headers rq))) as [[|v l]|];
        cbn in X; try discriminate X. injection X as ->. split; reflexivity. }
    destruct HA as [HA AV].
    assert (S : bad_param_syntax (norm_value a) = false).
    { unfold params_failure in PF. rewrite HA, AV in PF. cbn [negb andb] in PF.
      destruct (has_alg cr); [discriminate|]. destruct (bad_alg_header (norm_value a)); [discriminate|].
      cbn [andb] in PF. destruct (bad_param_syntax (norm_value a)); [discriminate|reflexivity]. }
    unfold sel_params. rewrite HA, AV. unfold sel_header. cbn [ap_credential ap_signature ap_signed ap_timestamp ap_token].
    rewrite !(C19_last_param_wins_header _ _ S), (C19_first_date _ _ EH), (C19_first_token _ _ EH).
    repeat split; reflexivity.
  Qed.

  (* ... on the query carrier: the first value of each X-Amz-* parameter, URL before body *)
  Theorem C19_selection_query : forall rq cf cr pts body ap,
    from_request_parts H rq cf = Ok (cr, pts, body) ->
    carrier_params cr = Ok ap ->
    hget src_canonical_AUTHORIZATION (cr_headers cr) = None ->
    ap_credential ap = unesc (odflt [] (qfirst cr src_canonical_X_AMZ_CREDENTIAL))
    /\ ap_signature ap = unesc (odflt [] (qfirst cr src_canonical_X_AMZ_SIGNATURE))
    /\ ap_signed ap = sort_bytes (split_on ";"%byte (unesc (odflt [] (qfirst cr src_canonical_X_AMZ_SIGNED_HEADERS))))
    /\ ap_timestamp ap = unesc (odflt [] (qfirst cr src_canonical_X_AMZ_DATE))
    /\ ap_token ap = option_map unesc (qfirst cr src_canonical_X_AMZ_SECURITY_TOKEN).
  Proof.
    intros rq cf cr pts body ap E C A. rewrite (C19_selection _ _ _ _ _ _ E C).
    unfold sel_params, has_auth, auth_values, is_some. rewrite A. cbn [is_none negb].
    repeat split; reflexivity.
  Qed.

  (* where [qfirst] reads: the first URL component of that name, else the first body component *)
  Theorem C19_query_values_of_request : forall rq cf k uq,
    request_failure rq cf = None ->
    st_url_qm rq = Some uq ->
    qfirst (st_canonical H rq cf) k =
    match first_comp k (split_on "&"%byte (url_query rq)) with
    | Some v => Some v
    | None =>
        if spec_folded rq cf
        then match spec_decoded_body rq with
             | Some d => first_comp k (split_on "&"%byte d)
             | None => None
             end
        else None
    end.
  Proof.
    intros rq cf k uq RF U. unfold qfirst, st_canonical, st_qm. cbn [cr_query]. rewrite U. cbn [odflt].
    pose proof U as U'. unfold st_url_qm in U'. rewrite <- (C19_first_query_value _ _ k U').
    unfold request_failure in RF. rewrite U in RF. cbn [is_none] in RF.
    destruct (is_none (st_path rq cf)); [discriminate|].
    destruct (spec_folded rq cf); cbn [andb] in RF.
    - destruct (is_none (spec_decoded_body rq)) eqn:D; [discriminate|].
      destruct (is_none (st_body_qm rq)) eqn:B; [discriminate|].
      apply is_none_false in B. destruct B as [bm B]. rewrite B. cbn [odflt].
      unfold st_body_qm in B. destruct (spec_decoded_body rq) as [d|]; [|discriminate].
      rewrite (C19_url_before_body _ _ k (qm_good_nonempty _ (query_map_good _ _ B))).
      rewrite (C19_first_query_value _ _ k B). reflexivity.
    - destruct (first_value (qget k uq)); reflexivity.
  Qed.

  (* a request that carries both an Authorization header and an X-Amz-Algorithm parameter is refused *)
  Theorem C19_both_carriers_refused : forall rq cf pv,
    request_failure rq cf = None ->
    first_raw src_canonical_AUTHORIZATION (rq_headers rq) <> None ->
    qfirst (st_canonical H rq cf) src_canonical_X_AMZ_ALGORITHM <> None ->
    validate H rq cf pv = ([], Refused SignatureDoesNotMatch).
  Proof.
    intros rq cf pv RF A Q.
    eapply (C13_both_carriers H rq cf pv (st_canonical H rq cf)).
    - rewrite from_request_parts_eq, RF. reflexivity.
    - cbn [cr_headers st_canonical]. intro X. apply hget_none_first_raw in X. contradiction.
    - intro X. apply Q. unfold qfirst. rewrite X. reflexivity.
  Qed.
End C19.

(* ========================================================================================== *)
(* non-vacuity                                                                                 *)

Module SelectionExamples.
  Import Crypto.Sha256 PipelineExamples.

  Ltac run := vm_compute; repeat split; reflexivity.

  (* --- C17 --- *)
  Definition other_key : bytes := s2b "another key, same principal.....".
  Definition ex_pv2 : provider :=
    {| pv_ready_pending := 0; pv_ready := None; pv_call_pending := 0;
       pv_answer := fun g => if bytes_eqb (g_access_key g) (s2b "AKID")
                             then AnsOk other_key (s2b "user") (s2b "sess")
                             else AnsErr (BoxSig InvalidClientTokenId) |}.

  Example ex_same_but_key : same_but_key ex_pv ex_pv2.
  Proof.
    split; [reflexivity|]. intro g. unfold ex_pv, ex_pv2; cbn [pv_answer].
    destruct (bytes_eqb (g_access_key g) (s2b "AKID")); [split; reflexivity|reflexivity].
  Qed.

  (* refused under both keys: same kind, same call, although the expected signatures differ *)
  Example ex_C17_refused_twice :
    let rq := ex_rq (s2b "/") None (good_hs (s2b "00")) [] in
    validate sha256 rq ex_cf ex_pv = ([ex_call], Refused SignatureDoesNotMatch)
    /\ validate sha256 rq ex_cf ex_pv2 = ([ex_call], Refused SignatureDoesNotMatch)
    /\ hmac sha256 ex_key (sts_of (st_au sha256 rq ex_cf)) <> hmac sha256 other_key (sts_of (st_au sha256 rq ex_cf)).
  Proof. cbv zeta. split; [run|]. split; [run|]. vm_compute. discriminate. Qed.

  (* the hypothesis "both refused" matters: the key does decide between acceptance and refusal *)
  Example ex_C17_key_decides_acceptance :
    let rq := ex_rq (s2b "/") None (good_hs ex_sig) [] in
    (exists p b, snd (validate sha256 rq ex_cf ex_pv) = Accepted p b (s2b "user") (s2b "sess"))
    /\ snd (validate sha256 rq ex_cf ex_pv2) = Refused SignatureDoesNotMatch.
  Proof. cbv zeta. split; [do 2 eexists; vm_compute; reflexivity|run]. Qed.

  (* --- C18 --- *)
  Definition ex_rq18 : request :=
    ex_rq (s2b "/") (Some (s2b "b=2&a=1&c=3&a=0")) (good_hs (s2b "00") ++ [(s2b "X-Amz-Meta", s2b "m")]) [].
  Definition ex_cr18 : canonical := st_canonical sha256 ex_rq18 ex_cf.

  Example ex_C18_maps_have_several_entries :
    map fst (cr_query ex_cr18) = [s2b "b"; s2b "a"; s2b "c"]
    /\ map fst (cr_headers ex_cr18) = [s2b "host"; s2b "x-amz-date"; s2b "authorization"; s2b "x-amz-meta"].
  Proof. run. Qed.

  Example ex_C18_reversed_maps :
    get_authenticator sha256 (with_maps ex_cr18 (rev (cr_query ex_cr18)) (rev (cr_headers ex_cr18))) (cf_reqs ex_cf)
    = get_authenticator sha256 ex_cr18 (cf_reqs ex_cf)
    /\ exists au, get_authenticator sha256 ex_cr18 (cf_reqs ex_cf) = Ok au.
  Proof.
    split.
    - apply C18_authenticator_order_independent; try apply Permutation_rev.
      apply (from_request_parts_nodup sha256 ex_rq18 ex_cf _ (st_parts ex_rq18 ex_cf) (spec_payload ex_rq18 ex_cf)).
      rewrite from_request_parts_eq. vm_compute. reflexivity.
    - eexists. vm_compute. reflexivity.
  Qed.

  (* distinct keys are needed: on a list with a repeated key the lookup does depend on the order *)
  Example ex_C18_nodup_needed :
    let m : hmap := [(s2b "a", [s2b "1"]); (s2b "a", [s2b "2"])] in
    hget (s2b "a") m <> hget (s2b "a") (rev m).
  Proof. vm_compute. discriminate. Qed.

  (* --- C19 --- *)
  (* every authentication input repeated; only the selected copies are good *)
  Definition dup_hs (sig : bytes) : list (bytes * bytes) :=
    [host_h;
     (s2b "Date", s2b "not a date");
     date_h "20150830T123600Z";
     date_h "19990101T000000Z";
     auth_h (s2b "AWS4-HMAC-SHA256 Credential=NOBODY/1/2/3/4, Signature=00, Credential=AKID/20150830/us-east-1/svc/aws4_request, SignedHeaders=host;x-amz-date, Signature=" ++ sig);
     auth_h (s2b "AWS4-HMAC-SHA512 junk")].
  Definition dup_sig : bytes :=
    Eval vm_compute in
      lower_hex (hmac sha256 ex_key (sts_of (st_au sha256 (ex_rq (s2b "/") None (dup_hs []) []) ex_cf))).

  Example ex_C19_header_selection :
    let rq := ex_rq (s2b "/") None (dup_hs dup_sig) [] in
    snd (validate sha256 rq ex_cf ex_pv)
    = Accepted {| pt_method := s2b "GET"; pt_uri := s2b "/"; pt_version := 11%N; pt_headers := dup_hs dup_sig |}
               [] (s2b "user") (s2b "sess")
    /\ fst (validate sha256 rq ex_cf ex_pv) = [ex_call]
    /\ spec_date (rq_headers rq) = Some (s2b "20150830T123600Z")
    /\ last_param src_canonical_CREDENTIAL (hdr_pieces (norm_value (snd (nth 4 (dup_hs dup_sig) host_h))))
       = Some (s2b "AKID/20150830/us-east-1/svc/aws4_request").
  Proof. run. Qed.

  (* the other choice of each duplicate is refused *)
  Example ex_C19_later_signature_is_the_one :
    let rq := ex_rq (s2b "/") None
                [host_h; date_h "20150830T123600Z";
                 auth_h (good_prefix ++ ex_sig ++ s2b ", Signature=00")] [] in
    snd (validate sha256 rq ex_cf ex_pv) = Refused SignatureDoesNotMatch.
  Proof. run. Qed.

  Example ex_C19_first_query_value :
    let q := s2b "X-Amz-Date=1&a=b&X-Amz-Date=2&&X-Amz-Date=3" in
    exists m, query_map q = Some m
              /\ first_value (qget src_canonical_X_AMZ_DATE m) = Some (s2b "1")
              /\ first_comp src_canonical_X_AMZ_DATE (split_on "&"%byte q) = Some (s2b "1")
              /\ qget src_canonical_X_AMZ_DATE m = Some [s2b "1"; s2b "2"; s2b "3"].
  Proof. eexists. run. Qed.

  Example ex_C19_url_before_body :
    let rq := ex_rq (s2b "/") (Some (s2b "k=url")) [(s2b "Content-Type", s2b "application/x-www-form-urlencoded")]
                (s2b "k=body&j=body") in
    request_failure rq ex_cf_fold = None
    /\ qfirst (st_canonical sha256 rq ex_cf_fold) (s2b "k") = Some (s2b "url")
    /\ qfirst (st_canonical sha256 rq ex_cf_fold) (s2b "j") = Some (s2b "body").
  Proof. run. Qed.

  Example ex_C19_both_carriers :
    let rq := ex_rq (s2b "/") (Some (s2b "X-Amz-Algorithm=AWS4-HMAC-SHA256")) (good_hs ex_sig) [] in
    request_failure rq ex_cf = None
    /\ first_raw src_canonical_AUTHORIZATION (rq_headers rq) <> None
    /\ qfirst (st_canonical sha256 rq ex_cf) src_canonical_X_AMZ_ALGORITHM <> None
    /\ validate sha256 rq ex_cf ex_pv = ([], Refused SignatureDoesNotMatch).
  Proof. cbv zeta. repeat split; try (vm_compute; reflexivity); vm_compute; discriminate. Qed.
End SelectionExamples.

Print Assumptions C17_calls_independent_of_key.
Print Assumptions C17_refusal_independent_of_key.
Print Assumptions C17_refusal_independent_of_presented_signature_match.
Print Assumptions C17_key_enters_only_the_comparison.
Print Assumptions C18_order_independent.
Print Assumptions C18_authenticator_order_independent.
Print Assumptions C18_validate_order_independent.
Print Assumptions from_request_parts_nodup.
Print Assumptions C18_folded_uri_order_independent.
Print Assumptions C18_history_independent.
Print Assumptions qget_qmap_extend.
Print Assumptions C18_fold_order_independent.
Print Assumptions C19_header_first_value.
Print Assumptions C19_later_duplicate_ignored.
Print Assumptions C19_first_date.
Print Assumptions C19_first_token.
Print Assumptions C19_first_authorization.
Print Assumptions C19_last_param_wins.
Print Assumptions C19_last_param_wins_header.
Print Assumptions C19_first_query_value.
Print Assumptions C19_url_before_body.
Print Assumptions C19_selection.
Print Assumptions C19_selection_header.
Print Assumptions C19_selection_query.
Print Assumptions C19_query_values_of_request.
Print Assumptions C19_both_carriers_refused.
Print Assumptions SelectionExamples.ex_C19_header_selection.
