(* Proofs about the canonical query string (property C10): the sorting order is a total
   order, insertion sort is a canonical form of the multiset of pairs, the model
   (Model/Query.v) computes the specification (Spec/QuerySpec.v), and form folding is multiset
   union.  Only the Coq standard library is used; every theorem is closed under the global
   context. *)
From Coq Require Import List Bool NArith Lia.
From Coq Require Import Sorting.Permutation Sorting.Sorted.
From Coq Require Import Strings.Byte.
From Verif Require Import Base.Bytes Base.Hex Generated.SrcConsts Model.Uri Model.Query
  Spec.PathSpec Spec.QuerySpec.

(* ------------------------------------------------------------------------------------ *)
(* Bytes and the lexicographic order                                                     *)
(* ------------------------------------------------------------------------------------ *)

Lemma q_b2n_inj : forall a b, b2n a = b2n b -> a = b.
Proof.
  intros a b H. unfold b2n in H.
  pose proof (Byte.of_to_N a) as Ha. pose proof (Byte.of_to_N b) as Hb.
  rewrite H in Ha. congruence.
Qed.

Lemma q_bytes_cmp_refl : forall a, bytes_cmp a a = Eq.
Proof.
  induction a as [|x a IH]; cbn; [reflexivity|].
  rewrite N.compare_refl. exact IH.
Qed.

Lemma q_bytes_cmp_eq : forall a b, bytes_cmp a b = Eq -> a = b.
Proof.
  induction a as [|x a IH]; intros [|y b]; cbn; try discriminate; [reflexivity|].
  destruct (N.compare_spec (b2n x) (b2n y)) as [E|L|G]; try discriminate.
  intro H. apply q_b2n_inj in E. apply IH in H. congruence.
Qed.

Lemma q_bytes_cmp_opp : forall a b, bytes_cmp b a = CompOpp (bytes_cmp a b).
Proof.
  induction a as [|x a IH]; intros [|y b]; cbn; try reflexivity.
  rewrite (N.compare_antisym (b2n x) (b2n y)).
  destruct (N.compare (b2n x) (b2n y)); cbn; auto.
Qed.

Lemma q_bytes_cmp_lt_trans : forall a b c,
  bytes_cmp a b = Lt -> bytes_cmp b c = Lt -> bytes_cmp a c = Lt.
Proof.
  induction a as [|x a IH]; intros [|y b] [|z c]; cbn; try discriminate; try reflexivity.
  destruct (N.compare_spec (b2n x) (b2n y)) as [E1|L1|G1]; try discriminate;
  destruct (N.compare_spec (b2n y) (b2n z)) as [E2|L2|G2]; try discriminate; intros H1 H2.
  - rewrite E1, E2, N.compare_refl. eauto.
  - rewrite E1. apply N.compare_lt_iff in L2. rewrite L2. reflexivity.
  - rewrite <- E2. apply N.compare_lt_iff in L1. rewrite L1. reflexivity.
  - assert (L : (b2n x < b2n z)%N) by lia. apply N.compare_lt_iff in L. rewrite L. reflexivity.
Qed.

Lemma q_bytes_leb_refl : forall a, bytes_leb a a = true.
Proof. intro a. unfold bytes_leb. rewrite q_bytes_cmp_refl. reflexivity. Qed.

Lemma q_bytes_leb_total : forall a b, bytes_leb a b = true \/ bytes_leb b a = true.
Proof.
  intros a b. unfold bytes_leb. rewrite (q_bytes_cmp_opp a b).
  destruct (bytes_cmp a b); cbn; auto.
Qed.

Lemma q_bytes_leb_trans : forall a b c,
  bytes_leb a b = true -> bytes_leb b c = true -> bytes_leb a c = true.
Proof.
  intros a b c. unfold bytes_leb.
  destruct (bytes_cmp a b) eqn:E1; try discriminate;
  destruct (bytes_cmp b c) eqn:E2; try discriminate; intros _ _.
  - apply q_bytes_cmp_eq in E1. subst. rewrite E2. reflexivity.
  - apply q_bytes_cmp_eq in E1. subst. rewrite E2. reflexivity.
  - apply q_bytes_cmp_eq in E2. subst. rewrite E1. reflexivity.
  - rewrite (q_bytes_cmp_lt_trans _ _ _ E1 E2). reflexivity.
Qed.

Lemma q_bytes_leb_antisym : forall a b,
  bytes_leb a b = true -> bytes_leb b a = true -> a = b.
Proof.
  intros a b. unfold bytes_leb. rewrite (q_bytes_cmp_opp a b).
  destruct (bytes_cmp a b) eqn:E; cbn; try discriminate.
  intros _ _. apply q_bytes_cmp_eq. exact E.
Qed.

(* the order used for sorting is a total order on pairs of byte strings *)
Lemma pair_leb_total : forall a b, pair_leb a b = true \/ pair_leb b a = true.
Proof.
  intros [a1 a2] [b1 b2]. unfold pair_leb. cbn [fst snd].
  rewrite (q_bytes_cmp_opp a1 b1).
  destruct (bytes_cmp a1 b1); cbn; auto.
  apply q_bytes_leb_total.
Qed.

Lemma pair_leb_trans : forall a b c,
  pair_leb a b = true -> pair_leb b c = true -> pair_leb a c = true.
Proof.
  intros [a1 a2] [b1 b2] [c1 c2]. unfold pair_leb. cbn [fst snd].
  destruct (bytes_cmp a1 b1) eqn:E1; try discriminate;
  destruct (bytes_cmp b1 c1) eqn:E2; try discriminate; intros H1 H2.
  - apply q_bytes_cmp_eq in E1. subst. rewrite E2. eapply q_bytes_leb_trans; eauto.
  - apply q_bytes_cmp_eq in E1. subst. rewrite E2. reflexivity.
  - apply q_bytes_cmp_eq in E2. subst. rewrite E1. reflexivity.
  - rewrite (q_bytes_cmp_lt_trans _ _ _ E1 E2). reflexivity.
Qed.

Lemma pair_leb_antisym : forall a b, pair_leb a b = true -> pair_leb b a = true -> a = b.
Proof.
  intros [a1 a2] [b1 b2]. unfold pair_leb. cbn [fst snd].
  rewrite (q_bytes_cmp_opp a1 b1).
  destruct (bytes_cmp a1 b1) eqn:E; cbn; try discriminate.
  intros H1 H2. apply q_bytes_cmp_eq in E. subst.
  f_equal. apply q_bytes_leb_antisym; assumption.
Qed.

Lemma q_pair_leb_refl : forall a, pair_leb a a = true.
Proof. intro a. destruct (pair_leb_total a a); assumption. Qed.

(* ------------------------------------------------------------------------------------ *)
(* Insertion sort                                                                        *)
(* ------------------------------------------------------------------------------------ *)

Notation q_le := (fun a b : bytes * bytes => pair_leb a b = true).

Lemma q_insert_perm : forall x l, Permutation (insert_pair x l) (x :: l).
Proof.
  intros x l. induction l as [|y r IH]; cbn.
  - apply Permutation_refl.
  - destruct (pair_leb x y).
    + apply Permutation_refl.
    + eapply perm_trans; [apply perm_skip; exact IH | apply perm_swap].
Qed.

Theorem sort_pairs_perm : forall l, Permutation (sort_pairs l) l.
Proof.
  induction l as [|x l IH]; cbn.
  - apply perm_nil.
  - eapply perm_trans; [apply q_insert_perm | apply perm_skip; exact IH].
Qed.

Lemma q_insert_sorted : forall x l,
  StronglySorted q_le l -> StronglySorted q_le (insert_pair x l).
Proof.
  intros x l H. induction H as [|y r Hs IH Hall]; cbn.
  - constructor; constructor.
  - destruct (pair_leb x y) eqn:E.
    + constructor; [constructor; assumption|].
      constructor; [exact E|].
      rewrite Forall_forall in *. intros z Hz. eapply pair_leb_trans; [exact E|]. auto.
    + constructor; [exact IH|].
      assert (Hyx : pair_leb y x = true).
      { destruct (pair_leb_total x y) as [C|C]; [congruence | exact C]. }
      eapply Permutation_Forall; [apply Permutation_sym; apply q_insert_perm|].
      constructor; assumption.
Qed.

Theorem sort_pairs_sorted : forall l,
  StronglySorted (fun a b => pair_leb a b = true) (sort_pairs l).
Proof.
  induction l as [|x l IH]; cbn.
  - constructor.
  - apply q_insert_sorted. exact IH.
Qed.

Lemma q_sorted_perm_eq : forall l1 l2,
  StronglySorted q_le l1 -> StronglySorted q_le l2 -> Permutation l1 l2 -> l1 = l2.
Proof.
  induction l1 as [|a l1 IH]; intros l2 S1 S2 P.
  - apply Permutation_nil in P. congruence.
  - destruct l2 as [|b l2].
    { apply Permutation_sym, Permutation_nil in P. discriminate. }
    apply StronglySorted_inv in S1. destruct S1 as [S1 F1].
    apply StronglySorted_inv in S2. destruct S2 as [S2 F2].
    rewrite Forall_forall in F1, F2.
    assert (E : a = b).
    { assert (Ia : In a (b :: l2)) by (eapply Permutation_in; [exact P | left; reflexivity]).
      assert (Ib : In b (a :: l1))
        by (eapply Permutation_in; [apply Permutation_sym; exact P | left; reflexivity]).
      destruct Ia as [->|Ia]; [reflexivity|].
      destruct Ib as [->|Ib]; [reflexivity|].
      apply pair_leb_antisym; auto. }
    subst b. f_equal. apply IH; try assumption.
    eapply Permutation_cons_inv. exact P.
Qed.

Theorem sort_pairs_unique : forall l1 l2, Permutation l1 l2 -> sort_pairs l1 = sort_pairs l2.
Proof.
  intros l1 l2 P. apply q_sorted_perm_eq; try apply sort_pairs_sorted.
  eapply perm_trans; [apply sort_pairs_perm|].
  eapply perm_trans; [exact P|]. apply Permutation_sym, sort_pairs_perm.
Qed.

(* ------------------------------------------------------------------------------------ *)
(* Element level: the model's normalisation is decode-then-encode                        *)
(* ------------------------------------------------------------------------------------ *)

Lemma q_unreserved_is_spec : forall b, unreserved b = spec_unreserved b.
Proof. destruct b; reflexivity. Qed.

Lemma q_upper_hex_src : forall b, upper_hex_src b = upper_hex b.
Proof. destruct b; reflexivity. Qed.

Lemma q_pct_is_encode : forall b, spec_unreserved b = false -> pct b = pct_encode_byte b.
Proof.
  intros b H. unfold pct, pct_encode_byte. rewrite H, q_upper_hex_src. reflexivity.
Qed.

Lemma q_unreserved_not_pct : forall b, spec_unreserved b = true -> beqb b "%"%byte = false.
Proof. destruct b; vm_compute; congruence. Qed.

Lemma q_unreserved_not_plus : forall b, spec_unreserved b = true -> beqb b "+"%byte = false.
Proof. destruct b; vm_compute; congruence. Qed.

Lemma q_option_map_map : forall {A B C} (f : A -> B) (g : B -> C) (o : option A),
  option_map g (option_map f o) = option_map (fun x => g (f x)) o.
Proof. intros. destruct o; reflexivity. Qed.

Lemma q_option_map_ext : forall {A B} (f g : A -> B) (o : option A),
  (forall x, f x = g x) -> option_map f o = option_map g o.
Proof. intros A B f g [x|] H; cbn; [rewrite H|]; reflexivity. Qed.

(* two-step induction principle matching the two-byte look-ahead *)
Lemma q_bytes_ind3 : forall (P : bytes -> Prop),
  (forall s, (forall t, (length t < length s)%nat -> P t) -> P s) -> forall s, P s.
Proof.
  intros P H s.
  assert (G : forall n t, (length t < n)%nat -> P t).
  { induction n as [|n IH]; intros t Hl; [lia|]. apply H. intros u Hu. apply IH. lia. }
  apply (G (S (length s))). lia.
Qed.

Lemma q_normalize_elem_query_spec : forall s,
  normalize_elem s = option_map pct_encode (pct_decode true s).
Proof.
  intro s. induction s as [s IH] using q_bytes_ind3.
  destruct s as [|c r]; [reflexivity|].
  cbn [normalize_elem pct_decode]. rewrite q_unreserved_is_spec.
  destruct (spec_unreserved c) eqn:U.
  - rewrite (q_unreserved_not_pct c U), (q_unreserved_not_plus c U). cbn [andb].
    rewrite IH by (cbn; lia). rewrite !q_option_map_map.
    apply q_option_map_ext. intro x. unfold pct_encode. cbn [flat_map].
    unfold pct_encode_byte. rewrite U. reflexivity.
  - destruct (beqb c "%"%byte) eqn:P.
    + destruct r as [|h [|l r']]; try reflexivity.
      destruct (unhex2 h l) as [v|]; [|reflexivity].
      rewrite IH by (cbn; lia). rewrite !q_option_map_map.
      apply q_option_map_ext. intro x. unfold pct_encode. cbn [flat_map].
      f_equal. rewrite q_unreserved_is_spec. unfold pct_encode_byte.
      destruct (spec_unreserved v) eqn:V; [reflexivity|].
      unfold pct. rewrite q_upper_hex_src. reflexivity.
    + cbn [andb]. destruct (beqb c "+"%byte) eqn:Q.
      * rewrite IH by (cbn; lia). rewrite !q_option_map_map.
        apply q_option_map_ext. intro x. reflexivity.
      * rewrite IH by (cbn; lia). rewrite !q_option_map_map.
        apply q_option_map_ext. intro x. unfold pct_encode. cbn [flat_map].
        f_equal. apply q_pct_is_encode. exact U.
Qed.

Lemma q_decode_encode : forall a, pct_decode false (pct_encode a) = Some a.
Proof.
  induction a as [|x a IH]; [reflexivity|].
  unfold pct_encode. cbn [flat_map]. fold (pct_encode a).
  unfold pct_encode_byte. destruct (spec_unreserved x) eqn:U.
  - cbn [app pct_decode]. rewrite (q_unreserved_not_pct x U). cbn [andb].
    rewrite IH. reflexivity.
  - pose proof (unhex2_upper_hex x) as H. unfold upper_hex in *.
    cbn [app pct_decode]. rewrite beqb_refl. rewrite H. rewrite IH. reflexivity.
Qed.

Lemma q_pct_encode_inj : forall a b, pct_encode a = pct_encode b -> a = b.
Proof.
  intros a b H. pose proof (q_decode_encode a) as Ha. rewrite H, q_decode_encode in Ha.
  congruence.
Qed.

Lemma q_encode_signature : pct_encode x_amz_signature = src_canonical_X_AMZ_SIGNATURE.
Proof. vm_compute. reflexivity. Qed.

Lemma q_signature_eqb : forall k,
  bytes_eqb (pct_encode k) src_canonical_X_AMZ_SIGNATURE = bytes_eqb k x_amz_signature.
Proof.
  intro k. rewrite <- q_encode_signature.
  destruct (bytes_eqb k x_amz_signature) eqn:E.
  - apply bytes_eqb_eq in E. subst. apply bytes_eqb_refl.
  - apply bytes_eqb_neq. apply bytes_eqb_neq in E. intro C. apply E.
    apply q_pct_encode_inj. exact C.
Qed.

(* ------------------------------------------------------------------------------------ *)
(* Permutations, filter, flatten                                                         *)
(* ------------------------------------------------------------------------------------ *)

Lemma q_filter_perm : forall {A} (p : A -> bool) (l1 l2 : list A),
  Permutation l1 l2 -> Permutation (filter p l1) (filter p l2).
Proof.
  intros A p l1 l2 H. induction H as [|x l l' H IH|x y l|l l' l'' H1 IH1 H2 IH2]; cbn.
  - apply perm_nil.
  - destruct (p x); [apply perm_skip|]; exact IH.
  - destruct (p x), (p y); try apply Permutation_refl. apply perm_swap.
  - eapply perm_trans; eassumption.
Qed.

Lemma q_flatten_perm : forall m m', Permutation m m' -> Permutation (flatten m) (flatten m').
Proof. intros m m' H. unfold flatten. apply Permutation_flat_map. exact H. Qed.

Lemma q_flatten_app : forall m1 m2, flatten (m1 ++ m2) = flatten m1 ++ flatten m2.
Proof. intros. unfold flatten. apply flat_map_app. Qed.

(* filtering map entries on the name = filtering the flattened pairs on the name *)
Lemma q_flatten_filter : forall (p : bytes -> bool) m,
  flatten (filter (fun kv => p (fst kv)) m) = filter (fun kv => p (fst kv)) (flatten m).
Proof.
  intros p m. induction m as [|[k vs] m IH]; [reflexivity|].
  cbn [filter fst]. unfold flatten at 2. cbn [flat_map fst snd]. fold (flatten m).
  rewrite filter_app, <- IH.
  assert (E : filter (fun kv : bytes * bytes => p (fst kv)) (map (fun v => (k, v)) vs)
              = if p k then map (fun v => (k, v)) vs else []).
  { induction vs as [|v vs IHv]; cbn [map filter fst].
    - destruct (p k); reflexivity.
    - rewrite IHv. destruct (p k); reflexivity. }
  rewrite E. destruct (p k); reflexivity.
Qed.

Lemma q_flatten_push : forall k v m,
  Permutation (flatten (qmap_push k v m)) (flatten m ++ [(k, v)]).
Proof.
  intros k v m. induction m as [|[k' vs] m IH]; cbn [qmap_push].
  - apply Permutation_refl.
  - destruct (bytes_eqb k k') eqn:E.
    + apply bytes_eqb_eq in E. subst k'.
      unfold flatten. cbn [flat_map fst snd]. rewrite map_app. cbn [map].
      rewrite <- !app_assoc. apply Permutation_app_head. apply Permutation_app_comm.
    + unfold flatten. cbn [flat_map fst snd]. fold (flatten (qmap_push k v m)) (flatten m).
      rewrite <- app_assoc. apply Permutation_app_head. exact IH.
Qed.

Definition q_push_all (ps : list (bytes * bytes)) (m : qmap) : qmap :=
  fold_left (fun acc kv => qmap_push (fst kv) (snd kv) acc) ps m.

Lemma q_flatten_push_all : forall ps m,
  Permutation (flatten (q_push_all ps m)) (flatten m ++ ps).
Proof.
  induction ps as [|[k v] ps IH]; intro m; cbn.
  - rewrite app_nil_r. apply Permutation_refl.
  - eapply perm_trans; [apply IH|]. cbn [fst snd].
    eapply perm_trans; [apply Permutation_app_tail; apply q_flatten_push|].
    rewrite <- app_assoc. apply Permutation_refl.
Qed.

(* ------------------------------------------------------------------------------------ *)
(* Parsing                                                                               *)
(* ------------------------------------------------------------------------------------ *)

(* one component split at the first '=' *)
Definition q_raw (c : bytes) : bytes * bytes :=
  match split_once "="%byte c with Some kv => kv | None => (c, []) end.

(* normalise both halves (the function of [query_map_flatten_perm]) *)
Definition q_norm (kv : bytes * bytes) : option (bytes * bytes) :=
  match normalize_elem (fst kv), normalize_elem (snd kv) with
  | Some k, Some v => Some (k, v)
  | _, _ => None
  end.

(* decode both halves (the function of [decoded_pairs]) *)
Definition q_dec (kv : bytes * bytes) : option (bytes * bytes) :=
  match pct_decode true (fst kv), pct_decode true (snd kv) with
  | Some k, Some v => Some (k, v)
  | _, _ => None
  end.

Definition q_enc (kv : bytes * bytes) : bytes * bytes := (pct_encode (fst kv), pct_encode (snd kv)).

Lemma q_raw_pairs_eq : forall q,
  raw_pairs q = map q_raw (filter (fun c => negb (is_nil c)) (split_on "&"%byte q)).
Proof. reflexivity. Qed.

Lemma q_decoded_pairs_eq : forall q, decoded_pairs q = map_opt q_dec (raw_pairs q).
Proof. reflexivity. Qed.

Lemma q_parse_component_norm : forall c, parse_component c = q_norm (q_raw c).
Proof.
  intro c. unfold parse_component, q_norm. fold (q_raw c).
  destruct (normalize_elem (fst (q_raw c))); [|reflexivity].
  destruct (normalize_elem (snd (q_raw c))); reflexivity.
Qed.

Lemma q_norm_dec : forall kv, q_norm kv = option_map q_enc (q_dec kv).
Proof.
  intro kv. unfold q_norm, q_dec. rewrite !q_normalize_elem_query_spec.
  destruct (pct_decode true (fst kv)); [|reflexivity].
  destruct (pct_decode true (snd kv)); reflexivity.
Qed.

Lemma q_map_opt_ext : forall {A B} (f g : A -> option B) l,
  (forall x, f x = g x) -> map_opt f l = map_opt g l.
Proof.
  intros A B f g l H. induction l as [|x l IH]; cbn; [reflexivity|].
  rewrite H, IH. reflexivity.
Qed.

Lemma q_map_opt_option_map : forall {A B C} (f : A -> option B) (g : B -> C) l,
  map_opt (fun x => option_map g (f x)) l = option_map (map g) (map_opt f l).
Proof.
  intros A B C f g l. induction l as [|x l IH]; cbn; [reflexivity|].
  rewrite IH. destruct (f x); cbn; [|reflexivity].
  destruct (map_opt f l); reflexivity.
Qed.

Lemma q_parse_components_spec : forall cs m,
  parse_components cs m =
  option_map (fun ps => q_push_all ps m)
             (map_opt q_norm (map q_raw (filter (fun c => negb (is_nil c)) cs))).
Proof.
  induction cs as [|c cs IH]; intro m; [reflexivity|].
  cbn [parse_components filter].
  destruct c as [|b c]; [cbn; apply IH|].
  cbn [Query.is_nil is_nil negb map map_opt].
  rewrite q_parse_component_norm.
  destruct (q_norm (q_raw (b :: c))) as [[k v]|]; [|reflexivity].
  rewrite IH.
  destruct (map_opt q_norm (map q_raw (filter (fun c0 => negb (is_nil c0)) cs)));
    reflexivity.
Qed.

Lemma q_query_map_norm : forall q,
  query_map q = option_map (fun ps => q_push_all ps []) (map_opt q_norm (raw_pairs q)).
Proof.
  intro q. unfold query_map. destruct q as [|b q]; [reflexivity|].
  cbn [Query.is_nil]. rewrite q_parse_components_spec. reflexivity.
Qed.

Lemma q_query_map_dec : forall q,
  query_map q = option_map (fun d => q_push_all (map q_enc d) []) (decoded_pairs q).
Proof.
  intro q. rewrite q_query_map_norm, q_decoded_pairs_eq.
  rewrite (q_map_opt_ext q_norm (fun kv => option_map q_enc (q_dec kv)) _ q_norm_dec).
  rewrite q_map_opt_option_map. destruct (map_opt q_dec (raw_pairs q)); reflexivity.
Qed.

(* ------------------------------------------------------------------------------------ *)
(* C10                                                                                   *)
(* ------------------------------------------------------------------------------------ *)

Notation q_keep_src := (fun kv : bytes * bytes =>
  negb (bytes_eqb (fst kv) src_canonical_X_AMZ_SIGNATURE)).
Notation q_keep_spec := (fun kv : bytes * bytes =>
  negb (bytes_eqb (fst kv) x_amz_signature)).

(* the canonical query in terms of the flattened pairs *)
Lemma q_canon_query_flat : forall m,
  canon_query_in_order m =
  join ["&"%byte] (map render_pair (sort_pairs (filter q_keep_src (flatten m)))).
Proof.
  intro m. unfold canon_query_in_order.
  rewrite (q_flatten_filter (fun k => negb (bytes_eqb k src_canonical_X_AMZ_SIGNATURE)) m).
  reflexivity.
Qed.

(* C10: any HashMap iteration order gives the same canonical query *)
Theorem C10_order_independent : forall m m', Permutation m m' ->
  canon_query_in_order m = canon_query_in_order m'.
Proof.
  intros m m' H. rewrite !q_canon_query_flat. do 2 f_equal.
  apply sort_pairs_unique, q_filter_perm, q_flatten_perm. exact H.
Qed.

Lemma q_sort_is_spec_sort : forall l, sort_pairs l = spec_sort l.
Proof. reflexivity. Qed.

Lemma q_filter_enc : forall d,
  filter q_keep_src (map q_enc d) = map q_enc (filter q_keep_spec d).
Proof.
  induction d as [|[k v] d IH]; [reflexivity|].
  cbn [map filter]. unfold q_enc at 1. cbn [fst snd]. rewrite q_signature_eqb.
  destruct (bytes_eqb k x_amz_signature); cbn [negb map]; rewrite IH; reflexivity.
Qed.

Lemma q_canon_query_push_all : forall d,
  canon_query (q_push_all (map q_enc d) []) = spec_query_of_pairs d.
Proof.
  intro d. unfold canon_query. rewrite q_canon_query_flat. unfold spec_query_of_pairs.
  change (fun kv : bytes * bytes => (pct_encode (fst kv), pct_encode (snd kv))) with q_enc.
  rewrite <- q_filter_enc. change spec_sort with sort_pairs.
  change (fun kv : bytes * bytes => fst kv ++ "="%byte :: snd kv) with render_pair.
  do 2 f_equal. apply sort_pairs_unique, q_filter_perm.
  apply (q_flatten_push_all (map q_enc d) []).
Qed.

(* C10: the model computes the specification's canonical query; errors coincide *)
Theorem C10_model_is_spec : forall q, option_map canon_query (query_map q) = spec_query q.
Proof.
  intro q. unfold spec_query. rewrite q_query_map_dec.
  destruct (decoded_pairs q) as [d|]; cbn [option_map]; [|reflexivity].
  rewrite q_canon_query_push_all. reflexivity.
Qed.

Theorem C10_error_iff : forall q, query_map q = None <-> decoded_pairs q = None.
Proof.
  intro q. rewrite q_query_map_dec.
  destruct (decoded_pairs q); cbn; split; intro H; try discriminate; reflexivity.
Qed.

Lemma q_spec_query_of_pairs_perm : forall d1 d2,
  Permutation d1 d2 -> spec_query_of_pairs d1 = spec_query_of_pairs d2.
Proof.
  intros d1 d2 H. unfold spec_query_of_pairs. change spec_sort with sort_pairs.
  do 2 f_equal. apply sort_pairs_unique, Permutation_map, q_filter_perm. exact H.
Qed.

(* C10: the canonical query is a function of the multiset of decoded pairs *)
Theorem C10_multiset : forall q1 q2 d1 d2,
  decoded_pairs q1 = Some d1 -> decoded_pairs q2 = Some d2 -> Permutation d1 d2 ->
  option_map canon_query (query_map q1) = option_map canon_query (query_map q2).
Proof.
  intros q1 q2 d1 d2 H1 H2 P. rewrite !C10_model_is_spec. unfold spec_query.
  rewrite H1, H2. cbn [option_map]. f_equal. apply q_spec_query_of_pairs_perm. exact P.
Qed.

(* C10: lists every pair (duplicates kept, nothing invented), only X-Amz-Signature excluded *)
Theorem C10_lists_every_pair : forall q d,
  decoded_pairs q = Some d ->
  exists out, spec_query q = Some (join ["&"%byte] (map (fun kv => fst kv ++ "="%byte :: snd kv) out))
    /\ Permutation out (map (fun kv => (pct_encode (fst kv), pct_encode (snd kv)))
                            (filter (fun kv => negb (bytes_eqb (fst kv) x_amz_signature)) d))
    /\ StronglySorted (fun a b => pair_cmp_leb a b = true) out.
Proof.
  intros q d H.
  exists (spec_sort (map (fun kv => (pct_encode (fst kv), pct_encode (snd kv)))
                         (filter (fun kv => negb (bytes_eqb (fst kv) x_amz_signature)) d))).
  split; [|split].
  - unfold spec_query. rewrite H. reflexivity.
  - change spec_sort with sort_pairs. apply sort_pairs_perm.
  - change spec_sort with sort_pairs. exact (sort_pairs_sorted _).
Qed.

(* ------------------------------------------------------------------------------------ *)
(* Form folding and parsing as multiset operations                                       *)
(* ------------------------------------------------------------------------------------ *)

Lemma q_flatten_push_values : forall k vs m,
  Permutation (flatten (fold_left (fun acc v => qmap_push k v acc) vs m))
              (flatten m ++ map (fun v => (k, v)) vs).
Proof.
  intros k vs. induction vs as [|v vs IH]; intro m; cbn [fold_left map].
  - rewrite app_nil_r. apply Permutation_refl.
  - eapply perm_trans; [apply IH|].
    eapply perm_trans; [apply Permutation_app_tail; apply q_flatten_push|].
    rewrite <- app_assoc. apply Permutation_refl.
Qed.

(* form folding: merging body parameters into the URL map is multiset union *)
Theorem qmap_extend_flatten_perm : forall m b,
  Permutation (flatten (qmap_extend m b)) (flatten m ++ flatten b).
Proof.
  intros m b. revert m. unfold qmap_extend.
  induction b as [|[k vs] b IH]; intro m; cbn [fold_left].
  - cbn. rewrite app_nil_r. apply Permutation_refl.
  - eapply perm_trans; [apply IH|]. cbn [fst snd].
    eapply perm_trans; [apply Permutation_app_tail; apply q_flatten_push_values|].
    rewrite <- app_assoc. apply Permutation_refl.
Qed.

(* and parsing yields a map whose flattening is a permutation of the normalised pairs in
   arrival order *)
Theorem query_map_flatten_perm : forall q m, query_map q = Some m ->
  exists ps, map_opt (fun kv => match normalize_elem (fst kv), normalize_elem (snd kv) with
                                | Some k, Some v => Some (k, v) | _, _ => None end) (raw_pairs q) = Some ps
             /\ Permutation (flatten m) ps.
Proof.
  intros q m H. rewrite q_query_map_norm in H. fold q_norm.
  destruct (map_opt q_norm (raw_pairs q)) as [ps|]; [|discriminate].
  cbn in H. injection H as <-. exists ps. split; [reflexivity|].
  apply (q_flatten_push_all ps []).
Qed.

Print Assumptions pair_leb_total.
Print Assumptions pair_leb_trans.
Print Assumptions pair_leb_antisym.
Print Assumptions sort_pairs_perm.
Print Assumptions sort_pairs_sorted.
Print Assumptions sort_pairs_unique.
Print Assumptions C10_order_independent.
Print Assumptions C10_model_is_spec.
Print Assumptions C10_error_iff.
Print Assumptions C10_multiset.
Print Assumptions C10_lists_every_pair.
Print Assumptions qmap_extend_flatten_perm.
Print Assumptions query_map_flatten_perm.
