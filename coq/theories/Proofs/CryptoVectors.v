(* Known-answer tests tying the executable SHA-256 / HMAC of the model (used only to *run* the model in
   the correspondence; every theorem is for an arbitrary hash) to FIPS 180-4 / RFC 4231 / the AWS
   SigV4 documentation example.  Evaluated by the kernel's vm. *)
From Verif Require Import Base.Bytes Base.Hex Crypto.Sha256 Crypto.Hmac.
From Coq Require Import List.
Import ListNotations.

Definition hexof (b : bytes) : bytes := lower_hex b.

Example sha256_empty :
  hexof (sha256 []) = s2b "e3b0c44298fc1c149afbf4c8996fb92427ae41e4649b934ca495991b7852b855".
Proof. vm_compute. reflexivity. Qed.

Example sha256_abc :
  hexof (sha256 (s2b "abc")) = s2b "ba7816bf8f01cfea414140de5dae2223b00361a396177a9cb410ff61f20015ad".
Proof. vm_compute. reflexivity. Qed.

Example sha256_448_bits :
  hexof (sha256 (s2b "abcdbcdecdefdefgefghfghighijhijkijkljklmklmnlmnomnopnopq"))
  = s2b "248d6a61d20638b8e5c026930c3e6039a33ce45964ff2167f6ecedd419db06c1".
Proof. vm_compute. reflexivity. Qed.

Example sha256_896_bits :
  hexof (sha256 (s2b "abcdefghbcdefghicdefghijdefghijkefghijklfghijklmghijklmnhijklmnoijklmnopjklmnopqklmnopqrlmnopqrsmnopqrstnopqrstu"))
  = s2b "cf5b16a778af8380036ce59e7b0492370b249b11e8f07a51afac45037afee9d1".
Proof. vm_compute. reflexivity. Qed.

(* padding boundaries: 55, 56, 63, 64, 65 bytes of 'a' *)
Example sha256_55a :
  hexof (sha256 (repeat "a"%byte 55)) = s2b "9f4390f8d30c2dd92ec9f095b65e2b9ae9b0a925a5258e241c9f1e910f734318".
Proof. vm_compute. reflexivity. Qed.
Example sha256_56a :
  hexof (sha256 (repeat "a"%byte 56)) = s2b "b35439a4ac6f0948b6d6f9e3c6af0f5f590ce20f1bde7090ef7970686ec6738a".
Proof. vm_compute. reflexivity. Qed.
Example sha256_64a :
  hexof (sha256 (repeat "a"%byte 64)) = s2b "ffe054fe7ae0cb6dc65c3af9b61d5209f439851db43d0ba5997337df154668eb".
Proof. vm_compute. reflexivity. Qed.

(* RFC 4231 test case 1, 2 and 6 (key longer than the block) *)
Example hmac_rfc4231_1 :
  hexof (hmac sha256 (repeat x0b 20) (s2b "Hi There"))
  = s2b "b0344c61d8db38535ca8afceaf0bf12b881dc200c9833da726e9376c2e32cff7".
Proof. vm_compute. reflexivity. Qed.

Example hmac_rfc4231_2 :
  hexof (hmac sha256 (s2b "Jefe") (s2b "what do ya want for nothing?"))
  = s2b "5bdcc146bf60754e6a042426089575c75a003f089d2739839dec58b964ec3843".
Proof. vm_compute. reflexivity. Qed.

Example hmac_rfc4231_6 :
  hexof (hmac sha256 (repeat xaa 131) (s2b "Test Using Larger Than Block-Size Key - Hash Key First"))
  = s2b "60e431591ee0b67f0d8a26aacbf5b77f8e0bc6213728c5140546040f0ee37f54".
Proof. vm_compute. reflexivity. Qed.

(* AWS documentation: derived signing key for secret wJalrXUtnFEMI/K7MDENG+bPxRfiCYEXAMPLEKEY,
   20120215 / us-east-1 / iam *)
Example aws_signing_key_example :
  hexof (hmac sha256 (hmac sha256 (hmac sha256 (hmac sha256
          (s2b "AWS4wJalrXUtnFEMI/K7MDENG+bPxRfiCYEXAMPLEKEY") (s2b "20120215")) (s2b "us-east-1")) (s2b "iam"))
          (s2b "aws4_request"))
  = s2b "f4780e2d9f65fa895f9c67b32ce1baf0b0d8a43505a000a1a9e090d414db404d".
Proof. vm_compute. reflexivity. Qed.
