(* Property C16: the regex-based ISO-8601 recogniser of Time/Iso8601.v accepts exactly the
   declarative grammar of Spec/Grammar.v, with exactly the same fields; the instant is the
   reference one; the compact rendering of Time/Render.v parses back. *)
From Coq Require Import ZArith Lia List Bool.
From Coq Require Import ZifyBool.
From Coq Require Import Strings.Byte.
From Verif Require Import Base.Bytes Time.Calendar Time.Iso8601 Time.Render Spec.Grammar.
From Verif Require Import Proofs.CalendarProofs.
Import ListNotations.
Local Open Scope Z_scope.

(* ---------------------------------------------------------------------- *)
(* finite range checks by computation                                      *)

Fixpoint all_below (P : Z -> bool) (fuel : nat) (i : Z) : bool :=
  match fuel with
  | O => true
  | S f => P i && all_below P f (i + 1)
  end.

Lemma all_below_spec P fuel : forall i,
  all_below P fuel i = true -> forall n, i <= n < i + Z.of_nat fuel -> P n = true.
Proof.
  induction fuel as [|fuel IH]; intros i H n Hn.
  - cbn in Hn. lia.
  - cbn [all_below] in H. apply andb_true_iff in H. destruct H as [H0 H1].
    destruct (Z.eq_dec n i) as [->|Ne]; [exact H0|].
    apply (IH (i + 1) H1). lia.
Qed.

Lemma range_check (P : Z -> bool) (k : Z) :
  all_below P (Z.to_nat k) 0 = true -> forall n, 0 <= n < k -> P n = true.
Proof.
  intros H n Hn. apply (all_below_spec P (Z.to_nat k) 0 H). lia.
Qed.

(* [injection]/[inversion] normalise arithmetic subterms; this does not *)
Ltac some_inv H :=
  match type of H with
  | Some (?a, ?b) = Some (?c, ?d) =>
      let E1 := fresh in let E2 := fresh in
      assert (E1 : c = a) by congruence; assert (E2 : d = b) by congruence;
      clear H; subst c; subst d
  | Some ?a = Some ?c =>
      let E1 := fresh in
      assert (E1 : c = a) by congruence; clear H; subst c
  end.

(* ---------------------------------------------------------------------- *)
(* single digits                                                           *)

Lemma digit_range d : 0 <= d <= 9 ->
  d = 0 \/ d = 1 \/ d = 2 \/ d = 3 \/ d = 4 \/ d = 5 \/ d = 6 \/ d = 7 \/ d = 8 \/ d = 9.
Proof. lia. Qed.

Lemma digit_val_digit_byte d : 0 <= d <= 9 -> digit_val (digit_byte (Z.to_N d)) = Some d.
Proof.
  intro H.
  destruct (digit_range d H) as [E|[E|[E|[E|[E|[E|[E|[E|[E|E]]]]]]]]]; subst d; reflexivity.
Qed.

Lemma digit_val_inv b d : digit_val b = Some d -> 0 <= d <= 9 /\ b = digit_byte (Z.to_N d).
Proof.
  intro H. destruct b; cbv in H; try discriminate H; injection H as <-;
    (split; [lia | reflexivity]).
Qed.

Lemma digit_val_Some_neq a c x : digit_val a = Some x -> digit_val c = None -> beqb a c = false.
Proof.
  intros Ha Hc. apply beqb_neq. intros ->. congruence.
Qed.

(* ---------------------------------------------------------------------- *)
(* two and four digit fields                                               *)

Lemma digits2_split n : 0 <= n <= 99 ->
  digits2 n = [digit_byte (Z.to_N (n / 10)); digit_byte (Z.to_N (n mod 10))].
Proof.
  intro H. apply bytes_eqb_eq.
  apply (range_check
           (fun n => bytes_eqb (digits2 n)
                       [digit_byte (Z.to_N (n / 10)); digit_byte (Z.to_N (n mod 10))]) 100);
    [vm_compute; reflexivity | lia].
Qed.

Lemma digits4_split n : 0 <= n <= 9999 ->
  digits4 n = digits2 (n / 100) ++ digits2 (n mod 100).
Proof.
  intro H. apply bytes_eqb_eq.
  apply (range_check
           (fun n => bytes_eqb (digits4 n) (digits2 (n / 100) ++ digits2 (n mod 100))) 10000);
    [vm_compute; reflexivity | lia].
Qed.

Lemma digits2_bounded n : 0 <= n <= 99 ->
  exists a b, digits2 n = [a; b] /\ digit_val a = Some (n / 10) /\ digit_val b = Some (n mod 10).
Proof.
  intro H. rewrite (digits2_split n H). do 2 eexists. split; [reflexivity|].
  split; apply digit_val_digit_byte; dlia.
Qed.

Lemma take2_digits2 n r : 0 <= n <= 99 -> take2 (digits2 n ++ r) = Some (n, r).
Proof.
  intro H. destruct (digits2_bounded n H) as (a & b & -> & Ha & Hb).
  cbn [app take2]. rewrite Ha, Hb. f_equal. f_equal. dlia.
Qed.

Lemma take2_inv s n r : take2 s = Some (n, r) -> s = digits2 n ++ r /\ 0 <= n <= 99.
Proof.
  intro H. destruct s as [|a [|b r0]]; try discriminate H. cbn [take2] in H.
  destruct (digit_val a) as [x|] eqn:Ea; [|discriminate H].
  destruct (digit_val b) as [y|] eqn:Eb; [|discriminate H].
  some_inv H.
  apply digit_val_inv in Ea. destruct Ea as [Hx ->].
  apply digit_val_inv in Eb. destruct Eb as [Hy ->].
  split; [|lia].
  rewrite digits2_split by lia.
  replace ((10 * x + y) / 10) with x by dlia.
  replace ((10 * x + y) mod 10) with y by dlia.
  reflexivity.
Qed.

Lemma take4_digits4 n r : 0 <= n <= 9999 -> take4 (digits4 n ++ r) = Some (n, r).
Proof.
  intro H. unfold take4. rewrite (digits4_split n H), <- app_assoc.
  rewrite take2_digits2 by dlia. rewrite take2_digits2 by dlia.
  f_equal. f_equal. dlia.
Qed.

Lemma take4_inv s n r : take4 s = Some (n, r) -> s = digits4 n ++ r /\ 0 <= n <= 9999.
Proof.
  unfold take4. intro H.
  destruct (take2 s) as [[hi r1]|] eqn:E1; [|discriminate H].
  destruct (take2 r1) as [[lo r2]|] eqn:E2; [|discriminate H].
  some_inv H.
  apply take2_inv in E1. destruct E1 as [-> Hhi].
  apply take2_inv in E2. destruct E2 as [-> Hlo].
  split; [|lia].
  rewrite digits4_split by lia.
  replace ((100 * hi + lo) / 100) with hi by dlia.
  replace ((100 * hi + lo) mod 100) with lo by dlia.
  rewrite <- app_assoc. reflexivity.
Qed.

(* ---------------------------------------------------------------------- *)
(* optional separators                                                     *)

Lemma opt_byte_inv c s : exists sp, sep c sp /\ s = sp ++ opt_byte c s.
Proof.
  destruct s as [|x r]; cbn [opt_byte].
  - exists []. split; [left; reflexivity | reflexivity].
  - destruct (beqb x c) eqn:E.
    + apply beqb_eq in E. subst x. exists [c]. split; [right; reflexivity | reflexivity].
    + exists []. split; [left; reflexivity | reflexivity].
Qed.

Lemma opt_byte_digits2 c sp n r :
  sep c sp -> digit_val c = None -> 0 <= n <= 99 ->
  opt_byte c (sp ++ digits2 n ++ r) = digits2 n ++ r.
Proof.
  intros Hsp Hc Hn. destruct (digits2_bounded n Hn) as (a & b & -> & Ha & _).
  destruct Hsp as [->| ->]; cbn [app opt_byte].
  - rewrite (digit_val_Some_neq a c _ Ha Hc). reflexivity.
  - rewrite beqb_refl. reflexivity.
Qed.

Lemma dash_not_digit : digit_val "-"%byte = None.
Proof. reflexivity. Qed.
Lemma colon_not_digit : digit_val ":"%byte = None.
Proof. reflexivity. Qed.

(* ---------------------------------------------------------------------- *)
(* digit runs                                                              *)

Lemma take_digits_sound : forall s ds rest,
  take_digits s = (ds, rest) -> s = digit_text ds ++ rest /\ all_digits ds.
Proof.
  induction s as [|c r IH]; intros ds rest H; cbn [take_digits] in H.
  - injection H as <- <-. split; [reflexivity | constructor].
  - destruct (digit_val c) as [d|] eqn:Ed.
    + destruct (take_digits r) as [ds0 rest0] eqn:Er. injection H as <- <-.
      destruct (IH ds0 rest0 eq_refl) as [-> Hall].
      apply digit_val_inv in Ed. destruct Ed as [Hd ->].
      split; [reflexivity | constructor; assumption].
    + injection H as <- <-. split; [reflexivity | constructor].
Qed.

Lemma take_digits_complete : forall ds z,
  all_digits ds -> (forall c z', z = c :: z' -> digit_val c = None) ->
  take_digits (digit_text ds ++ z) = (ds, z).
Proof.
  induction ds as [|d ds IH]; intros z Hall Hz.
  - cbn [digit_text map app]. destruct z as [|c z']; [reflexivity|].
    cbn [take_digits]. rewrite (Hz c z' eq_refl). reflexivity.
  - inversion Hall as [|? ? Hd Hall']; subst.
    cbn [digit_text map app take_digits]. rewrite (digit_val_digit_byte d Hd).
    fold (digit_text ds). rewrite (IH z Hall' Hz). reflexivity.
Qed.

(* ---------------------------------------------------------------------- *)
(* the recogniser, with the fraction and the tail named                    *)

Definition frac_parse (r : bytes) : option (Z * bytes) :=
  match r with
  | c :: r' =>
      if beqb c "."%byte || beqb c ","%byte then
        match take_digits r' with
        | ([], _) => None
        | (ds, rest) => Some (nanos_of ds 9, rest)
        end
      else Some (0, r)
  | [] => Some (0, r)
  end.

Definition iso_check (y mo d h mi sec : Z) (r : bytes) : option iso_fields :=
  match frac_parse r with
  | None => None
  | Some (ns, r) =>
      match parse_offset r with
      | None => None
      | Some off =>
          if (1 <=? mo) && (mo <=? 12) && (1 <=? d) && (d <=? 31) && (h <=? 23) && (mi <=? 59)
             && (sec <=? 61)
          then Some {| f_year := y; f_month := mo; f_day := d; f_hour := h; f_minute := mi;
                       f_second := sec; f_nanos := ns; f_offset := off |}
          else None
      end
  end.

Lemma iso_regex_eq s : iso_regex s =
  match take4 s with
  | None => None
  | Some (y, r) =>
  match take2 (opt_byte "-"%byte r) with
  | None => None
  | Some (mo, r) =>
  match take2 (opt_byte "-"%byte r) with
  | None => None
  | Some (d, r) =>
  match r with
  | t :: r =>
  if negb (beqb t "T"%byte) then None else
  match take2 r with
  | None => None
  | Some (h, r) =>
  match take2 (opt_byte ":"%byte r) with
  | None => None
  | Some (mi, r) =>
  match take2 (opt_byte ":"%byte r) with
  | None => None
  | Some (sec, r) => iso_check y mo d h mi sec r
  end end end
  | [] => None
  end end end end.
Proof. reflexivity. Qed.

(* --- fraction --- *)

Lemma frac_parse_sound r ns rest :
  frac_parse r = Some (ns, rest) -> exists fr, r = fr ++ rest /\ frac_ok fr ns.
Proof.
  unfold frac_parse. intro H. destruct r as [|c r'].
  - injection H as <- <-. exists []. split; [reflexivity | left; auto].
  - destruct (beqb c "."%byte || beqb c ","%byte) eqn:Ec.
    + destruct (take_digits r') as [ds rest0] eqn:Et.
      destruct ds as [|d ds']; [discriminate H|]. some_inv H.
      apply take_digits_sound in Et. destruct Et as [-> Hall].
      exists (c :: digit_text (d :: ds')). split; [reflexivity|].
      right. exists c, (d :: ds').
      apply orb_true_iff in Ec.
      repeat split; try assumption; try discriminate.
      destruct Ec as [E|E]; apply beqb_eq in E; auto.
    + injection H as <- <-. exists []. split; [reflexivity | left; auto].
Qed.

Lemma zone_head z off : zone_ok z off ->
  exists c z', z = c :: z' /\ (c = "Z"%byte \/ c = "+"%byte \/ c = "-"%byte).
Proof.
  intros [[-> _]|(sg & sign & hh & mm & sp & Hsg & _ & _ & _ & -> & _)].
  - do 2 eexists. split; [reflexivity | auto].
  - do 2 eexists. split; [reflexivity|]. destruct Hsg as [[-> _]|[-> _]]; auto.
Qed.

Lemma frac_parse_complete fr z ns off :
  frac_ok fr ns -> zone_ok z off -> frac_parse (fr ++ z) = Some (ns, z).
Proof.
  intros Hfr Hz. destruct (zone_head z off Hz) as (c & z' & -> & Hc).
  destruct Hfr as [[-> ->]|(c0 & ds & Hc0 & Hne & Hall & -> & ->)].
  - cbn [app]. destruct Hc as [->|[->| ->]]; reflexivity.
  - cbn [app]. unfold frac_parse.
    assert (beqb c0 "."%byte || beqb c0 ","%byte = true) as ->
        by (destruct Hc0 as [->| ->]; reflexivity).
    rewrite take_digits_complete.
    + destruct ds as [|d ds']; [congruence | reflexivity].
    + exact Hall.
    + intros c1 z1 E. injection E as <- <-. destruct Hc as [->|[->| ->]]; reflexivity.
Qed.

(* --- zone --- *)

Lemma parse_offset_long sg r : r <> [] ->
  parse_offset (sg :: r) =
    if beqb sg "+"%byte || beqb sg "-"%byte then
      match take2 r with
      | Some (hh, r1) =>
          match take2 (opt_byte ":"%byte r1) with
          | Some (mm, []) =>
              if (hh <=? max_offset_hour) && (mm <=? 59) then
                Some ((if beqb sg "-"%byte then -1 else 1) * (hh * 3600 + mm * 60))
              else None
          | _ => None
          end
      | None => None
      end
    else None.
Proof. destruct r; [congruence | reflexivity]. Qed.

Lemma parse_offset_sound z off : parse_offset z = Some off -> zone_ok z off.
Proof.
  intro H. destruct z as [|sg r]; [discriminate H|].
  destruct r as [|a r].
  - cbn [parse_offset] in H. destruct (beqb sg "Z"%byte) eqn:E; [|discriminate H].
    apply beqb_eq in E. subst sg. injection H as <-. left; auto.
  - rewrite parse_offset_long in H by discriminate.
    destruct (beqb sg "+"%byte || beqb sg "-"%byte) eqn:Es; [|discriminate H].
    destruct (take2 (a :: r)) as [[hh r1]|] eqn:E1; [|discriminate H].
    destruct (take2 (opt_byte ":"%byte r1)) as [[mm r2]|] eqn:E2; [|discriminate H].
    destruct r2 as [|? ?]; [|discriminate H].
    destruct ((hh <=? max_offset_hour) && (mm <=? 59)) eqn:B; [|discriminate H].
    some_inv H.
    apply andb_true_iff in B. destruct B as [Bh Bm]. apply Z.leb_le in Bh, Bm.
    apply take2_inv in E1. destruct E1 as [E1 Hhh].
    apply take2_inv in E2. destruct E2 as [E2 Hmm].
    destruct (opt_byte_inv ":"%byte r1) as (sp & Hsp & Er1).
    rewrite E2, app_nil_r in Er1. rewrite Er1 in E1. rewrite E1.
    right. exists sg, (if beqb sg "-"%byte then -1 else 1), hh, mm, sp.
    repeat split; try assumption; try lia.
    apply orb_true_iff in Es. destruct Es as [E|E]; apply beqb_eq in E; subst sg.
    + left. split; reflexivity.
    + right. split; reflexivity.
Qed.

Lemma parse_offset_complete z off : zone_ok z off -> parse_offset z = Some off.
Proof.
  intros [[-> ->]|(sg & sign & hh & mm & sp & Hsg & Hsp & Hhh & Hmm & -> & ->)];
    [reflexivity|].
  assert (Hhh' : 0 <= hh <= 99) by (unfold max_offset_hour in Hhh; lia).
  assert (Hmm' : 0 <= mm <= 99) by lia.
  rewrite parse_offset_long.
  2:{ destruct (digits2_bounded hh Hhh') as (a & b & -> & _). discriminate. }
  assert (beqb sg "+"%byte || beqb sg "-"%byte = true) as ->
      by (destruct Hsg as [[-> _]|[-> _]]; reflexivity).
  rewrite <- (app_nil_r (digits2 mm)).
  rewrite take2_digits2 by exact Hhh'.
  rewrite opt_byte_digits2 by (try exact Hsp; try exact colon_not_digit; exact Hmm').
  rewrite take2_digits2 by exact Hmm'.
  assert ((hh <=? max_offset_hour) && (mm <=? 59) = true) as ->
      by (apply andb_true_iff; split; apply Z.leb_le; lia).
  destruct Hsg as [[-> ->]|[-> ->]]; reflexivity.
Qed.

(* ---------------------------------------------------------------------- *)
(* the recogniser accepts exactly the grammar, with exactly those fields   *)

Theorem iso_regex_sound : forall s f, iso_regex s = Some f -> wf_iso8601 s f.
Proof.
  intros s f H. rewrite iso_regex_eq in H.
  destruct (take4 s) as [[y r1]|] eqn:E1; [|discriminate H].
  destruct (take2 (opt_byte "-"%byte r1)) as [[mo r2]|] eqn:E2; [|discriminate H].
  destruct (take2 (opt_byte "-"%byte r2)) as [[d r3]|] eqn:E3; [|discriminate H].
  destruct r3 as [|t r4]; [discriminate H|].
  destruct (beqb t "T"%byte) eqn:ET; cbn [negb] in H; [|discriminate H].
  destruct (take2 r4) as [[h r5]|] eqn:E4; [|discriminate H].
  destruct (take2 (opt_byte ":"%byte r5)) as [[mi r6]|] eqn:E5; [|discriminate H].
  destruct (take2 (opt_byte ":"%byte r6)) as [[sec r7]|] eqn:E6; [|discriminate H].
  unfold iso_check in H.
  destruct (frac_parse r7) as [[ns r8]|] eqn:E7; [|discriminate H].
  destruct (parse_offset r8) as [off|] eqn:E8; [|discriminate H].
  match type of H with
  | (if ?c then _ else _) = _ => destruct c eqn:B; [|discriminate H]
  end.
  injection H as <-.
  rewrite !andb_true_iff, !Z.leb_le in B.
  apply beqb_eq in ET. subst t.
  apply take4_inv in E1. destruct E1 as [E1 By].
  apply take2_inv in E2. destruct E2 as [E2 Bmo].
  apply take2_inv in E3. destruct E3 as [E3 Bd].
  apply take2_inv in E4. destruct E4 as [E4 Bh].
  apply take2_inv in E5. destruct E5 as [E5 Bmi].
  apply take2_inv in E6. destruct E6 as [E6 Bs].
  destruct (opt_byte_inv "-"%byte r1) as (s1 & S1 & R1). rewrite E2 in R1.
  destruct (opt_byte_inv "-"%byte r2) as (s2 & S2 & R2). rewrite E3 in R2.
  destruct (opt_byte_inv ":"%byte r5) as (s3 & S3 & R5). rewrite E5 in R5.
  destruct (opt_byte_inv ":"%byte r6) as (s4 & S4 & R6). rewrite E6 in R6.
  apply frac_parse_sound in E7. destruct E7 as (fr & R7 & Hfr).
  apply parse_offset_sound in E8.
  exists s1, s2, s3, s4, fr, r8. cbn [f_year f_month f_day f_hour f_minute f_second f_nanos f_offset].
  split.
  - rewrite E1, R1, R2. cbn [app]. rewrite E4, R5, R6, R7. reflexivity.
  - repeat split; try assumption; lia.
Qed.

Theorem iso_regex_complete : forall s f, wf_iso8601 s f -> iso_regex s = Some f.
Proof.
  intros s f (s1 & s2 & s3 & s4 & fr & z & Hs & S1 & S2 & S3 & S4
              & By & Bmo & Bd & Bh & Bmi & Bs & Hfr & Hz).
  destruct f as [y mo d h mi sec ns off].
  cbn [f_year f_month f_day f_hour f_minute f_second f_nanos f_offset] in *.
  subst s. rewrite iso_regex_eq.
  rewrite take4_digits4 by lia.
  rewrite opt_byte_digits2 by (try assumption; try exact dash_not_digit; lia).
  rewrite take2_digits2 by lia.
  rewrite opt_byte_digits2 by (try assumption; try exact dash_not_digit; lia).
  rewrite take2_digits2 by lia.
  cbn [app]. rewrite beqb_refl. cbn [negb].
  rewrite take2_digits2 by lia.
  rewrite opt_byte_digits2 by (try assumption; try exact colon_not_digit; lia).
  rewrite take2_digits2 by lia.
  rewrite opt_byte_digits2 by (try assumption; try exact colon_not_digit; lia).
  rewrite take2_digits2 by lia.
  unfold iso_check.
  rewrite (frac_parse_complete fr z ns off Hfr Hz).
  rewrite (parse_offset_complete z off Hz).
  match goal with
  | |- (if ?c then _ else _) = _ =>
      assert (c = true) as -> by (rewrite !andb_true_iff, !Z.leb_le; lia)
  end.
  reflexivity.
Qed.

(* the grammar determines the fields (no ambiguity) *)
Theorem wf_iso8601_functional : forall s f g, wf_iso8601 s f -> wf_iso8601 s g -> f = g.
Proof.
  intros s f g Hf Hg.
  apply iso_regex_complete in Hf. apply iso_regex_complete in Hg. congruence.
Qed.

(* ---------------------------------------------------------------------- *)
(* C16: accepted iff well-formed and denoting an existing instant          *)

Lemma instant_of_denotes f t : instant_of f = Some t <-> denotes f t.
Proof.
  unfold instant_of, denotes. split.
  - intro H.
    destruct (valid_date (f_year f) (f_month f) (f_day f) && (f_second f <=? 59)) eqn:B;
      [|discriminate H].
    apply andb_true_iff in B. destruct B as [V S]. apply Z.leb_le in S.
    some_inv H. split; [exact V|]. split; [exact S|]. lia.
  - intros (V & S & ->). rewrite V. apply Z.leb_le in S. rewrite S. cbn [andb].
    f_equal; lia.
Qed.

Theorem C16_accept_iff : forall s t,
  parse_iso8601 s = Some t <-> exists f, wf_iso8601 s f /\ denotes f t.
Proof.
  intros s t. unfold parse_iso8601. split.
  - intro H. destruct (iso_regex s) as [f|] eqn:E; [|discriminate H].
    exists f. split; [apply iso_regex_sound; exact E | apply instant_of_denotes; exact H].
  - intros (f & Hwf & Hd). rewrite (iso_regex_complete s f Hwf).
    apply instant_of_denotes. exact Hd.
Qed.

(* named rejections (corollaries): each of these texts is refused *)
Theorem C16_rejects :
  parse_iso8601 (s2b "20151330T123600Z") = None /\      (* month 13 *)
  parse_iso8601 (s2b "20150832T123600Z") = None /\      (* day 32 *)
  parse_iso8601 (s2b "20150230T123600Z") = None /\      (* 30 February *)
  parse_iso8601 (s2b "20150229T123600Z") = None /\      (* 29 February, non-leap *)
  parse_iso8601 (s2b "20150830T243600Z") = None /\      (* hour 24 *)
  parse_iso8601 (s2b "20150830T126000Z") = None /\      (* minute 60 *)
  parse_iso8601 (s2b "20150830T123660Z") = None /\      (* second 60 *)
  parse_iso8601 (s2b "20150830T123600+0060") = None /\  (* offset minute 60 *)
  parse_iso8601 (s2b "20150830T123600") = None /\       (* no zone *)
  parse_iso8601 (s2b " 20150830T123600Z") = None /\     (* leading junk *)
  parse_iso8601 (s2b "20150830T123600Zx") = None.       (* trailing junk *)
Proof. vm_compute. repeat split; reflexivity. Qed.

(* ---------------------------------------------------------------------- *)
(* rendering                                                               *)

Lemma dec_fixed_length w : forall n, length (dec_fixed w n) = w.
Proof.
  induction w as [|w IH]; intro n; cbn [dec_fixed].
  - reflexivity.
  - rewrite app_length, IH. cbn [length]. lia.
Qed.

Lemma render_year_digits4 y : 0 <= y <= 9999 -> render_year y = digits4 y.
Proof.
  intro H. unfold render_year.
  assert ((0 <=? y) && (y <=? 9999) = true) as ->
      by (apply andb_true_iff; split; apply Z.leb_le; lia).
  reflexivity.
Qed.

Lemma civil_of_days_year n y m d : civil_of_days n = (y, m, d) -> y = year_of_day n.
Proof.
  unfold civil_of_days.
  destruct (month_scan _ _ _) as [m0 d0]. intro E. injection E as <- _ _. reflexivity.
Qed.

Lemma instant_year_range t y m d :
  0 <= t < 253402300800 * ns_per_s ->
  civil_of_days (day_of_instant t) = (y, m, d) -> 1970 <= y <= 9999.
Proof.
  intros Ht C. apply civil_of_days_year in C.
  pose proof (year_of_day_spec (day_of_instant t)) as S. rewrite <- C in S.
  assert (Hn : 719162 <= day_of_instant t < 3652059)
    by (unfold day_of_instant, unix_epoch_day, ns_per_s in *; dlia).
  assert (D1970 : days_before_year 1970 = 719162) by reflexivity.
  assert (D10000 : days_before_year 10000 = 3652059) by reflexivity.
  split.
  - destruct (Z_le_gt_dec 1970 y) as [L|G]; [exact L|exfalso].
    pose proof (days_before_year_mono (y + 1) 1970 ltac:(lia)). lia.
  - destruct (Z_le_gt_dec y 9999) as [L|G]; [exact L|exfalso].
    pose proof (days_before_year_mono 10000 y ltac:(lia)). lia.
Qed.

Theorem C16_scope_date_is_prefix : forall t,
  yyyymmdd t = firstn (length (yyyymmdd t)) (render_compact t).
Proof.
  intro t. unfold render_compact.
  generalize (yyyymmdd t) as p.
  generalize (["T"%byte] ++ two (sod_of_instant t / 3600) ++ two (sod_of_instant t / 60 mod 60)
              ++ two (sod_of_instant t mod 60) ++ ["Z"%byte]) as q.
  intros q p. induction p as [|x p IH]; cbn [length app firstn].
  - reflexivity.
  - f_equal. exact IH.
Qed.

Theorem C16_compact_length : forall t,
  0 <= t < 253402300800 * ns_per_s -> length (render_compact t) = 16%nat.
Proof.
  intros t Ht. unfold render_compact, yyyymmdd, yyyymmdd_of_civil.
  destruct (civil_of_days (day_of_instant t)) as [[y m] d] eqn:C.
  pose proof (instant_year_range t y m d Ht C) as Hy.
  rewrite render_year_digits4 by lia.
  unfold digits4, two. rewrite !app_length, !dec_fixed_length. reflexivity.
Qed.

Theorem C16_render_roundtrip : forall t,
  0 <= t -> (* from 1970 *) t < 253402300800 * ns_per_s (* before year 10000 *) ->
  t mod ns_per_s = 0 ->
  parse_iso8601 (render_compact t) = Some t.
Proof.
  intros t H0 H1 Hmod. apply C16_accept_iff.
  unfold render_compact, yyyymmdd, yyyymmdd_of_civil.
  destruct (civil_of_days (day_of_instant t)) as [[y m] d] eqn:C.
  pose proof (instant_year_range t y m d (conj H0 H1) C) as Hy.
  apply days_of_civil_of_days in C. destruct C as [V D].
  pose proof (valid_date_inv y m d V) as [Hm Hd].
  pose proof (days_in_month_le_31 (is_leap y) m) as Hd31.
  set (sod := sod_of_instant t).
  assert (Hsod : 0 <= sod < 86400) by (unfold sod, sod_of_instant; dlia).
  exists {| f_year := y; f_month := m; f_day := d;
            f_hour := sod / 3600; f_minute := sod / 60 mod 60; f_second := sod mod 60;
            f_nanos := 0; f_offset := 0 |}.
  split.
  - exists [], [], [], [], [], ["Z"%byte].
    cbn [f_year f_month f_day f_hour f_minute f_second f_nanos f_offset].
    split.
    { rewrite render_year_digits4 by lia. unfold two, digits2. cbn [app].
      rewrite <- !app_assoc. reflexivity. }
    repeat split; try (left; reflexivity); try lia; try dlia.
    + left. split; reflexivity.
    + left. split; reflexivity.
  - unfold denotes. cbn [f_year f_month f_day f_hour f_minute f_second f_nanos f_offset].
    split; [exact V|]. split; [dlia|].
    rewrite D. unfold day_of_instant. fold sod.
    unfold sod, sod_of_instant, ns_per_s in *. dlia.
Qed.
