(* C02 (completeness), C05 (mandatory signed headers, end-to-end), C11 (unsigned headers have no
   influence; signed headers are covered injectively), C19 (unique acceptance): composition of the
   stage theorems of PipelineProofs / SoundnessProofs / AuthProofs / SelectionProofs / HeaderProofs /
   QueryProofs / PathProofs / ReqProofs.  Everything is for an arbitrary hash function [H].

   Known finding D1: every statement that relates the model to the specification canonical path
   carries [has_plus (rq_path rq) = false]; [C02_plus_refuted] is the witness that the guard is needed. *)
From Coq Require Import List Bool NArith ZArith Lia.
From Coq Require Import Sorting.Permutation Sorting.Sorted.
From Coq Require Import Strings.Byte.
From Verif Require Import Base.Bytes Base.Hex Base.Utf8 Crypto.Hmac Time.Calendar Time.Iso8601 Time.Render.
From Verif Require Import Generated.SrcConsts Model.Errors Model.Uri Model.Query Model.Headers Model.Labels
  Model.Requirements Model.Validate.
From Verif Require Import Spec.PathSpec Spec.QuerySpec Spec.Signer Spec.RequestSpec.
From Verif Require Import Proofs.PathProofs Proofs.QueryProofs Proofs.HeaderProofs Proofs.KeyProofs
  Proofs.ReqProofs.
From Verif Require Import Proofs.PipelineProofs Proofs.SelectionProofs.
From Verif Require Proofs.AuthProofs Proofs.IsoProofs.
From Verif Require Import Proofs.SoundnessProofs.
Import ListNotations.

(* ========================================================================================== *)
(* 0. Definitions used by the statements                                                      *)
(* ========================================================================================== *)

(* the request with another header list *)
Definition with_headers (rq : request) (hs : list (bytes * bytes)) : request :=
  {| rq_method := rq_method rq; rq_path := rq_path rq; rq_query := rq_query rq; rq_uri := rq_uri rq;
     rq_version := rq_version rq; rq_headers := hs; rq_body := rq_body rq; rq_decoded := rq_decoded rq |}.

(* the configuration with another requirement set *)
Definition with_reqs (cf : config) (rs : reqs) : config :=
  {| cf_region := cf_region cf; cf_service := cf_service cf; cf_now := cf_now cf; cf_reqs := rs;
     cf_s3 := cf_s3 cf; cf_fold := cf_fold cf |}.

(* header [n] (lower-case) occurs in the raw header list *)
Definition present (n : bytes) (hs : list (bytes * bytes)) : Prop := values_of n hs <> [].

(* the signed-header requirements, read on the raw header list of the request *)
Definition requirements_met (rs : reqs) (hs : list (bytes * bytes)) (signed : list bytes) : Prop :=
  (forall a, In a (always_present rs) -> In (lower a) signed)
  /\ (forall c, In c (if_in_request rs) -> present (lower c) hs -> In (lower c) signed)
  /\ (forall p n, In p (prefixes rs) -> present n hs -> starts_with (lower p) n = true -> In n signed).

Definition host_or_authority (signed : list bytes) : Prop :=
  In (s2b "host") signed \/ In (s2b ":authority") signed.

(* two verdicts that agree on everything but the passed-through parts and body *)
Definition same_verdict (o1 o2 : outcome) : Prop :=
  match o1, o2 with
  | Accepted _ _ pr1 se1, Accepted _ _ pr2 se2 => pr1 = pr2 /\ se1 = se2
  | Refused k1, Refused k2 => k1 = k2
  | Panicked s1, Panicked s2 => s1 = s2
  | _, _ => False
  end.

(* two verdicts that agree on everything but the passed-through header list, which is the
   respective request's own *)
Definition outcome_modulo_headers (hs1 hs2 : list (bytes * bytes)) (o1 o2 : outcome) : Prop :=
  match o1, o2 with
  | Accepted p1 b1 pr1 se1, Accepted p2 b2 pr2 se2 =>
      pt_method p1 = pt_method p2 /\ pt_uri p1 = pt_uri p2 /\ pt_version p1 = pt_version p2 /\
      pt_headers p1 = hs1 /\ pt_headers p2 = hs2 /\ b1 = b2 /\ pr1 = pr2 /\ se1 = se2
  | Refused k1, Refused k2 => k1 = k2
  | Panicked s1, Panicked s2 => s1 = s2
  | _, _ => False
  end.

(* ========================================================================================== *)
(* 1. General helpers                                                                         *)
(* ========================================================================================== *)

Lemma assoc_some_in {V} (l : list (bytes * V)) k v : assoc k l = Some v -> In (k, v) l.
Proof.
  induction l as [|[k' v'] r IH]; cbn [assoc]; [discriminate|].
  destruct (bytes_eqb k k') eqn:E.
  - intro X. injection X as <-. apply bytes_eqb_eq in E. subst. left. reflexivity.
  - intro X. right. apply IH. exact X.
Qed.

Lemma values_of_in n hs v : In v (values_of n hs) <-> exists w, In (w, v) hs /\ lower w = n.
Proof.
  unfold values_of. rewrite in_map_iff. split.
  - intros ([w v'] & E & HI). cbn in E. subst v'. apply filter_In in HI. destruct HI as [HI HB].
    cbn in HB. apply bytes_eqb_eq in HB. exists w. split; assumption.
  - intros (w & HI & E). exists (w, v). split; [reflexivity|]. apply filter_In. split; [exact HI|].
    cbn. apply bytes_eqb_eq. exact E.
Qed.

Lemma present_iff n hs : present n hs <-> exists w v, In (w, v) hs /\ lower w = n.
Proof.
  unfold present. split.
  - intro P. destruct (values_of n hs) as [|v r] eqn:E; [contradiction|].
    assert (HI : In v (values_of n hs)) by (rewrite E; left; reflexivity).
    apply values_of_in in HI. destruct HI as (w & HI & EW). exists w, v. split; assumption.
  - intros (w & v & HI & EW) E.
    assert (HV : In v (values_of n hs)) by (apply values_of_in; exists w; split; assumption).
    rewrite E in HV. exact HV.
Qed.

(* lookups in the normalised header map, by presence in the raw list *)
Lemma hget_present n hs : hget n (normalize_headers hs) <> None <-> present n hs.
Proof.
  rewrite hget_normalize_headers. unfold present.
  destruct (values_of n hs); split; intro X; try congruence; discriminate.
Qed.

Lemma hmap_entry_present hs k vs : In (k, vs) (normalize_headers hs) <-> hget k (normalize_headers hs) = Some vs.
Proof.
  symmetry. apply assoc_In. apply normalize_headers_nodup.
Qed.

(* ========================================================================================== *)
(* 2. C05: requirements, end to end                                                           *)
(* ========================================================================================== *)

Theorem C05_reqs_ok_raw : forall rs hs signed,
  reqs_ok rs (normalize_headers hs) signed = true <-> requirements_met rs hs signed.
Proof.
  intros rs hs signed. rewrite C05_reqs_ok_meaning. unfold requirements_met.
  split; intros (A & B & C); (split; [exact A|]); split.
  - intros c HC P. apply B; [exact HC|]. apply hget_present. exact P.
  - intros p n HP P S.
    apply hget_present in P.
    destruct (hget n (normalize_headers hs)) as [vs|] eqn:E; [|contradiction].
    apply (C p n vs HP); [|exact S]. apply hmap_entry_present. exact E.
  - intros c HC P. apply B; [exact HC|]. apply hget_present. exact P.
  - intros p k vs HP HI S. apply (C p k HP); [|exact S].
    apply hget_present. apply hmap_entry_present in HI. congruence.
Qed.

Lemma host_signed_iff signed : host_signed signed = true <-> host_or_authority signed.
Proof.
  unfold host_signed, host_or_authority, host_b, authority_b.
  rewrite orb_true_iff, !mem_bytes_In. reflexivity.
Qed.

Section C05.
  Variable H : bytes -> bytes.

  Lemma presented_params_inv : forall rq cf ap,
    presented_params H rq cf = Some ap ->
    exists cr pts body,
      from_request_parts H rq cf = Ok (cr, pts, body) /\
      cr_headers cr = normalize_headers (rq_headers rq) /\
      carrier_params cr = Ok ap /\
      get_auth_parameters cr (cf_reqs cf) = Ok ap /\
      host_signed (ap_signed ap) = true /\
      reqs_ok (cf_reqs cf) (cr_headers cr) (ap_signed ap) = true.
  Proof.
    intros rq cf ap HP. unfold presented_params in HP.
    destruct (from_request_parts H rq cf) as [[[cr pts] body]| |] eqn:HF; try discriminate.
    destruct (get_auth_parameters cr (cf_reqs cf)) as [ap'| |] eqn:HG; try discriminate.
    injection HP as ->.
    exists cr, pts, body. split; [reflexivity|].
    destruct (frp_inv H _ _ _ _ _ HF) as (path & qm & _ & _ & _ & _ & HH & _).
    split; [exact HH|].
    pose proof HG as HG'. unfold get_auth_parameters in HG'.
    destruct (carrier_params cr) as [ap0| |] eqn:HC; cbn [bind] in HG'; try discriminate.
    destruct (host_signed (ap_signed ap0)) eqn:HS; cbn [negb] in HG'; [|discriminate].
    destruct (reqs_ok (cf_reqs cf) (cr_headers cr) (ap_signed ap0)) eqn:HR; cbn [negb] in HG'; [|discriminate].
    injection HG' as ->. repeat split; assumption.
  Qed.

  (* the requirement conjunction on the raw request, for the presented signed list *)
  Definition c05_conjunction (rq : request) (cf : config) (signed : list bytes) : Prop :=
    host_or_authority signed
    /\ (forall a, In a (always_present (cf_reqs cf)) -> In (lower a) signed)
    /\ (forall c, In c (if_in_request (cf_reqs cf)) -> values_of (lower c) (rq_headers rq) <> [] ->
                  In (lower c) signed)
    /\ (forall p n v, In p (prefixes (cf_reqs cf)) -> In (n, v) (rq_headers rq) ->
                      starts_with (lower p) (lower n) = true -> In (lower n) signed).

  Lemma c05_conjunction_iff rq cf signed :
    c05_conjunction rq cf signed <->
    host_or_authority signed /\ requirements_met (cf_reqs cf) (rq_headers rq) signed.
  Proof.
    unfold c05_conjunction, requirements_met, present.
    split.
    - intros (A & B & C & D). split; [exact A|]. split; [exact B|]. split; [exact C|].
      intros p n HP P S. apply present_iff in P. destruct P as (w & v & HI & <-).
      apply (D p w v HP HI S).
    - intros (A & B & C & D). split; [exact A|]. split; [exact B|]. split; [exact C|].
      intros p n v HP HI S. apply (D p (lower n) HP); [|exact S].
      apply present_iff. exists n, v. split; [exact HI|reflexivity].
  Qed.

  Theorem C05_accept_implies_requirements : forall rq cf pv calls p b pr se,
    validate H rq cf pv = (calls, Accepted p b pr se) ->
    exists ap,
      presented_params H rq cf = Some ap
      /\ (In (s2b "host") (ap_signed ap) \/ In (s2b ":authority") (ap_signed ap))
      /\ (forall a, In a (always_present (cf_reqs cf)) -> In (lower a) (ap_signed ap))
      /\ (forall c, In c (if_in_request (cf_reqs cf)) -> values_of (lower c) (rq_headers rq) <> [] ->
                    In (lower c) (ap_signed ap))
      /\ (forall p n v, In p (prefixes (cf_reqs cf)) -> In (n, v) (rq_headers rq) ->
                        starts_with (lower p) (lower n) = true -> In (lower n) (ap_signed ap)).
  Proof.
    intros rq cf pv calls p b pr se HV.
    destruct (SoundnessProofs.validate_accept_inv H _ _ _ _ _ _ _ _ HV)
      as (cr & ap & ts & key & ak & cscope & HF & HG & _).
    assert (HP : presented_params H rq cf = Some ap)
      by (unfold presented_params; rewrite HF, HG; reflexivity).
    exists ap. split; [exact HP|].
    destruct (presented_params_inv _ _ _ HP) as (cr' & pts' & body' & HF' & HH & _ & _ & HS & HR).
    rewrite HH in HR. apply C05_reqs_ok_raw in HR. apply host_signed_iff in HS.
    apply (c05_conjunction_iff rq cf (ap_signed ap)). split; assumption.
  Qed.

  (* a violated requirement is a 403 SignatureDoesNotMatch, before any key lookup, whatever the
     provider and whatever the signature (the signature is never looked at) *)
  Theorem C05_violation_refused_403 : forall rq cf pv cr pts body ap,
    from_request_parts H rq cf = Ok (cr, pts, body) ->
    carrier_params cr = Ok ap ->
    ~ c05_conjunction rq cf (ap_signed ap) ->
    validate H rq cf pv = ([], Refused SignatureDoesNotMatch)
    /\ status SignatureDoesNotMatch = Some 403%N.
  Proof.
    intros rq cf pv cr pts body ap HF HC HN. split; [|reflexivity].
    apply (C13_requirements H rq cf pv cr pts body ap HF HC).
    destruct (frp_inv H _ _ _ _ _ HF) as (path & qm & _ & _ & _ & _ & HH & _).
    destruct (host_signed (ap_signed ap)) eqn:HS; [|left; reflexivity]. right.
    destruct (reqs_ok (cf_reqs cf) (cr_headers cr) (ap_signed ap)) eqn:HR; [|reflexivity].
    exfalso. apply HN. apply c05_conjunction_iff. split.
    - apply host_signed_iff. exact HS.
    - apply C05_reqs_ok_raw. rewrite <- HH. exact HR.
  Qed.

  (* conversely, when the conjunction holds the requirement stage passes *)
  Theorem C05_requirements_pass : forall rq cf cr pts body ap,
    from_request_parts H rq cf = Ok (cr, pts, body) ->
    carrier_params cr = Ok ap ->
    c05_conjunction rq cf (ap_signed ap) ->
    presented_params H rq cf = Some ap.
  Proof.
    intros rq cf cr pts body ap HF HC HJ.
    destruct (frp_inv H _ _ _ _ _ HF) as (path & qm & _ & _ & _ & _ & HH & _).
    apply c05_conjunction_iff in HJ. destruct HJ as [HS HR].
    apply host_signed_iff in HS. apply C05_reqs_ok_raw in HR. rewrite <- HH in HR.
    unfold presented_params. rewrite HF. unfold get_auth_parameters. rewrite HC. cbn [bind].
    rewrite HS, HR. reflexivity.
  Qed.

  (* the verdict depends on the requirement set only through the case-folded sets it denotes *)
  Theorem C05_requirement_extensional : forall rq cf rs' pv,
    abs_eq (abs_of (cf_reqs cf)) (abs_of rs') ->
    validate H rq (with_reqs cf rs') pv = validate H rq cf pv.
  Proof.
    intros rq cf rs' pv HE. unfold validate.
    change (from_request_parts H rq (with_reqs cf rs')) with (from_request_parts H rq cf).
    destruct (from_request_parts H rq cf) as [[[cr pts] body]| |]; try reflexivity.
    change (cf_reqs (with_reqs cf rs')) with rs'.
    assert (EA : get_authenticator H cr rs' = get_authenticator H cr (cf_reqs cf)).
    { unfold get_authenticator, get_auth_parameters.
      destruct (carrier_params cr) as [ap| |]; cbn [bind]; try reflexivity.
      rewrite (C05_reqs_ok_extensional (cf_reqs cf) rs' _ _ HE). reflexivity. }
    rewrite EA. destruct (get_authenticator H cr (cf_reqs cf)) as [au| |]; try reflexivity.
  Qed.

  Definition same_spelling (l1 l2 : list bytes) : Prop := Forall2 (fun a b => lower a = lower b) l1 l2.

  Lemma same_spelling_denotes l1 l2 : same_spelling l1 l2 -> forall n, denotes l1 n = denotes l2 n.
  Proof.
    intros HS n. unfold denotes. f_equal.
    induction HS as [|a b l1 l2 E _ IH]; [reflexivity|]. cbn [map]. rewrite E, IH. reflexivity.
  Qed.

  Theorem C05_requirement_case_insensitive : forall rq cf rs' pv,
    same_spelling (always_present (cf_reqs cf)) (always_present rs') ->
    same_spelling (if_in_request (cf_reqs cf)) (if_in_request rs') ->
    same_spelling (prefixes (cf_reqs cf)) (prefixes rs') ->
    validate H rq (with_reqs cf rs') pv = validate H rq cf pv.
  Proof.
    intros rq cf rs' pv A B C. apply C05_requirement_extensional.
    unfold abs_eq, abs_of. cbn [a_always a_ifreq a_prefixes].
    split; [|split]; apply same_spelling_denotes; assumption.
  Qed.
End C05.

(* ========================================================================================== *)
(* 3. C02 (a): a request signed according to the specification is accepted                    *)
(* ========================================================================================== *)

Local Notation fresh := AuthProofs.fresh.

Section C02A.
  Variable H : bytes -> bytes.

  (* the converse of C01_accept_implies_signature *)
  Theorem C02_spec_signed_accepted : forall rq cf pv cr pts body ap ts ak key pr se sts,
    from_request_parts H rq cf = Ok (cr, pts, body) ->
    has_plus (rq_path rq) = false ->
    presented_params H rq cf = Some ap ->
    parse_iso8601 (ap_timestamp ap) = Some ts ->
    fresh ts (cf_now cf) ->
    split_on "/"%byte (ap_credential ap) = [ak; yyyymmdd ts; cf_region cf; cf_service cf; s2b "aws4_request"] ->
    pv_ready pv = None ->
    pv_answer pv (expected_gsk cf ap ts) = AnsOk key pr se ->
    spec_request_sts H rq cf ap ts = Some sts ->
    ap_signature ap = lower_hex (hmac H key sts) ->
    validate H rq cf pv = ([expected_gsk cf ap ts], Accepted pts body pr se).
  Proof.
    intros rq cf pv cr pts body ap ts ak key pr se sts HF HPl HP HT HFr HSc HR HAns HSts HSig.
    unfold presented_params in HP. rewrite HF in HP.
    destruct (get_auth_parameters cr (cf_reqs cf)) as [ap'| |] eqn:HG; try discriminate.
    injection HP as ->.
    set (au := AuthProofs.authenticator_of H cr ap ts).
    assert (HA : get_authenticator H cr (cf_reqs cf) = Ok au).
    { rewrite AuthProofs.get_authenticator_eq, HG. cbn [bind].
      unfold AuthProofs.authenticator_from_params. rewrite HT. reflexivity. }
    assert (HPre : prevalidate au (cf_region cf) (cf_service cf) (cf_now cf) allowed_mismatch_ns = Ok tt).
    { rewrite AuthProofs.prevalidate_stages.
      cbn [au AuthProofs.authenticator_of au_timestamp].
      rewrite (AuthProofs.freshness_stage_fresh ts (cf_now cf) HFr). cbn [bind].
      unfold AuthProofs.scope_check. cbn [au AuthProofs.authenticator_of au_timestamp au_credential].
      apply (AuthProofs.scope_check_on_ok_intro _ ak). rewrite HSc. reflexivity. }
    assert (HCall : the_call au cf = expected_gsk cf ap ts) by reflexivity.
    assert (HArity : bad_arity au = false).
    { unfold bad_arity, cred_parts. cbn [au AuthProofs.authenticator_of au_credential]. rewrite HSc. reflexivity. }
    assert (HStsEq : sts_of au = sts).
    { destruct (model_creq_is_spec H _ _ _ _ _ HF HPl) as (path & pairs & EP & EA & HS).
      unfold spec_request_sts in HSts. rewrite EP, EA in HSts.
      unfold sts_of, cred_scope. cbn [au AuthProofs.authenticator_of au_timestamp au_credential au_creq_sha256].
      destruct (split_once "/"%byte (ap_credential ap)) as [[ak' scope]|] eqn:HC; [|discriminate].
      injection HSts as <-.
      unfold spec_string_to_sign, nl. rewrite HS, algorithm_is_src. reflexivity. }
    pose proof (C13_accepted H rq cf pv cr pts body au key pr se HF HA HPre) as HAcc.
    unfold prov_answer, prov_calls in HAcc. rewrite HR, HCall in HAcc.
    apply HAcc; [exact HAns|].
    rewrite HStsEq. exact HSig.
  Qed.

  (* acceptance, exactly: C01 and its converse *)
  Theorem C02_accept_iff_spec_signature : forall rq cf pv pr se,
    has_plus (rq_path rq) = false ->
    ((exists calls p b, validate H rq cf pv = (calls, Accepted p b pr se))
     <->
     (exists ap ts ak key sts,
        presented_params H rq cf = Some ap /\
        parse_iso8601 (ap_timestamp ap) = Some ts /\
        fresh ts (cf_now cf) /\
        split_on "/"%byte (ap_credential ap) = [ak; yyyymmdd ts; cf_region cf; cf_service cf; s2b "aws4_request"] /\
        pv_ready pv = None /\
        pv_answer pv (expected_gsk cf ap ts) = AnsOk key pr se /\
        spec_request_sts H rq cf ap ts = Some sts /\
        ap_signature ap = lower_hex (hmac H key sts))).
  Proof.
    intros rq cf pv pr se HPl. split.
    - intros (calls & p & b & HV).
      destruct (C01_accept_implies_signature H _ _ _ _ _ _ _ _ HV HPl)
        as (ap & ts & g & key & sts & _ & -> & HR & HAns & HP & HT & HSts & HSig).
      destruct (AuthProofs.C03_accept_implies_scope H _ _ _ _ _ _ _ _ HV)
        as (cr & ap' & ts' & ak & d & r & s & term & HF & HG & HT' & HSc & -> & -> & -> & -> & _).
      destruct (AuthProofs.C04_accept_implies_fresh H _ _ _ _ _ _ _ _ HV)
        as (cr2 & pts2 & body2 & ap2 & ts2 & HF2 & HG2 & HT2 & HFr).
      rewrite HF in HF2. injection HF2 as <- <- <-. rewrite HG in HG2. injection HG2 as <-.
      assert (ap' = ap) as -> by (unfold presented_params in HP; rewrite HF, HG in HP; congruence).
      assert (ts' = ts) as -> by congruence. assert (ts2 = ts) as -> by congruence.
      exists ap, ts, ak, key, sts. rewrite AuthProofs.C03_terminator in HSc.
      repeat (split; [assumption|]). assumption.
    - intros (ap & ts & ak & key & sts & HP & HT & HFr & HSc & HR & HAns & HSts & HSig).
      destruct (presented_params_inv H _ _ _ HP) as (cr & pts & body & HF & _).
      exists [expected_gsk cf ap ts], pts, body.
      apply (C02_spec_signed_accepted rq cf pv cr pts body ap ts ak key pr se sts); assumption.
  Qed.

  (* explicit request-level conditions under which parameters are presented *)
  Theorem C02_presented_params_intro : forall rq cf,
    request_failure rq cf = None ->                                   (* path, query (and form) parse *)
    params_failure (st_canonical H rq cf) = None ->                   (* exactly one carrier, algorithm literal,
                                                                         parameter syntax, nothing missing *)
    host_or_authority (ap_signed (sel_params (st_canonical H rq cf))) ->
    requirements_met (cf_reqs cf) (rq_headers rq) (ap_signed (sel_params (st_canonical H rq cf))) ->
    from_request_parts H rq cf = Ok (st_canonical H rq cf, st_parts rq cf, spec_payload rq cf)
    /\ presented_params H rq cf = Some (sel_params (st_canonical H rq cf)).
  Proof.
    intros rq cf HRq HPa HHo HRe.
    pose proof (from_request_parts_eq H rq cf) as HF. rewrite HRq in HF. split; [exact HF|].
    unfold presented_params. rewrite HF.
    rewrite get_auth_parameters_eq by (apply (request_ok_good H); exact HRq).
    rewrite HPa. apply host_signed_iff in HHo. rewrite HHo. cbn [negb].
    apply C05_reqs_ok_raw in HRe. cbn [st_canonical cr_headers]. rewrite HRe. reflexivity.
  Qed.
End C02A.

(* ========================================================================================== *)
(* 4. C02 (b): acceptance does not depend on the spelling of equivalent wire encodings        *)
(* ========================================================================================== *)

(* the decoded segments of a path (None = a malformed escape) *)
Definition decode_segs (p : bytes) : option (list bytes) :=
  map_opt (pct_decode false) (split_on "/"%byte p).

(* same segments after percent-decoding: hex case of escapes, needless escapes *)
Definition same_path (p1 p2 : bytes) : Prop := decode_segs p1 = decode_segs p2.

(* same multiset of decoded (name, value) pairs: hex case, needless escapes, %20 versus +,
   parameter order, repeated names, empty components *)
Definition same_pairs (q1 q2 : bytes) : Prop :=
  match decoded_pairs q1, decoded_pairs q2 with
  | Some d1, Some d2 => Permutation d1 d2
  | None, None => True
  | _, _ => False
  end.

(* header [n] carries the same Trimall-normalised values, in the same order, in both lists *)
Definition agree_on (n : bytes) (hs1 hs2 : list (bytes * bytes)) : Prop :=
  map spec_trimall (values_of n hs1) = map spec_trimall (values_of n hs2).

(* per lower-cased name, the same number of values, pairwise equal after Trimall: name case,
   redundant spaces, relative order of differently named headers *)
Definition same_header_values (hs1 hs2 : list (bytes * bytes)) : Prop := forall n, agree_on n hs1 hs2.

Record same_logical (rq1 rq2 : request) : Prop := {
  sl_method : rq_method rq1 = rq_method rq2;
  sl_plus1 : has_plus (rq_path rq1) = false;                  (* known finding D1 *)
  sl_plus2 : has_plus (rq_path rq2) = false;
  sl_path : same_path (rq_path rq1) (rq_path rq2);
  sl_query : same_pairs (url_query rq1) (url_query rq2);
  sl_headers : same_header_values (rq_headers rq1) (rq_headers rq2);
  sl_body : rq_body rq1 = rq_body rq2;
  sl_decoded : rq_decoded rq1 = rq_decoded rq2
}.

Lemma same_pairs_sym q1 q2 : same_pairs q1 q2 -> same_pairs q2 q1.
Proof.
  unfold same_pairs. destruct (decoded_pairs q1), (decoded_pairs q2); auto using Permutation_sym.
Qed.

Lemma same_logical_sym rq1 rq2 : same_logical rq1 rq2 -> same_logical rq2 rq1.
Proof.
  intros [A B C D E F G I]. constructor; auto.
  - symmetry. exact D.
  - apply same_pairs_sym. exact E.
  - intro n. symmetry. apply F.
Qed.

Lemma same_logical_refl rq : has_plus (rq_path rq) = false -> same_logical rq rq.
Proof.
  intro P. constructor; auto; try reflexivity.
  - unfold same_pairs. destruct (decoded_pairs (url_query rq)); auto.
  - intro n. reflexivity.
Qed.

(* ---- paths ---- *)

Lemma decode_segs_nil : decode_segs [] = Some [[]].
Proof. reflexivity. Qed.

Lemma decode_segs_slash r : decode_segs ("/"%byte :: r) = option_map (cons []) (decode_segs r).
Proof.
  unfold decode_segs. rewrite PathProofs.split_on_cons, beqb_refl, map_opt_cons.
  cbn [pct_decode]. destruct (map_opt _ _); reflexivity.
Qed.

Lemma decode_segs_nonempty p ys : decode_segs p = Some ys -> ys <> [].
Proof.
  intro E. apply (map_opt_nonempty _ _ _ E). apply split_on_nonempty.
Qed.

Lemma decode_segs_nonslash c r ys :
  beqb c "/"%byte = false -> decode_segs (c :: r) = Some ys -> exists y ys', ys = y :: ys' /\ y <> [].
Proof.
  intros E HD. unfold decode_segs in HD. rewrite PathProofs.split_on_cons, E in HD.
  apply map_opt_cons_inv in HD. destruct HD as (y & ys' & HY & _ & ->).
  exists y, ys'. split; [reflexivity|]. apply decode_is_nil in HY.
  destruct y; [discriminate|discriminate].
Qed.

Lemma decode_segs_cons_not_single c r : decode_segs (c :: r) <> Some [[]].
Proof.
  intro E. destruct (beqb c "/"%byte) eqn:B.
  - apply beqb_eq in B. subst c. rewrite decode_segs_slash in E.
    destruct (decode_segs r) as [ys|] eqn:E'; [|discriminate].
    cbn in E. injection E as ->. apply decode_segs_nonempty in E'. contradiction.
  - destruct (decode_segs_nonslash _ _ _ B E) as (y & ys' & X & NE). injection X as <- _. contradiction.
Qed.

Lemma spec_path_nonslash s3 c r : beqb c "/"%byte = false -> spec_path s3 (c :: r) = None.
Proof. intro E. unfold spec_path. rewrite E. reflexivity. Qed.

Lemma spec_path_slash_bad s3 r : decode_segs r = None -> spec_path s3 ("/"%byte :: r) = None.
Proof.
  intro E. destruct r as [|c r]; [discriminate|].
  rewrite spec_path_slash by discriminate. unfold decode_segs in E. rewrite E. reflexivity.
Qed.

(* the specification path depends on the decoded segments only (no '+' guard needed here) *)
Theorem spec_path_same_path : forall s3 p1 p2, same_path p1 p2 -> spec_path s3 p1 = spec_path s3 p2.
Proof.
  intros s3 p1 p2 HS. unfold same_path in HS.
  destruct p1 as [|c1 r1], p2 as [|c2 r2].
  - reflexivity.
  - rewrite decode_segs_nil in HS. symmetry in HS. apply decode_segs_cons_not_single in HS. contradiction.
  - rewrite decode_segs_nil in HS. apply decode_segs_cons_not_single in HS. contradiction.
  - destruct (beqb c1 "/"%byte) eqn:B1, (beqb c2 "/"%byte) eqn:B2.
    + apply beqb_eq in B1, B2. subst c1 c2. rewrite !decode_segs_slash in HS.
      assert (E : decode_segs r1 = decode_segs r2).
      { destruct (decode_segs r1), (decode_segs r2); cbn in HS; congruence. }
      destruct r1 as [|a1 r1], r2 as [|a2 r2].
      * reflexivity.
      * rewrite decode_segs_nil in E. symmetry in E. apply decode_segs_cons_not_single in E. contradiction.
      * rewrite decode_segs_nil in E. apply decode_segs_cons_not_single in E. contradiction.
      * rewrite !spec_path_slash by discriminate. unfold decode_segs in E. rewrite E. reflexivity.
    + apply beqb_eq in B1. subst c1. rewrite (spec_path_nonslash s3 c2 r2 B2).
      rewrite decode_segs_slash in HS.
      destruct (decode_segs r1) as [ys|] eqn:E1.
      * cbn in HS. symmetry in HS. destruct (decode_segs_nonslash _ _ _ B2 HS) as (y & ys' & X & NE).
        injection X as <- _. contradiction.
      * apply spec_path_slash_bad. exact E1.
    + apply beqb_eq in B2. subst c2. rewrite (spec_path_nonslash s3 c1 r1 B1).
      rewrite decode_segs_slash in HS.
      destruct (decode_segs r2) as [ys|] eqn:E2.
      * cbn in HS. destruct (decode_segs_nonslash _ _ _ B1 HS) as (y & ys' & X & NE).
        injection X as <- _. contradiction.
      * symmetry. apply spec_path_slash_bad. exact E2.
    + rewrite !spec_path_nonslash by assumption. reflexivity.
Qed.

(* C09_spelling_insensitive, for whole paths *)
Corollary canon_path_same_path : forall s3 p1 p2,
  has_plus p1 = false -> has_plus p2 = false -> same_path p1 p2 -> canon_path s3 p1 = canon_path s3 p2.
Proof.
  intros s3 p1 p2 P1 P2 HS. rewrite !C09_model_is_spec by assumption. apply spec_path_same_path. exact HS.
Qed.

(* ---- headers ---- *)

Lemma hget_agree n hs1 hs2 :
  agree_on n hs1 hs2 -> hget n (normalize_headers hs1) = hget n (normalize_headers hs2).
Proof.
  unfold agree_on. intro HA. rewrite !hget_normalize_headers.
  assert (E : forall l, map norm_value l = map spec_trimall l)
    by (intro l; apply map_ext; apply C11_value_normal_form).
  destruct (values_of n hs1) as [|v1 l1], (values_of n hs2) as [|v2 l2]; try discriminate HA.
  - reflexivity.
  - rewrite !E, HA. reflexivity.
Qed.

Lemma agree_on_present n hs1 hs2 : agree_on n hs1 hs2 -> (present n hs1 <-> present n hs2).
Proof.
  unfold agree_on, present. intro HA.
  destruct (values_of n hs1), (values_of n hs2); try discriminate HA; split; intro X; congruence.
Qed.

(* C11: the header block depends on the Trimall-normalised per-name value lists only
   (generalises C11_block_per_name_order and C11_block_name_case) *)
Theorem C11_block_trimall : forall hs1 hs2 signed,
  (forall n, In n signed -> agree_on n hs1 hs2) ->
  spec_header_block hs1 signed = spec_header_block hs2 signed.
Proof.
  intros hs1 hs2 signed HA. unfold spec_header_block. apply HeaderProofs.flat_map_ext_in.
  intros n HI. specialize (HA n HI). unfold agree_on in HA.
  destruct (values_of n hs1) as [|v1 l1], (values_of n hs2) as [|v2 l2]; try discriminate HA.
  - reflexivity.
  - rewrite HA. reflexivity.
Qed.

(* ---- queries ---- *)

Lemma spec_folded_off rq cf : cf_fold cf = false -> spec_folded rq cf = false.
Proof. intro E. unfold spec_folded. rewrite E. reflexivity. Qed.

Lemma same_pairs_spec_query q1 q2 : same_pairs q1 q2 -> spec_query q1 = spec_query q2.
Proof.
  unfold same_pairs, spec_query.
  destruct (decoded_pairs q1) as [d1|], (decoded_pairs q2) as [d2|]; try contradiction; [|reflexivity].
  intro P. cbn [option_map]. f_equal. apply q_spec_query_of_pairs_perm. exact P.
Qed.

Section C02B.
  Variable H : bytes -> bytes.

  (* every covered component of the specification canonical request coincides *)
  Theorem C02_spelling_insensitive_components : forall rq1 rq2 cf,
    same_logical rq1 rq2 -> cf_fold cf = false ->
    spec_path (cf_s3 cf) (rq_path rq1) = spec_path (cf_s3 cf) (rq_path rq2)
    /\ option_map spec_query_of_pairs (spec_all_pairs rq1 cf) = option_map spec_query_of_pairs (spec_all_pairs rq2 cf)
    /\ (forall signed, spec_header_block (rq_headers rq1) signed = spec_header_block (rq_headers rq2) signed)
    /\ spec_payload rq1 cf = spec_payload rq2 cf
    /\ rq_method rq1 = rq_method rq2.
  Proof.
    intros rq1 rq2 cf HL HFo. destruct HL as [HM P1 P2 HPa HQ HHe HB HD].
    split; [apply spec_path_same_path; exact HPa|].
    split.
    { unfold spec_all_pairs. rewrite !spec_folded_off by exact HFo.
      fold (url_query rq1). fold (url_query rq2).
      apply same_pairs_spec_query in HQ. unfold spec_query in HQ.
      destruct (decoded_pairs (url_query rq1)), (decoded_pairs (url_query rq2)); exact HQ. }
    split; [intro signed; apply C11_block_trimall; intros n _; apply HHe|].
    split; [|exact HM].
    unfold spec_payload. rewrite !spec_folded_off by exact HFo. exact HB.
  Qed.

  (* hence the reference string-to-sign is the same, for every presented parameters *)
  Theorem C02_spelling_insensitive_sts : forall rq1 rq2 cf ap ts,
    same_logical rq1 rq2 -> cf_fold cf = false ->
    spec_request_sts H rq1 cf ap ts = spec_request_sts H rq2 cf ap ts.
  Proof.
    intros rq1 rq2 cf ap ts HL HFo.
    destruct (C02_spelling_insensitive_components rq1 rq2 cf HL HFo) as (EP & EQ & EH & EB & EM).
    unfold spec_request_sts. rewrite EP.
    destruct (spec_path (cf_s3 cf) (rq_path rq2)) as [path|]; [|reflexivity].
    destruct (spec_all_pairs rq1 cf) as [d1|], (spec_all_pairs rq2 cf) as [d2|]; cbn [option_map] in EQ;
      try discriminate EQ; [|reflexivity].
    injection EQ as EQ. unfold spec_canonical_request. rewrite EQ, EH, EB, EM. reflexivity.
  Qed.

  (* the model canonical requests coincide as well *)
  Lemma spelling_model_creq : forall rq1 rq2 cf cr1 pts1 body1 cr2 pts2 body2 signed,
    same_logical rq1 rq2 -> cf_fold cf = false ->
    from_request_parts H rq1 cf = Ok (cr1, pts1, body1) ->
    from_request_parts H rq2 cf = Ok (cr2, pts2, body2) ->
    canonical_request cr1 signed = canonical_request cr2 signed.
  Proof.
    intros rq1 rq2 cf cr1 pts1 body1 cr2 pts2 body2 signed HL HFo HF1 HF2.
    destruct (model_creq_is_spec H _ _ _ _ _ HF1 (sl_plus1 _ _ HL)) as (path1 & pairs1 & EP1 & EA1 & HS1).
    destruct (model_creq_is_spec H _ _ _ _ _ HF2 (sl_plus2 _ _ HL)) as (path2 & pairs2 & EP2 & EA2 & HS2).
    destruct (C02_spelling_insensitive_components rq1 rq2 cf HL HFo) as (EP & EQ & EH & EB & EM).
    rewrite HS1, HS2. rewrite EP1, EP2 in EP. injection EP as ->.
    rewrite EA1, EA2 in EQ. cbn [option_map] in EQ. injection EQ as EQ.
    unfold spec_canonical_request. rewrite EQ, EH, EB, EM. reflexivity.
  Qed.

  Lemma lift_outcome_same_verdict pts1 body1 pts2 body2 r :
    same_verdict (AuthProofs.lift_outcome pts1 body1 r) (AuthProofs.lift_outcome pts2 body2 r).
  Proof. destruct r as [[pr se]| |]; cbn; auto. Qed.

  (* two requests with equal authenticators get the same provider calls and the same verdict *)
  Lemma same_authenticator_same_verdict : forall rq1 rq2 cf pv cr1 pts1 body1 cr2 pts2 body2 au,
    from_request_parts H rq1 cf = Ok (cr1, pts1, body1) ->
    from_request_parts H rq2 cf = Ok (cr2, pts2, body2) ->
    get_authenticator H cr1 (cf_reqs cf) = Ok au ->
    get_authenticator H cr2 (cf_reqs cf) = Ok au ->
    fst (validate H rq1 cf pv) = fst (validate H rq2 cf pv)
    /\ same_verdict (snd (validate H rq1 cf pv)) (snd (validate H rq2 cf pv)).
  Proof.
    intros rq1 rq2 cf pv cr1 pts1 body1 cr2 pts2 body2 au HF1 HF2 HA1 HA2.
    rewrite (AuthProofs.validate_staged H _ _ pv _ _ _ _ HF1 HA1).
    rewrite (AuthProofs.validate_staged H _ _ pv _ _ _ _ HF2 HA2).
    cbn [fst snd]. split; [reflexivity|]. apply lift_outcome_same_verdict.
  Qed.

  (* same presented parameters and same canonical request: same calls, same verdict *)
  Lemma same_params_same_verdict : forall rq1 rq2 cf pv cr1 pts1 body1 cr2 pts2 body2 ap,
    from_request_parts H rq1 cf = Ok (cr1, pts1, body1) ->
    from_request_parts H rq2 cf = Ok (cr2, pts2, body2) ->
    get_auth_parameters cr1 (cf_reqs cf) = Ok ap ->
    get_auth_parameters cr2 (cf_reqs cf) = Ok ap ->
    canonical_request cr1 (ap_signed ap) = canonical_request cr2 (ap_signed ap) ->
    fst (validate H rq1 cf pv) = fst (validate H rq2 cf pv)
    /\ same_verdict (snd (validate H rq1 cf pv)) (snd (validate H rq2 cf pv)).
  Proof.
    intros rq1 rq2 cf pv cr1 pts1 body1 cr2 pts2 body2 ap HF1 HF2 HG1 HG2 HC.
    destruct (parse_iso8601 (ap_timestamp ap)) as [ts|] eqn:HT.
    - apply (same_authenticator_same_verdict rq1 rq2 cf pv cr1 pts1 body1 cr2 pts2 body2
               (AuthProofs.authenticator_of H cr1 ap ts) HF1 HF2).
      + rewrite AuthProofs.get_authenticator_eq, HG1. cbn [bind].
        unfold AuthProofs.authenticator_from_params. rewrite HT. reflexivity.
      + rewrite AuthProofs.get_authenticator_eq, HG2. cbn [bind].
        unfold AuthProofs.authenticator_from_params. rewrite HT.
        unfold AuthProofs.authenticator_of. rewrite HC. reflexivity.
    - rewrite (C13_bad_date H _ _ pv _ _ _ _ HF1 HG1 HT), (C13_bad_date H _ _ pv _ _ _ _ HF2 HG2 HT).
      split; reflexivity.
  Qed.

  (* C02 (b): two spellings of one logical request that present the same authentication
     parameters get the same provider calls and the same verdict *)
  Theorem C02_spelling_insensitive : forall rq1 rq2 cf pv ap,
    same_logical rq1 rq2 -> cf_fold cf = false ->
    presented_params H rq1 cf = Some ap -> presented_params H rq2 cf = Some ap ->
    fst (validate H rq1 cf pv) = fst (validate H rq2 cf pv)
    /\ same_verdict (snd (validate H rq1 cf pv)) (snd (validate H rq2 cf pv)).
  Proof.
    intros rq1 rq2 cf pv ap HL HFo HP1 HP2.
    destruct (presented_params_inv H _ _ _ HP1) as (cr1 & pts1 & body1 & HF1 & _ & _ & HG1 & _).
    destruct (presented_params_inv H _ _ _ HP2) as (cr2 & pts2 & body2 & HF2 & _ & _ & HG2 & _).
    apply (same_params_same_verdict rq1 rq2 cf pv cr1 pts1 body1 cr2 pts2 body2 ap); try assumption.
    apply (spelling_model_creq rq1 rq2 cf cr1 pts1 body1 cr2 pts2 body2); assumption.
  Qed.

  Lemma same_verdict_accept : forall (r1 r2 : list gsk_request * outcome) calls p b pr se,
    fst r1 = fst r2 -> same_verdict (snd r1) (snd r2) ->
    r1 = (calls, Accepted p b pr se) -> exists p' b', r2 = (calls, Accepted p' b' pr se).
  Proof.
    intros [c1 o1] [c2 o2] calls p b pr se EC SV E. cbn [fst snd] in *. injection E as -> ->. subst c2.
    destruct o2 as [p' b' pr' se'| |]; cbn in SV; try contradiction. destruct SV as [<- <-].
    exists p', b'. reflexivity.
  Qed.

  Lemma same_verdict_sym o1 o2 : same_verdict o1 o2 -> same_verdict o2 o1.
  Proof.
    destruct o1, o2; cbn; try tauto; try congruence. intros [-> ->]. split; reflexivity.
  Qed.

  (* one is accepted iff the other is, with the same provider call and the same identity *)
  Corollary C02_spelling_insensitive_accept : forall rq1 rq2 cf pv ap calls pr se,
    same_logical rq1 rq2 -> cf_fold cf = false ->
    presented_params H rq1 cf = Some ap -> presented_params H rq2 cf = Some ap ->
    ((exists p b, validate H rq1 cf pv = (calls, Accepted p b pr se)) <->
     (exists p b, validate H rq2 cf pv = (calls, Accepted p b pr se))).
  Proof.
    intros rq1 rq2 cf pv ap calls pr se HL HFo HP1 HP2.
    destruct (C02_spelling_insensitive rq1 rq2 cf pv ap HL HFo HP1 HP2) as [EC SV].
    split; intros (p & b & HV).
    - apply (same_verdict_accept _ _ _ _ _ _ _ EC SV HV).
    - symmetry in EC. apply same_verdict_sym in SV. apply (same_verdict_accept _ _ _ _ _ _ _ EC SV HV).
  Qed.
End C02B.

(* ========================================================================================== *)
(* 5. What the parameter extraction and the requirement check read                            *)
(* ========================================================================================== *)

(* the header names the extraction of authentication parameters consults *)
Definition consulted_names : list bytes :=
  [s2b "authorization"; s2b "x-amz-date"; s2b "date"; s2b "x-amz-security-token"].

Lemma params_depend cr1 cr2 :
  (forall n, In n consulted_names -> hget n (cr_headers cr1) = hget n (cr_headers cr2)) ->
  has_alg cr1 = has_alg cr2 ->
  (has_auth cr1 = false -> cr_query cr1 = cr_query cr2) ->
  params_failure cr1 = params_failure cr2 /\ sel_params cr1 = sel_params cr2.
Proof.
  intros HH HAlg HQ.
  assert (EA : auth_values cr1 = auth_values cr2) by (apply HH; left; reflexivity).
  assert (ED : hdr_date cr1 = hdr_date cr2).
  { unfold hdr_date.
    rewrite (HH src_canonical_X_AMZ_DATE_LOWER) by (right; left; reflexivity).
    rewrite (HH src_canonical_DATE) by (right; right; left; reflexivity). reflexivity. }
  assert (ET : hdr_token cr1 = hdr_token cr2).
  { unfold hdr_token. rewrite (HH src_canonical_X_AMZ_SECURITY_TOKEN_LOWER) by (do 3 right; left; reflexivity).
    reflexivity. }
  assert (EHA : has_auth cr1 = has_auth cr2) by (unfold has_auth; rewrite EA; reflexivity).
  assert (EAV : auth_value cr1 = auth_value cr2) by (unfold auth_value; rewrite EA; reflexivity).
  assert (EM : forall a, hdr_missing cr1 a = hdr_missing cr2 a) by (intro a; unfold hdr_missing; rewrite ED; reflexivity).
  assert (ES : forall a, sel_header cr1 a = sel_header cr2 a) by (intro a; unfold sel_header; rewrite ED, ET; reflexivity).
  unfold params_failure, sel_params. rewrite <- HAlg, EAV, EM, ES.
  destruct (has_auth cr1) eqn:A1; rewrite <- EHA.
  - destruct (has_alg cr1); cbn [negb andb]; split; reflexivity.
  - specialize (HQ eq_refl).
    assert (EAL : alg_value cr1 = alg_value cr2) by (unfold alg_value, alg_values; rewrite HQ; reflexivity).
    assert (EQM : qry_missing cr1 = qry_missing cr2) by (unfold qry_missing, qfirst; rewrite HQ; reflexivity).
    assert (ESQ : sel_query cr1 = sel_query cr2) by (unfold sel_query, qfirst; rewrite HQ; reflexivity).
    rewrite EAL, EQM, ESQ. split; reflexivity.
Qed.

(* the requirement check reads the header list only through the presence of the if-in-request
   names and of the names matching a declared prefix *)
Lemma requirements_met_presence rs hs1 hs2 signed :
  (forall c, In c (if_in_request rs) -> (present (lower c) hs1 <-> present (lower c) hs2)) ->
  (forall p n, In p (prefixes rs) -> starts_with (lower p) n = true -> (present n hs1 <-> present n hs2)) ->
  (requirements_met rs hs1 signed <-> requirements_met rs hs2 signed).
Proof.
  intros HC HP. unfold requirements_met.
  split; intros (A & B & C); (split; [exact A|]); split.
  - intros c HI P. apply B; [exact HI|]. apply HC; assumption.
  - intros p n HI P S. apply (C p n HI); [|exact S]. apply (HP p n HI S). exact P.
  - intros c HI P. apply B; [exact HI|]. apply HC; assumption.
  - intros p n HI P S. apply (C p n HI); [|exact S]. apply (HP p n HI S). exact P.
Qed.

Lemma reqs_ok_presence rs hs1 hs2 signed :
  (forall c, In c (if_in_request rs) -> (present (lower c) hs1 <-> present (lower c) hs2)) ->
  (forall p n, In p (prefixes rs) -> starts_with (lower p) n = true -> (present n hs1 <-> present n hs2)) ->
  reqs_ok rs (normalize_headers hs1) signed = reqs_ok rs (normalize_headers hs2) signed.
Proof.
  intros HC HP. apply bool_ext. rewrite !C05_reqs_ok_raw. apply requirements_met_presence; assumption.
Qed.

(* the stages after from_request_parts, in one equation *)
Lemma validate_after_params (H : bytes -> bytes) : forall rq cf pv cr pts body,
  from_request_parts H rq cf = Ok (cr, pts, body) ->
  validate H rq cf pv =
  match get_auth_parameters cr (cf_reqs cf) with
  | Err k => ([], Refused k)
  | Panic s => ([], Panicked s)
  | Ok ap =>
      match parse_iso8601 (ap_timestamp ap) with
      | None => ([], Refused IncompleteSignature)
      | Some ts =>
          (fst (validate_signature H (AuthProofs.authenticator_of H cr ap ts) cf pv),
           AuthProofs.lift_outcome pts body (snd (validate_signature H (AuthProofs.authenticator_of H cr ap ts) cf pv)))
      end
  end.
Proof.
  intros rq cf pv cr pts body HF. unfold validate. rewrite HF.
  rewrite AuthProofs.get_authenticator_eq.
  destruct (get_auth_parameters cr (cf_reqs cf)) as [ap| |]; cbn [bind]; try reflexivity.
  unfold AuthProofs.authenticator_from_params.
  destruct (parse_iso8601 (ap_timestamp ap)) as [ts|]; [|reflexivity].
  destruct (validate_signature H _ cf pv) as [calls r]. cbn [fst snd].
  destruct r as [[pr se]| |]; reflexivity.
Qed.

(* presence of a query parameter name is invariant under permutation of the decoded pairs *)
Lemma is_some_qget_perm q1 q2 m1 m2 k :
  query_map q1 = Some m1 -> query_map q2 = Some m2 -> same_pairs q1 q2 ->
  is_some (qget k m1) = is_some (qget k m2).
Proof.
  intros HM1 HM2 HS.
  destruct (query_map_vals _ _ HM1) as (d1 & HD1 & _ & HV1).
  destruct (query_map_vals _ _ HM2) as (d2 & HD2 & _ & HV2).
  unfold same_pairs in HS. rewrite HD1, HD2 in HS.
  assert (G : forall q m, query_map q = Some m -> (is_some (qget k m) = true <-> vals k m <> [])).
  { intros q m HM. pose proof (query_map_good _ _ HM) as HG. unfold vals, is_some.
    destruct (qget k m) as [vs|] eqn:E; cbn.
    - destruct (qget_good _ _ _ HG E) as [NE _]. split; intro; [exact NE | reflexivity].
    - split; [discriminate | intro X; contradiction X; reflexivity]. }
  apply bool_ext. rewrite (G _ _ HM1), (G _ _ HM2), HV1, HV2.
  assert (P : Permutation (values_in k (map q_enc d1)) (values_in k (map q_enc d2))).
  { unfold values_in. apply Permutation_map. apply q_filter_perm. apply Permutation_map. exact HS. }
  split; intros NE E; apply NE.
  - rewrite E in P. apply Permutation_sym in P. apply Permutation_nil in P. exact P.
  - rewrite E in P. apply Permutation_nil in P. exact P.
Qed.

Section C02B2.
  Variable H : bytes -> bytes.

  (* on the header carrier, two spellings of one logical request pass or fail the request stage
     alike and get the same result from the parameter extraction: it reads Trimall-normalised
     header values only, and of the query only whether an X-Amz-Algorithm parameter exists *)
  Lemma header_carrier_stages : forall rq1 rq2 cf,
    same_logical rq1 rq2 -> cf_fold cf = false ->
    present (s2b "authorization") (rq_headers rq1) ->
    request_failure rq1 cf = request_failure rq2 cf
    /\ (request_failure rq2 cf = None ->
        get_auth_parameters (st_canonical H rq1 cf) (cf_reqs cf)
        = get_auth_parameters (st_canonical H rq2 cf) (cf_reqs cf)).
  Proof.
    intros rq1 rq2 cf HL HFo HAu. pose proof HL as [HM P1 P2 HPa HQ HHe HB HD].
    assert (EPath : st_path rq1 cf = st_path rq2 cf)
      by (unfold st_path; apply canon_path_same_path; assumption).
    assert (ENone : is_none (st_url_qm rq1) = is_none (st_url_qm rq2)).
    { unfold st_url_qm. change (PipelineProofs.url_query rq1) with (url_query rq1).
      change (PipelineProofs.url_query rq2) with (url_query rq2).
      apply bool_ext. rewrite !is_none_true, !C10_error_iff.
      unfold same_pairs in HQ.
      destruct (decoded_pairs (url_query rq1)), (decoded_pairs (url_query rq2)); try contradiction;
        split; intro; congruence. }
    assert (ERF : request_failure rq1 cf = request_failure rq2 cf).
    { unfold request_failure. rewrite !spec_folded_off by exact HFo. cbn [andb].
      rewrite EPath, ENone. reflexivity. }
    split; [exact ERF|]. intro ER2.
    assert (ER1 : request_failure rq1 cf = None) by congruence.
    rewrite !get_auth_parameters_eq by (apply request_ok_good; assumption).
    set (cr1 := st_canonical H rq1 cf). set (cr2 := st_canonical H rq2 cf).
    assert (EH : forall n, hget n (cr_headers cr1) = hget n (cr_headers cr2))
      by (intro n; apply hget_agree; apply HHe).
    assert (A1 : has_auth cr1 = true).
    { unfold has_auth, auth_values, is_some. cbn [cr1 st_canonical cr_headers].
      apply hget_present in HAu. change (s2b "authorization") with src_canonical_AUTHORIZATION in HAu.
      destruct (hget src_canonical_AUTHORIZATION (normalize_headers (rq_headers rq1))); [reflexivity|congruence]. }
    assert (EAlg : has_alg cr1 = has_alg cr2).
    { unfold has_alg, alg_values. cbn [cr1 cr2 st_canonical cr_query]. unfold st_qm.
      rewrite !spec_folded_off by exact HFo.
      unfold request_failure in ER1, ER2.
      destruct (is_none (st_path rq1 cf)); [discriminate|]. destruct (is_none (st_path rq2 cf)); [discriminate|].
      destruct (st_url_qm rq1) as [m1|] eqn:E1; [|discriminate]. destruct (st_url_qm rq2) as [m2|] eqn:E2; [|discriminate].
      cbn [odflt]. apply (is_some_qget_perm (url_query rq1) (url_query rq2)); assumption. }
    destruct (params_depend cr1 cr2) as [EPF ESP]; [intros n _; apply EH | exact EAlg | congruence |].
    rewrite EPF, ESP.
    destruct (params_failure cr2); [reflexivity|].
    destruct (negb (host_signed (ap_signed (sel_params cr2)))); [reflexivity|].
    assert (ER : reqs_ok (cf_reqs cf) (cr_headers cr1) (ap_signed (sel_params cr2))
                 = reqs_ok (cf_reqs cf) (cr_headers cr2) (ap_signed (sel_params cr2))).
    { cbn [cr1 cr2 st_canonical cr_headers]. apply reqs_ok_presence.
      - intros c _. apply agree_on_present. apply HHe.
      - intros p n _ _. apply agree_on_present. apply HHe. }
    rewrite ER. reflexivity.
  Qed.

  (* sufficient condition for the hypothesis of C02_spelling_insensitive: on the header carrier the
     presented parameters always coincide *)
  Theorem C02_presented_params_header_carrier : forall rq1 rq2 cf,
    same_logical rq1 rq2 -> cf_fold cf = false ->
    present (s2b "authorization") (rq_headers rq1) ->
    presented_params H rq1 cf = presented_params H rq2 cf.
  Proof.
    intros rq1 rq2 cf HL HFo HAu.
    destruct (header_carrier_stages rq1 rq2 cf HL HFo HAu) as [ERF EG].
    unfold presented_params. rewrite !from_request_parts_eq, ERF.
    destruct (request_failure rq2 cf) as [k|]; [reflexivity|]. rewrite (EG eq_refl). reflexivity.
  Qed.

  (* C02 (b) on the header carrier, unconditionally: same provider calls and same verdict,
     refusals (and their kinds) included *)
  Theorem C02_spelling_insensitive_header_carrier : forall rq1 rq2 cf pv,
    same_logical rq1 rq2 -> cf_fold cf = false ->
    present (s2b "authorization") (rq_headers rq1) ->
    fst (validate H rq1 cf pv) = fst (validate H rq2 cf pv)
    /\ same_verdict (snd (validate H rq1 cf pv)) (snd (validate H rq2 cf pv)).
  Proof.
    intros rq1 rq2 cf pv HL HFo HAu.
    destruct (header_carrier_stages rq1 rq2 cf HL HFo HAu) as [ERF EG].
    destruct (request_failure rq2 cf) as [k|] eqn:ER2.
    - rewrite (validate_request_failure H rq1 cf pv k ERF), (validate_request_failure H rq2 cf pv k ER2).
      split; reflexivity.
    - specialize (EG eq_refl).
      pose proof (from_request_parts_eq H rq1 cf) as HF1. pose proof (from_request_parts_eq H rq2 cf) as HF2.
      rewrite ERF in HF1. rewrite ER2 in HF2.
      rewrite (validate_after_params H _ _ pv _ _ _ HF1), (validate_after_params H _ _ pv _ _ _ HF2), EG.
      destruct (get_auth_parameters (st_canonical H rq2 cf) (cf_reqs cf)) as [ap| |]; try (split; reflexivity).
      destruct (parse_iso8601 (ap_timestamp ap)) as [ts|]; [|split; reflexivity].
      assert (EC : canonical_request (st_canonical H rq1 cf) (ap_signed ap)
                   = canonical_request (st_canonical H rq2 cf) (ap_signed ap))
        by (apply (spelling_model_creq H rq1 rq2 cf _ _ _ _ _ _ _ HL HFo HF1 HF2)).
      unfold AuthProofs.authenticator_of. rewrite EC. cbn [fst snd]. split; [reflexivity|].
      apply lift_outcome_same_verdict.
  Qed.
End C02B2.

(* ========================================================================================== *)
(* 6. C11: headers that are neither signed, consulted nor required have no influence          *)
(* ========================================================================================== *)

Section C11.
  Variable H : bytes -> bytes.

  (* what the request stage reads of the header list: the content type, and only when folding *)
  Lemma request_level_headers rq hs1 hs2 cf :
    (cf_fold cf = true -> content_type_charset hs1 = content_type_charset hs2) ->
    request_failure (with_headers rq hs1) cf = request_failure (with_headers rq hs2) cf
    /\ st_qm (with_headers rq hs1) cf = st_qm (with_headers rq hs2) cf
    /\ st_path (with_headers rq hs1) cf = st_path (with_headers rq hs2) cf
    /\ spec_payload (with_headers rq hs1) cf = spec_payload (with_headers rq hs2) cf
    /\ pt_uri (st_parts (with_headers rq hs1) cf) = pt_uri (st_parts (with_headers rq hs2) cf).
  Proof.
    intro HCt.
    unfold request_failure, st_parts, st_folded_uri, uri_too_long, st_folded_uri, st_qm, st_body_qm, st_url_qm,
      st_path, spec_payload, spec_folded, spec_decoded_body, PipelineProofs.url_query.
    cbn [with_headers rq_headers rq_body rq_path rq_query rq_decoded rq_uri pt_uri].
    destruct (cf_fold cf) eqn:EF.
    - rewrite (HCt eq_refl). repeat split; reflexivity.
    - cbn [andb]. repeat split; reflexivity.
  Qed.

  Theorem C11_unsigned_no_influence : forall rq hs1 hs2 cf pv,
    let rq1 := with_headers rq hs1 in
    let rq2 := with_headers rq hs2 in
    let signed := ap_signed (sel_params (st_canonical H rq1 cf)) in
    (* (i) signed headers *)
    (forall n, In n signed -> agree_on n hs1 hs2) ->
    (* (ii) consulted headers; the content type only when form folding is enabled *)
    (forall n, In n consulted_names -> agree_on n hs1 hs2) ->
    (cf_fold cf = true -> content_type_charset hs1 = content_type_charset hs2) ->
    (* (iii) names required if in the request: only their presence matters *)
    (forall c, In c (if_in_request (cf_reqs cf)) -> (present (lower c) hs1 <-> present (lower c) hs2)) ->
    (* (iv) the set of names matching a declared prefix *)
    (forall p n, In p (prefixes (cf_reqs cf)) -> starts_with (lower p) n = true ->
                 (present n hs1 <-> present n hs2)) ->
    fst (validate H rq1 cf pv) = fst (validate H rq2 cf pv)
    /\ outcome_modulo_headers hs1 hs2 (snd (validate H rq1 cf pv)) (snd (validate H rq2 cf pv)).
  Proof.
    intros rq hs1 hs2 cf pv rq1 rq2 signed HSi HCo HCt HIf HPr.
    destruct (request_level_headers rq hs1 hs2 cf HCt) as (ERF & EQM & EPA & EPL & EURI).
    fold rq1 in ERF, EQM, EPA, EPL, EURI. fold rq2 in ERF, EQM, EPA, EPL, EURI.
    pose proof (from_request_parts_eq H rq1 cf) as HF1. pose proof (from_request_parts_eq H rq2 cf) as HF2.
    rewrite ERF in HF1.
    destruct (request_failure rq2 cf) as [k|] eqn:ER2.
    { unfold validate. rewrite HF1, HF2. split; reflexivity. }
    assert (ER1 : request_failure rq1 cf = None) by congruence.
    rewrite (validate_after_params H _ _ pv _ _ _ HF1), (validate_after_params H _ _ pv _ _ _ HF2).
    set (cr1 := st_canonical H rq1 cf) in *. set (cr2 := st_canonical H rq2 cf) in *.
    assert (EQ : cr_query cr1 = cr_query cr2) by exact EQM.
    destruct (params_depend cr1 cr2) as [EPF ESP].
    { intros n HI. apply hget_agree. apply HCo. exact HI. }
    { unfold has_alg, alg_values. rewrite EQ. reflexivity. }
    { intros _. exact EQ. }
    rewrite !get_auth_parameters_eq by (apply request_ok_good; assumption).
    rewrite <- EPF, <- ESP.
    destruct (params_failure cr1); [split; reflexivity|].
    destruct (negb (host_signed (ap_signed (sel_params cr1)))); [split; reflexivity|].
    assert (ER : reqs_ok (cf_reqs cf) (cr_headers cr2) (ap_signed (sel_params cr1))
                 = reqs_ok (cf_reqs cf) (cr_headers cr1) (ap_signed (sel_params cr1))).
    { symmetry. apply reqs_ok_presence; assumption. }
    rewrite ER.
    destruct (negb (reqs_ok (cf_reqs cf) (cr_headers cr1) (ap_signed (sel_params cr1)))); [split; reflexivity|].
    destruct (parse_iso8601 (ap_timestamp (sel_params cr1))) as [ts|]; [|split; reflexivity].
    assert (EC : canonical_request cr1 signed = canonical_request cr2 signed).
    { unfold canonical_request. cbn [cr1 cr2 st_canonical cr_method cr_path cr_query cr_headers cr_body_sha256].
      rewrite !C11_block_is_spec, EQM, EPA, EPL.
      change (rq_headers rq1) with hs1. change (rq_headers rq2) with hs2.
      rewrite (C11_block_trimall hs1 hs2 signed HSi). reflexivity. }
    assert (EAu : AuthProofs.authenticator_of H cr1 (sel_params cr1) ts
                  = AuthProofs.authenticator_of H cr2 (sel_params cr1) ts).
    { unfold AuthProofs.authenticator_of. fold signed. rewrite EC. reflexivity. }
    rewrite <- EAu. cbn [fst snd]. split; [reflexivity|].
    destruct (snd (validate_signature H _ cf pv)) as [[pr se]| |];
      cbn [AuthProofs.lift_outcome outcome_modulo_headers]; [|reflexivity|reflexivity].
    rewrite EPL, EURI. repeat split; reflexivity.
  Qed.
End C11.

(* ---- signed headers are covered injectively ---- *)

Definition header_line (hs : list (bytes * bytes)) (n : bytes) : bytes :=
  match values_of n hs with
  | [] => []
  | vs => n ++ ":"%byte :: join [","%byte] (map spec_trimall vs) ++ [x0a]
  end.

Lemma spec_header_block_lines hs signed : spec_header_block hs signed = flat_map (header_line hs) signed.
Proof. reflexivity. Qed.

(* header names contain neither ':' nor a newline (guaranteed by `http`) *)
Definition name_ok (n : bytes) : Prop := ~ In ":"%byte n /\ ~ In x0a n.
(* the comma corner of SigV4 (one value "a,b" versus two values "a" and "b") is excluded;
   header values contain no newline (guaranteed by `http`) *)
Definition values_ok (hs : list (bytes * bytes)) (n : bytes) : Prop :=
  Forall (fun v => ~ In ","%byte (spec_trimall v) /\ ~ In x0a (spec_trimall v)) (values_of n hs).

Lemma name_colon_inj : forall n m a b,
  ~ In ":"%byte n -> ~ In ":"%byte m -> n ++ ":"%byte :: a = m ++ ":"%byte :: b -> n = m /\ a = b.
Proof.
  induction n as [|c n IH]; intros [|d m] a b Hn Hm E; cbn [app] in E.
  - injection E as <-. split; reflexivity.
  - injection E as <- _. exfalso. apply Hm. left. reflexivity.
  - injection E as -> _. exfalso. apply Hn. left. reflexivity.
  - injection E as <- E. destruct (IH m a b) as [-> ->]; [| |exact E|split; reflexivity].
    + intro X. apply Hn. right. exact X.
    + intro X. apply Hm. right. exact X.
Qed.

Lemma spec_header_block_cons hs n rest :
  spec_header_block hs (n :: rest) = header_line hs n ++ spec_header_block hs rest.
Proof. reflexivity. Qed.

Lemma block_head hs signed :
  spec_header_block hs signed = []
  \/ exists m tail, In m signed /\ spec_header_block hs signed = m ++ ":"%byte :: tail.
Proof.
  induction signed as [|n rest IH]; [left; reflexivity|].
  rewrite spec_header_block_cons.
  unfold header_line. destruct (values_of n hs) as [|v vs].
  - cbn [app]. destruct IH as [E|(m & tail & HI & E)]; [left; exact E|].
    right. exists m, tail. split; [right; exact HI|exact E].
  - right. exists n. eexists. split; [left; reflexivity|].
    rewrite <- app_assoc. cbn [app]. reflexivity.
Qed.

Lemma join_comma_inj l l' :
  l <> [] -> l' <> [] ->
  Forall (fun s => ~ In ","%byte s) l -> Forall (fun s => ~ In ","%byte s) l' ->
  join [","%byte] l = join [","%byte] l' -> l = l'.
Proof.
  intros N N' F F' E.
  rewrite <- (split_join_gen ","%byte l N F), <- (split_join_gen ","%byte l' N' F'), E. reflexivity.
Qed.

Theorem C11_signed_injective : forall signed hs hs',
  NoDup signed -> Forall name_ok signed ->
  (forall n, In n signed -> values_ok hs n /\ values_ok hs' n) ->
  spec_header_block hs signed = spec_header_block hs' signed ->
  forall n, In n signed -> agree_on n hs hs'.
Proof.
  induction signed as [|n0 rest IH]; intros hs hs' ND NO VO E n HI; [contradiction|].
  inversion ND as [|? ? NI ND']; subst. inversion NO as [|? ? [NC NN] NO']; subst.
  rewrite !spec_header_block_cons in E.
  assert (VO' : forall n, In n rest -> values_ok hs n /\ values_ok hs' n)
    by (intros m Hm; apply VO; right; exact Hm).
  destruct (VO n0 (or_introl eq_refl)) as [V1 V2].
  assert (absent_present : forall h1 h2, values_of n0 h1 = [] -> values_of n0 h2 <> [] ->
            spec_header_block h1 rest <> header_line h2 n0 ++ spec_header_block h2 rest).
  { intros h1 h2 E1 N2 X. unfold header_line in X.
    destruct (values_of n0 h2) as [|v vs]; [contradiction|].
    rewrite <- app_assoc in X. cbn [app] in X.
    destruct (block_head h1 rest) as [E0|(m & tail & Hm & E0)]; rewrite E0 in X.
    - destruct n0; discriminate X.
    - apply name_colon_inj in X; [| |exact NC].
      + destruct X as [<- _]. contradiction.
      + rewrite Forall_forall in NO'. apply (NO' m Hm). }
  unfold header_line in E. unfold agree_on.
  destruct (values_of n0 hs) as [|v1 l1] eqn:E1, (values_of n0 hs') as [|v2 l2] eqn:E2.
  - cbn [app] in E. destruct HI as [<-|HI]; [rewrite E1, E2; reflexivity|].
    apply (IH hs hs' ND' NO' VO' E n HI).
  - exfalso. cbn [app] in E. apply (absent_present hs hs' E1); [rewrite E2; discriminate|].
    unfold header_line. rewrite E2. exact E.
  - exfalso. cbn [app] in E. symmetry in E. apply (absent_present hs' hs E2); [rewrite E1; discriminate|].
    unfold header_line. rewrite E1. exact E.
  - unfold values_ok in V1, V2. rewrite E1 in V1. rewrite E2 in V2.
    assert (NL : forall l, Forall (fun v => ~ In ","%byte (spec_trimall v) /\ ~ In x0a (spec_trimall v)) l ->
                 no_nl (join [","%byte] (map spec_trimall l))).
    { intros l F. apply no_nl_join.
      - intros [X|[]]. discriminate X.
      - rewrite Forall_map. eapply Forall_impl; [|exact F]. intros a [_ X]. exact X. }
    assert (NCm : forall l, Forall (fun v => ~ In ","%byte (spec_trimall v) /\ ~ In x0a (spec_trimall v)) l ->
                 Forall (fun s => ~ In ","%byte s) (map spec_trimall l)).
    { intros l F. rewrite Forall_map. eapply Forall_impl; [|exact F]. intros a [X _]. exact X. }
    specialize (NL _ V1) as NL1. specialize (NL _ V2) as NL2.
    specialize (NCm _ V1) as NC1. specialize (NCm _ V2) as NC2.
    assert (NE1 : map spec_trimall (v1 :: l1) <> []) by (cbn [map]; discriminate).
    assert (NE2 : map spec_trimall (v2 :: l2) <> []) by (cbn [map]; discriminate).
    remember (map spec_trimall (v1 :: l1)) as M1. remember (map spec_trimall (v2 :: l2)) as M2.
    remember (join [","%byte] M1) as J1. remember (join [","%byte] M2) as J2.
    rewrite <- !app_assoc in E. apply app_inv_head in E.
    change ((":"%byte :: J1 ++ [x0a]) ++ spec_header_block hs rest)
      with (":"%byte :: (J1 ++ [x0a]) ++ spec_header_block hs rest) in E.
    change ((":"%byte :: J2 ++ [x0a]) ++ spec_header_block hs' rest)
      with (":"%byte :: (J2 ++ [x0a]) ++ spec_header_block hs' rest) in E.
    injection E as E. rewrite <- !app_assoc in E.
    apply (split_at_nl_left _ _ _ _ NL1 NL2) in E. destruct E as [EJ EB].
    destruct HI as [<-|HI].
    + rewrite E1, E2, <- HeqM1, <- HeqM2. subst J1 J2. apply join_comma_inj; assumption.
    + apply (IH hs hs' ND' NO' VO' EB n HI).
Qed.

(* contrapositive: a change in a signed header's normalised value list changes the block, and
   with it the canonical request *)
Corollary C11_signed_value_change : forall (H : bytes -> bytes) signed hs hs' n m p q pl,
  NoDup signed -> Forall name_ok signed ->
  (forall n, In n signed -> values_ok hs n /\ values_ok hs' n) ->
  In n signed -> ~ agree_on n hs hs' ->
  spec_header_block hs signed <> spec_header_block hs' signed
  /\ spec_canonical_request H m p q hs signed pl <> spec_canonical_request H m p q hs' signed pl.
Proof.
  intros H signed hs hs' n m p q pl ND NO VO HI NA.
  assert (NB : spec_header_block hs signed <> spec_header_block hs' signed).
  { intro E. apply NA. apply (C11_signed_injective signed hs hs' ND NO VO E n HI). }
  split; [exact NB|]. intro E. apply NB. unfold spec_canonical_request in E.
  repeat (apply app_inv_head in E). apply app_inv_tail in E. exact E.
Qed.

(* a signed header change cannot stay accepted, short of a collision: if both requests are
   accepted under the same presented parameters, two *different* canonical requests have equal
   HMACs of their strings-to-sign under one key *)
Section C11R.
  Variable H : bytes -> bytes.

  Theorem C11_signed_value_change_refused : forall rq hs1 hs2 cf pv ap n,
    let rq1 := with_headers rq hs1 in
    let rq2 := with_headers rq hs2 in
    has_plus (rq_path rq) = false ->
    presented_params H rq1 cf = Some ap -> presented_params H rq2 cf = Some ap ->
    NoDup (ap_signed ap) -> Forall name_ok (ap_signed ap) ->
    (forall m, In m (ap_signed ap) -> values_ok hs1 m /\ values_ok hs2 m) ->
    In n (ap_signed ap) -> ~ agree_on n hs1 hs2 ->
    (exists calls p b pr se, validate H rq1 cf pv = (calls, Accepted p b pr se)) ->
    (exists k, snd (validate H rq2 cf pv) = Refused k)
    \/ (exists key t scope creq1 creq2,
          creq1 <> creq2 /\
          hmac H key (spec_string_to_sign H t scope creq1) = hmac H key (spec_string_to_sign H t scope creq2)).
  Proof.
    intros rq hs1 hs2 cf pv ap n rq1 rq2 HPl HP1 HP2 ND NO VO HI NA (calls & p & b & pr & se & HV1).
    destruct (C08_validate_total H rq2 cf pv) as [(k & HK)|(p2 & b2 & pr2 & se2 & HV2)]; [left; exists k; exact HK|].
    right.
    destruct (validate H rq2 cf pv) as [calls2 o2] eqn:HV2'. cbn [snd] in HV2. subst o2.
    destruct (C01_accept_implies_signature H _ _ _ _ _ _ _ _ HV1 HPl)
      as (ap1 & ts1 & g1 & key1 & sts1 & _ & -> & _ & HA1 & HP1' & HT1 & HS1 & HSig1).
    destruct (C01_accept_implies_signature H _ _ _ _ _ _ _ _ HV2' HPl)
      as (ap2 & ts2 & g2 & key2 & sts2 & _ & -> & _ & HA2 & HP2' & HT2 & HS2 & HSig2).
    assert (ap1 = ap) as -> by congruence. assert (ap2 = ap) as -> by congruence.
    assert (ts2 = ts1) as -> by congruence.
    rewrite HA1 in HA2. injection HA2 as <- <- <-.
    assert (EH : hmac H key1 sts1 = hmac H key1 sts2) by (apply lower_hex_inj; congruence).
    unfold spec_request_sts in HS1, HS2.
    change (rq_path rq1) with (rq_path rq) in HS1. change (rq_path rq2) with (rq_path rq) in HS2.
    destruct (spec_path (cf_s3 cf) (rq_path rq)) as [path|]; [|discriminate].
    destruct (spec_all_pairs rq1 cf) as [pairs1|]; [|discriminate].
    destruct (spec_all_pairs rq2 cf) as [pairs2|]; [|discriminate].
    destruct (split_once "/"%byte (ap_credential ap)) as [[ak scope]|]; [|discriminate].
    injection HS1 as <-. injection HS2 as <-.
    exists key1, (render_compact ts1), scope. do 2 eexists. split; [|exact EH].
    intro E. unfold spec_canonical_request in E.
    change (rq_headers rq1) with hs1 in E. change (rq_headers rq2) with hs2 in E.
    change (rq_method rq1) with (rq_method rq) in E. change (rq_method rq2) with (rq_method rq) in E.
    apply app_inv_head in E. apply app_inv_head in E. apply app_inv_head in E. apply app_inv_head in E.
    assert (NQ : forall d, no_nl (spec_query_of_pairs d)) by apply spec_query_no_nl.
    apply (split_at_nl_left _ _ _ _ (NQ pairs1) (NQ pairs2)) in E. destruct E as [_ E].
    assert (R : forall B J h : bytes, B ++ [x0a] ++ J ++ [x0a] ++ h = (B ++ [x0a] ++ J) ++ [x0a] ++ h)
      by (intros; rewrite <- !app_assoc; reflexivity).
    rewrite !R in E.
    apply split_at_nl_right in E; [|apply lower_hex_no_nl|apply lower_hex_no_nl]. destruct E as [E _].
    assert (NJ : no_nl (join [";"%byte] (ap_signed ap))).
    { apply no_nl_join; [intros [X|[]]; discriminate X|].
      eapply Forall_impl; [|exact NO]. intros a [_ X]. exact X. }
    apply (split_at_nl_right _ _ _ _ NJ NJ) in E. destruct E as [E _].
    apply NA. apply (C11_signed_injective (ap_signed ap) hs1 hs2 ND NO VO E n HI).
  Qed.
End C11R.

(* ========================================================================================== *)
(* 7. C19: acceptance is decided by the selected parameters alone                             *)
(* ========================================================================================== *)

Section C19U.
  Variable H : bytes -> bytes.

  Theorem C19_unique_acceptance : forall rq1 rq2 cf pv cr1 pts1 body1 cr2 pts2 body2 ap1 ap2,
    from_request_parts H rq1 cf = Ok (cr1, pts1, body1) ->
    from_request_parts H rq2 cf = Ok (cr2, pts2, body2) ->
    carrier_params cr1 = Ok ap1 -> carrier_params cr2 = Ok ap2 ->
    (* the selected parameters coincide (whatever other duplicates the requests carry) *)
    sel_params cr1 = sel_params cr2 ->
    (* the canonical requests coincide *)
    canonical_request cr1 (ap_signed (sel_params cr1)) = canonical_request cr2 (ap_signed (sel_params cr1)) ->
    (* the configured requirements see the same header names (trivially so for [no_reqs]) *)
    reqs_ok (cf_reqs cf) (cr_headers cr1) (ap_signed (sel_params cr1))
      = reqs_ok (cf_reqs cf) (cr_headers cr2) (ap_signed (sel_params cr1)) ->
    ap1 = sel_params cr1 /\ ap2 = ap1
    /\ fst (validate H rq1 cf pv) = fst (validate H rq2 cf pv)
    /\ same_verdict (snd (validate H rq1 cf pv)) (snd (validate H rq2 cf pv)).
  Proof.
    intros rq1 rq2 cf pv cr1 pts1 body1 cr2 pts2 body2 ap1 ap2 HF1 HF2 HC1 HC2 ES EC ER.
    pose proof (C19_selection H _ _ _ _ _ _ HF1 HC1) as E1.
    pose proof (C19_selection H _ _ _ _ _ _ HF2 HC2) as E2.
    split; [exact E1|]. split; [congruence|].
    rewrite (validate_after_params H _ _ pv _ _ _ HF1), (validate_after_params H _ _ pv _ _ _ HF2).
    unfold get_auth_parameters. rewrite HC1, HC2. cbn [bind]. subst ap1 ap2. rewrite <- ES, <- ER.
    destruct (negb (host_signed (ap_signed (sel_params cr1)))); [split; reflexivity|].
    destruct (negb (reqs_ok (cf_reqs cf) (cr_headers cr1) (ap_signed (sel_params cr1)))); [split; reflexivity|].
    destruct (parse_iso8601 (ap_timestamp (sel_params cr1))) as [ts|]; [|split; reflexivity].
    assert (EAu : AuthProofs.authenticator_of H cr1 (sel_params cr1) ts
                  = AuthProofs.authenticator_of H cr2 (sel_params cr1) ts)
      by (unfold AuthProofs.authenticator_of; rewrite EC; reflexivity).
    rewrite <- EAu. cbn [fst snd]. split; [reflexivity|]. apply lift_outcome_same_verdict.
  Qed.
End C19U.

(* ========================================================================================== *)
(* 8. C02 (c): the reference signer's Authorization header is accepted                        *)
(* ========================================================================================== *)

(* the authentication parameters the reference signer commits to *)
Definition signer_params (cred : bytes) (signed : list bytes) : auth_params :=
  {| ap_credential := cred; ap_signature := []; ap_token := None; ap_signed := signed; ap_timestamp := [] |}.

(* the reference signer: hex(HMAC(key, specification string-to-sign)) *)
Definition spec_sign (H : bytes -> bytes) (key : bytes) (rq : request) (cf : config) (cred : bytes) (ts : Z)
           (signed : list bytes) : bytes :=
  match spec_request_sts H rq cf (signer_params cred signed) ts with
  | Some sts => lower_hex (hmac H key sts)
  | None => []
  end.

Definition authorization_value (cred : bytes) (signed : list bytes) (sig : bytes) : bytes :=
  s2b "AWS4-HMAC-SHA256 Credential=" ++ cred ++ s2b ", SignedHeaders=" ++ join [";"%byte] signed
  ++ s2b ", Signature=" ++ sig.

Definition attach_authorization (rq : request) (v : bytes) : request :=
  with_headers rq (rq_headers rq ++ [(s2b "Authorization", v)]).

(* bytes that pass through the Authorization header syntax unchanged: ASCII, no white space, no ',' *)
Definition token_char (c : byte) : bool :=
  N.ltb (b2n c) 128 && negb (is_ascii_whitespace c) && negb (beqb c ","%byte).
Definition plain (s : bytes) : Prop := forallb token_char s = true.

Lemma plain_app a b : plain a -> plain b -> plain (a ++ b).
Proof. unfold plain. intros A B. rewrite forallb_app, A, B. reflexivity. Qed.

Lemma plain_in s c : plain s -> In c s -> token_char c = true.
Proof. unfold plain. rewrite forallb_forall. auto. Qed.

Lemma plain_no_comma s : plain s -> ~ In ","%byte s.
Proof. intros P I. apply (plain_in _ _ P) in I. discriminate I. Qed.

Lemma plain_no_space s : plain s -> ~ In " "%byte s.
Proof. intros P I. apply (plain_in _ _ P) in I. discriminate I. Qed.

Lemma plain_nospace s : plain s -> nospace s = true.
Proof.
  unfold plain, nospace. intro P. rewrite forallb_forall in *. intros c I. specialize (P c I).
  unfold token_char in P. destruct c; try reflexivity; discriminate P.
Qed.

Lemma plain_not_ws s : plain s -> forallb (fun c => negb (is_ascii_whitespace c)) s = true.
Proof.
  unfold plain. intro P. rewrite forallb_forall in *. intros c I. specialize (P c I).
  unfold token_char in P. apply andb_true_iff in P. destruct P as [P _]. apply andb_true_iff in P. tauto.
Qed.

Lemma latin1_plain s : plain s -> latin1 s = s.
Proof.
  unfold plain, latin1. induction s as [|c s IH]; [reflexivity|]. cbn [forallb flat_map].
  rewrite andb_true_iff. intros [C P]. rewrite (IH P). unfold latin1_char.
  unfold token_char in C. apply andb_true_iff in C. destruct C as [C _]. apply andb_true_iff in C. destruct C as [C _].
  rewrite C. reflexivity.
Qed.

Lemma lower_hex_plain s : plain (lower_hex s).
Proof.
  unfold plain. apply forallb_forall. intros c I.
  pose proof (lower_hex_alphabet s) as A. rewrite Forall_forall in A. specialize (A c I).
  destruct A as [A|A]; destruct c; try discriminate A; reflexivity.
Qed.

(* trimming *)
Lemma trim_end_suffix f a b :
  b <> [] -> forallb (fun c => negb (f c)) b = true -> trim_end f (a ++ b) = a ++ b.
Proof.
  intros NE F. destruct (exists_last NE) as (b' & z & ->).
  rewrite forallb_app in F. apply andb_true_iff in F. destruct F as [_ F]. cbn in F.
  rewrite andb_true_r in F. apply negb_true_iff in F.
  unfold trim_end. rewrite app_assoc, rev_app_distr. cbn [rev app drop_while]. rewrite F.
  cbn [rev]. rewrite rev_involutive. reflexivity.
Qed.

Lemma trim_ascii_id s a b :
  match s with c :: _ => is_ascii_whitespace c = false | [] => True end ->
  s = a ++ b -> b <> [] ->
  forallb (fun c => negb (is_ascii_whitespace c)) b = true ->
  trim_ascii s = s.
Proof.
  intros C E NE F. destruct s as [|c r].
  - destruct a; [|discriminate E]. cbn in E. subst b. contradiction.
  - unfold trim_ascii, trim, trim_start. cbn [drop_while]. rewrite C.
    rewrite E. apply trim_end_suffix; assumption.
Qed.

Lemma trim_ascii_sp s : trim_ascii (" "%byte :: s) = trim_ascii s.
Proof. reflexivity. Qed.

Lemma sort_bytes_sorted l :
  Sorted (fun a b => bytes_leb a b = true) l -> sort_bytes l = l.
Proof.
  induction 1 as [|x l S IH R]; [reflexivity|].
  unfold sort_bytes in *. cbn [fold_right]. rewrite IH.
  destruct R as [|y l' R]; [reflexivity|]. cbn [insert_sorted]. rewrite R. reflexivity.
Qed.

Lemma plain_join_semi l : Forall plain l -> plain (join [";"%byte] l).
Proof.
  induction 1 as [|n l Hn Hl IH]; [reflexivity|].
  destruct l as [|m l]; [exact Hn|].
  change (join [";"%byte] (n :: m :: l)) with (n ++ [";"%byte] ++ join [";"%byte] (m :: l)).
  apply plain_app; [exact Hn|]. apply plain_app; [reflexivity|]. apply IH.
Qed.

Lemma map_latin1_plain l : Forall plain l -> map latin1 l = l.
Proof.
  induction 1 as [|n l Hn Hl IH]; [reflexivity|].
  cbn [map]. rewrite (latin1_plain n Hn), IH. reflexivity.
Qed.

Section AUTHV.
  Variables (cred : bytes) (signed : list bytes) (sig : bytes).
  Hypothesis Pc : plain cred.
  Hypothesis Ps : plain sig.
  Hypothesis Pn : Forall plain signed.
  Hypothesis Nsemi : Forall (fun n => ~ In ";"%byte n) signed.
  Hypothesis NEs : signed <> [].

  Let js := join [";"%byte] signed.
  Let a := authorization_value cred signed sig.
  Let p1 := s2b "Credential=" ++ cred.
  Let p2 := s2b " SignedHeaders=" ++ js.
  Let p3 := s2b " Signature=" ++ sig.

  Lemma plain_js : plain js.
  Proof. apply plain_join_semi. exact Pn. Qed.

  Lemma authv_shape : a = s2b "AWS4-HMAC-SHA256" ++ " "%byte :: (p1 ++ ","%byte :: p2 ++ ","%byte :: p3).
  Proof.
    unfold a, authorization_value, p1, p2, p3. fold js.
    change (s2b "AWS4-HMAC-SHA256 Credential=") with (s2b "AWS4-HMAC-SHA256" ++ " "%byte :: s2b "Credential=").
    change (s2b ", SignedHeaders=") with (","%byte :: s2b " SignedHeaders=").
    change (s2b ", Signature=") with (","%byte :: s2b " Signature=").
    repeat rewrite <- app_assoc. cbn [app]. repeat rewrite <- app_assoc. reflexivity.
  Qed.

  Lemma authv_words :
    a = join [" "%byte] [s2b "AWS4-HMAC-SHA256"; s2b "Credential=" ++ cred ++ [","%byte];
                         s2b "SignedHeaders=" ++ js ++ [","%byte]; s2b "Signature=" ++ sig].
  Proof.
    rewrite authv_shape. unfold p1, p2, p3. cbn [join].
    change (s2b " SignedHeaders=") with (" "%byte :: s2b "SignedHeaders=").
    change (s2b " Signature=") with (" "%byte :: s2b "Signature=").
    repeat rewrite <- app_assoc. cbn [app]. repeat rewrite <- app_assoc. reflexivity.
  Qed.

  Lemma good_lit_app l s t : l <> [] -> nospace l = true -> plain s -> nospace t = true -> good (l ++ s ++ t).
  Proof.
    intros NE NL P NT. split.
    - destruct l; [contradiction|discriminate].
    - unfold nospace in *. rewrite !forallb_app, NL, NT. fold (nospace s). rewrite (plain_nospace s P). reflexivity.
  Qed.

  Lemma authv_norm : norm_value a = a.
  Proof.
    rewrite C11_value_normal_form, spec_trimall_words, authv_words, words_join; [reflexivity|].
    repeat constructor; try discriminate; try reflexivity.
    - apply (good_lit_app (s2b "Credential=") cred [","%byte]); [discriminate|reflexivity|exact Pc|reflexivity].
    - apply (good_lit_app (s2b "SignedHeaders=") js [","%byte]); [discriminate|reflexivity|exact plain_js|reflexivity].
    - rewrite <- (app_nil_r sig).
      apply (good_lit_app (s2b "Signature=") sig []); [discriminate|reflexivity|exact Ps|reflexivity].
  Qed.

  Lemma not_in_lit_app (c : byte) l x : ~ In c l -> ~ In c x -> ~ In c (l ++ x).
  Proof. intros A B I. apply in_app_or in I. tauto. Qed.

  Lemma trim_ascii_lit l x :
    l <> [] -> forallb (fun c => negb (is_ascii_whitespace c)) l = true -> plain x ->
    trim_ascii (l ++ x) = l ++ x.
  Proof.
    intros NE F P. apply (trim_ascii_id (l ++ x) [] (l ++ x)).
    - destruct l as [|c l]; [contradiction|]. cbn in F. apply andb_true_iff in F. destruct F as [F _].
      apply negb_true_iff in F. exact F.
    - reflexivity.
    - destruct l; [contradiction|discriminate].
    - rewrite forallb_app, F, (plain_not_ws x P). reflexivity.
  Qed.

  Lemma authv_trim : trim_ascii a = a.
  Proof.
    rewrite authv_words. cbn [join].
    set (w4 := s2b "Signature=" ++ sig).
    rewrite !app_assoc.
    match goal with |- trim_ascii (?A ++ w4) = _ => apply (trim_ascii_id (A ++ w4) A w4) end.
    - reflexivity.
    - reflexivity.
    - discriminate.
    - unfold w4. rewrite forallb_app, (plain_not_ws sig Ps). reflexivity.
  Qed.

  Lemma authv_split : hdr_split a = (s2b "AWS4-HMAC-SHA256", p1 ++ ","%byte :: p2 ++ ","%byte :: p3).
  Proof.
    unfold hdr_split. rewrite authv_trim, authv_shape, split_once_app; [reflexivity|].
    intro I. repeat (destruct I as [I|I]; [discriminate I|]). exact I.
  Qed.

  Lemma lit_no (c : byte) (l : bytes) : existsb (beqb c) l = false -> ~ In c l.
  Proof.
    intros E I. assert (X : existsb (beqb c) l = true).
    { apply existsb_exists. exists c. split; [exact I|apply beqb_refl]. }
    congruence.
  Qed.

  Lemma authv_pieces : hdr_pieces a = [p1; p2; p3].
  Proof.
    unfold hdr_pieces. rewrite authv_split. cbn [snd].
    rewrite PathProofs.split_on_app_sep, PathProofs.split_on_app_sep, split_on_nosep; [reflexivity| | |].
    - apply not_in_lit_app; [apply lit_no; reflexivity|apply plain_no_comma; exact Ps].
    - apply not_in_lit_app; [apply lit_no; reflexivity|apply plain_no_comma; exact plain_js].
    - apply not_in_lit_app; [apply lit_no; reflexivity|apply plain_no_comma; exact Pc].
  Qed.

  Lemma trim_p1 : trim_ascii p1 = s2b "Credential" ++ "="%byte :: cred.
  Proof. unfold p1. rewrite trim_ascii_lit; [reflexivity|discriminate|reflexivity|exact Pc]. Qed.
  Lemma trim_p2 : trim_ascii p2 = s2b "SignedHeaders" ++ "="%byte :: js.
  Proof.
    unfold p2. change (s2b " SignedHeaders=" ++ js) with (" "%byte :: s2b "SignedHeaders=" ++ js).
    rewrite trim_ascii_sp, trim_ascii_lit; [reflexivity|discriminate|reflexivity|exact plain_js].
  Qed.
  Lemma trim_p3 : trim_ascii p3 = s2b "Signature" ++ "="%byte :: sig.
  Proof.
    unfold p3. change (s2b " Signature=" ++ sig) with (" "%byte :: s2b "Signature=" ++ sig).
    rewrite trim_ascii_sp, trim_ascii_lit; [reflexivity|discriminate|reflexivity|exact Ps].
  Qed.

  Lemma parse_piece k v r m p :
    trim_ascii p = k ++ "="%byte :: v -> k <> [] -> ~ In "="%byte k ->
    parse_auth_params (p :: r) m = parse_auth_params r (pmap_insert k v m).
  Proof.
    intros E NE NI. cbn [parse_auth_params]. rewrite E, (split_once_app "="%byte k v NI).
    destruct k; [contradiction|reflexivity].
  Qed.

  Definition authv_pmap : list (bytes * bytes) :=
    [(s2b "Credential", cred); (s2b "SignedHeaders", js); (s2b "Signature", sig)].

  Lemma authv_hdr_pmap : hdr_pmap a = authv_pmap.
  Proof.
    unfold hdr_pmap. rewrite authv_pieces.
    rewrite (parse_piece _ _ _ _ _ trim_p1), (parse_piece _ _ _ _ _ trim_p2), (parse_piece _ _ _ _ _ trim_p3);
      try discriminate; try (apply lit_no; reflexivity).
    reflexivity.
  Qed.

  Lemma authv_checks : bad_alg_header a = false /\ bad_param_syntax a = false.
  Proof.
    split.
    - unfold bad_alg_header. rewrite authv_split. reflexivity.
    - unfold bad_param_syntax. rewrite authv_pieces. cbn [existsb]. unfold bad_piece.
      rewrite trim_p1, trim_p2, trim_p3.
      rewrite !split_once_app by (apply lit_no; reflexivity). reflexivity.
  Qed.

  Lemma authv_signed : sort_bytes signed = signed ->
    sort_bytes (map latin1 (split_on ";"%byte js)) = signed.
  Proof.
    intro S. unfold js. rewrite (split_join_gen ";"%byte signed NEs Nsemi).
    rewrite (map_latin1_plain signed Pn). exact S.
  Qed.
End AUTHV.

Lemma with_headers_same rq : with_headers rq (rq_headers rq) = rq.
Proof. destruct rq; reflexivity. Qed.

Lemma first_raw_snoc n hs w v :
  first_raw n (hs ++ [(w, v)]) =
  match first_raw n hs with Some x => Some x | None => if bytes_eqb (lower w) n then Some v else None end.
Proof.
  induction hs as [|[w' v'] r IH]; cbn [app first_raw]; [reflexivity|].
  destruct (bytes_eqb (lower w') n); [reflexivity|exact IH].
Qed.

Lemma first_raw_absent n hs : ~ present n hs -> first_raw n hs = None.
Proof.
  unfold present. intro NP. rewrite <- hd_values_of.
  destruct (values_of n hs); [reflexivity|]. exfalso. apply NP. discriminate.
Qed.

Lemma spec_sign_plain H key rq cf cred ts signed : plain (spec_sign H key rq cf cred ts signed).
Proof. unfold spec_sign. destruct (spec_request_sts _ _ _ _ _); [apply lower_hex_plain|reflexivity]. Qed.

Lemma request_level_spec_pairs rq hs1 hs2 cf :
  content_type_charset hs1 = content_type_charset hs2 ->
  spec_all_pairs (with_headers rq hs1) cf = spec_all_pairs (with_headers rq hs2) cf.
Proof.
  intro E. unfold spec_all_pairs, spec_folded, spec_decoded_body.
  cbn [with_headers rq_headers rq_body rq_query rq_decoded]. rewrite E. reflexivity.
Qed.

Section C02C.
  Variable H : bytes -> bytes.

  Theorem C02_reference_signer_accepted : forall rq0 cf pv cred ak ts signed key pr se d,
    let sig := spec_sign H key rq0 cf cred ts signed in
    let rq := attach_authorization rq0 (authorization_value cred signed sig) in
    let ap := {| ap_credential := cred; ap_signature := sig;
                 ap_token := option_map latin1
                               (option_map norm_value (first_raw (s2b "x-amz-security-token") (rq_headers rq0)));
                 ap_signed := signed; ap_timestamp := latin1 (norm_value d) |} in
    (* known finding D1 *)
    has_plus (rq_path rq0) = false ->
    (* the base request: parses, carries no authentication yet, and has a date header *)
    request_failure rq0 cf = None ->
    ~ present (s2b "authorization") (rq_headers rq0) ->
    qget (s2b "X-Amz-Algorithm") (st_qm rq0 cf) = None ->
    spec_date (rq_headers rq0) = Some d ->
    parse_iso8601 (latin1 (norm_value d)) = Some ts ->
    (* the signer's choices: credential scope, sorted signed list covering the requirements *)
    plain cred ->
    split_on "/"%byte cred = [ak; yyyymmdd ts; cf_region cf; cf_service cf; s2b "aws4_request"] ->
    Forall plain signed -> Forall (fun n => ~ In ";"%byte n) signed -> sort_bytes signed = signed ->
    host_or_authority signed ->
    ~ In (s2b "authorization") signed ->
    requirements_met (cf_reqs cf) (rq_headers rq) signed ->
    (* window, provider *)
    fresh ts (cf_now cf) -> pv_ready pv = None ->
    pv_answer pv (expected_gsk cf ap ts) = AnsOk key pr se ->
    validate H rq cf pv = ([expected_gsk cf ap ts], Accepted (st_parts rq cf) (spec_payload rq cf) pr se).
  Proof.
    intros rq0 cf pv cred ak ts signed key pr se d sig rq ap
           HPl HRq HNoAuth HNoAlg HDate HParse HPc HScope HPn HSemi HSort HHost HNotSigned HReqs HFresh HReady HAns.
    set (hs0 := rq_headers rq0) in *.
    set (authv := authorization_value cred signed sig) in *.
    set (hs := hs0 ++ [(s2b "Authorization", authv)]).
    assert (Hrq : rq = with_headers rq0 hs) by reflexivity.
    assert (Hrq0 : rq0 = with_headers rq0 hs0) by (symmetry; apply with_headers_same).
    assert (HPs : plain sig) by apply spec_sign_plain.
    assert (HNE : signed <> []) by (destruct HHost as [I|I]; intro E; rewrite E in I; exact I).
    (* raw header facts *)
    assert (FA0 : first_raw src_canonical_AUTHORIZATION hs0 = None) by (apply first_raw_absent; exact HNoAuth).
    assert (FA : first_raw src_canonical_AUTHORIZATION hs = Some authv)
      by (unfold hs; rewrite first_raw_snoc, FA0; reflexivity).
    assert (FO : forall n, bytes_eqb (s2b "authorization") n = false -> first_raw n hs = first_raw n hs0).
    { intros n E. unfold hs. rewrite first_raw_snoc. change (lower (s2b "Authorization")) with (s2b "authorization").
      rewrite E. destruct (first_raw n hs0); reflexivity. }
    assert (ECt : content_type_charset hs0 = content_type_charset hs)
      by (unfold content_type_charset; rewrite (FO src_canonical_CONTENT_TYPE eq_refl); reflexivity).
    assert (EDate : spec_date hs = Some d).
    { unfold spec_date. rewrite (FO src_canonical_X_AMZ_DATE_LOWER eq_refl), (FO src_canonical_DATE eq_refl).
      exact HDate. }
    (* request level *)
    destruct (request_level_headers rq0 hs0 hs cf (fun _ => ECt)) as (ERF & EQM & EPA & EPL & EURI).
    rewrite <- Hrq0, <- Hrq in ERF, EQM, EPA, EPL, EURI.
    assert (HRq' : request_failure rq cf = None) by congruence.
    (* the selected parameters *)
    set (cr := st_canonical H rq cf).
    assert (HH : cr_headers cr = normalize_headers hs) by reflexivity.
    assert (FV : first_value (auth_values cr) = Some authv).
    { unfold auth_values. rewrite HH, C19_header_first_value, FA. cbn [option_map].
      unfold authv. rewrite authv_norm; auto. }
    assert (A1 : has_auth cr = true).
    { unfold has_auth, is_some. destruct (auth_values cr); [reflexivity|discriminate FV]. }
    assert (AV : auth_value cr = authv) by (unfold auth_value; rewrite FV; reflexivity).
    assert (A2 : has_alg cr = false).
    { unfold has_alg, alg_values, is_some. cbn [cr st_canonical cr_query]. rewrite <- EQM.
      change src_canonical_X_AMZ_ALGORITHM with (s2b "X-Amz-Algorithm"). rewrite HNoAlg. reflexivity. }
    assert (HD : hdr_date cr = Some (norm_value d)) by (rewrite (C19_first_date cr hs HH), EDate; reflexivity).
    assert (HT : hdr_token cr = option_map norm_value (first_raw (s2b "x-amz-security-token") hs0)).
    { rewrite (C19_first_token cr hs HH), (FO src_canonical_X_AMZ_SECURITY_TOKEN_LOWER eq_refl). reflexivity. }
    assert (PM : hdr_pmap authv = authv_pmap cred signed sig) by (apply authv_hdr_pmap; auto).
    destruct (authv_checks cred signed sig HPc HPs HPn) as [C1 C2]. fold authv in C1, C2.
    assert (HMiss : hdr_missing cr authv = false).
    { unfold hdr_missing. rewrite PM, HD. reflexivity. }
    assert (HPF : params_failure cr = None).
    { unfold params_failure. rewrite A1, A2, AV, C1, C2, HMiss. reflexivity. }
    assert (HSel : sel_params cr = ap).
    { unfold sel_params. rewrite A1, AV. unfold sel_header. rewrite PM, HD, HT.
      unfold authv_pmap.
      change (assoc src_canonical_CREDENTIAL _) with (Some cred).
      change (assoc src_canonical_SIGNATURE _) with (Some sig).
      change (assoc src_canonical_SIGNED_HEADERS _) with (Some (join [";"%byte] signed)).
      cbn [odflt]. rewrite (latin1_plain cred HPc), (latin1_plain sig HPs).
      rewrite (authv_signed signed HPn HSemi HNE HSort). reflexivity. }
    destruct (C02_presented_params_intro H rq cf HRq' HPF) as [HF HPP].
    { fold cr. rewrite HSel. exact HHost. }
    { fold cr. rewrite HSel. exact HReqs. }
    fold cr in HF, HPP. rewrite HSel in HPP.
    (* the reference string-to-sign *)
    destruct (model_creq_is_spec H _ _ _ _ _ HF HPl) as (path & pairs & EP & EA & _).
    assert (HSO : exists scope, split_once "/"%byte cred = Some (ak, scope)).
    { destruct (split_once "/"%byte cred) as [[a' s']|] eqn:E.
      - pose proof (split_once_some _ _ _ _ E) as E'. subst cred.
        destruct (in_dec Byte.byte_eq_dec "/"%byte a') as [I|NI].
        + exfalso. clear - E I. revert E. generalize (a' ++ "/"%byte :: s'). intros s E.
          assert (X : ~ In "/"%byte a').
          { clear I. revert a' s' E. induction s as [|c s IH]; intros a' s' E; [discriminate|].
            cbn [split_once] in E. destruct (beqb c "/"%byte) eqn:B.
            - injection E as <- _. intros [].
            - destruct (split_once "/"%byte s) as [[a2 b2]|] eqn:E2; [|discriminate]. injection E as <- <-.
              intros [X|X]; [subst c; rewrite beqb_refl in B; discriminate|]. apply (IH _ _ eq_refl X). }
          contradiction.
        + rewrite (PathProofs.split_on_app_sep "/"%byte a' s' NI) in HScope. injection HScope as -> _.
          exists s'. reflexivity.
      - apply AuthProofs.split_once_none_split_on in E. rewrite E in HScope. discriminate HScope. }
    destruct HSO as (scope & HSO).
    assert (EAll : spec_all_pairs rq0 cf = Some pairs).
    { rewrite Hrq0, (request_level_spec_pairs rq0 hs0 hs cf ECt), <- Hrq. exact EA. }
    assert (EBlock : spec_header_block hs signed = spec_header_block hs0 signed).
    { pose proof (C11_block_unsigned hs0 [(s2b "Authorization", authv)] signed) as B.
      specialize (B (fun nv I => match I with or_introl E => ltac:(subst nv; exact HNotSigned) | or_intror F => match F with end end)).
      specialize (B hs0 []). rewrite !app_nil_r in B. exact B. }
    assert (ESts : spec_request_sts H rq cf ap ts = spec_request_sts H rq0 cf (signer_params cred signed) ts).
    { unfold spec_request_sts. change (rq_path rq0) with (rq_path rq). rewrite EP, EA, EAll.
      cbn [ap signer_params ap_credential ap_signed]. rewrite HSO.
      unfold spec_canonical_request. change (rq_headers rq) with hs. fold hs0. rewrite EBlock, EPL.
      reflexivity. }
    assert (HStsSome : exists sts, spec_request_sts H rq cf ap ts = Some sts).
    { unfold spec_request_sts. rewrite EP, EA. cbn [ap ap_credential]. rewrite HSO. eexists. reflexivity. }
    destruct HStsSome as (sts & HSts).
    apply (C02_spec_signed_accepted H rq cf pv cr (st_parts rq cf) (spec_payload rq cf) ap ts ak key pr se sts);
      try assumption.
    cbn [ap ap_signature]. unfold sig, spec_sign. rewrite <- ESts, HSts. reflexivity.
  Qed.
End C02C.

(* the usual case: the date header is the compact rendering of the signing instant *)
Lemma digit_token b : is_ascii_digit b = true -> token_char b = true.
Proof. destruct b; intro E; try discriminate E; reflexivity. Qed.

Lemma plain_digits l : Forall (fun b => is_ascii_digit b = true) l -> plain l.
Proof.
  intro F. unfold plain. apply forallb_forall. rewrite Forall_forall in F. intros c I. apply digit_token, F, I.
Qed.

Lemma render_compact_plain t :
  (0 <= t < 253402300800 * ns_per_s)%Z -> plain (render_compact t).
Proof.
  intro Ht. unfold render_compact, yyyymmdd, yyyymmdd_of_civil.
  destruct (civil_of_days (day_of_instant t)) as [[y m] d] eqn:C.
  pose proof (IsoProofs.instant_year_range t y m d Ht C) as Hy.
  rewrite IsoProofs.render_year_digits4 by lia. unfold Grammar.digits4, two.
  repeat first [ apply plain_digits; apply dec_fixed_digits | reflexivity | apply plain_app ].
Qed.

Lemma norm_value_plain x : x <> [] -> plain x -> norm_value x = x.
Proof.
  intros NE P. rewrite C11_value_normal_form, spec_trimall_words, words_single; [reflexivity|].
  split; [exact NE|apply plain_nospace; exact P].
Qed.

Section C02C2.
  Variable H : bytes -> bytes.

  Corollary C02_reference_signer_accepted_compact : forall rq0 cf pv cred ak ts signed key pr se,
    let sig := spec_sign H key rq0 cf cred ts signed in
    let rq := attach_authorization rq0 (authorization_value cred signed sig) in
    let ap := {| ap_credential := cred; ap_signature := sig;
                 ap_token := option_map latin1
                               (option_map norm_value (first_raw (s2b "x-amz-security-token") (rq_headers rq0)));
                 ap_signed := signed; ap_timestamp := render_compact ts |} in
    has_plus (rq_path rq0) = false ->
    request_failure rq0 cf = None ->
    ~ present (s2b "authorization") (rq_headers rq0) ->
    qget (s2b "X-Amz-Algorithm") (st_qm rq0 cf) = None ->
    (* an x-amz-date header equal to the compact rendering of a whole-second instant *)
    first_raw (s2b "x-amz-date") (rq_headers rq0) = Some (render_compact ts) ->
    (0 <= ts < 253402300800 * ns_per_s)%Z -> (ts mod ns_per_s = 0)%Z ->
    plain cred ->
    split_on "/"%byte cred = [ak; yyyymmdd ts; cf_region cf; cf_service cf; s2b "aws4_request"] ->
    Forall plain signed -> Forall (fun n => ~ In ";"%byte n) signed -> sort_bytes signed = signed ->
    host_or_authority signed ->
    ~ In (s2b "authorization") signed ->
    requirements_met (cf_reqs cf) (rq_headers rq) signed ->
    fresh ts (cf_now cf) -> pv_ready pv = None ->
    pv_answer pv (expected_gsk cf ap ts) = AnsOk key pr se ->
    validate H rq cf pv = ([expected_gsk cf ap ts], Accepted (st_parts rq cf) (spec_payload rq cf) pr se).
  Proof.
    intros rq0 cf pv cred ak ts signed key pr se sig rq ap
           HPl HRq HNoAuth HNoAlg HDate HRange HWhole HPc HScope HPn HSemi HSort HHost HNotSigned HReqs HFresh HReady HAns.
    assert (PR : plain (render_compact ts)) by (apply render_compact_plain; exact HRange).
    assert (NE : render_compact ts <> []).
    { intro E. pose proof (IsoProofs.C16_compact_length ts HRange) as L. rewrite E in L. discriminate L. }
    assert (EN : latin1 (norm_value (render_compact ts)) = render_compact ts)
      by (rewrite (norm_value_plain _ NE PR); apply latin1_plain; exact PR).
    assert (EAp : ap = {| ap_credential := cred; ap_signature := sig;
                          ap_token := option_map latin1
                               (option_map norm_value (first_raw (s2b "x-amz-security-token") (rq_headers rq0)));
                          ap_signed := signed; ap_timestamp := latin1 (norm_value (render_compact ts)) |})
      by (unfold ap; rewrite EN; reflexivity).
    rewrite EAp in *.
    apply (C02_reference_signer_accepted H rq0 cf pv cred ak ts signed key pr se (render_compact ts)); try assumption.
    - unfold spec_date. change src_canonical_X_AMZ_DATE_LOWER with (s2b "x-amz-date"). rewrite HDate. reflexivity.
    - rewrite EN. apply IsoProofs.C16_render_roundtrip; lia.
  Qed.
End C02C2.

(* the hypothesis "no X-Amz-Algorithm parameter" of C02_reference_signer_accepted, read on the
   decoded parameters of the specification *)
Lemma C02_no_algorithm_parameter (H : bytes -> bytes) : forall rq cf pairs,
  request_failure rq cf = None ->
  spec_all_pairs rq cf = Some pairs ->
  (forall v, ~ In (s2b "X-Amz-Algorithm", v) pairs) ->
  qget (s2b "X-Amz-Algorithm") (st_qm rq cf) = None.
Proof.
  intros rq cf pairs HR HA HN.
  pose proof (from_request_parts_eq H rq cf) as HF. rewrite HR in HF.
  destruct (C12_values_order H _ _ _ _ _ HF) as (pairs' & HA' & HV).
  rewrite HA in HA'. injection HA' as <-.
  specialize (HV (s2b "X-Amz-Algorithm")). cbn [st_canonical cr_query] in HV.
  destruct (request_ok_good H rq cf HR) as [_ HG]. cbn [st_canonical cr_query] in HG.
  destruct (qget (s2b "X-Amz-Algorithm") (st_qm rq cf)) as [vs|] eqn:E; [|reflexivity].
  exfalso. destruct (qget_good _ _ _ HG E) as [NE _]. apply NE.
  unfold vals in HV. rewrite E in HV. rewrite HV. clear - HN.
  unfold values_in. induction pairs as [|[k v] r IH]; [reflexivity|].
  cbn [map filter enc_pair fst snd].
  destruct (bytes_eqb (s2b "X-Amz-Algorithm") (pct_encode k)) eqn:B.
  - exfalso. apply bytes_eqb_eq in B.
    change (s2b "X-Amz-Algorithm") with (pct_encode (s2b "X-Amz-Algorithm")) in B.
    apply pct_encode_inj in B. subst k. apply (HN v). left. reflexivity.
  - apply IH. intros v' I. apply (HN v'). right. exact I.
Qed.

(* ========================================================================================== *)
(* 8b. C02 (b), form folding: body parameters may be respelled and permuted as well            *)
(* ========================================================================================== *)

Definition same_body_pairs (rq1 rq2 : request) : Prop :=
  match spec_decoded_body rq1, spec_decoded_body rq2 with
  | Some b1, Some b2 => same_pairs b1 b2
  | None, None => True
  | _, _ => False
  end.

Record same_logical_folded (rq1 rq2 : request) : Prop := {
  slf_method : rq_method rq1 = rq_method rq2;
  slf_plus1 : has_plus (rq_path rq1) = false;                  (* known finding D1 *)
  slf_plus2 : has_plus (rq_path rq2) = false;
  slf_path : same_path (rq_path rq1) (rq_path rq2);
  slf_query : same_pairs (url_query rq1) (url_query rq2);
  slf_headers : same_header_values (rq_headers rq1) (rq_headers rq2);
  (* the media type and charset are read from the raw first content-type value *)
  slf_ctype : content_type_charset (rq_headers rq1) = content_type_charset (rq_headers rq2);
  (* the decoded body parameters form the same multiset *)
  slf_body : same_body_pairs rq1 rq2
}.

(* the covered components of the specification canonical request *)
Definition same_components (rq1 rq2 : request) (cf : config) : Prop :=
  spec_path (cf_s3 cf) (rq_path rq1) = spec_path (cf_s3 cf) (rq_path rq2)
  /\ option_map spec_query_of_pairs (spec_all_pairs rq1 cf) = option_map spec_query_of_pairs (spec_all_pairs rq2 cf)
  /\ (forall signed, spec_header_block (rq_headers rq1) signed = spec_header_block (rq_headers rq2) signed)
  /\ spec_payload rq1 cf = spec_payload rq2 cf
  /\ rq_method rq1 = rq_method rq2.

Section C02F.
  Variable H : bytes -> bytes.

  Lemma components_sts : forall rq1 rq2 cf ap ts,
    same_components rq1 rq2 cf -> spec_request_sts H rq1 cf ap ts = spec_request_sts H rq2 cf ap ts.
  Proof.
    intros rq1 rq2 cf ap ts (EP & EQ & EH & EB & EM).
    unfold spec_request_sts. rewrite EP.
    destruct (spec_path (cf_s3 cf) (rq_path rq2)) as [path|]; [|reflexivity].
    destruct (spec_all_pairs rq1 cf) as [d1|], (spec_all_pairs rq2 cf) as [d2|]; cbn [option_map] in EQ;
      try discriminate EQ; [|reflexivity].
    injection EQ as EQ. unfold spec_canonical_request. rewrite EQ, EH, EB, EM. reflexivity.
  Qed.

  Lemma components_model_creq : forall rq1 rq2 cf cr1 pts1 body1 cr2 pts2 body2 signed,
    same_components rq1 rq2 cf ->
    has_plus (rq_path rq1) = false -> has_plus (rq_path rq2) = false ->
    from_request_parts H rq1 cf = Ok (cr1, pts1, body1) ->
    from_request_parts H rq2 cf = Ok (cr2, pts2, body2) ->
    canonical_request cr1 signed = canonical_request cr2 signed.
  Proof.
    intros rq1 rq2 cf cr1 pts1 body1 cr2 pts2 body2 signed (EP & EQ & EH & EB & EM) P1 P2 HF1 HF2.
    destruct (model_creq_is_spec H _ _ _ _ _ HF1 P1) as (path1 & pairs1 & EP1 & EA1 & HS1).
    destruct (model_creq_is_spec H _ _ _ _ _ HF2 P2) as (path2 & pairs2 & EP2 & EA2 & HS2).
    rewrite HS1, HS2. rewrite EP1, EP2 in EP. injection EP as ->.
    rewrite EA1, EA2 in EQ. cbn [option_map] in EQ. injection EQ as EQ.
    unfold spec_canonical_request. rewrite EQ, EH, EB, EM. reflexivity.
  Qed.

  Theorem C02_same_components_same_verdict : forall rq1 rq2 cf pv ap,
    same_components rq1 rq2 cf ->
    has_plus (rq_path rq1) = false -> has_plus (rq_path rq2) = false ->
    presented_params H rq1 cf = Some ap -> presented_params H rq2 cf = Some ap ->
    fst (validate H rq1 cf pv) = fst (validate H rq2 cf pv)
    /\ same_verdict (snd (validate H rq1 cf pv)) (snd (validate H rq2 cf pv)).
  Proof.
    intros rq1 rq2 cf pv ap HC P1 P2 HP1 HP2.
    destruct (presented_params_inv H _ _ _ HP1) as (cr1 & pts1 & body1 & HF1 & _ & _ & HG1 & _).
    destruct (presented_params_inv H _ _ _ HP2) as (cr2 & pts2 & body2 & HF2 & _ & _ & HG2 & _).
    apply (same_params_same_verdict H rq1 rq2 cf pv cr1 pts1 body1 cr2 pts2 body2 ap); try assumption.
    apply (components_model_creq rq1 rq2 cf cr1 pts1 body1 cr2 pts2 body2); assumption.
  Qed.

  Lemma folded_same_components : forall rq1 rq2 cf,
    same_logical_folded rq1 rq2 -> spec_folded rq1 cf = true -> same_components rq1 rq2 cf.
  Proof.
    intros rq1 rq2 cf [HM P1 P2 HPa HQ HHe HCt HB] HFo.
    assert (HFo2 : spec_folded rq2 cf = true) by (unfold spec_folded in *; rewrite <- HCt; exact HFo).
    split; [apply spec_path_same_path; exact HPa|].
    split.
    { unfold spec_all_pairs. rewrite HFo, HFo2. fold (url_query rq1). fold (url_query rq2).
      unfold same_pairs in HQ. unfold same_body_pairs, same_pairs in HB.
      destruct (decoded_pairs (url_query rq1)) as [u1|], (decoded_pairs (url_query rq2)) as [u2|];
        try contradiction; [|reflexivity].
      destruct (spec_decoded_body rq1) as [b1|], (spec_decoded_body rq2) as [b2|]; try contradiction; [|reflexivity].
      destruct (decoded_pairs b1) as [d1|], (decoded_pairs b2) as [d2|]; try contradiction; [|reflexivity].
      cbn [option_map]. f_equal. apply q_spec_query_of_pairs_perm. apply Permutation_app; assumption. }
    split; [intro signed; apply C11_block_trimall; intros n _; apply HHe|].
    split; [|exact HM].
    unfold spec_payload. rewrite HFo, HFo2. reflexivity.
  Qed.

  (* the folded variant: the reference string-to-sign is insensitive to the spelling and order of
     the body parameters too *)
  Theorem C02_spelling_insensitive_folded_sts : forall rq1 rq2 cf ap ts,
    same_logical_folded rq1 rq2 -> spec_folded rq1 cf = true ->
    spec_request_sts H rq1 cf ap ts = spec_request_sts H rq2 cf ap ts.
  Proof. intros. apply components_sts. apply folded_same_components; assumption. Qed.

  Theorem C02_spelling_insensitive_folded : forall rq1 rq2 cf pv ap,
    same_logical_folded rq1 rq2 -> spec_folded rq1 cf = true ->
    presented_params H rq1 cf = Some ap -> presented_params H rq2 cf = Some ap ->
    fst (validate H rq1 cf pv) = fst (validate H rq2 cf pv)
    /\ same_verdict (snd (validate H rq1 cf pv)) (snd (validate H rq2 cf pv)).
  Proof.
    intros rq1 rq2 cf pv ap HL HFo HP1 HP2.
    apply (C02_same_components_same_verdict rq1 rq2 cf pv ap); try assumption.
    - apply folded_same_components; assumption.
    - exact (slf_plus1 _ _ HL).
    - exact (slf_plus2 _ _ HL).
  Qed.
End C02F.

(* ========================================================================================== *)
(* 9. Checkable forms (boolean side conditions, for concrete requests)                        *)
(* ========================================================================================== *)

Definition names_of (hs : list (bytes * bytes)) : list bytes := map (fun nv => lower (fst nv)) hs.

Lemma present_names n hs : present n hs <-> In n (names_of hs).
Proof.
  rewrite present_iff. unfold names_of. rewrite in_map_iff. split.
  - intros (w & v & HI & E). exists (w, v). split; assumption.
  - intros ([w v] & E & HI). exists w, v. split; assumption.
Qed.

Fixpoint lb_eqb (a b : list bytes) : bool :=
  match a, b with
  | [], [] => true
  | x :: a', y :: b' => bytes_eqb x y && lb_eqb a' b'
  | _, _ => false
  end.

Lemma lb_eqb_eq a b : lb_eqb a b = true -> a = b.
Proof.
  revert b. induction a as [|x a IH]; intros [|y b] E; try discriminate E; [reflexivity|].
  cbn in E. apply andb_true_iff in E. destruct E as [E1 E2]. apply bytes_eqb_eq in E1. subst y.
  rewrite (IH b E2). reflexivity.
Qed.

Definition agree_check (hs1 hs2 : list (bytes * bytes)) (n : bytes) : bool :=
  lb_eqb (map spec_trimall (values_of n hs1)) (map spec_trimall (values_of n hs2)).

Lemma agree_check_on hs1 hs2 l :
  forallb (agree_check hs1 hs2) l = true -> forall n, In n l -> agree_on n hs1 hs2.
Proof. intros F n I. rewrite forallb_forall in F. apply lb_eqb_eq. apply F. exact I. Qed.

Lemma same_header_values_check hs1 hs2 :
  forallb (agree_check hs1 hs2) (names_of hs1 ++ names_of hs2) = true -> same_header_values hs1 hs2.
Proof.
  intros F n. destruct (mem_bytes n (names_of hs1 ++ names_of hs2)) eqn:M.
  - apply mem_bytes_In in M. apply (agree_check_on _ _ _ F n M).
  - assert (NI : ~ In n (names_of hs1 ++ names_of hs2)) by (rewrite <- mem_bytes_In; congruence).
    unfold agree_on.
    assert (V : forall hs, ~ In n (names_of hs) -> values_of n hs = []).
    { intros hs N. destruct (values_of n hs) eqn:E; [reflexivity|]. exfalso. apply N. apply present_names.
      unfold present. rewrite E. discriminate. }
    rewrite !V; [reflexivity| |]; intro I; apply NI; apply in_or_app; auto.
Qed.

Definition presence_check (P : bytes -> bool) (hs1 hs2 : list (bytes * bytes)) : bool :=
  forallb (fun n => negb (P n) || Bool.eqb (mem_bytes n (names_of hs1)) (mem_bytes n (names_of hs2)))
          (names_of hs1 ++ names_of hs2).

Lemma presence_check_ok P hs1 hs2 :
  presence_check P hs1 hs2 = true -> forall n, P n = true -> (present n hs1 <-> present n hs2).
Proof.
  intros F n Pn. unfold presence_check in F. rewrite forallb_forall in F.
  rewrite !present_names, <- !mem_bytes_In.
  destruct (mem_bytes n (names_of hs1)) eqn:M1, (mem_bytes n (names_of hs2)) eqn:M2; try tauto.
  - assert (I : In n (names_of hs1 ++ names_of hs2)) by (apply in_or_app; left; apply mem_bytes_In; exact M1).
    specialize (F n I). rewrite Pn, M1, M2 in F. discriminate F.
  - assert (I : In n (names_of hs1 ++ names_of hs2)) by (apply in_or_app; right; apply mem_bytes_In; exact M2).
    specialize (F n I). rewrite Pn, M1, M2 in F. discriminate F.
Qed.

Lemma same_pairs_check q1 q2 d1 d2 :
  decoded_pairs q1 = Some d1 -> decoded_pairs q2 = Some d2 -> sort_pairs d1 = sort_pairs d2 -> same_pairs q1 q2.
Proof.
  intros E1 E2 S. unfold same_pairs. rewrite E1, E2.
  eapply Permutation_trans; [apply Permutation_sym; apply sort_pairs_perm|]. rewrite S. apply sort_pairs_perm.
Qed.

(* C11_unsigned_no_influence with boolean side conditions *)
Theorem C11_unsigned_no_influence_check (H : bytes -> bytes) : forall rq hs1 hs2 cf pv,
  let rq1 := with_headers rq hs1 in
  let rq2 := with_headers rq hs2 in
  forallb (agree_check hs1 hs2) (ap_signed (sel_params (st_canonical H rq1 cf)) ++ consulted_names) = true ->
  (cf_fold cf = true -> first_raw (s2b "content-type") hs1 = first_raw (s2b "content-type") hs2) ->
  presence_check (fun n => existsb (fun c => bytes_eqb (lower c) n) (if_in_request (cf_reqs cf))) hs1 hs2 = true ->
  presence_check (fun n => existsb (fun p => starts_with (lower p) n) (prefixes (cf_reqs cf))) hs1 hs2 = true ->
  fst (validate H rq1 cf pv) = fst (validate H rq2 cf pv)
  /\ outcome_modulo_headers hs1 hs2 (snd (validate H rq1 cf pv)) (snd (validate H rq2 cf pv)).
Proof.
  intros rq hs1 hs2 cf pv rq1 rq2 F HCt PI PP.
  apply C11_unsigned_no_influence.
  - intros n I. apply (agree_check_on _ _ _ F). apply in_or_app. left. exact I.
  - intros n I. apply (agree_check_on _ _ _ F). apply in_or_app. right. exact I.
  - intro E. unfold content_type_charset.
    change src_canonical_CONTENT_TYPE with (s2b "content-type"). rewrite (HCt E). reflexivity.
  - intros c I. apply (presence_check_ok _ _ _ PI). apply existsb_exists. exists c. split; [exact I|apply bytes_eqb_refl].
  - intros p n I S. apply (presence_check_ok _ _ _ PP). apply existsb_exists. exists p. split; assumption.
Qed.

(* ========================================================================================== *)
(* 10. Non-vacuity: every main theorem applied to a concrete request (H := identity keeps     *)
(*     vm_compute cheap; all signatures come from the reference signer [spec_sign])            *)
(* ========================================================================================== *)

Module CompletenessExamples.
  Local Notation idH := SoundnessProofs.Examples.idH.
  Local Notation ex_ts := SoundnessProofs.Examples.ex_ts.
  Local Notation ex_key := SoundnessProofs.Examples.ex_key.
  Local Notation ex_pv := SoundnessProofs.Examples.ex_pv.
  Local Notation accepted := SoundnessProofs.Examples.accepted.

  Ltac vm := vm_compute; reflexivity.

  Definition cred : bytes := s2b "AKID/20150830/us-east-1/svc/aws4_request".
  Definition base (path : bytes) (q : option bytes) (hs : list (bytes * bytes)) (body : bytes) : request :=
    {| rq_method := s2b "POST"; rq_path := path; rq_query := q; rq_uri := path; rq_version := 11%N;
       rq_headers := hs; rq_body := body; rq_decoded := None |}.
  Definition cfg (rs : reqs) (fold : bool) : config :=
    {| cf_region := s2b "us-east-1"; cf_service := s2b "svc"; cf_now := ex_ts; cf_reqs := rs;
       cf_s3 := false; cf_fold := fold |}.
  Definition rs1 : reqs :=
    {| always_present := [s2b "Host"]; if_in_request := [s2b "Content-Type"; s2b "X-Absent"];
       prefixes := [s2b "X-Amz-"] |}.
  (* the reference signer attaches its Authorization header *)
  Definition signed_by (rq0 : request) (cf : config) (signed : list bytes) : request :=
    attach_authorization rq0 (authorization_value cred signed (spec_sign idH ex_key rq0 cf cred ex_ts signed)).

  Definition hs_a : list (bytes * bytes) :=
    [(s2b "Host", s2b "example.com"); (s2b "X-Amz-Date", s2b "20150830T123600Z");
     (s2b "Content-Type", s2b "text/plain"); (s2b "X-Amz-Meta", s2b "a   b "); (s2b "X-Other", s2b "o")].
  Definition signed_a : list bytes := [s2b "content-type"; s2b "host"; s2b "x-amz-date"; s2b "x-amz-meta"].
  Definition rq0_a : request := base (s2b "/docs/a%20b") (Some (s2b "x=1&y=%7e&z=a+b&x=0")) hs_a (s2b "hello").
  Definition rq_a : request := signed_by rq0_a (cfg rs1 false) signed_a.
  Definition ap_a : auth_params :=
    {| ap_credential := cred; ap_signature := spec_sign idH ex_key rq0_a (cfg rs1 false) cred ex_ts signed_a;
       ap_token := None; ap_signed := signed_a; ap_timestamp := s2b "20150830T123600Z" |}.

  Lemma fresh_now : fresh ex_ts ex_ts.
  Proof. unfold AuthProofs.fresh. rewrite AuthProofs.C04_constant. vm_compute. split; discriminate. Qed.

  (* C02 (c): the hypotheses of C02_reference_signer_accepted hold for a request with a non-trivial
     path, query, requirement set and an unsigned header; its conclusion is the acceptance *)
  Example C02_reference_signer_applied :
    validate idH rq_a (cfg rs1 false) ex_pv =
    ([expected_gsk (cfg rs1 false) ap_a ex_ts],
     Accepted (st_parts rq_a (cfg rs1 false)) (s2b "hello") (s2b "user") (s2b "sess")).
  Proof.
    apply (C02_reference_signer_accepted idH rq0_a (cfg rs1 false) ex_pv cred (s2b "AKID") ex_ts signed_a ex_key
             (s2b "user") (s2b "sess") (s2b "20150830T123600Z")).
    - vm.
    - vm.
    - intro P. apply P. vm.
    - vm.
    - vm.
    - vm.
    - vm.
    - vm.
    - repeat constructor.
    - repeat constructor; apply lit_no; vm.
    - vm.
    - left. vm_compute. tauto.
    - vm_compute. intuition discriminate.
    - apply C05_reqs_ok_raw. vm.
    - exact fresh_now.
    - reflexivity.
    - reflexivity.
  Qed.

  Example rq_a_accepted : accepted (validate idH rq_a (cfg rs1 false) ex_pv) = true.
  Proof. vm. Qed.

  Definition cf_a : config := cfg rs1 false.

  (* C02 (a): the hypotheses of C02_spec_signed_accepted / the right-hand side of
     C02_accept_iff_spec_signature are satisfiable *)
  Example C02_spec_signed_nonvacuous :
    has_plus (rq_path rq_a) = false /\
    exists cr pts body sts,
      from_request_parts idH rq_a cf_a = Ok (cr, pts, body) /\
      presented_params idH rq_a cf_a = Some ap_a /\
      parse_iso8601 (ap_timestamp ap_a) = Some ex_ts /\
      split_on "/"%byte (ap_credential ap_a)
        = [s2b "AKID"; yyyymmdd ex_ts; cf_region cf_a; cf_service cf_a; s2b "aws4_request"] /\
      pv_answer ex_pv (expected_gsk cf_a ap_a ex_ts) = AnsOk ex_key (s2b "user") (s2b "sess") /\
      spec_request_sts idH rq_a cf_a ap_a ex_ts = Some sts /\
      ap_signature ap_a = lower_hex (hmac idH ex_key sts).
  Proof.
    split; [vm|]. do 4 eexists.
    split; [vm|]. split; [vm|]. split; [vm|]. split; [vm|]. split; [vm|]. split; vm.
  Qed.

  Example C02_accept_iff_applied :
    exists calls p b, validate idH rq_a cf_a ex_pv = (calls, Accepted p b (s2b "user") (s2b "sess")).
  Proof.
    apply (C02_accept_iff_spec_signature idH rq_a cf_a ex_pv); [vm|].
    destruct C02_spec_signed_nonvacuous as (_ & cr & pts & body & sts & HF & HP & HT & HS & HA & HSts & HSig).
    exists ap_a, ex_ts, (s2b "AKID"), ex_key, sts.
    repeat (split; [first [assumption | exact fresh_now | reflexivity]|]). exact HSig.
  Qed.

  (* C02 (b): another wire spelling of the same logical request, carrying the same Authorization
     header: hex case and needless escapes in the path, %20 for +, %7E for %7e, permuted and
     repeated parameters, an empty component, header-name case, header order, padded values *)
  Definition hs_b : list (bytes * bytes) :=
    [(s2b "x-amz-META", s2b "a b"); (s2b "HOST", s2b " example.com"); (s2b "x-other", s2b "o ");
     (s2b "content-type", s2b "text/plain  "); (s2b "X-AMZ-DATE", s2b "20150830T123600Z")].
  Definition rq_b : request :=
    attach_authorization
      (base (s2b "/d%6Fcs/%61%20b") (Some (s2b "z=a%20b&y=%7E&x=0&&x=1")) hs_b (s2b "hello"))
      (authorization_value cred signed_a (spec_sign idH ex_key rq0_a cf_a cred ex_ts signed_a)).

  Lemma rq_a_b_same_logical : same_logical rq_a rq_b.
  Proof.
    constructor.
    - reflexivity.
    - vm.
    - vm.
    - unfold same_path. vm.
    - eapply same_pairs_check; vm.
    - apply same_header_values_check. vm.
    - reflexivity.
    - reflexivity.
  Qed.

  Example C02_spelling_insensitive_applied :
    rq_path rq_a <> rq_path rq_b /\ rq_query rq_a <> rq_query rq_b /\
    presented_params idH rq_a cf_a = presented_params idH rq_b cf_a /\
    fst (validate idH rq_a cf_a ex_pv) = fst (validate idH rq_b cf_a ex_pv) /\
    same_verdict (snd (validate idH rq_a cf_a ex_pv)) (snd (validate idH rq_b cf_a ex_pv)) /\
    accepted (validate idH rq_b cf_a ex_pv) = true.
  Proof.
    split; [discriminate|]. split; [discriminate|].
    assert (HAu : present (s2b "authorization") (rq_headers rq_a)) by (intro X; discriminate X).
    split; [apply (C02_presented_params_header_carrier idH rq_a rq_b cf_a rq_a_b_same_logical eq_refl HAu)|].
    cut (forall A B C : Prop, A /\ B -> C -> A /\ B /\ C); [intro K; apply K; [|vm]|tauto].
    apply (C02_spelling_insensitive_header_carrier idH rq_a rq_b cf_a ex_pv rq_a_b_same_logical eq_refl HAu).
  Qed.

  Example C02_spelling_insensitive_sts_applied : forall ap ts,
    spec_request_sts idH rq_a cf_a ap ts = spec_request_sts idH rq_b cf_a ap ts.
  Proof. intros. apply C02_spelling_insensitive_sts; [exact rq_a_b_same_logical|reflexivity]. Qed.

  (* C05 *)
  Lemma stages_ok rq cf :
    request_failure rq cf = None -> params_failure (st_canonical idH rq cf) = None ->
    from_request_parts idH rq cf = Ok (st_canonical idH rq cf, st_parts rq cf, spec_payload rq cf)
    /\ carrier_params (st_canonical idH rq cf) = Ok (sel_params (st_canonical idH rq cf)).
  Proof.
    intros HR HP. split.
    - rewrite from_request_parts_eq, HR. reflexivity.
    - rewrite carrier_params_eq by (apply request_ok_good; exact HR). rewrite HP. reflexivity.
  Qed.

  Example C05_accept_implies_requirements_applied :
    exists ap, presented_params idH rq_a cf_a = Some ap /\ c05_conjunction rq_a cf_a (ap_signed ap)
               /\ In (s2b "content-type") (ap_signed ap) /\ In (s2b "x-amz-meta") (ap_signed ap).
  Proof.
    destruct (C05_accept_implies_requirements idH _ _ _ _ _ _ _ _ C02_reference_signer_applied)
      as (ap & HP & A & B & C & D).
    exists ap. split; [exact HP|]. split; [repeat split; assumption|].
    split.
    - apply (C (s2b "Content-Type")); [left; reflexivity|discriminate].
    - apply (D (s2b "X-Amz-") (s2b "X-Amz-Meta") (s2b "a   b ")); [left; reflexivity| |reflexivity].
      vm_compute. tauto.
  Qed.

  (* a correctly signed request that leaves a present if-in-request header unsigned: refused with
     403 before any key lookup under the requirement set, accepted without it *)
  Definition signed_v : list bytes := [s2b "host"; s2b "x-amz-date"; s2b "x-amz-meta"].
  Definition rq_v : request := signed_by rq0_a cf_a signed_v.
  Definition cf_none : config := cfg no_reqs false.

  Example C05_violation_applied :
    validate idH rq_v cf_a ex_pv = ([], Refused SignatureDoesNotMatch)
    /\ status SignatureDoesNotMatch = Some 403%N
    /\ accepted (validate idH rq_v cf_none ex_pv) = true.
  Proof.
    cut (forall A B C : Prop, A /\ B -> C -> A /\ B /\ C); [intro K; apply K; [|vm]|tauto].
    destruct (stages_ok rq_v cf_a) as [HF HC]; [vm|vm|].
    apply (C05_violation_refused_403 idH rq_v cf_a ex_pv _ _ _ _ HF HC).
    assert (E : ap_signed (sel_params (st_canonical idH rq_v cf_a)) = signed_v) by vm. rewrite E.
    intros (_ & _ & C & _).
    specialize (C (s2b "Content-Type") (or_introl eq_refl)).
    assert (P : values_of (lower (s2b "Content-Type")) (rq_headers rq_v) = [s2b "text/plain"]) by vm.
    rewrite P in C. specialize (C ltac:(discriminate)). vm_compute in C. intuition discriminate.
  Qed.

  Definition rs1' : reqs :=
    {| always_present := [s2b "HOST"]; if_in_request := [s2b "content-TYPE"; s2b "x-absent"];
       prefixes := [s2b "x-AMZ-"] |}.
  Example C05_requirement_case_insensitive_applied : forall rq pv,
    validate idH rq (with_reqs cf_a rs1') pv = validate idH rq cf_a pv.
  Proof. intros. apply C05_requirement_case_insensitive; repeat constructor. Qed.

  (* C11: insertion, removal, modification and reordering of headers that are neither signed,
     consulted nor required *)
  Definition hs1 : list (bytes * bytes) := rq_headers rq_a.
  Definition auth_a : bytes * bytes := (s2b "Authorization", authorization_value cred signed_a (ap_signature ap_a)).

  Ltac c11 := apply C11_unsigned_no_influence_check; [vm | discriminate | vm | vm].

  Example C11_insertion :
    let hs2 := (s2b "Host", s2b "example.com") :: (s2b "X-New", s2b "n") :: tl hs1 in
    fst (validate idH (with_headers rq_a hs1) cf_a ex_pv) = fst (validate idH (with_headers rq_a hs2) cf_a ex_pv)
    /\ outcome_modulo_headers hs1 hs2 (snd (validate idH (with_headers rq_a hs1) cf_a ex_pv))
                                      (snd (validate idH (with_headers rq_a hs2) cf_a ex_pv)).
  Proof. cbv zeta. c11. Qed.

  Example C11_removal :
    let hs2 := filter (fun nv => negb (bytes_eqb (fst nv) (s2b "X-Other"))) hs1 in
    List.length hs2 = 5%nat /\
    fst (validate idH (with_headers rq_a hs1) cf_a ex_pv) = fst (validate idH (with_headers rq_a hs2) cf_a ex_pv)
    /\ outcome_modulo_headers hs1 hs2 (snd (validate idH (with_headers rq_a hs1) cf_a ex_pv))
                                      (snd (validate idH (with_headers rq_a hs2) cf_a ex_pv)).
  Proof. cbv zeta. split; [vm|]. c11. Qed.

  Example C11_modification :
    let hs2 := map (fun nv => if bytes_eqb (fst nv) (s2b "X-Other") then (fst nv, s2b "changed") else nv) hs1 in
    hs2 <> hs1 /\
    fst (validate idH (with_headers rq_a hs1) cf_a ex_pv) = fst (validate idH (with_headers rq_a hs2) cf_a ex_pv)
    /\ outcome_modulo_headers hs1 hs2 (snd (validate idH (with_headers rq_a hs1) cf_a ex_pv))
                                      (snd (validate idH (with_headers rq_a hs2) cf_a ex_pv)).
  Proof. cbv zeta. split; [vm_compute; discriminate|]. c11. Qed.

  Example C11_reordering :
    let hs2 := rev hs1 in
    hs2 <> hs1 /\
    fst (validate idH (with_headers rq_a hs1) cf_a ex_pv) = fst (validate idH (with_headers rq_a hs2) cf_a ex_pv)
    /\ outcome_modulo_headers hs1 hs2 (snd (validate idH (with_headers rq_a hs1) cf_a ex_pv))
                                      (snd (validate idH (with_headers rq_a hs2) cf_a ex_pv)).
  Proof. cbv zeta. split; [vm_compute; discriminate|]. c11. Qed.

  Example C11_base_accepted :
    accepted (validate idH (with_headers rq_a hs1) cf_a ex_pv) = true.
  Proof. vm. Qed.

  (* hypothesis (iv) is needed: an inserted unsigned header matching a declared prefix is refused *)
  Example C11_prefix_hypothesis_needed :
    validate idH (with_headers rq_a ((s2b "X-Amz-New", s2b "n") :: hs1)) cf_a ex_pv
    = ([], Refused SignatureDoesNotMatch).
  Proof. vm. Qed.

  (* a change of a signed header value beyond spacing: hypotheses of C11_signed_injective /
     C11_signed_value_change(_refused) hold, and the request is refused *)
  Definition hs_m : list (bytes * bytes) :=
    map (fun nv => if bytes_eqb (fst nv) (s2b "X-Amz-Meta") then (fst nv, s2b "a c") else nv) hs1.

  Example C11_signed_value_change_applied :
    NoDup signed_a /\ Forall name_ok signed_a /\
    (forall m, In m signed_a -> values_ok hs1 m /\ values_ok hs_m m) /\
    ~ agree_on (s2b "x-amz-meta") hs1 hs_m /\
    presented_params idH (with_headers rq_a hs1) cf_a = Some ap_a /\
    presented_params idH (with_headers rq_a hs_m) cf_a = Some ap_a /\
    spec_header_block hs1 signed_a <> spec_header_block hs_m signed_a /\
    snd (validate idH (with_headers rq_a hs_m) cf_a ex_pv) = Refused SignatureDoesNotMatch.
  Proof.
    assert (ND : NoDup signed_a).
    { repeat constructor; vm_compute; intuition discriminate. }
    assert (NO : Forall name_ok signed_a).
    { repeat constructor; vm_compute; intuition discriminate. }
    assert (VO : forall m, In m signed_a -> values_ok hs1 m /\ values_ok hs_m m).
    { intros m I. repeat (destruct I as [<-|I]; [split; repeat constructor; vm_compute; intuition discriminate|]).
      contradiction. }
    assert (NA : ~ agree_on (s2b "x-amz-meta") hs1 hs_m) by (vm_compute; discriminate).
    repeat (split; [assumption|]). split; [vm|]. split; [vm|]. split; [|vm].
    apply (C11_signed_value_change idH signed_a hs1 hs_m (s2b "x-amz-meta") [] [] [] [] ND NO VO); [|exact NA].
    vm_compute. tauto.
  Qed.

  (* redundant spaces in a signed value do not matter (C11_value_normal_form through C11_block_trimall) *)
  Example C11_signed_spacing_accepted :
    let hs2 := map (fun nv => if bytes_eqb (fst nv) (s2b "X-Amz-Meta") then (fst nv, s2b "  a b") else nv) hs1 in
    accepted (validate idH (with_headers rq_a hs2) cf_a ex_pv) = true.
  Proof. vm. Qed.

  (* C19: two Authorization headers, only one of them valid *)
  Definition junk : bytes * bytes :=
    (s2b "Authorization", authorization_value cred signed_a (s2b "00")).
  Definition junk2 : bytes * bytes :=
    (s2b "authorization", s2b "AWS4-HMAC-SHA512 whatever").
  Definition rq_first_valid : request := with_headers rq_a (hs_a ++ [auth_a; junk]).
  Definition rq_first_junk : request := with_headers rq_a (hs_a ++ [junk; auth_a]).
  Definition rq_first_valid2 : request := with_headers rq_a ((s2b "X-Dup", s2b "1") :: hs_a ++ [auth_a; junk2; junk; (s2b "X-Dup", s2b "2")]).

  Example C19_first_authorization_decides :
    accepted (validate idH rq_first_valid cf_a ex_pv) = true
    /\ snd (validate idH rq_first_junk cf_a ex_pv) = Refused SignatureDoesNotMatch
    /\ List.length (fst (validate idH rq_first_junk cf_a ex_pv)) = 1%nat.
  Proof. split; [vm|]. split; vm. Qed.

  Example C19_unique_acceptance_applied :
    rq_headers rq_first_valid2 <> rq_headers rq_a /\
    fst (validate idH rq_a cf_a ex_pv) = fst (validate idH rq_first_valid2 cf_a ex_pv)
    /\ same_verdict (snd (validate idH rq_a cf_a ex_pv)) (snd (validate idH rq_first_valid2 cf_a ex_pv)).
  Proof.
    split; [vm_compute; discriminate|].
    destruct (stages_ok rq_a cf_a) as [HF1 HC1]; [vm|vm|].
    destruct (stages_ok rq_first_valid2 cf_a) as [HF2 HC2]; [vm|vm|].
    destruct (C19_unique_acceptance idH rq_a rq_first_valid2 cf_a ex_pv _ _ _ _ _ _ _ _ HF1 HF2 HC1 HC2)
      as (_ & _ & A & B); [vm|vm|vm|]. split; assumption.
  Qed.

  (* the compact-date corollary applies to the same request *)
  Example C02_reference_signer_compact_hypotheses :
    first_raw (s2b "x-amz-date") (rq_headers rq0_a) = Some (render_compact ex_ts)
    /\ (0 <= ex_ts < 253402300800 * ns_per_s)%Z /\ (ex_ts mod ns_per_s = 0)%Z.
  Proof. split; [vm|]. split; [split; vm_compute; congruence|vm]. Qed.

  (* C02 (b), folded: body parameters respelled and permuted *)
  Definition cf_f : config := cfg rs1 true.
  Definition form_h : bytes * bytes := (s2b "Content-Type", s2b "application/x-www-form-urlencoded; charset=utf-8").
  Definition hs_f : list (bytes * bytes) :=
    [(s2b "Host", s2b "example.com"); (s2b "X-Amz-Date", s2b "20150830T123600Z"); form_h].
  Definition signed_f : list bytes := [s2b "content-type"; s2b "host"; s2b "x-amz-date"].
  Definition rq0_f : request := base (s2b "/f") (Some (s2b "x=1")) hs_f (s2b "b=2&a=+&x=0").
  Definition rq_f : request := signed_by rq0_f cf_f signed_f.
  Definition rq_f2 : request :=
    attach_authorization
      (base (s2b "/%66") (Some (s2b "x=1")) [form_h; (s2b "host", s2b "example.com"); (s2b "x-amz-date", s2b "20150830T123600Z")]
            (s2b "x=%30&a=%20&&b=2"))
      (authorization_value cred signed_f (spec_sign idH ex_key rq0_f cf_f cred ex_ts signed_f)).

  Lemma rq_f_same_logical : same_logical_folded rq_f rq_f2.
  Proof.
    constructor.
    - reflexivity.
    - vm.
    - vm.
    - unfold same_path. vm.
    - eapply same_pairs_check; vm.
    - apply same_header_values_check. vm.
    - vm.
    - unfold same_body_pairs.
      assert (E1 : spec_decoded_body rq_f = Some (s2b "b=2&a=+&x=0")) by vm.
      assert (E2 : spec_decoded_body rq_f2 = Some (s2b "x=%30&a=%20&&b=2")) by vm.
      rewrite E1, E2. eapply same_pairs_check; vm.
  Qed.

  Example C02_spelling_insensitive_folded_applied :
    spec_folded rq_f cf_f = true /\ rq_body rq_f <> rq_body rq_f2 /\
    (exists ap, presented_params idH rq_f cf_f = Some ap /\ presented_params idH rq_f2 cf_f = Some ap) /\
    fst (validate idH rq_f cf_f ex_pv) = fst (validate idH rq_f2 cf_f ex_pv) /\
    same_verdict (snd (validate idH rq_f cf_f ex_pv)) (snd (validate idH rq_f2 cf_f ex_pv)) /\
    accepted (validate idH rq_f cf_f ex_pv) = true /\ accepted (validate idH rq_f2 cf_f ex_pv) = true.
  Proof.
    split; [vm|]. split; [vm_compute; discriminate|].
    assert (HP : exists ap, presented_params idH rq_f cf_f = Some ap /\ presented_params idH rq_f2 cf_f = Some ap).
    { eexists. split; vm. }
    split; [exact HP|]. destruct HP as (ap & HP1 & HP2).
    cut (forall A B C : Prop, A /\ B -> C -> A /\ B /\ C); [intro K; apply K; [|split; vm]|tauto].
    apply (C02_spelling_insensitive_folded idH rq_f rq_f2 cf_f ex_pv ap rq_f_same_logical); [vm|exact HP1|exact HP2].
  Qed.

  (* C02 (a), (b) on the query-string carrier: X-Amz-* parameters, permuted and respelled *)
  Definition hs_q : list (bytes * bytes) := [(s2b "Host", s2b "example.com")].
  Definition q_unsigned : bytes :=
    s2b "X-Amz-Algorithm=AWS4-HMAC-SHA256&X-Amz-Credential=AKID%2F20150830%2Fus-east-1%2Fsvc%2Faws4_request&X-Amz-Date=20150830T123600Z&X-Amz-SignedHeaders=host&a=1+2".
  Definition sig_q : bytes :=
    spec_sign idH ex_key (base (s2b "/q") (Some q_unsigned) hs_q []) cf_none cred ex_ts [s2b "host"].
  Definition rq_q : request :=
    base (s2b "/q") (Some (q_unsigned ++ s2b "&X-Amz-Signature=" ++ sig_q)) hs_q [].
  Definition rq_q2 : request :=
    base (s2b "/%71")
         (Some (s2b "a=1%202&X-Amz-Signature=" ++ sig_q ++
                s2b "&X-Amz-SignedHeaders=host&X-Amz-Date=20150830T123600Z&&X-Amz-Credential=AKID%2f20150830%2fus-east-1%2fsvc%2faws4_request&X-Amz-Algorithm=AWS4-HMAC-SHA256"))
         [(s2b "HOST", s2b "example.com  ")] [].

  Lemma rq_q_same_logical : same_logical rq_q rq_q2.
  Proof.
    constructor.
    - reflexivity.
    - vm.
    - vm.
    - unfold same_path. vm.
    - eapply same_pairs_check; vm.
    - apply same_header_values_check. vm.
    - reflexivity.
    - reflexivity.
  Qed.

  Example C02_query_carrier_applied :
    ~ present (s2b "authorization") (rq_headers rq_q) /\
    (exists ap, presented_params idH rq_q cf_none = Some ap /\ presented_params idH rq_q2 cf_none = Some ap
                /\ ap_signature ap = sig_q) /\
    fst (validate idH rq_q cf_none ex_pv) = fst (validate idH rq_q2 cf_none ex_pv) /\
    same_verdict (snd (validate idH rq_q cf_none ex_pv)) (snd (validate idH rq_q2 cf_none ex_pv)) /\
    accepted (validate idH rq_q cf_none ex_pv) = true /\ accepted (validate idH rq_q2 cf_none ex_pv) = true.
  Proof.
    split; [intro P; apply P; vm|].
    assert (HP : exists ap, presented_params idH rq_q cf_none = Some ap /\ presented_params idH rq_q2 cf_none = Some ap
                            /\ ap_signature ap = sig_q).
    { eexists. split; [vm|]. split; vm. }
    split; [exact HP|]. destruct HP as (ap & HP1 & HP2 & _).
    cut (forall A B C : Prop, A /\ B -> C -> A /\ B /\ C); [intro K; apply K; [|split; vm]|tauto].
    apply (C02_spelling_insensitive idH rq_q rq_q2 cf_none ex_pv ap rq_q_same_logical eq_refl HP1 HP2).
  Qed.
End CompletenessExamples.

(* ========================================================================================== *)
(* 11. Known finding D1: the '+' guard of the C02 statements is necessary                     *)
(* ========================================================================================== *)

(* "/a+b": the specification canonical path is "/a%2Bb", the model's (and the library's) is
   "/a%20b"; a request signed by the reference signer satisfies every hypothesis of
   C02_reference_signer_accepted except the guard, and is refused *)
Theorem C02_plus_refuted :
  exists H rq0 cf pv cred ak ts signed key pr se d,
    let sig := spec_sign H key rq0 cf cred ts signed in
    let rq := attach_authorization rq0 (authorization_value cred signed sig) in
    let ap := {| ap_credential := cred; ap_signature := sig;
                 ap_token := option_map latin1
                               (option_map norm_value (first_raw (s2b "x-amz-security-token") (rq_headers rq0)));
                 ap_signed := signed; ap_timestamp := latin1 (norm_value d) |} in
    has_plus (rq_path rq0) = true /\
    spec_path (cf_s3 cf) (rq_path rq0) = Some (s2b "/a%2Bb") /\
    canon_path (cf_s3 cf) (rq_path rq0) = Some (s2b "/a%20b") /\
    (* all the other hypotheses *)
    request_failure rq0 cf = None /\
    ~ present (s2b "authorization") (rq_headers rq0) /\
    qget (s2b "X-Amz-Algorithm") (st_qm rq0 cf) = None /\
    spec_date (rq_headers rq0) = Some d /\
    parse_iso8601 (latin1 (norm_value d)) = Some ts /\
    plain cred /\
    split_on "/"%byte cred = [ak; yyyymmdd ts; cf_region cf; cf_service cf; s2b "aws4_request"] /\
    Forall plain signed /\ Forall (fun n => ~ In ";"%byte n) signed /\ sort_bytes signed = signed /\
    host_or_authority signed /\ ~ In (s2b "authorization") signed /\
    requirements_met (cf_reqs cf) (rq_headers rq) signed /\
    fresh ts (cf_now cf) /\ pv_ready pv = None /\
    pv_answer pv (expected_gsk cf ap ts) = AnsOk key pr se /\
    (* the parameters are presented and the signature is the reference signer's *)
    presented_params H rq cf = Some ap /\
    (* yet the request is refused *)
    validate H rq cf pv = ([expected_gsk cf ap ts], Refused SignatureDoesNotMatch).
Proof.
  exists SoundnessProofs.Examples.idH,
         (CompletenessExamples.base (s2b "/a+b") None
            [(s2b "Host", s2b "example.com"); (s2b "X-Amz-Date", s2b "20150830T123600Z")] []),
         (CompletenessExamples.cfg no_reqs false), SoundnessProofs.Examples.ex_pv, CompletenessExamples.cred,
         (s2b "AKID"), SoundnessProofs.Examples.ex_ts, [s2b "host"; s2b "x-amz-date"],
         SoundnessProofs.Examples.ex_key, (s2b "user"), (s2b "sess"), (s2b "20150830T123600Z").
  cbv zeta.
  split; [vm_compute; reflexivity|]. split; [vm_compute; reflexivity|]. split; [vm_compute; reflexivity|].
  split; [vm_compute; reflexivity|]. split; [intro P; apply P; vm_compute; reflexivity|].
  split; [vm_compute; reflexivity|]. split; [vm_compute; reflexivity|]. split; [vm_compute; reflexivity|].
  split; [vm_compute; reflexivity|]. split; [vm_compute; reflexivity|].
  split; [repeat constructor|]. split; [repeat constructor; apply lit_no; vm_compute; reflexivity|].
  split; [vm_compute; reflexivity|]. split; [left; vm_compute; tauto|].
  split; [vm_compute; intuition discriminate|].
  split; [apply C05_reqs_ok_raw; vm_compute; reflexivity|].
  split; [exact CompletenessExamples.fresh_now|]. split; [reflexivity|]. split; [reflexivity|].
  split; vm_compute; reflexivity.
Qed.

Print Assumptions C05_reqs_ok_raw.
Print Assumptions C05_accept_implies_requirements.
Print Assumptions C05_violation_refused_403.
Print Assumptions C05_requirements_pass.
Print Assumptions C05_requirement_extensional.
Print Assumptions C05_requirement_case_insensitive.
Print Assumptions C02_spec_signed_accepted.
Print Assumptions C02_accept_iff_spec_signature.
Print Assumptions C02_presented_params_intro.
Print Assumptions spec_path_same_path.
Print Assumptions C11_block_trimall.
Print Assumptions C02_spelling_insensitive_components.
Print Assumptions C02_spelling_insensitive_sts.
Print Assumptions C02_spelling_insensitive.
Print Assumptions C02_spelling_insensitive_accept.
Print Assumptions C02_presented_params_header_carrier.
Print Assumptions C02_spelling_insensitive_header_carrier.
Print Assumptions C02_same_components_same_verdict.
Print Assumptions C02_spelling_insensitive_folded_sts.
Print Assumptions C02_spelling_insensitive_folded.
Print Assumptions C02_reference_signer_accepted.
Print Assumptions C02_reference_signer_accepted_compact.
Print Assumptions C02_plus_refuted.
Print Assumptions C02_no_algorithm_parameter.
Print Assumptions C11_unsigned_no_influence.
Print Assumptions C11_unsigned_no_influence_check.
Print Assumptions C11_signed_injective.
Print Assumptions C11_signed_value_change.
Print Assumptions C11_signed_value_change_refused.
Print Assumptions C19_unique_acceptance.
Print Assumptions CompletenessExamples.C02_reference_signer_applied.
Print Assumptions CompletenessExamples.C11_signed_value_change_applied.
