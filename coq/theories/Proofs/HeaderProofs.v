(* C11: header value normal form and the canonical header block. *)
From Verif Require Import Base.Bytes Model.Headers Model.Validate Spec.PathSpec Spec.Signer.
From Coq Require Import Strings.Byte.
From Coq Require Import Lia.

Local Notation SP := (" "%byte).

(* ------------------------------------------------------------------------------------------ *)
(* trim_end, seen from the front                                                               *)

Lemma drop_while_snoc {A} (f : A -> bool) l c :
  drop_while f (l ++ [c]) =
  match drop_while f l with [] => if f c then [] else [c] | t => t ++ [c] end.
Proof.
  induction l as [|x r IH]; cbn.
  - destruct (f c); reflexivity.
  - destruct (f x); [exact IH | reflexivity].
Qed.

Lemma trim_end_cons f c r :
  trim_end f (c :: r) =
  match trim_end f r with [] => if f c then [] else [c] | t => c :: t end.
Proof.
  unfold trim_end. cbn [rev]. rewrite drop_while_snoc.
  destruct (drop_while f (rev r)) as [|x t].
  - cbn. destruct (f c); reflexivity.
  - rewrite rev_app_distr. cbn [rev app].
    destruct (rev t ++ [x]) eqn:E; [|reflexivity].
    exfalso. destruct (rev t); discriminate.
Qed.

Lemma length_drop_while {A} (f : A -> bool) l : length (drop_while f l) <= length l.
Proof.
  induction l as [|x r IH]; cbn; [lia|]. destruct (f x); cbn; lia.
Qed.

Lemma length_trim_end f s : length (trim_end f s) <= length s.
Proof.
  unfold trim_end. rewrite rev_length.
  etransitivity; [apply length_drop_while|]. rewrite rev_length. lia.
Qed.

(* ------------------------------------------------------------------------------------------ *)
(* split_on and the word list                                                                  *)

Definition words (v : bytes) : list bytes :=
  filter (fun p => negb (is_nil p)) (split_on SP v).

Lemma spec_trimall_words v : spec_trimall v = join [SP] (words v).
Proof. reflexivity. Qed.

(* first piece kept even when empty *)
Definition hd_words (v : bytes) : list bytes :=
  match split_on SP v with
  | [] => []
  | p :: ps => p :: filter (fun p => negb (is_nil p)) ps
  end.

Lemma split_on_not_nil sep s : split_on sep s <> [].
Proof.
  destruct s as [|c r]; cbn; [discriminate|].
  destruct (beqb c sep); [discriminate|].
  destruct (split_on sep r); discriminate.
Qed.

Lemma split_on_sp_cons r : split_on SP (SP :: r) = [] :: split_on SP r.
Proof. reflexivity. Qed.

Lemma split_on_ns_cons c r :
  is_space c = false ->
  split_on SP (c :: r) =
  match split_on SP r with [] => [[c]] | p :: ps => (c :: p) :: ps end.
Proof. unfold is_space. intro E. cbn. rewrite E. reflexivity. Qed.

Lemma join_cons_cons sep (c : byte) p l : join sep ((c :: p) :: l) = c :: join sep (p :: l).
Proof. destruct l; reflexivity. Qed.

Lemma join_words_nil v : join [SP] (words v) = [] -> words v = [].
Proof.
  unfold words.
  destruct (filter (fun p => negb (is_nil p)) (split_on SP v)) as [|w rest] eqn:E; [reflexivity|].
  assert (Hin : In w (filter (fun p => negb (is_nil p)) (split_on SP v))) by (rewrite E; left; reflexivity).
  apply filter_In in Hin. destruct Hin as [_ Hw].
  destruct w as [|c w]; [discriminate|].
  rewrite join_cons_cons. discriminate.
Qed.

Lemma match_cons (c : byte) t :
  match t with [] => [c] | b :: l => c :: b :: l end = c :: t.
Proof. destruct t; reflexivity. Qed.

(* the joint invariant of the loop and the piece list *)
Lemma nhv_inv v :
  trim_end is_space (nhv_loop v true) = join [SP] (words v) /\
  trim_end is_space (nhv_loop v false) = join [SP] (hd_words v).
Proof.
  induction v as [|c r [IH1 IH2]].
  - split; reflexivity.
  - cbn [nhv_loop]. destruct (is_space c) eqn:E.
    + assert (c = SP) by (apply beqb_eq; exact E). subst c. split.
      * rewrite IH1. reflexivity.
      * rewrite trim_end_cons, IH1. unfold hd_words. rewrite split_on_sp_cons.
        fold (words r).
        destruct (join [SP] (words r)) as [|x t] eqn:J.
        -- apply join_words_nil in J. rewrite J. reflexivity.
        -- destruct (words r) as [|w ws] eqn:W; [discriminate J|].
           rewrite <- J. reflexivity.
    + split.
      * rewrite trim_end_cons, IH2, E. unfold words, hd_words.
        rewrite (split_on_ns_cons c r E).
        destruct (split_on SP r) as [|p ps]; [reflexivity|].
        cbn [filter is_nil negb]. rewrite join_cons_cons.
        apply match_cons.
      * rewrite trim_end_cons, IH2, E. unfold hd_words.
        rewrite (split_on_ns_cons c r E).
        destruct (split_on SP r) as [|p ps]; [reflexivity|].
        cbn beta iota. rewrite join_cons_cons.
        apply match_cons.
Qed.

(* C11: the value normal form is "split on spaces, drop empties, join with one space" *)
Theorem C11_value_normal_form : forall v, norm_value v = spec_trimall v.
Proof. intro v. unfold norm_value. apply (nhv_inv v). Qed.

(* ------------------------------------------------------------------------------------------ *)
(* algebra of the word list                                                                    *)

Lemma split_on_app_sep sep a b :
  split_on sep (a ++ sep :: b) = split_on sep a ++ split_on sep b.
Proof.
  induction a as [|c a IH]; cbn.
  - rewrite beqb_refl. reflexivity.
  - destruct (beqb c sep).
    + rewrite IH. reflexivity.
    + rewrite IH. destruct (split_on sep a) eqn:E; [|reflexivity].
      exfalso. exact (split_on_not_nil _ _ E).
Qed.

Lemma words_app_sp a b : words (a ++ SP :: b) = words a ++ words b.
Proof. unfold words. rewrite split_on_app_sep, filter_app. reflexivity. Qed.

Lemma words_sp_cons b : words (SP :: b) = words b.
Proof. reflexivity. Qed.

Lemma words_repeat_app n b : words (repeat SP n ++ b) = words b.
Proof.
  induction n as [|n IH]; [reflexivity|].
  cbn [repeat app]. rewrite words_sp_cons. exact IH.
Qed.

Lemma words_app_repeat a m : words (a ++ repeat SP m) = words a.
Proof.
  destruct m as [|m]; cbn [repeat].
  - rewrite app_nil_r. reflexivity.
  - rewrite words_app_sp.
    rewrite <- (app_nil_r (repeat SP m)), words_repeat_app.
    cbn. rewrite app_nil_r. reflexivity.
Qed.

Definition nospace (w : bytes) : bool := forallb (fun c => negb (is_space c)) w.

Lemma split_on_nospace w : nospace w = true -> split_on SP w = [w].
Proof.
  induction w as [|c w IH]; [reflexivity|].
  unfold nospace. cbn [forallb]. intro H. apply andb_true_iff in H. destruct H as [Hc Hw].
  apply negb_true_iff in Hc. rewrite (split_on_ns_cons c w Hc), (IH Hw). reflexivity.
Qed.

Lemma split_on_pieces_nospace v : Forall (fun p => nospace p = true) (split_on SP v).
Proof.
  induction v as [|c r IH].
  - repeat constructor.
  - destruct (is_space c) eqn:E.
    + assert (c = SP) by (apply beqb_eq; exact E). subst c.
      rewrite split_on_sp_cons. constructor; [reflexivity | exact IH].
    + rewrite (split_on_ns_cons c r E).
      destruct (split_on SP r) as [|p ps].
      * constructor; [|constructor]. unfold nospace. cbn. rewrite E. reflexivity.
      * inversion IH; subst. constructor; [|assumption].
        unfold nospace in *. cbn [forallb]. rewrite E. cbn. assumption.
Qed.

Definition good (w : bytes) : Prop := w <> [] /\ nospace w = true.

Lemma words_good v : Forall good (words v).
Proof.
  apply Forall_forall. intros w Hin. unfold words in Hin.
  apply filter_In in Hin. destruct Hin as [Hin Hw]. split.
  - destruct w; [discriminate | discriminate].
  - pose proof (split_on_pieces_nospace v) as F. rewrite Forall_forall in F. apply F, Hin.
Qed.

Lemma words_single w : good w -> words w = [w].
Proof.
  intros [Hne Hns]. unfold words. rewrite (split_on_nospace w Hns).
  destruct w; [congruence | reflexivity].
Qed.

Lemma words_join ws : Forall good ws -> words (join [SP] ws) = ws.
Proof.
  induction ws as [|w rest IH]; intro F.
  - reflexivity.
  - inversion F as [|? ? Hw Hrest]; subst.
    destruct rest as [|w2 rest].
    + cbn [join]. apply words_single, Hw.
    + change (join [SP] (w :: w2 :: rest)) with (w ++ SP :: join [SP] (w2 :: rest)).
      rewrite words_app_sp, (words_single w Hw), (IH Hrest). reflexivity.
Qed.

Theorem norm_value_idempotent : forall v, norm_value (norm_value v) = norm_value v.
Proof.
  intro v. rewrite !C11_value_normal_form, !spec_trimall_words.
  rewrite words_join; [reflexivity | apply words_good].
Qed.

(* insensitive to redundant spaces: padding and doubling spaces does not change it *)
Theorem norm_value_pad : forall v n m, norm_value (repeat " "%byte n ++ v ++ repeat " "%byte m) = norm_value v.
Proof.
  intros v n m. rewrite !C11_value_normal_form, !spec_trimall_words.
  rewrite words_repeat_app, words_app_repeat. reflexivity.
Qed.

Theorem norm_value_space_run : forall a b n, norm_value (a ++ repeat " "%byte (S n) ++ b) = norm_value (a ++ " "%byte :: b).
Proof.
  intros a b n. rewrite !C11_value_normal_form, !spec_trimall_words.
  cbn [repeat app]. rewrite !words_app_sp, words_repeat_app. reflexivity.
Qed.

(* the result is never longer than the input *)
Lemma length_nhv_loop v : forall l, length (nhv_loop v l) <= length v.
Proof.
  induction v as [|c r IH]; intro l; cbn; [lia|].
  pose proof (IH true). pose proof (IH false).
  destruct (is_space c); [destruct l|]; cbn; lia.
Qed.

Lemma length_norm_value v : length (norm_value v) <= length v.
Proof.
  unfold norm_value. etransitivity; [apply length_trim_end | apply length_nhv_loop].
Qed.

(* no leading/trailing space, no double space in the result *)
Theorem norm_value_shape : forall v,
  (forall r, norm_value v <> " "%byte :: r) /\ (forall r, norm_value v <> r ++ [" "%byte])
  /\ (forall a b, norm_value v <> a ++ " "%byte :: " "%byte :: b).
Proof.
  intro v. repeat split.
  - intros r E.
    pose proof (norm_value_idempotent v) as I. rewrite E in I.
    pose proof (norm_value_pad r 1 0) as P. cbn [repeat app] in P. rewrite app_nil_r in P.
    rewrite P in I.
    pose proof (length_norm_value r) as L. rewrite I in L. cbn in L. lia.
  - intros r E.
    pose proof (norm_value_idempotent v) as I. rewrite E in I.
    pose proof (norm_value_pad r 0 1) as P. cbn [repeat app] in P.
    rewrite P in I.
    pose proof (length_norm_value r) as L. rewrite I in L. rewrite app_length in L. cbn in L. lia.
  - intros a b E.
    pose proof (norm_value_idempotent v) as I. rewrite E in I.
    pose proof (norm_value_space_run a b 1) as P. cbn [repeat app] in P.
    rewrite P in I.
    pose proof (length_norm_value (a ++ SP :: b)) as L. rewrite I in L.
    rewrite !app_length in L. cbn in L. lia.
Qed.

(* ------------------------------------------------------------------------------------------ *)
(* the normalised header map                                                                   *)

Lemma bytes_eqb_sym a b : bytes_eqb a b = bytes_eqb b a.
Proof.
  destruct (bytes_eqb a b) eqn:E1; destruct (bytes_eqb b a) eqn:E2; try reflexivity.
  - apply bytes_eqb_eq in E1. subst. rewrite bytes_eqb_refl in E2. discriminate.
  - apply bytes_eqb_eq in E2. subst. rewrite bytes_eqb_refl in E1. discriminate.
Qed.

Lemma hget_push n k v m :
  hget n (hmap_push k v m) =
  if bytes_eqb n k
  then Some (match hget n m with Some ws => ws ++ [v] | None => [v] end)
  else hget n m.
Proof.
  unfold hget. induction m as [|[k' vs] r IH]; cbn.
  - destruct (bytes_eqb n k); reflexivity.
  - destruct (bytes_eqb k k') eqn:E1; cbn.
    + apply bytes_eqb_eq in E1. subst k'. destruct (bytes_eqb n k); reflexivity.
    + rewrite IH.
      destruct (bytes_eqb n k') eqn:E2; destruct (bytes_eqb n k) eqn:E3; try reflexivity.
      apply bytes_eqb_eq in E2, E3. subst. rewrite bytes_eqb_refl in E1. discriminate.
Qed.

Lemma normalize_headers_snoc hs x :
  normalize_headers (hs ++ [x]) =
  hmap_push (lower (fst x)) (norm_value (snd x)) (normalize_headers hs).
Proof. unfold normalize_headers. rewrite fold_left_app. reflexivity. Qed.

Lemma values_of_app n a b : values_of n (a ++ b) = values_of n a ++ values_of n b.
Proof. unfold values_of. rewrite filter_app, map_app. reflexivity. Qed.

Lemma values_of_single n x :
  values_of n [x] = if bytes_eqb n (lower (fst x)) then [snd x] else [].
Proof.
  unfold values_of. cbn [filter]. rewrite (bytes_eqb_sym (lower (fst x)) n).
  destruct (bytes_eqb n (lower (fst x))); reflexivity.
Qed.

(* the normalised header map: lookup of a name gives the normalised values of that (case-folded)
   name, in arrival order *)
Theorem hget_normalize_headers : forall hs n,
  hget n (normalize_headers hs) =
  match values_of n hs with [] => None | vs => Some (map norm_value vs) end.
Proof.
  intros hs n. induction hs as [|x hs IH] using rev_ind.
  - reflexivity.
  - rewrite normalize_headers_snoc, hget_push, IH, values_of_app, values_of_single.
    destruct (bytes_eqb n (lower (fst x))); cbn [map].
    + destruct (values_of n hs) as [|v0 vs]; [reflexivity|].
      cbn [app map]. rewrite map_app. reflexivity.
    + rewrite app_nil_r. reflexivity.
Qed.

Lemma flat_map_ext_in {A B} (f g : A -> list B) l :
  (forall x, In x l -> f x = g x) -> flat_map f l = flat_map g l.
Proof.
  induction l as [|x r IH]; intro H; cbn; [reflexivity|].
  rewrite (H x (or_introl eq_refl)), IH; [reflexivity|].
  intros y Hy. apply H. right. exact Hy.
Qed.

(* C11: the header block of the canonical request is the specification's *)
Theorem C11_block_is_spec : forall hs signed, header_lines (normalize_headers hs) signed = spec_header_block hs signed.
Proof.
  intros hs signed. unfold header_lines, spec_header_block.
  apply flat_map_ext. intro n. rewrite hget_normalize_headers.
  destruct (values_of n hs) as [|v vs]; [reflexivity|].
  cbn [map]. rewrite C11_value_normal_form.
  rewrite (map_ext _ _ C11_value_normal_form). reflexivity.
Qed.

(* header-name case and cross-name order do not matter *)
Theorem values_of_lower_name : forall n hs, values_of n (map (fun nv => (lower (fst nv), snd nv)) hs) = values_of n hs.
Proof.
  intros n hs. unfold values_of. induction hs as [|x r IH]; [reflexivity|].
  cbn [map filter fst snd]. rewrite lower_idem.
  destruct (bytes_eqb (lower (fst x)) n); cbn [map snd]; rewrite IH; reflexivity.
Qed.

Theorem C11_block_per_name_order : forall hs hs' signed,
  (forall n, values_of n hs = values_of n hs') -> spec_header_block hs signed = spec_header_block hs' signed.
Proof.
  intros hs hs' signed H. unfold spec_header_block.
  apply flat_map_ext. intro n. rewrite H. reflexivity.
Qed.

Theorem C11_block_name_case : forall hs hs' signed,
  map (fun nv => (lower (fst nv), snd nv)) hs = map (fun nv => (lower (fst nv), snd nv)) hs' ->
  spec_header_block hs signed = spec_header_block hs' signed.
Proof.
  intros hs hs' signed H. apply C11_block_per_name_order. intro n.
  rewrite <- (values_of_lower_name n hs), <- (values_of_lower_name n hs'), H. reflexivity.
Qed.

Lemma values_of_none n hs :
  (forall nv, In nv hs -> lower (fst nv) <> n) -> values_of n hs = [].
Proof.
  unfold values_of. induction hs as [|x r IH]; intro H; [reflexivity|].
  cbn [filter].
  destruct (bytes_eqb (lower (fst x)) n) eqn:E.
  - apply bytes_eqb_eq in E. exfalso. exact (H x (or_introl eq_refl) E).
  - apply IH. intros nv Hin. apply H. right. exact Hin.
Qed.

(* unsigned headers have no influence on the block.  ([hs] is unused in the statement as
   specified, so its type has to be given explicitly for the statement to elaborate.) *)
Theorem C11_block_unsigned : forall (hs : list (bytes * bytes)) extra signed,
  (forall nv, In nv extra -> ~ In (lower (fst nv)) signed) ->
  forall pre post, spec_header_block (pre ++ extra ++ post) signed = spec_header_block (pre ++ post) signed.
Proof.
  intros hs extra signed H pre post. unfold spec_header_block.
  apply flat_map_ext_in. intros n Hn.
  rewrite !values_of_app.
  rewrite (values_of_none n extra); [reflexivity|].
  intros nv Hin E. apply (H nv Hin). rewrite E. exact Hn.
Qed.
