(* C17: theorems over the log / error-construction / rendering site tables regenerated from /repo/src *)
From Coq Require Import String List Bool Arith Lia.
From Verif Require Import Base.Bytes Base.Hex Crypto.Hmac Generated.SrcConsts Model.Errors Model.Validate
  Model.Leakage Spec.Audit.
Import ListNotations.
Local Open Scope string_scope.

(* ---------------------------------------------------------------------------------------- C17 *)

Definition log_site_clean (s : string * string * list string) : bool :=
  let '(_, lvl, ids) := s in negb (level_in_scope lvl) || site_idents_clean ids.

Theorem C17_log_sites : forallb log_site_clean src_log_sites = true.
Proof. vm_compute. reflexivity. Qed.

Definition error_site_clean (s : string * string * list string) : bool :=
  let '(_, _, ids) := s in site_idents_clean ids.

Theorem C17_error_sites : forallb error_site_clean src_error_sites = true.
Proof. vm_compute. reflexivity. Qed.

(* Debug and Display of the five key types are constant literals (the type's name), for every
   key type, and no key type derives Debug/Display *)
Definition rendering_constant (r : string * string * option string) : bool :=
  let '(ty, _, body) := r in match body with Some lit => String.eqb lit ty | None => false end.

Definition has_rendering (ty tr : string) : bool :=
  existsb (fun r => let '(ty', tr', _) := r in String.eqb ty ty' && String.eqb tr tr') src_key_renderings.

Theorem C17_renderings_constant :
  forallb rendering_constant src_key_renderings = true
  /\ forallb (fun ty => has_rendering ty "Debug" && has_rendering ty "Display") key_types = true
  /\ forallb (fun d => negb (mem_str (snd d) ["Debug"; "Display"])) src_key_derives = true.
Proof. vm_compute. repeat split. Qed.

(* the logging that does mention the expected signature is at trace level only *)
Theorem C17_expected_signature_only_at_trace :
  forallb (fun s => let '(_, lvl, ids) := s in
                    negb (mem_str "expected_signature" ids) || String.eqb lvl "trace") src_log_sites = true.
Proof. vm_compute. reflexivity. Qed.

