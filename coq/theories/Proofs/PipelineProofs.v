(* C08 (totality of the pipeline) and C13 (error precedence and taxonomy) for the model of
   Model/Validate.v.

   Layout
     1. helpers
     2. invariants of the two maps of a canonical request (normalised query values can be
        unescaped, no value vector is empty)
     3. stage results of from_request_parts written on the raw request, and the stage equation
     4. stage predicates for the authentication parameters, and the stage equations
     5. prevalidate / string_to_sign / validate_signature
     6. first_failure, C13_precedence, the dominance chain, taxonomy, reachable kinds
     7. C08
   Every theorem is for an arbitrary hash function [H]. *)
From Coq Require Import List Bool NArith ZArith Lia.
From Coq Require Import Strings.Byte.
From Verif Require Import Base.Bytes Base.Hex Base.Utf8 Crypto.Hmac Time.Calendar Time.Iso8601 Time.Render.
From Verif Require Import Generated.SrcConsts Model.Errors Model.Uri Model.Query Model.Headers Model.Labels
  Model.Requirements Model.Validate Spec.PathSpec Spec.QuerySpec Spec.Signer Spec.RequestSpec.
From Verif Require Import Proofs.QueryProofs Proofs.HeaderProofs.
From Verif Require Proofs.KeyProofs Crypto.Sha256.

(* ------------------------------------------------------------------------------------------ *)
(* 1. helpers                                                                                  *)

Notation is_nil := Query.is_nil.

Definition odflt {A} (d : A) (o : option A) : A := match o with Some x => x | None => d end.
Definition is_none {A} (o : option A) : bool := match o with Some _ => false | None => true end.
Definition is_some {A} (o : option A) : bool := negb (is_none o).

Lemma is_none_true {A} (o : option A) : is_none o = true <-> o = None.
Proof. destruct o; cbn; split; congruence. Qed.

Lemma is_none_false {A} (o : option A) : is_none o = false <-> exists x, o = Some x.
Proof. destruct o; cbn; split; try congruence; eauto. intros [x E]; discriminate. Qed.

Lemma option_map_not_none {A B} (f : A -> B) (o : option A) : option_map f o <> None <-> o <> None.
Proof. destruct o; cbn; split; congruence. Qed.

(* ------------------------------------------------------------------------------------------ *)
(* 2. invariants of the maps                                                                   *)

(* [unescape] succeeds: the documented panic of unescape_uri_encoding cannot happen on [n] *)
Definition unesc_ok (n : bytes) : Prop := unescape n <> None.

Lemma unescape_unreserved c r :
  unreserved c = true -> unescape (c :: r) = option_map (app (latin1_char c)) (unescape r).
Proof.
  intro U. rewrite q_unreserved_is_spec in U. apply q_unreserved_not_pct in U.
  cbn [unescape]. rewrite U. reflexivity.
Qed.

Lemma unescape_pct v r : unescape (pct v ++ r) = option_map (app (latin1_char v)) (unescape r).
Proof. destruct v; reflexivity. Qed.

Lemma unescape_pct20 r :
  unescape (s2b "%20" ++ r) = option_map (app (latin1_char " "%byte)) (unescape r).
Proof. reflexivity. Qed.

(* the output of normalize_uri_element is always accepted by unescape_uri_encoding *)
Theorem normalize_elem_unescape : forall s n, normalize_elem s = Some n -> unesc_ok n.
Proof.
  intro s. pattern s. apply q_bytes_ind3. clear s. intros s IH n Hn.
  unfold unesc_ok.
  destruct s as [|c r]; [cbn in Hn; injection Hn as <-; cbn; discriminate|].
  cbn [normalize_elem] in Hn.
  destruct (unreserved c) eqn:U.
  { destruct (normalize_elem r) as [n'|] eqn:E; cbn in Hn; [|discriminate]. injection Hn as <-.
    rewrite (unescape_unreserved _ _ U). apply option_map_not_none. eapply IH; [|exact E]. cbn; lia. }
  destruct (beqb c "%"%byte) eqn:P.
  { destruct r as [|h [|l r']]; try discriminate.
    destruct (unhex2 h l) as [v|]; [|discriminate].
    destruct (normalize_elem r') as [n'|] eqn:E; cbn in Hn; [|discriminate]. injection Hn as <-.
    assert (G : unesc_ok n') by (eapply IH; [|exact E]; cbn; lia).
    destruct (unreserved v) eqn:V.
    - change ([v] ++ n') with (v :: n'). rewrite (unescape_unreserved _ _ V).
      apply option_map_not_none. exact G.
    - rewrite unescape_pct. apply option_map_not_none. exact G. }
  destruct (beqb c "+"%byte) eqn:Q.
  { destruct (normalize_elem r) as [n'|] eqn:E; cbn in Hn; [|discriminate]. injection Hn as <-.
    change (unescape (s2b "%20" ++ n') <> None).
    rewrite unescape_pct20. apply option_map_not_none. eapply IH; [|exact E]. cbn; lia. }
  destruct (normalize_elem r) as [n'|] eqn:E; cbn in Hn; [|discriminate]. injection Hn as <-.
  change (unescape (pct c ++ n') <> None).
  rewrite unescape_pct. apply option_map_not_none. eapply IH; [|exact E]. cbn; lia.
Qed.

Definition vals_good (vs : list bytes) : Prop := vs <> [] /\ Forall unesc_ok vs.

(* every value vector is non-empty and holds normalised elements *)
Definition qm_good (m : qmap) : Prop := Forall (fun kv => vals_good (snd kv)) m.

Lemma qmap_push_good k v m : unesc_ok v -> qm_good m -> qm_good (qmap_push k v m).
Proof.
  intros Hv. induction m as [|[k' vs] r IH]; intro G; cbn [qmap_push].
  - constructor; [|constructor]. split; [discriminate|]. constructor; [exact Hv|constructor].
  - inversion G as [|x l [G1 G2] G3]; subst. cbn [snd] in *.
    destruct (bytes_eqb k k').
    + constructor; [|exact G3]. split; cbn [snd].
      * destruct vs; discriminate.
      * apply Forall_app. split; [exact G2|]. constructor; [exact Hv|constructor].
    + constructor; [split; assumption|]. apply IH. exact G3.
Qed.

Lemma parse_component_good c k v : parse_component c = Some (k, v) -> unesc_ok v.
Proof.
  unfold parse_component.
  set (kv := match split_once "="%byte c with Some kv => kv | None => (c, []) end).
  destruct (normalize_elem (fst kv)) as [nk|]; [|discriminate].
  destruct (normalize_elem (snd kv)) as [nv|] eqn:Ev; [|discriminate].
  intro E. inversion E; subst. eapply normalize_elem_unescape. exact Ev.
Qed.

Lemma parse_components_good cs : forall m m',
  qm_good m -> parse_components cs m = Some m' -> qm_good m'.
Proof.
  induction cs as [|c r IH]; intros m m' G; cbn [parse_components].
  - intro E. injection E as <-. exact G.
  - destruct (is_nil c); [intro E; eapply IH; [exact G|exact E]|].
    destruct (parse_component c) as [[k v]|] eqn:Ec; [|discriminate].
    intro E. eapply IH; [|exact E]. apply qmap_push_good; [|exact G]. eapply parse_component_good; exact Ec.
Qed.

Theorem query_map_good q m : query_map q = Some m -> qm_good m.
Proof.
  unfold query_map. destruct (is_nil q).
  - intro E; injection E as <-. constructor.
  - apply parse_components_good. constructor.
Qed.

Lemma push_values_good k vs : forall m,
  Forall unesc_ok vs -> qm_good m -> qm_good (fold_left (fun acc v => qmap_push k v acc) vs m).
Proof.
  induction vs as [|v vs IH]; intros m Hv G; cbn [fold_left]; [exact G|].
  inversion Hv; subst. apply IH; [assumption|]. apply qmap_push_good; assumption.
Qed.

Theorem qmap_extend_good m b : qm_good m -> qm_good b -> qm_good (qmap_extend m b).
Proof.
  unfold qmap_extend. revert m. induction b as [|[k vs] b IH]; intros m Gm Gb; cbn [fold_left]; [exact Gm|].
  inversion Gb as [|x l [_ G2] G3]; subst. apply IH; [|exact G3].
  cbn [fst snd] in *. apply push_values_good; assumption.
Qed.

Lemma qget_good k m vs : qm_good m -> qget k m = Some vs -> vals_good vs.
Proof.
  unfold qget. induction m as [|[k' ws] r IH]; intros G E; cbn [assoc] in E; [discriminate|].
  inversion G; subst. destruct (bytes_eqb k k').
  - injection E as <-. assumption.
  - apply IH; assumption.
Qed.

Lemma qfirst_good k m v : qm_good m -> first_value (qget k m) = Some v -> unesc_ok v.
Proof.
  intros G E. destruct (qget k m) as [[|w ws]|] eqn:Eq; cbn in E; try discriminate.
  injection E as <-. destruct (qget_good _ _ _ G Eq) as [_ F]. inversion F; assumption.
Qed.

(* no header lookup yields an empty value vector *)
Definition hm_good (m : hmap) : Prop := forall k, hget k m <> Some [].

Theorem normalize_headers_good hs : hm_good (normalize_headers hs).
Proof.
  intro k. rewrite hget_normalize_headers. destruct (values_of k hs); cbn; discriminate.
Qed.

Definition cr_good (cr : canonical) : Prop := hm_good (cr_headers cr) /\ qm_good (cr_query cr).

(* ------------------------------------------------------------------------------------------ *)
(* 3. from_request_parts                                                                       *)

Definition url_query (rq : request) : bytes := match rq_query rq with Some q => q | None => [] end.

(* stage results, on the raw request *)
Definition st_path (rq : request) (cf : config) : option bytes := canon_path (cf_s3 cf) (rq_path rq).
Definition st_url_qm (rq : request) : option qmap := query_map (url_query rq).
Definition st_body_qm (rq : request) : option qmap :=
  match spec_decoded_body rq with Some d => query_map d | None => None end.
Definition st_qm (rq : request) (cf : config) : qmap :=
  if spec_folded rq cf then qmap_extend (odflt [] (st_url_qm rq)) (odflt [] (st_body_qm rq))
  else odflt [] (st_url_qm rq).
Definition st_folded_uri (rq : request) (cf : config) : bytes :=
  let qs := canon_query (st_qm rq cf) in
  odflt [] (st_path rq cf) ++ (if is_nil qs then [] else "?"%byte :: qs).
Definition uri_too_long (rq : request) (cf : config) : bool :=
  N.ltb max_uri_len (N.of_nat (List.length (st_folded_uri rq cf))).
Definition st_parts (rq : request) (cf : config) : parts :=
  {| pt_method := rq_method rq;
     pt_uri := if spec_folded rq cf then st_folded_uri rq cf else rq_uri rq;
     pt_version := rq_version rq; pt_headers := rq_headers rq |}.

Lemma form_type_src : form_type = src_canonical_APPLICATION_X_WWW_FORM_URLENCODED.
Proof. reflexivity. Qed.

Section PIPE.
  Variable H : bytes -> bytes.

  Definition st_canonical (rq : request) (cf : config) : canonical :=
    {| cr_method := rq_method rq; cr_path := odflt [] (st_path rq cf); cr_query := st_qm rq cf;
       cr_headers := normalize_headers (rq_headers rq);
       cr_body_sha256 := sha256_hex H (spec_payload rq cf) |}.

  (* the failure of from_request_parts, as a flat cascade *)
  Definition request_failure (rq : request) (cf : config) : option kind :=
    if is_none (st_path rq cf) then Some InvalidURIPath
    else if is_none (st_url_qm rq) then Some MalformedQueryString
    else if spec_folded rq cf && is_none (spec_decoded_body rq) then Some InvalidBodyEncoding
    else if spec_folded rq cf && is_none (st_body_qm rq) then Some MalformedQueryString
    else if spec_folded rq cf && uri_too_long rq cf then Some MalformedQueryString
    else None.

  Theorem from_request_parts_eq : forall rq cf,
    from_request_parts H rq cf =
    match request_failure rq cf with
    | Some k => Err k
    | None => Ok (st_canonical rq cf, st_parts rq cf, spec_payload rq cf)
    end.
  Proof.
    intros rq cf.
    unfold from_request_parts, request_failure, st_canonical, st_parts, st_folded_uri, uri_too_long,
      st_folded_uri, st_qm, st_body_qm, st_url_qm, st_path, spec_payload, spec_folded, spec_decoded_body,
      url_query.
    rewrite form_type_src.
    destruct (canon_path (cf_s3 cf) (rq_path rq)) as [path|]; cbn [of_opt bind is_none odflt]; [|reflexivity].
    destruct (query_map match rq_query rq with Some q => q | None => [] end) as [qm|];
      cbn [of_opt bind is_none odflt]; [|reflexivity].
    destruct (cf_fold cf); cbn [andb]; [|reflexivity].
    destruct (content_type_charset (rq_headers rq)) as [[ct cs]|]; [|reflexivity].
    destruct (bytes_eqb ct src_canonical_APPLICATION_X_WWW_FORM_URLENCODED); cbn [andb]; [|reflexivity].
    assert (TAIL : forall d : option bytes,
      (decoded <- of_opt InvalidBodyEncoding d ;;
       bm <- of_opt MalformedQueryString (query_map decoded) ;;
       (let merged := qmap_extend qm bm in
        let qs := canon_query merged in
        let pq := path ++ (if is_nil qs then [] else "?"%byte :: qs) in
        if N.ltb max_uri_len (N.of_nat (List.length pq)) then Err MalformedQueryString
        else Ok (merged, {| pt_method := rq_method rq; pt_uri := pq; pt_version := rq_version rq;
                            pt_headers := rq_headers rq |}, @nil byte))) =
      (if is_none d then Err InvalidBodyEncoding
       else if is_none (match d with Some d0 => query_map d0 | None => None end) then Err MalformedQueryString
       else let pq := path ++ (if is_nil (canon_query (qmap_extend qm (odflt [] (match d with Some d0 => query_map d0 | None => None end))))
                               then [] else "?"%byte :: canon_query (qmap_extend qm (odflt [] (match d with Some d0 => query_map d0 | None => None end)))) in
            if N.ltb max_uri_len (N.of_nat (List.length pq)) then Err MalformedQueryString
            else Ok (qmap_extend qm (odflt [] (match d with Some d0 => query_map d0 | None => None end)),
                     {| pt_method := rq_method rq; pt_uri := pq; pt_version := rq_version rq;
                        pt_headers := rq_headers rq |}, @nil byte))).
    { intros [d|]; cbn [of_opt bind is_none]; [|reflexivity].
      destruct (query_map d) as [bm|]; cbn [of_opt bind is_none odflt]; reflexivity. }
    destruct cs as [cs|].
    - destruct (classify_label (flat_map latin1_char cs)); cbn [bind].
      + rewrite TAIL. destruct (if utf8_valid (rq_body rq) then Some (rq_body rq) else None) as [d|];
          cbn [is_none]; [|reflexivity].
        destruct (query_map d); cbn [is_none odflt]; [|reflexivity].
        destruct (N.ltb _ _); reflexivity.
      + rewrite TAIL. destruct (rq_decoded rq) as [d|]; cbn [is_none]; [|reflexivity].
        destruct (query_map d); cbn [is_none odflt]; [|reflexivity].
        destruct (N.ltb _ _); reflexivity.
      + reflexivity.
    - cbn [bind]. rewrite TAIL.
      destruct (if utf8_valid (rq_body rq) then Some (rq_body rq) else None) as [d|];
        cbn [is_none]; [|reflexivity].
      destruct (query_map d); cbn [is_none odflt]; [|reflexivity].
      destruct (N.ltb _ _); reflexivity.
  Qed.

  (* the canonical request that from_request_parts produces satisfies the map invariants *)
  Theorem from_request_parts_good : forall rq cf cr pts body,
    from_request_parts H rq cf = Ok (cr, pts, body) -> cr_good cr.
  Proof.
    intros rq cf cr pts body E. rewrite from_request_parts_eq in E.
    unfold request_failure in E.
    destruct (is_none (st_path rq cf)); [discriminate|].
    destruct (is_none (st_url_qm rq)) eqn:E1; [discriminate|].
    destruct (spec_folded rq cf && is_none (spec_decoded_body rq)); [discriminate|].
    destruct (spec_folded rq cf && is_none (st_body_qm rq)) eqn:E2; [discriminate|].
    destruct (spec_folded rq cf && uri_too_long rq cf); [discriminate|].
    injection E as <- _ _. split; cbn [cr_headers cr_query st_canonical].
    - apply normalize_headers_good.
    - apply is_none_false in E1. destruct E1 as [qm E1]. unfold st_qm. rewrite E1. cbn [odflt].
      pose proof (query_map_good _ _ E1) as G1.
      destruct (spec_folded rq cf); [|exact G1]. cbn [andb] in E2.
      apply is_none_false in E2. destruct E2 as [bm E2]. rewrite E2. cbn [odflt].
      apply qmap_extend_good; [exact G1|]. unfold st_body_qm in E2.
      destruct (spec_decoded_body rq); [|discriminate]. eapply query_map_good; exact E2.
  Qed.
End PIPE.

(* ------------------------------------------------------------------------------------------ *)
(* 4. authentication parameters: stage predicates and the selected values                      *)

Definition auth_values (cr : canonical) : option (list bytes) :=
  hget src_canonical_AUTHORIZATION (cr_headers cr).
Definition alg_values (cr : canonical) : option (list bytes) :=
  qget src_canonical_X_AMZ_ALGORITHM (cr_query cr).
Definition has_auth (cr : canonical) : bool := is_some (auth_values cr).
Definition has_alg (cr : canonical) : bool := is_some (alg_values cr).
Definition auth_value (cr : canonical) : bytes := odflt [] (first_value (auth_values cr)).
Definition alg_value (cr : canonical) : bytes := odflt [] (first_value (alg_values cr)).

(* "<algorithm> <parameters>" *)
Definition hdr_split (a : bytes) : bytes * bytes :=
  match split_once " "%byte (trim_ascii a) with Some ap => ap | None => (trim_ascii a, []) end.
Definition hdr_pieces (a : bytes) : list bytes := split_on ","%byte (snd (hdr_split a)).
(* a non-empty piece without '=' *)
Definition bad_piece (p : bytes) : bool :=
  negb (is_nil (trim_ascii p)) && is_none (split_once "="%byte (trim_ascii p)).
Definition hdr_pmap (a : bytes) : list (bytes * bytes) :=
  match parse_auth_params (hdr_pieces a) [] with Ok pm => pm | _ => [] end.
Definition hdr_date (cr : canonical) : option bytes :=
  match hget src_canonical_X_AMZ_DATE_LOWER (cr_headers cr) with
  | Some vs => first_value (Some vs)
  | None => first_value (hget src_canonical_DATE (cr_headers cr))
  end.
Definition hdr_token (cr : canonical) : option bytes :=
  first_value (hget src_canonical_X_AMZ_SECURITY_TOKEN_LOWER (cr_headers cr)).

Definition bad_alg_header (a : bytes) : bool :=
  negb (bytes_eqb (fst (hdr_split a)) src_canonical_AWS4_HMAC_SHA256_BYTES).
Definition bad_param_syntax (a : bytes) : bool := existsb bad_piece (hdr_pieces a).
Definition hdr_missing (cr : canonical) (a : bytes) : bool :=
  is_none (assoc src_canonical_CREDENTIAL (hdr_pmap a))
  || is_none (assoc src_canonical_SIGNATURE (hdr_pmap a))
  || is_none (assoc src_canonical_SIGNED_HEADERS (hdr_pmap a))
  || is_none (hdr_date cr).

(* the parameters selected on the header carrier (total: absent values default to empty) *)
Definition sel_header (cr : canonical) (a : bytes) : auth_params :=
  {| ap_credential := latin1 (odflt [] (assoc src_canonical_CREDENTIAL (hdr_pmap a)));
     ap_signature := latin1 (odflt [] (assoc src_canonical_SIGNATURE (hdr_pmap a)));
     ap_token := option_map latin1 (hdr_token cr);
     ap_signed := sort_bytes (map latin1 (split_on ";"%byte
                    (odflt [] (assoc src_canonical_SIGNED_HEADERS (hdr_pmap a)))));
     ap_timestamp := latin1 (odflt [] (hdr_date cr)) |}.

Lemma parse_auth_params_cases ps : forall m,
  if existsb bad_piece ps then parse_auth_params ps m = Err IncompleteSignature
  else exists pm, parse_auth_params ps m = Ok pm.
Proof.
  induction ps as [|p r IH]; intro m; cbn [existsb parse_auth_params].
  - exists m. reflexivity.
  - unfold bad_piece at 1. destruct (is_nil (trim_ascii p)); cbn [negb andb orb]; [apply IH|].
    destruct (split_once "="%byte (trim_ascii p)) as [[k v]|]; cbn [is_none orb]; [apply IH|reflexivity].
Qed.

Theorem auth_params_from_header_eq cr a :
  auth_params_from_header cr a =
  if bad_alg_header a then Err IncompleteSignature
  else if bad_param_syntax a then Err IncompleteSignature
  else if hdr_missing cr a then Err IncompleteSignature
  else Ok (sel_header cr a).
Proof.
  unfold auth_params_from_header, bad_alg_header, bad_param_syntax, hdr_missing, sel_header, hdr_pmap,
    hdr_pieces, hdr_split, hdr_date, hdr_token. cbv zeta.
  set (ap := match split_once " "%byte (trim_ascii a) with Some ap => ap | None => (trim_ascii a, []) end).
  destruct (negb (bytes_eqb (fst ap) src_canonical_AWS4_HMAC_SHA256_BYTES)); [reflexivity|].
  pose proof (parse_auth_params_cases (split_on ","%byte (snd ap)) []) as P.
  destruct (existsb bad_piece (split_on ","%byte (snd ap))).
  - rewrite P. reflexivity.
  - destruct P as [pm P]. rewrite P. cbn [bind].
    set (date := match hget src_canonical_X_AMZ_DATE_LOWER (cr_headers cr) with
                 | Some vs => first_value (Some vs)
                 | None => first_value (hget src_canonical_DATE (cr_headers cr)) end).
    destruct (assoc src_canonical_CREDENTIAL pm); [|reflexivity].
    destruct (assoc src_canonical_SIGNATURE pm); [|reflexivity].
    destruct (assoc src_canonical_SIGNED_HEADERS pm); [|reflexivity].
    destruct date; reflexivity.
Qed.

Definition qfirst (cr : canonical) (k : bytes) : option bytes := first_value (qget k (cr_query cr)).
Definition unesc (v : bytes) : bytes := odflt [] (unescape v).
Definition bad_alg_query (a : bytes) : bool := negb (bytes_eqb a src_canonical_AWS4_HMAC_SHA256).
Definition qry_missing (cr : canonical) : bool :=
  is_none (qfirst cr src_canonical_X_AMZ_CREDENTIAL)
  || is_none (qfirst cr src_canonical_X_AMZ_SIGNATURE)
  || is_none (qfirst cr src_canonical_X_AMZ_SIGNED_HEADERS)
  || is_none (qfirst cr src_canonical_X_AMZ_DATE).

(* the parameters selected on the query carrier *)
Definition sel_query (cr : canonical) : auth_params :=
  {| ap_credential := unesc (odflt [] (qfirst cr src_canonical_X_AMZ_CREDENTIAL));
     ap_signature := unesc (odflt [] (qfirst cr src_canonical_X_AMZ_SIGNATURE));
     ap_token := option_map unesc (qfirst cr src_canonical_X_AMZ_SECURITY_TOKEN);
     ap_signed := sort_bytes (split_on ";"%byte (unesc (odflt [] (qfirst cr src_canonical_X_AMZ_SIGNED_HEADERS))));
     ap_timestamp := unesc (odflt [] (qfirst cr src_canonical_X_AMZ_DATE)) |}.

Lemma unescape_or_panic_ok v : unesc_ok v -> unescape_or_panic v = Ok (unesc v).
Proof. unfold unesc_ok, unescape_or_panic, unesc. destruct (unescape v); [reflexivity|congruence]. Qed.

Theorem auth_params_from_query_eq cr a : qm_good (cr_query cr) ->
  auth_params_from_query cr a =
  if bad_alg_query a then Err MissingAuthenticationToken
  else if qry_missing cr then Err IncompleteSignature
  else Ok (sel_query cr).
Proof.
  intro G.
  unfold auth_params_from_query, bad_alg_query, qry_missing, sel_query, qfirst. cbv zeta beta.
  destruct (negb (bytes_eqb a src_canonical_AWS4_HMAC_SHA256)); [reflexivity|].
  destruct (first_value (qget src_canonical_X_AMZ_CREDENTIAL (cr_query cr))) as [c|] eqn:E1; [|reflexivity].
  destruct (first_value (qget src_canonical_X_AMZ_SIGNATURE (cr_query cr))) as [s|] eqn:E2; [|reflexivity].
  destruct (first_value (qget src_canonical_X_AMZ_SIGNED_HEADERS (cr_query cr))) as [sh|] eqn:E3; [|reflexivity].
  destruct (first_value (qget src_canonical_X_AMZ_DATE (cr_query cr))) as [d|] eqn:E4; [|reflexivity].
  cbn [is_none orb odflt].
  rewrite (unescape_or_panic_ok c) by (eapply qfirst_good; eassumption).
  rewrite (unescape_or_panic_ok s) by (eapply qfirst_good; eassumption).
  rewrite (unescape_or_panic_ok sh) by (eapply qfirst_good; eassumption).
  rewrite (unescape_or_panic_ok d) by (eapply qfirst_good; eassumption).
  cbn [bind].
  destruct (first_value (qget src_canonical_X_AMZ_SECURITY_TOKEN (cr_query cr))) as [t|] eqn:E5.
  - rewrite (unescape_or_panic_ok t) by (eapply qfirst_good; eassumption). reflexivity.
  - reflexivity.
Qed.

Definition sel_params (cr : canonical) : auth_params :=
  if has_auth cr then sel_header cr (auth_value cr) else sel_query cr.

(* rules 5, 6a-6d, 7a-7d *)
Definition params_failure (cr : canonical) : option kind :=
  if negb (has_auth cr) && negb (has_alg cr) then Some MissingAuthenticationToken
  else if has_auth cr && has_alg cr then Some SignatureDoesNotMatch
  else if has_auth cr && bad_alg_header (auth_value cr) then Some IncompleteSignature
  else if has_alg cr && bad_alg_query (alg_value cr) then Some MissingAuthenticationToken
  else if has_auth cr && bad_param_syntax (auth_value cr) then Some IncompleteSignature
  else if (if has_auth cr then hdr_missing cr (auth_value cr) else qry_missing cr) then Some IncompleteSignature
  else None.

Theorem carrier_params_eq cr : cr_good cr ->
  carrier_params cr = match params_failure cr with Some k => Err k | None => Ok (sel_params cr) end.
Proof.
  intros [Gh Gq].
  unfold carrier_params, params_failure, sel_params, has_auth, has_alg, auth_value, alg_value,
    auth_values, alg_values, is_some.
  destruct (hget src_canonical_AUTHORIZATION (cr_headers cr)) as [[|a l]|] eqn:Ea;
  destruct (qget src_canonical_X_AMZ_ALGORITHM (cr_query cr)) as [[|b l']|] eqn:Eb;
  cbn [is_none negb andb first_value odflt];
  try (exfalso; apply (Gh _ Ea));
  try (exfalso; destruct (qget_good _ _ _ Gq Eb) as [N _]; apply N; reflexivity);
  try reflexivity.
  - rewrite auth_params_from_header_eq.
    destruct (bad_alg_header a); [reflexivity|]. destruct (bad_param_syntax a); [reflexivity|].
    destruct (hdr_missing cr a); reflexivity.
  - rewrite (auth_params_from_query_eq _ _ Gq).
    destruct (bad_alg_query b); [reflexivity|]. destruct (qry_missing cr); reflexivity.
Qed.

(* rule 8 and the signed-header requirements, then rule 9 *)
Definition auth_failure (cr : canonical) (rs : reqs) : option kind :=
  match params_failure cr with
  | Some k => Some k
  | None =>
      if negb (host_signed (ap_signed (sel_params cr))) then Some SignatureDoesNotMatch
      else if negb (reqs_ok rs (cr_headers cr) (ap_signed (sel_params cr))) then Some SignatureDoesNotMatch
      else if is_none (parse_iso8601 (ap_timestamp (sel_params cr))) then Some IncompleteSignature
      else None
  end.

Theorem get_auth_parameters_eq cr rs : cr_good cr ->
  get_auth_parameters cr rs =
  match params_failure cr with
  | Some k => Err k
  | None =>
      if negb (host_signed (ap_signed (sel_params cr))) then Err SignatureDoesNotMatch
      else if negb (reqs_ok rs (cr_headers cr) (ap_signed (sel_params cr))) then Err SignatureDoesNotMatch
      else Ok (sel_params cr)
  end.
Proof.
  intro G. unfold get_auth_parameters. rewrite (carrier_params_eq _ G).
  destruct (params_failure cr); reflexivity.
Qed.

(* ------------------------------------------------------------------------------------------ *)
(* 5. prevalidate, string_to_sign, validate_signature                                          *)

Definition expired (au : authenticator) (cf : config) : bool :=
  Z.ltb (au_timestamp au) (cf_now cf - allowed_mismatch_ns).
Definition not_yet_valid (au : authenticator) (cf : config) : bool :=
  Z.ltb (cf_now cf + allowed_mismatch_ns) (au_timestamp au).
Definition cred_parts (au : authenticator) : list bytes := split_on "/"%byte (au_credential au).
Definition bad_arity (au : authenticator) : bool := negb (Nat.eqb (List.length (cred_parts au)) 5).
Definition bad_scope (au : authenticator) (cf : config) : bool :=
  negb (bytes_eqb (nth 2 (cred_parts au) []) (cf_region cf)
        && bytes_eqb (nth 3 (cred_parts au) []) (cf_service cf)
        && bytes_eqb (nth 4 (cred_parts au) []) src_auth_AWS4_REQUEST
        && bytes_eqb (nth 1 (cred_parts au) []) (yyyymmdd (au_timestamp au))).

(* rules 10-13 *)
Definition prevalidate_failure (au : authenticator) (cf : config) : option kind :=
  if expired au cf then Some SignatureDoesNotMatch
  else if not_yet_valid au cf then Some SignatureDoesNotMatch
  else if bad_arity au then Some IncompleteSignature
  else if bad_scope au cf then Some SignatureDoesNotMatch
  else None.

Theorem prevalidate_eq au cf :
  prevalidate au (cf_region cf) (cf_service cf) (cf_now cf) allowed_mismatch_ns =
  match prevalidate_failure au cf with Some k => Err k | None => Ok tt end.
Proof.
  unfold prevalidate, prevalidate_failure, expired, not_yet_valid, bad_arity, bad_scope, cred_parts.
  destruct (Z.ltb (au_timestamp au) (cf_now cf - allowed_mismatch_ns)); [reflexivity|].
  destruct (Z.ltb (cf_now cf + allowed_mismatch_ns) (au_timestamp au)); [reflexivity|].
  destruct (split_on "/"%byte (au_credential au)) as [|p0 [|p1 [|p2 [|p3 [|p4 [|p5 r]]]]]];
    cbn [List.length Nat.eqb negb nth]; try reflexivity.
  destruct (bytes_eqb p2 (cf_region cf) && bytes_eqb p3 (cf_service cf) && bytes_eqb p4 src_auth_AWS4_REQUEST
            && bytes_eqb p1 (yyyymmdd (au_timestamp au))); reflexivity.
Qed.

Lemma split_once_none sep s : split_once sep s = None -> split_on sep s = [s].
Proof.
  induction s as [|c r IH]; cbn [split_once split_on]; [reflexivity|].
  destruct (beqb c sep); [discriminate|].
  destruct (split_once sep r) as [[a b]|]; [discriminate|].
  intros _. rewrite IH; reflexivity.
Qed.

Definition cred_scope (au : authenticator) : bytes :=
  match split_once "/"%byte (au_credential au) with Some (_, s) => s | None => [] end.
Definition sts_of (au : authenticator) : bytes :=
  src_auth_AWS4_HMAC_SHA256 ++ nl ++ render_compact (au_timestamp au) ++ nl ++ cred_scope au ++ nl
  ++ lower_hex (au_creq_sha256 au).

(* the credential has five parts, so it contains a '/' *)
Theorem string_to_sign_ok au : bad_arity au = false -> string_to_sign au = Ok (sts_of au).
Proof.
  unfold bad_arity, cred_parts, string_to_sign, sts_of, cred_scope. intro A.
  destruct (split_once "/"%byte (au_credential au)) as [[a s]|] eqn:E; [reflexivity|].
  rewrite (split_once_none _ _ E) in A. discriminate A.
Qed.

Definition prov_answer (pv : provider) (g : gsk_request) : gsk_answer :=
  match pv_ready pv with Some e => AnsErr e | None => pv_answer pv g end.
Definition prov_calls (pv : provider) (g : gsk_request) : list gsk_request :=
  match pv_ready pv with Some _ => [] | None => [g] end.

Section PIPE2.
  Variable H : bytes -> bytes.

  Definition st_authenticator (cr : canonical) : authenticator :=
    {| au_creq_sha256 := H (canonical_request cr (ap_signed (sel_params cr)));
       au_credential := ap_credential (sel_params cr);
       au_token := ap_token (sel_params cr);
       au_signature := ap_signature (sel_params cr);
       au_timestamp := odflt 0%Z (parse_iso8601 (ap_timestamp (sel_params cr))) |}.

  Theorem get_authenticator_eq cr rs : cr_good cr ->
    get_authenticator H cr rs =
    match auth_failure cr rs with Some k => Err k | None => Ok (st_authenticator cr) end.
  Proof.
    intro G. unfold get_authenticator, auth_failure, st_authenticator.
    rewrite (get_auth_parameters_eq _ _ G).
    destruct (params_failure cr); [reflexivity|].
    destruct (negb (host_signed (ap_signed (sel_params cr)))); [reflexivity|].
    destruct (negb (reqs_ok rs (cr_headers cr) (ap_signed (sel_params cr)))); [reflexivity|].
    cbn [bind]. destruct (parse_iso8601 (ap_timestamp (sel_params cr))); reflexivity.
  Qed.

  Definition the_call (au : authenticator) (cf : config) : gsk_request :=
    gsk_request_of au (cf_region cf) (cf_service cf).

  (* provider error, then the comparison *)
  Definition signature_failure (au : authenticator) (cf : config) (pv : provider) : option kind :=
    match prov_answer pv (the_call au cf) with
    | AnsErr e => Some (from_box e)
    | AnsOk key _ _ =>
        if ct_eq (au_signature au) (lower_hex (hmac H key (sts_of au))) then None
        else Some SignatureDoesNotMatch
    end.

  Definition identity_of (au : authenticator) (cf : config) (pv : provider) : bytes * bytes :=
    match prov_answer pv (the_call au cf) with
    | AnsOk _ p s => (p, s)
    | AnsErr _ => ([], [])
    end.

  Theorem validate_signature_eq au cf pv :
    validate_signature H au cf pv =
    match prevalidate_failure au cf with
    | Some k => ([], Err k)
    | None => (prov_calls pv (the_call au cf),
               match signature_failure au cf pv with
               | Some k => Err k
               | None => Ok (identity_of au cf pv)
               end)
    end.
  Proof.
    unfold validate_signature. rewrite prevalidate_eq.
    destruct (prevalidate_failure au cf) as [k|] eqn:P; [reflexivity|].
    assert (A : bad_arity au = false).
    { unfold prevalidate_failure in P. destruct (expired au cf); [discriminate|].
      destruct (not_yet_valid au cf); [discriminate|]. destruct (bad_arity au); [discriminate|reflexivity]. }
    rewrite (string_to_sign_ok _ A).
    unfold oneshot, signature_failure, identity_of, prov_answer, prov_calls, the_call.
    destruct (pv_ready pv) as [e|]; [reflexivity|].
    destruct (pv_answer pv (gsk_request_of au (cf_region cf) (cf_service cf))) as [key p s|e]; [|reflexivity].
    destruct (ct_eq (au_signature au) (lower_hex (hmac H key (sts_of au)))); reflexivity.
  Qed.
End PIPE2.

(* ------------------------------------------------------------------------------------------ *)
(* 6. first_failure and C13                                                                    *)

Section PIPE3.
  Variable H : bytes -> bytes.

  (* The documented order of checks as one flat cascade over the stage results, written
     independently of [validate].  [cr], [ap], [au] are the (total) stage values. *)
  Definition first_failure (rq : request) (cf : config) (pv : provider) : option kind :=
    let cr := st_canonical H rq cf in
    let ap := sel_params cr in
    let au := st_authenticator H cr in
    (* path *)
    if is_none (st_path rq cf) then Some InvalidURIPath
    (* query string *)
    else if is_none (st_url_qm rq) then Some MalformedQueryString
    (* form folding *)
    else if spec_folded rq cf && is_none (spec_decoded_body rq) then Some InvalidBodyEncoding
    else if spec_folded rq cf && is_none (st_body_qm rq) then Some MalformedQueryString
    else if spec_folded rq cf && uri_too_long rq cf then Some MalformedQueryString
    (* carrier presence / uniqueness *)
    else if negb (has_auth cr) && negb (has_alg cr) then Some MissingAuthenticationToken
    else if has_auth cr && has_alg cr then Some SignatureDoesNotMatch
    (* algorithm *)
    else if has_auth cr && bad_alg_header (auth_value cr) then Some IncompleteSignature
    else if has_alg cr && bad_alg_query (alg_value cr) then Some MissingAuthenticationToken
    (* parameter syntax, missing parameters *)
    else if has_auth cr && bad_param_syntax (auth_value cr) then Some IncompleteSignature
    else if (if has_auth cr then hdr_missing cr (auth_value cr) else qry_missing cr)
         then Some IncompleteSignature
    (* signed-header requirements *)
    else if negb (host_signed (ap_signed ap)) then Some SignatureDoesNotMatch
    else if negb (reqs_ok (cf_reqs cf) (cr_headers cr) (ap_signed ap)) then Some SignatureDoesNotMatch
    (* date format, expiry, not yet valid *)
    else if is_none (parse_iso8601 (ap_timestamp ap)) then Some IncompleteSignature
    else if expired au cf then Some SignatureDoesNotMatch
    else if not_yet_valid au cf then Some SignatureDoesNotMatch
    (* credential arity, credential scope *)
    else if bad_arity au then Some IncompleteSignature
    else if bad_scope au cf then Some SignatureDoesNotMatch
    (* key lookup, signature *)
    else match prov_answer pv (the_call au cf) with
         | AnsErr e => Some (from_box e)
         | AnsOk key _ _ =>
             if ct_eq (au_signature au) (lower_hex (hmac H key (sts_of au))) then None
             else Some SignatureDoesNotMatch
         end.

  (* everything before the provider is consulted: a function of the request and configuration only *)
  Definition pre_failure (rq : request) (cf : config) : option kind :=
    match request_failure rq cf with
    | Some k => Some k
    | None =>
        match auth_failure (st_canonical H rq cf) (cf_reqs cf) with
        | Some k => Some k
        | None => prevalidate_failure (st_authenticator H (st_canonical H rq cf)) cf
        end
    end.

  Definition st_au (rq : request) (cf : config) : authenticator :=
    st_authenticator H (st_canonical H rq cf).

  Theorem first_failure_staged rq cf pv :
    first_failure rq cf pv =
    match pre_failure rq cf with
    | Some k => Some k
    | None => signature_failure H (st_au rq cf) cf pv
    end.
  Proof.
    unfold first_failure, pre_failure, request_failure, auth_failure, params_failure,
      prevalidate_failure, signature_failure, st_au. cbv zeta.
    repeat match goal with
           | |- (if ?c then _ else _) = _ => destruct c; cbv iota; [reflexivity|]
           end.
    reflexivity.
  Qed.

  Definition accepted_outcome (rq : request) (cf : config) (pv : provider) : outcome :=
    Accepted (st_parts rq cf) (spec_payload rq cf)
             (fst (identity_of (st_au rq cf) cf pv)) (snd (identity_of (st_au rq cf) cf pv)).

  Lemma request_ok_good rq cf : request_failure rq cf = None -> cr_good (st_canonical H rq cf).
  Proof.
    intro RF. eapply (from_request_parts_good H rq cf). rewrite from_request_parts_eq, RF. reflexivity.
  Qed.

  (* the whole entry point in terms of the stage results *)
  Theorem validate_eq rq cf pv :
    validate H rq cf pv =
    match pre_failure rq cf with
    | Some k => ([], Refused k)
    | None => (prov_calls pv (the_call (st_au rq cf) cf),
               match signature_failure H (st_au rq cf) cf pv with
               | Some k => Refused k
               | None => accepted_outcome rq cf pv
               end)
    end.
  Proof.
    unfold validate, pre_failure. rewrite from_request_parts_eq.
    destruct (request_failure rq cf) as [k|] eqn:RF; [reflexivity|].
    rewrite (get_authenticator_eq H _ _ (request_ok_good _ _ RF)).
    destruct (auth_failure (st_canonical H rq cf) (cf_reqs cf)) as [k|]; [reflexivity|].
    rewrite validate_signature_eq. fold (st_au rq cf).
    destruct (prevalidate_failure (st_au rq cf) cf) as [k|]; [reflexivity|].
    unfold accepted_outcome.
    destruct (signature_failure H (st_au rq cf) cf pv); [reflexivity|].
    destruct (identity_of (st_au rq cf) cf pv). reflexivity.
  Qed.

  (* C13: the error reported is that of the earliest failing check in the documented order *)
  Theorem C13_precedence rq cf pv :
    snd (validate H rq cf pv) =
    match first_failure rq cf pv with
    | Some k => Refused k
    | None => accepted_outcome rq cf pv
    end.
  Proof.
    rewrite validate_eq, first_failure_staged.
    destruct (pre_failure rq cf); [reflexivity|]. reflexivity.
  Qed.

  (* and the provider is called (once) exactly when every check before it passed and it is ready *)
  Theorem C13_calls rq cf pv :
    fst (validate H rq cf pv) =
    match pre_failure rq cf with
    | Some _ => []
    | None => prov_calls pv (the_call (st_au rq cf) cf)
    end.
  Proof. rewrite validate_eq. destruct (pre_failure rq cf); reflexivity. Qed.
End PIPE3.

(* ------------------------------------------------------------------------------------------ *)
(* 6b. the dominance chain: each theorem is quantified over everything later in the pipeline   *)

Section CHAIN.
  Variable H : bytes -> bytes.

  Lemma validate_request_failure rq cf pv k :
    request_failure rq cf = Some k -> validate H rq cf pv = ([], Refused k).
  Proof. intro E. rewrite validate_eq. unfold pre_failure. rewrite E. reflexivity. Qed.

  (* path first, whatever else is wrong *)
  Theorem C13_path_first : forall rq cf pv,
    canon_path (cf_s3 cf) (rq_path rq) = None ->
    validate H rq cf pv = ([], Refused InvalidURIPath).
  Proof.
    intros rq cf pv E. apply validate_request_failure. unfold request_failure, st_path. rewrite E. reflexivity.
  Qed.

  Theorem C13_query_second : forall rq cf pv,
    canon_path (cf_s3 cf) (rq_path rq) <> None ->
    query_map (url_query rq) = None ->
    validate H rq cf pv = ([], Refused MalformedQueryString).
  Proof.
    intros rq cf pv P E. apply validate_request_failure. unfold request_failure, st_path, st_url_qm.
    destruct (canon_path (cf_s3 cf) (rq_path rq)); [|congruence]. rewrite E. reflexivity.
  Qed.

  (* form folding: undecodable body / unknown charset, malformed body parameters, rebuilt URI too long *)
  Theorem C13_form_errors_third : forall rq cf pv,
    canon_path (cf_s3 cf) (rq_path rq) <> None ->
    query_map (url_query rq) <> None ->
    spec_folded rq cf = true ->
    (spec_decoded_body rq = None -> validate H rq cf pv = ([], Refused InvalidBodyEncoding))
    /\ (forall d, spec_decoded_body rq = Some d -> query_map d = None ->
        validate H rq cf pv = ([], Refused MalformedQueryString))
    /\ (forall d bm, spec_decoded_body rq = Some d -> query_map d = Some bm -> uri_too_long rq cf = true ->
        validate H rq cf pv = ([], Refused MalformedQueryString)).
  Proof.
    intros rq cf pv P Q F.
    assert (P' : is_none (st_path rq cf) = false)
      by (unfold st_path; destruct (canon_path (cf_s3 cf) (rq_path rq)); [reflexivity|congruence]).
    assert (Q' : is_none (st_url_qm rq) = false)
      by (unfold st_url_qm; destruct (query_map (url_query rq)); [reflexivity|congruence]).
    repeat split.
    - intro D. apply validate_request_failure. unfold request_failure. rewrite P', Q', F, D. reflexivity.
    - intros d D B. apply validate_request_failure. unfold request_failure, st_body_qm.
      rewrite P', Q', F, D, B. reflexivity.
    - intros d bm D B L. apply validate_request_failure. unfold request_failure, st_body_qm.
      rewrite P', Q', F, D, B, L. reflexivity.
  Qed.

  (* what "the body cannot be decoded" means *)
  Theorem spec_decoded_body_none : forall rq,
    spec_decoded_body rq = None <->
    match content_type_charset (rq_headers rq) with
    | Some (_, Some cs) =>
        match classify_label (flat_map latin1_char cs) with
        | CsUnknown => True
        | CsUtf8 => utf8_valid (rq_body rq) = false
        | CsOther => rq_decoded rq = None
        end
    | _ => utf8_valid (rq_body rq) = false
    end.
  Proof.
    intro rq. unfold spec_decoded_body.
    destruct (content_type_charset (rq_headers rq)) as [[ct [cs|]]|].
    - destruct (classify_label (flat_map latin1_char cs)).
      + destruct (utf8_valid (rq_body rq)); split; congruence.
      + tauto.
      + tauto.
    - destruct (utf8_valid (rq_body rq)); split; congruence.
    - destruct (utf8_valid (rq_body rq)); split; congruence.
  Qed.

  Lemma validate_carrier_err rq cf pv cr pts body k :
    from_request_parts H rq cf = Ok (cr, pts, body) ->
    carrier_params cr = Err k ->
    validate H rq cf pv = ([], Refused k).
  Proof.
    intros E C. unfold validate, get_authenticator, get_auth_parameters. rewrite E, C. reflexivity.
  Qed.

  Theorem C13_no_carrier : forall rq cf pv cr pts body,
    from_request_parts H rq cf = Ok (cr, pts, body) ->
    hget src_canonical_AUTHORIZATION (cr_headers cr) = None ->
    qget src_canonical_X_AMZ_ALGORITHM (cr_query cr) = None ->
    validate H rq cf pv = ([], Refused MissingAuthenticationToken).
  Proof.
    intros rq cf pv cr pts body E A Q. eapply validate_carrier_err; [exact E|].
    unfold carrier_params. rewrite A, Q. reflexivity.
  Qed.

  Theorem C13_both_carriers : forall rq cf pv cr pts body,
    from_request_parts H rq cf = Ok (cr, pts, body) ->
    hget src_canonical_AUTHORIZATION (cr_headers cr) <> None ->
    qget src_canonical_X_AMZ_ALGORITHM (cr_query cr) <> None ->
    validate H rq cf pv = ([], Refused SignatureDoesNotMatch).
  Proof.
    intros rq cf pv cr pts body E A Q. eapply validate_carrier_err; [exact E|].
    unfold carrier_params.
    destruct (hget src_canonical_AUTHORIZATION (cr_headers cr)) as [[|a l]|]; [| |congruence];
    destruct (qget src_canonical_X_AMZ_ALGORITHM (cr_query cr)) as [[|b l']|]; try congruence; reflexivity.
  Qed.

  Theorem C13_bad_algorithm_header : forall rq cf pv cr pts body a l,
    from_request_parts H rq cf = Ok (cr, pts, body) ->
    hget src_canonical_AUTHORIZATION (cr_headers cr) = Some (a :: l) ->
    qget src_canonical_X_AMZ_ALGORITHM (cr_query cr) = None ->
    fst (hdr_split a) <> src_canonical_AWS4_HMAC_SHA256_BYTES ->
    validate H rq cf pv = ([], Refused IncompleteSignature).
  Proof.
    intros rq cf pv cr pts body a l E A Q B. eapply validate_carrier_err; [exact E|].
    unfold carrier_params. rewrite A, Q, auth_params_from_header_eq. unfold bad_alg_header.
    apply bytes_eqb_neq in B. rewrite B. reflexivity.
  Qed.

  Theorem C13_bad_algorithm_query : forall rq cf pv cr pts body a l,
    from_request_parts H rq cf = Ok (cr, pts, body) ->
    hget src_canonical_AUTHORIZATION (cr_headers cr) = None ->
    qget src_canonical_X_AMZ_ALGORITHM (cr_query cr) = Some (a :: l) ->
    a <> src_canonical_AWS4_HMAC_SHA256 ->
    validate H rq cf pv = ([], Refused MissingAuthenticationToken).
  Proof.
    intros rq cf pv cr pts body a l E A Q B. eapply validate_carrier_err; [exact E|].
    unfold carrier_params, auth_params_from_query. rewrite A, Q.
    apply bytes_eqb_neq in B. rewrite B. reflexivity.
  Qed.

  (* a non-empty piece without '=' among the Authorization parameters: refused before the check for
     missing parameters, whatever the other pieces are *)
  Theorem C13_param_syntax : forall rq cf pv cr pts body a l p,
    from_request_parts H rq cf = Ok (cr, pts, body) ->
    hget src_canonical_AUTHORIZATION (cr_headers cr) = Some (a :: l) ->
    qget src_canonical_X_AMZ_ALGORITHM (cr_query cr) = None ->
    fst (hdr_split a) = src_canonical_AWS4_HMAC_SHA256_BYTES ->
    In p (hdr_pieces a) -> trim_ascii p <> [] -> split_once "="%byte (trim_ascii p) = None ->
    validate H rq cf pv = ([], Refused IncompleteSignature).
  Proof.
    intros rq cf pv cr pts body a l p E A Q B I N S. eapply validate_carrier_err; [exact E|].
    unfold carrier_params. rewrite A, Q, auth_params_from_header_eq. unfold bad_alg_header.
    rewrite B, bytes_eqb_refl. cbn [negb].
    assert (X : bad_param_syntax a = true).
    { unfold bad_param_syntax. apply existsb_exists. exists p. split; [exact I|].
      unfold bad_piece. rewrite S. destruct (trim_ascii p); [congruence|reflexivity]. }
    rewrite X. reflexivity.
  Qed.

  Theorem C13_missing_params_header : forall rq cf pv cr pts body a l,
    from_request_parts H rq cf = Ok (cr, pts, body) ->
    hget src_canonical_AUTHORIZATION (cr_headers cr) = Some (a :: l) ->
    qget src_canonical_X_AMZ_ALGORITHM (cr_query cr) = None ->
    fst (hdr_split a) = src_canonical_AWS4_HMAC_SHA256_BYTES ->
    hdr_missing cr a = true ->
    validate H rq cf pv = ([], Refused IncompleteSignature).
  Proof.
    intros rq cf pv cr pts body a l E A Q B M. eapply validate_carrier_err; [exact E|].
    unfold carrier_params. rewrite A, Q, auth_params_from_header_eq. rewrite M.
    destruct (bad_alg_header a); [reflexivity|]. destruct (bad_param_syntax a); reflexivity.
  Qed.

  Theorem C13_missing_params_query : forall rq cf pv cr pts body l,
    from_request_parts H rq cf = Ok (cr, pts, body) ->
    hget src_canonical_AUTHORIZATION (cr_headers cr) = None ->
    qget src_canonical_X_AMZ_ALGORITHM (cr_query cr) = Some (src_canonical_AWS4_HMAC_SHA256 :: l) ->
    qry_missing cr = true ->
    validate H rq cf pv = ([], Refused IncompleteSignature).
  Proof.
    intros rq cf pv cr pts body l E A Q M. eapply validate_carrier_err; [exact E|].
    pose proof (from_request_parts_good H _ _ _ _ _ E) as [_ Gq].
    unfold carrier_params. rewrite A, Q, (auth_params_from_query_eq _ _ Gq), M.
    unfold bad_alg_query. rewrite bytes_eqb_refl. reflexivity.
  Qed.

  (* rule 8 and the configured requirements: before the date is even parsed *)
  Theorem C13_requirements : forall rq cf pv cr pts body ap,
    from_request_parts H rq cf = Ok (cr, pts, body) ->
    carrier_params cr = Ok ap ->
    host_signed (ap_signed ap) = false \/ reqs_ok (cf_reqs cf) (cr_headers cr) (ap_signed ap) = false ->
    validate H rq cf pv = ([], Refused SignatureDoesNotMatch).
  Proof.
    intros rq cf pv cr pts body ap E C [R|R]; unfold validate, get_authenticator, get_auth_parameters;
      rewrite E, C; cbn [bind]; rewrite R; cbn [negb bind].
    - reflexivity.
    - destruct (negb (host_signed (ap_signed ap))); reflexivity.
  Qed.

  Theorem C13_bad_date : forall rq cf pv cr pts body ap,
    from_request_parts H rq cf = Ok (cr, pts, body) ->
    get_auth_parameters cr (cf_reqs cf) = Ok ap ->
    parse_iso8601 (ap_timestamp ap) = None ->
    validate H rq cf pv = ([], Refused IncompleteSignature).
  Proof.
    intros rq cf pv cr pts body ap E A D. unfold validate, get_authenticator. rewrite E, A. cbn [bind].
    rewrite D. reflexivity.
  Qed.

  Lemma validate_after_authenticator rq cf pv cr pts body au :
    from_request_parts H rq cf = Ok (cr, pts, body) ->
    get_authenticator H cr (cf_reqs cf) = Ok au ->
    validate H rq cf pv =
    match prevalidate_failure au cf with
    | Some k => ([], Refused k)
    | None => (prov_calls pv (the_call au cf),
               match signature_failure H au cf pv with
               | Some k => Refused k
               | None => Accepted pts body (fst (identity_of au cf pv)) (snd (identity_of au cf pv))
               end)
    end.
  Proof.
    intros E A. unfold validate. rewrite E, A, validate_signature_eq.
    destruct (prevalidate_failure au cf); [reflexivity|].
    destruct (signature_failure H au cf pv); [reflexivity|].
    destruct (identity_of au cf pv); reflexivity.
  Qed.

  Theorem C13_expired : forall rq cf pv cr pts body au,
    from_request_parts H rq cf = Ok (cr, pts, body) ->
    get_authenticator H cr (cf_reqs cf) = Ok au ->
    (au_timestamp au < cf_now cf - allowed_mismatch_ns)%Z ->
    validate H rq cf pv = ([], Refused SignatureDoesNotMatch).
  Proof.
    intros rq cf pv cr pts body au E A T. rewrite (validate_after_authenticator _ _ _ _ _ _ _ E A).
    unfold prevalidate_failure, expired. apply Z.ltb_lt in T. rewrite T. reflexivity.
  Qed.

  Theorem C13_not_yet_valid : forall rq cf pv cr pts body au,
    from_request_parts H rq cf = Ok (cr, pts, body) ->
    get_authenticator H cr (cf_reqs cf) = Ok au ->
    (cf_now cf + allowed_mismatch_ns < au_timestamp au)%Z ->
    validate H rq cf pv = ([], Refused SignatureDoesNotMatch).
  Proof.
    intros rq cf pv cr pts body au E A T. rewrite (validate_after_authenticator _ _ _ _ _ _ _ E A).
    unfold prevalidate_failure, not_yet_valid. apply Z.ltb_lt in T. rewrite T.
    destruct (expired au cf); reflexivity.
  Qed.

  Definition in_window (au : authenticator) (cf : config) : Prop :=
    (cf_now cf - allowed_mismatch_ns <= au_timestamp au <= cf_now cf + allowed_mismatch_ns)%Z.

  Lemma in_window_flags au cf : in_window au cf -> expired au cf = false /\ not_yet_valid au cf = false.
  Proof. unfold in_window, expired, not_yet_valid. intros [A B]. split; apply Z.ltb_ge; assumption. Qed.

  Theorem C13_arity : forall rq cf pv cr pts body au,
    from_request_parts H rq cf = Ok (cr, pts, body) ->
    get_authenticator H cr (cf_reqs cf) = Ok au ->
    in_window au cf ->
    List.length (split_on "/"%byte (au_credential au)) <> 5%nat ->
    validate H rq cf pv = ([], Refused IncompleteSignature).
  Proof.
    intros rq cf pv cr pts body au E A W N. rewrite (validate_after_authenticator _ _ _ _ _ _ _ E A).
    destruct (in_window_flags _ _ W) as [X Y]. unfold prevalidate_failure, bad_arity, cred_parts.
    rewrite X, Y. apply Nat.eqb_neq in N. rewrite N. reflexivity.
  Qed.

  Theorem C13_scope : forall rq cf pv cr pts body au a d r s t,
    from_request_parts H rq cf = Ok (cr, pts, body) ->
    get_authenticator H cr (cf_reqs cf) = Ok au ->
    in_window au cf ->
    split_on "/"%byte (au_credential au) = [a; d; r; s; t] ->
    ~ (r = cf_region cf /\ s = cf_service cf /\ t = src_auth_AWS4_REQUEST /\ d = yyyymmdd (au_timestamp au)) ->
    validate H rq cf pv = ([], Refused SignatureDoesNotMatch).
  Proof.
    intros rq cf pv cr pts body au a d r s t E A W P N.
    rewrite (validate_after_authenticator _ _ _ _ _ _ _ E A).
    destruct (in_window_flags _ _ W) as [X Y]. unfold prevalidate_failure, bad_arity, bad_scope, cred_parts.
    rewrite X, Y, P. cbn [List.length Nat.eqb negb nth].
    destruct (bytes_eqb r (cf_region cf) && bytes_eqb s (cf_service cf) && bytes_eqb t src_auth_AWS4_REQUEST
              && bytes_eqb d (yyyymmdd (au_timestamp au))) eqn:B; [|reflexivity].
    exfalso. apply N. rewrite !andb_true_iff, !bytes_eqb_eq in B. tauto.
  Qed.

  Theorem C13_provider_error : forall rq cf pv cr pts body au e,
    from_request_parts H rq cf = Ok (cr, pts, body) ->
    get_authenticator H cr (cf_reqs cf) = Ok au ->
    prevalidate au (cf_region cf) (cf_service cf) (cf_now cf) allowed_mismatch_ns = Ok tt ->
    prov_answer pv (the_call au cf) = AnsErr e ->
    validate H rq cf pv = (prov_calls pv (the_call au cf), Refused (from_box e)).
  Proof.
    intros rq cf pv cr pts body au e E A P R. rewrite (validate_after_authenticator _ _ _ _ _ _ _ E A).
    rewrite prevalidate_eq in P. destruct (prevalidate_failure au cf); [discriminate|].
    unfold signature_failure. rewrite R. reflexivity.
  Qed.

  Theorem C13_wrong_signature : forall rq cf pv cr pts body au key p s,
    from_request_parts H rq cf = Ok (cr, pts, body) ->
    get_authenticator H cr (cf_reqs cf) = Ok au ->
    prevalidate au (cf_region cf) (cf_service cf) (cf_now cf) allowed_mismatch_ns = Ok tt ->
    prov_answer pv (the_call au cf) = AnsOk key p s ->
    au_signature au <> lower_hex (hmac H key (sts_of au)) ->
    validate H rq cf pv = (prov_calls pv (the_call au cf), Refused SignatureDoesNotMatch).
  Proof.
    intros rq cf pv cr pts body au key p s E A P R N.
    rewrite (validate_after_authenticator _ _ _ _ _ _ _ E A).
    rewrite prevalidate_eq in P. destruct (prevalidate_failure au cf); [discriminate|].
    unfold signature_failure. rewrite R.
    destruct (ct_eq (au_signature au) (lower_hex (hmac H key (sts_of au)))) eqn:C; [|reflexivity].
    apply KeyProofs.ct_eq_spec in C. contradiction.
  Qed.

  (* and the only way through *)
  Theorem C13_accepted : forall rq cf pv cr pts body au key p s,
    from_request_parts H rq cf = Ok (cr, pts, body) ->
    get_authenticator H cr (cf_reqs cf) = Ok au ->
    prevalidate au (cf_region cf) (cf_service cf) (cf_now cf) allowed_mismatch_ns = Ok tt ->
    prov_answer pv (the_call au cf) = AnsOk key p s ->
    au_signature au = lower_hex (hmac H key (sts_of au)) ->
    validate H rq cf pv = (prov_calls pv (the_call au cf), Accepted pts body p s).
  Proof.
    intros rq cf pv cr pts body au key p s E A P R N.
    rewrite (validate_after_authenticator _ _ _ _ _ _ _ E A).
    rewrite prevalidate_eq in P. destruct (prevalidate_failure au cf); [discriminate|].
    unfold signature_failure, identity_of. rewrite R.
    apply KeyProofs.ct_eq_spec in N. rewrite N. reflexivity.
  Qed.
End CHAIN.

(* ------------------------------------------------------------------------------------------ *)
(* 6c. taxonomy over the regenerated tables                                                    *)

Definition malformed_kinds : list kind :=
  [InvalidBodyEncoding; InvalidRequestMethod; IncompleteSignature; InvalidURIPath; MalformedQueryString;
   MissingAuthenticationToken].
Definition auth_failure_kinds : list kind :=
  [ExpiredToken; InvalidClientTokenId; InvalidContentType; SignatureDoesNotMatch].
Definition infrastructure_kinds : list kind := [IO; InternalServiceError].

Definition expected_status (k : kind) : N :=
  match k with
  | InvalidBodyEncoding | InvalidRequestMethod | IncompleteSignature | InvalidURIPath
  | MalformedQueryString | MissingAuthenticationToken => 400
  | ExpiredToken | InvalidClientTokenId | InvalidContentType | SignatureDoesNotMatch => 403
  | IO | InternalServiceError => 500
  end%N.

Definition expected_code (k : kind) : bytes :=
  match k with
  | ExpiredToken => s2b "ExpiredToken"
  | IO => s2b "InternalFailure"
  | InternalServiceError => s2b "InternalFailure"
  | InvalidBodyEncoding => s2b "InvalidBodyEncoding"
  | InvalidClientTokenId => s2b "InvalidClientTokenId"
  | InvalidContentType => s2b "InvalidContentType"
  | InvalidRequestMethod => s2b "InvalidRequestMethod"
  | IncompleteSignature => s2b "IncompleteSignature"
  | InvalidURIPath => s2b "InvalidURIPath"
  | MalformedQueryString => s2b "MalformedQueryString"
  | MissingAuthenticationToken => s2b "MissingAuthenticationToken"
  | SignatureDoesNotMatch => s2b "SignatureDoesNotMatch"
  end.

(* the kind alone fixes the status and the code; the status is 400, 403 or 500 *)
Theorem C13_taxonomy :
  (forall k, status k = Some (expected_status k))
  /\ (forall k, code k = Some (expected_code k))
  /\ (forall k, In k malformed_kinds <-> status k = Some 400%N)
  /\ (forall k, In k auth_failure_kinds <-> status k = Some 403%N)
  /\ (forall k, In k infrastructure_kinds <-> status k = Some 500%N)
  /\ (forall k, In (status k) [Some 400%N; Some 403%N; Some 500%N])
  /\ (forall k, In k all_kinds).
Proof.
  repeat split; try (destruct k; vm_compute; tauto);
    try (destruct k; vm_compute; intro X; repeat destruct X as [X|X]; try discriminate X; tauto).
Qed.

(* never a success (or any non-error) status *)
Corollary C13_status_is_error : forall k n, status k = Some n -> (400 <= n < 600)%N.
Proof.
  intros k n E. destruct C13_taxonomy as [S _]. rewrite S in E. injection E as <-.
  destruct k; cbn; lia.
Qed.

(* ------------------------------------------------------------------------------------------ *)
(* 6d. the kinds the entry point can return                                                    *)

Definition request_kinds : list kind :=
  [InvalidURIPath; MalformedQueryString; InvalidBodyEncoding; MissingAuthenticationToken;
   IncompleteSignature; SignatureDoesNotMatch].

(* the provider only fails with SignatureError kinds in [K], or with foreign errors *)
Definition provider_kinds (K : kind -> Prop) (pv : provider) : Prop :=
  (forall k, pv_ready pv = Some (BoxSig k) -> K k)
  /\ (forall g k, pv_answer pv g = AnsErr (BoxSig k) -> K k).

Section KINDS.
  Variable H : bytes -> bytes.

  Ltac cascade_kinds :=
    repeat match goal with
           | |- (if ?c then _ else _) = _ -> _ =>
               destruct c; cbv iota;
               [let E := fresh "E" in intro E; injection E as <-; cbn; tauto|]
           end;
    try discriminate.

  Lemma request_failure_kinds rq cf k : request_failure rq cf = Some k -> In k request_kinds.
  Proof. unfold request_failure. cascade_kinds. Qed.

  Lemma params_failure_kinds cr k : params_failure cr = Some k -> In k request_kinds.
  Proof. unfold params_failure. cascade_kinds. Qed.

  Lemma auth_failure_kinds_in cr rs k : auth_failure cr rs = Some k -> In k request_kinds.
  Proof.
    unfold auth_failure. destruct (params_failure cr) as [k'|] eqn:P.
    - intro E. injection E as <-. eapply params_failure_kinds. exact P.
    - cascade_kinds.
  Qed.

  Lemma prevalidate_failure_kinds au cf k : prevalidate_failure au cf = Some k -> In k request_kinds.
  Proof. unfold prevalidate_failure. cascade_kinds. Qed.

  Lemma pre_failure_kinds rq cf k : pre_failure H rq cf = Some k -> In k request_kinds.
  Proof.
    unfold pre_failure. destruct (request_failure rq cf) as [k'|] eqn:R.
    - intro E. injection E as <-. eapply request_failure_kinds. exact R.
    - destruct (auth_failure (st_canonical H rq cf) (cf_reqs cf)) as [k'|] eqn:A.
      + intro E. injection E as <-. eapply auth_failure_kinds_in. exact A.
      + apply prevalidate_failure_kinds.
  Qed.

  Theorem C13_reachable_kinds : forall K rq cf pv k,
    provider_kinds K pv ->
    snd (validate H rq cf pv) = Refused k ->
    In k request_kinds \/ K k \/ k = InternalServiceError.
  Proof.
    intros K rq cf pv k [K1 K2]. rewrite validate_eq.
    destruct (pre_failure H rq cf) as [k'|] eqn:P; cbn [snd].
    - intro E. injection E as <-. left. eapply pre_failure_kinds. exact P.
    - unfold signature_failure, accepted_outcome, prov_answer.
      destruct (pv_ready pv) as [e|] eqn:R.
      + intro E. injection E as <-. destruct e as [k'|]; cbn [from_box]; [right; left; auto|right; right; reflexivity].
      + destruct (pv_answer pv (the_call (st_au H rq cf) cf)) as [key p s|e] eqn:A.
        * destruct (ct_eq _ _); intro E; [discriminate E|]. injection E as <-. left. cbn. tauto.
        * intro E. injection E as <-. destruct e as [k'|]; cbn [from_box];
            [right; left; eauto|right; right; reflexivity].
  Qed.

  (* with the built-in entry point every refusal maps to 400, 403 or 500 *)
  Corollary C13_refusal_status : forall rq cf pv k,
    snd (validate H rq cf pv) = Refused k ->
    exists n, status k = Some n /\ (n = 400 \/ n = 403 \/ n = 500)%N.
  Proof.
    intros rq cf pv k _. destruct C13_taxonomy as [S _]. exists (expected_status k). split; [apply S|].
    destruct k; cbn; tauto.
  Qed.

  (* refusals that do not come from the provider are 400 or 403 *)
  Corollary C13_request_refusal_status : forall rq cf k,
    pre_failure H rq cf = Some k -> status k = Some 400%N \/ status k = Some 403%N.
  Proof.
    intros rq cf k P. apply pre_failure_kinds in P. cbn in P.
    repeat destruct P as [<-|P]; try contradiction; vm_compute; tauto.
  Qed.
End KINDS.

(* ------------------------------------------------------------------------------------------ *)
(* 7. C08: totality                                                                            *)

Section TOTAL.
  Variable H : bytes -> bytes.

  Theorem C08_from_request_parts_never_panics : forall rq cf s, from_request_parts H rq cf <> Panic s.
  Proof. intros rq cf s. rewrite from_request_parts_eq. destruct (request_failure rq cf); discriminate. Qed.

  (* Panic 7 (an empty value vector) and site_unescape are unreachable on a canonical request
     whose maps come from normalize_headers / query_map / qmap_extend *)
  Theorem C08_carrier_params_never_panics : forall cr s, cr_good cr -> carrier_params cr <> Panic s.
  Proof. intros cr s G. rewrite (carrier_params_eq _ G). destruct (params_failure cr); discriminate. Qed.

  Theorem C08_get_authenticator_never_panics : forall cr rs s,
    cr_good cr -> get_authenticator H cr rs <> Panic s.
  Proof. intros cr rs s G. rewrite (get_authenticator_eq H _ _ G). destruct (auth_failure cr rs); discriminate. Qed.

  (* site_cscope: string_to_sign is reached only with a five-part credential *)
  Theorem C08_validate_signature_never_panics : forall au cf pv s,
    snd (validate_signature H au cf pv) <> Panic s.
  Proof.
    intros au cf pv s. rewrite validate_signature_eq.
    destruct (prevalidate_failure au cf); cbn [snd]; [discriminate|].
    destruct (signature_failure H au cf pv); discriminate.
  Qed.

  Theorem C08_validate_never_panics : forall rq cf pv s, snd (validate H rq cf pv) <> Panicked s.
  Proof.
    intros rq cf pv s. rewrite C13_precedence. unfold accepted_outcome.
    destruct (first_failure H rq cf pv); discriminate.
  Qed.

  (* every input yields a refusal or an acceptance *)
  Corollary C08_validate_total : forall rq cf pv,
    (exists k, snd (validate H rq cf pv) = Refused k)
    \/ (exists p b pr se, snd (validate H rq cf pv) = Accepted p b pr se).
  Proof.
    intros rq cf pv. rewrite C13_precedence. unfold accepted_outcome.
    destruct (first_failure H rq cf pv); [left|right]; eauto.
  Qed.
End TOTAL.

(* the invariants are what excludes the panics: without them the sites are reachable *)
Example C08_unescape_site_needs_invariant :
  let cr := {| cr_method := []; cr_path := []; cr_headers := []; cr_body_sha256 := [];
               cr_query := [(src_canonical_X_AMZ_ALGORITHM, [src_canonical_AWS4_HMAC_SHA256]);
                            (src_canonical_X_AMZ_CREDENTIAL, [s2b "%zz"]);
                            (src_canonical_X_AMZ_SIGNATURE, [s2b "s"]);
                            (src_canonical_X_AMZ_SIGNED_HEADERS, [s2b "host"]);
                            (src_canonical_X_AMZ_DATE, [s2b "d"])] |} in
  carrier_params cr = Panic site_unescape.
Proof. vm_compute. reflexivity. Qed.

Example C08_empty_vector_site_needs_invariant :
  carrier_params {| cr_method := []; cr_path := []; cr_headers := [(src_canonical_AUTHORIZATION, [])];
                    cr_body_sha256 := []; cr_query := [] |} = Panic 7%N.
Proof. vm_compute. reflexivity. Qed.

Example C08_cscope_site_needs_prevalidate :
  string_to_sign {| au_creq_sha256 := []; au_credential := s2b "AKID"; au_token := None; au_signature := [];
                    au_timestamp := 0%Z |} = Panic site_cscope.
Proof. vm_compute. reflexivity. Qed.

(* ------------------------------------------------------------------------------------------ *)
(* 8. non-vacuity: concrete requests (real SHA-256), each with several defects at once          *)

Module PipelineExamples.
  Import Crypto.Sha256.

  Definition now_ns : Z := 1440938160 * 1000000000.            (* 2015-08-30T12:36:00Z *)
  Definition ex_cf : config :=
    {| cf_region := s2b "us-east-1"; cf_service := s2b "svc"; cf_now := now_ns;
       cf_reqs := no_reqs; cf_s3 := false; cf_fold := false |}.
  Definition ex_cf_fold : config :=
    {| cf_region := s2b "us-east-1"; cf_service := s2b "svc"; cf_now := now_ns;
       cf_reqs := no_reqs; cf_s3 := false; cf_fold := true |}.
  Definition ex_cf_reqs : config :=
    {| cf_region := s2b "us-east-1"; cf_service := s2b "svc"; cf_now := now_ns;
       cf_reqs := {| always_present := [s2b "Content-Type"]; if_in_request := []; prefixes := [] |};
       cf_s3 := false; cf_fold := false |}.
  Definition ex_rq (path : bytes) (query : option bytes) (hs : list (bytes * bytes)) (body : bytes) : request :=
    {| rq_method := s2b "GET"; rq_path := path; rq_query := query; rq_uri := path; rq_version := 11%N;
       rq_headers := hs; rq_body := body; rq_decoded := None |}.
  Definition host_h : bytes * bytes := (s2b "Host", s2b "example.com").
  Definition date_h (d : blit) : bytes * bytes := (s2b "X-Amz-Date", s2b d).
  Definition auth_h (v : bytes) : bytes * bytes := (s2b "Authorization", v).
  Definition good_prefix : bytes :=
    s2b "AWS4-HMAC-SHA256 Credential=AKID/20150830/us-east-1/svc/aws4_request, SignedHeaders=host;x-amz-date, Signature=".
  Definition good_hs (sig : bytes) : list (bytes * bytes) :=
    [host_h; date_h "20150830T123600Z"; auth_h (good_prefix ++ sig)].
  Definition ex_key : bytes := s2b "0123456789abcdef0123456789abcdef".
  Definition ex_pv : provider :=
    {| pv_ready_pending := 0; pv_ready := None; pv_call_pending := 0;
       pv_answer := fun g => if bytes_eqb (g_access_key g) (s2b "AKID")
                             then AnsOk ex_key (s2b "user") (s2b "sess")
                             else AnsErr (BoxSig InvalidClientTokenId) |}.
  Definition ex_pv_foreign : provider :=
    {| pv_ready_pending := 0; pv_ready := None; pv_call_pending := 0; pv_answer := fun _ => AnsErr BoxForeign |}.
  Definition ex_pv_unready : provider :=
    {| pv_ready_pending := 2; pv_ready := Some (BoxSig ExpiredToken); pv_call_pending := 0;
       pv_answer := fun _ => AnsErr BoxForeign |}.
  (* the signature a client holding [ex_key] computes for the good request *)
  Definition ex_sig : bytes :=
    Eval vm_compute in
      lower_hex (hmac sha256 ex_key (sts_of (st_au sha256 (ex_rq (s2b "/") None (good_hs []) []) ex_cf))).
  Definition ex_call : gsk_request :=
    {| g_access_key := s2b "AKID"; g_token := None; g_date := (2015, 8, 30)%Z;
       g_region := s2b "us-east-1"; g_service := s2b "svc" |}.

  Ltac run := vm_compute; repeat split; reflexivity.

  (* accepted: no stage fails (first_failure = None) *)
  Example ex_accepted :
    let rq := ex_rq (s2b "/") None (good_hs ex_sig) [] in
    first_failure sha256 rq ex_cf ex_pv = None
    /\ validate sha256 rq ex_cf ex_pv =
       ([ex_call], Accepted {| pt_method := s2b "GET"; pt_uri := s2b "/"; pt_version := 11%N;
                               pt_headers := good_hs ex_sig |} [] (s2b "user") (s2b "sess")).
  Proof. run. Qed.

  (* bad path + bad query + no carrier: the path is reported (C13_path_first) *)
  Example ex_path_first :
    let rq := ex_rq (s2b "/..") (Some (s2b "a=%zz")) [] [] in
    canon_path (cf_s3 ex_cf) (rq_path rq) = None
    /\ query_map (url_query rq) = None
    /\ validate sha256 rq ex_cf ex_pv = ([], Refused InvalidURIPath)
    /\ first_failure sha256 rq ex_cf ex_pv = Some InvalidURIPath.
  Proof. run. Qed.

  (* good path, bad query + no carrier: the query is reported (C13_query_second) *)
  Example ex_query_second :
    let rq := ex_rq (s2b "/a") (Some (s2b "a=%zz")) [] [] in
    canon_path (cf_s3 ex_cf) (rq_path rq) = Some (s2b "/a")
    /\ query_map (url_query rq) = None
    /\ validate sha256 rq ex_cf ex_pv = ([], Refused MalformedQueryString).
  Proof. run. Qed.

  (* folding: unknown charset + no carrier (C13_form_errors_third, first part) *)
  Example ex_form_charset :
    let rq := ex_rq (s2b "/") None
                [(s2b "Content-Type", s2b "application/x-www-form-urlencoded; charset=klingon")] (s2b "a=b") in
    spec_folded rq ex_cf_fold = true /\ spec_decoded_body rq = None
    /\ validate sha256 rq ex_cf_fold ex_pv = ([], Refused InvalidBodyEncoding).
  Proof. run. Qed.

  (* folding: malformed body parameter + no carrier (second part) *)
  Example ex_form_body_query :
    let rq := ex_rq (s2b "/") None
                [(s2b "Content-Type", s2b "application/x-www-form-urlencoded")] (s2b "a=%zz") in
    spec_folded rq ex_cf_fold = true /\ spec_decoded_body rq = Some (s2b "a=%zz")
    /\ validate sha256 rq ex_cf_fold ex_pv = ([], Refused MalformedQueryString).
  Proof. run. Qed.

  (* folding: the rebuilt URI would exceed 65534 bytes + no carrier (third part; the D6 repair) *)
  Example ex_form_uri_too_long :
    let rq := ex_rq (s2b "/") None
                [(s2b "Content-Type", s2b "application/x-www-form-urlencoded")]
                (s2b "a=" ++ repeat "b"%byte (N.to_nat 65600)) in
    spec_folded rq ex_cf_fold = true /\ uri_too_long rq ex_cf_fold = true
    /\ validate sha256 rq ex_cf_fold ex_pv = ([], Refused MalformedQueryString).
  Proof. run. Qed.

  (* no carrier, and an unparseable date header: the missing token is reported (C13_no_carrier) *)
  Example ex_no_carrier :
    let rq := ex_rq (s2b "/") (Some (s2b "a=b")) [host_h; date_h "yesterday"] [] in
    validate sha256 rq ex_cf ex_pv = ([], Refused MissingAuthenticationToken).
  Proof. run. Qed.

  (* both carriers, the header one with an unsupported algorithm (C13_both_carriers) *)
  Example ex_both_carriers :
    let rq := ex_rq (s2b "/") (Some (s2b "X-Amz-Algorithm=AWS4-HMAC-SHA256"))
                [host_h; auth_h (s2b "AWS4-HMAC-SHA512 x")] [] in
    validate sha256 rq ex_cf ex_pv = ([], Refused SignatureDoesNotMatch)
    /\ first_failure sha256 rq ex_cf ex_pv = Some SignatureDoesNotMatch.
  Proof. run. Qed.

  (* unsupported algorithm on the query carrier, every other parameter missing:
     MissingAuthenticationToken (7a), not IncompleteSignature (7d) (C13_bad_algorithm_query) *)
  Example ex_bad_algorithm_query :
    let rq := ex_rq (s2b "/") (Some (s2b "X-Amz-Algorithm=AWS4-HMAC-SHA512")) [host_h] [] in
    validate sha256 rq ex_cf ex_pv = ([], Refused MissingAuthenticationToken)
    /\ qry_missing (st_canonical sha256 rq ex_cf) = true.
  Proof. run. Qed.

  Example ex_missing_params_query :
    let rq := ex_rq (s2b "/") (Some (s2b "X-Amz-Algorithm=AWS4-HMAC-SHA256&X-Amz-Date=20150830T123600Z")) [host_h] [] in
    validate sha256 rq ex_cf ex_pv = ([], Refused IncompleteSignature).
  Proof. run. Qed.

  (* unsupported algorithm in the header, host not signed: IncompleteSignature (6a) before rule 8 *)
  Example ex_bad_algorithm_header :
    let rq := ex_rq (s2b "/") None
                [host_h; date_h "20150830T123600Z";
                 auth_h (s2b "AWS4-HMAC-SHA512 Credential=AKID/20150830/us-east-1/svc/aws4_request, SignedHeaders=x-amz-date, Signature=00")] [] in
    validate sha256 rq ex_cf ex_pv = ([], Refused IncompleteSignature)
    /\ bad_alg_header (auth_value (st_canonical sha256 rq ex_cf)) = true
    /\ host_signed (ap_signed (sel_params (st_canonical sha256 rq ex_cf))) = false.
  Proof. run. Qed.

  (* a piece without '=' while host is not signed: IncompleteSignature (6b) before rule 8 (C13_param_syntax) *)
  Example ex_param_syntax :
    let rq := ex_rq (s2b "/") None
                [host_h; date_h "20150830T123600Z";
                 auth_h (s2b "AWS4-HMAC-SHA256 Credential=AKID/20150830/us-east-1/svc/aws4_request, oops, SignedHeaders=x-amz-date, Signature=00")] [] in
    validate sha256 rq ex_cf ex_pv = ([], Refused IncompleteSignature)
    /\ bad_param_syntax (auth_value (st_canonical sha256 rq ex_cf)) = true
    /\ hdr_missing (st_canonical sha256 rq ex_cf) (auth_value (st_canonical sha256 rq ex_cf)) = true.
  Proof. run. Qed.

  (* no date header at all while host is not signed: IncompleteSignature (6d) before rule 8 *)
  Example ex_missing_params_header :
    let rq := ex_rq (s2b "/") None
                [host_h; auth_h (s2b "AWS4-HMAC-SHA256 Credential=AKID/20150830/us-east-1/svc/aws4_request, SignedHeaders=x-amz-date, Signature=00")] [] in
    validate sha256 rq ex_cf ex_pv = ([], Refused IncompleteSignature)
    /\ bad_param_syntax (auth_value (st_canonical sha256 rq ex_cf)) = false
    /\ hdr_missing (st_canonical sha256 rq ex_cf) (auth_value (st_canonical sha256 rq ex_cf)) = true.
  Proof. run. Qed.

  (* host not signed and an unparseable date: SignatureDoesNotMatch (rule 8) before rule 9 (C13_requirements) *)
  Example ex_requirements_host :
    let rq := ex_rq (s2b "/") None
                [host_h; date_h "yesterday";
                 auth_h (s2b "AWS4-HMAC-SHA256 Credential=AKID/20150830/us-east-1/svc/aws4_request, SignedHeaders=x-amz-date, Signature=00")] [] in
    validate sha256 rq ex_cf ex_pv = ([], Refused SignatureDoesNotMatch)
    /\ parse_iso8601 (ap_timestamp (sel_params (st_canonical sha256 rq ex_cf))) = None.
  Proof. run. Qed.

  (* a configured always-present header not signed, and an unparseable date *)
  Example ex_requirements_configured :
    let rq := ex_rq (s2b "/") None
                [host_h; date_h "yesterday";
                 auth_h (s2b "AWS4-HMAC-SHA256 Credential=AKID/20150830/us-east-1/svc/aws4_request, SignedHeaders=host;x-amz-date, Signature=00")] [] in
    validate sha256 rq ex_cf_reqs ex_pv = ([], Refused SignatureDoesNotMatch)
    /\ validate sha256 rq ex_cf ex_pv = ([], Refused IncompleteSignature).      (* C13_bad_date *)
  Proof. run. Qed.

  (* unparseable date with a four-part credential of the wrong region (C13_bad_date) *)
  Example ex_bad_date :
    let rq := ex_rq (s2b "/") None
                [host_h; date_h "2015-08-30 12:36";
                 auth_h (s2b "AWS4-HMAC-SHA256 Credential=AKID/20150830/eu-west-1/svc, SignedHeaders=host;x-amz-date, Signature=00")] [] in
    validate sha256 rq ex_cf ex_pv = ([], Refused IncompleteSignature).
  Proof. run. Qed.

  (* expired (16 minutes old) with a four-part credential: SignatureDoesNotMatch (rule 10) before
     IncompleteSignature (rule 12); no provider call (C13_expired) *)
  Example ex_expired :
    let rq := ex_rq (s2b "/") None
                [host_h; date_h "20150830T122000Z";
                 auth_h (s2b "AWS4-HMAC-SHA256 Credential=AKID/20150830/us-east-1/svc, SignedHeaders=host;x-amz-date, Signature=00")] [] in
    validate sha256 rq ex_cf ex_pv = ([], Refused SignatureDoesNotMatch)
    /\ bad_arity (st_au sha256 rq ex_cf) = true.
  Proof. run. Qed.

  Example ex_not_yet_valid :
    let rq := ex_rq (s2b "/") None
                [host_h; date_h "20150830T125200Z";
                 auth_h (s2b "AWS4-HMAC-SHA256 Credential=AKID/20150830/us-east-1/svc, SignedHeaders=host;x-amz-date, Signature=00")] [] in
    validate sha256 rq ex_cf ex_pv = ([], Refused SignatureDoesNotMatch)
    /\ expired (st_au sha256 rq ex_cf) ex_cf = false /\ not_yet_valid (st_au sha256 rq ex_cf) ex_cf = true.
  Proof. run. Qed.

  (* four-part credential, unknown access key, wrong signature: arity is reported, no call (C13_arity) *)
  Example ex_arity :
    let rq := ex_rq (s2b "/") None
                [host_h; date_h "20150830T123600Z";
                 auth_h (s2b "AWS4-HMAC-SHA256 Credential=NOBODY/20150830/us-east-1/svc, SignedHeaders=host;x-amz-date, Signature=00")] [] in
    validate sha256 rq ex_cf ex_pv = ([], Refused IncompleteSignature).
  Proof. run. Qed.

  (* wrong region, unknown access key, provider not ready: the scope is reported, no call (C13_scope) *)
  Example ex_scope :
    let rq := ex_rq (s2b "/") None
                [host_h; date_h "20150830T123600Z";
                 auth_h (s2b "AWS4-HMAC-SHA256 Credential=NOBODY/20150830/eu-west-1/svc/aws4_request, SignedHeaders=host;x-amz-date, Signature=00")] [] in
    validate sha256 rq ex_cf ex_pv_unready = ([], Refused SignatureDoesNotMatch)
    /\ validate sha256 rq ex_cf ex_pv = ([], Refused SignatureDoesNotMatch).
  Proof. run. Qed.

  (* the provider's own SignatureError passes through; a foreign error becomes InternalServiceError;
     a poll_ready error is reported without a call (C13_provider_error) *)
  Example ex_provider_error :
    let rq := ex_rq (s2b "/") None
                [host_h; date_h "20150830T123600Z";
                 auth_h (s2b "AWS4-HMAC-SHA256 Credential=NOBODY/20150830/us-east-1/svc/aws4_request, SignedHeaders=host;x-amz-date, Signature=00")] [] in
    snd (validate sha256 rq ex_cf ex_pv) = Refused InvalidClientTokenId
    /\ List.length (fst (validate sha256 rq ex_cf ex_pv)) = 1%nat
    /\ snd (validate sha256 rq ex_cf ex_pv_foreign) = Refused InternalServiceError
    /\ validate sha256 rq ex_cf ex_pv_unready = ([], Refused ExpiredToken).
  Proof. run. Qed.

  Example ex_wrong_signature :
    let rq := ex_rq (s2b "/") None (good_hs (s2b "00")) [] in
    validate sha256 rq ex_cf ex_pv = ([ex_call], Refused SignatureDoesNotMatch).
  Proof. run. Qed.

  (* hypotheses of the model-stage theorems are jointly satisfiable *)
  Example ex_wrong_signature_hypotheses :
    let rq := ex_rq (s2b "/") None (good_hs (s2b "00")) [] in
    exists cr pts body au key p s,
      from_request_parts sha256 rq ex_cf = Ok (cr, pts, body)
      /\ get_authenticator sha256 cr (cf_reqs ex_cf) = Ok au
      /\ prevalidate au (cf_region ex_cf) (cf_service ex_cf) (cf_now ex_cf) allowed_mismatch_ns = Ok tt
      /\ prov_answer ex_pv (the_call au ex_cf) = AnsOk key p s
      /\ au_signature au <> lower_hex (hmac sha256 key (sts_of au)).
  Proof.
    cbv zeta. do 7 eexists. split; [vm_compute; reflexivity|].
    split; [vm_compute; reflexivity|]. split; [vm_compute; reflexivity|].
    split; [vm_compute; reflexivity|]. vm_compute. discriminate.
  Qed.

  (* provider_kinds is satisfiable, and the bound of C13_reachable_kinds is attained outside the
     six request kinds *)
  Example ex_provider_kinds :
    provider_kinds (fun k => k = InvalidClientTokenId) ex_pv.
  Proof.
    split; [intros k E; discriminate E|]. intros g k. unfold ex_pv; cbn [pv_answer].
    destruct (bytes_eqb (g_access_key g) (s2b "AKID")); intro E; [discriminate E|]. injection E as <-. reflexivity.
  Qed.
End PipelineExamples.

Print Assumptions normalize_elem_unescape.
Print Assumptions from_request_parts_eq.
Print Assumptions carrier_params_eq.
Print Assumptions validate_eq.
Print Assumptions C13_precedence.
Print Assumptions C13_calls.
Print Assumptions C13_path_first.
Print Assumptions C13_query_second.
Print Assumptions C13_form_errors_third.
Print Assumptions C13_no_carrier.
Print Assumptions C13_both_carriers.
Print Assumptions C13_bad_algorithm_header.
Print Assumptions C13_bad_algorithm_query.
Print Assumptions C13_param_syntax.
Print Assumptions C13_missing_params_header.
Print Assumptions C13_missing_params_query.
Print Assumptions C13_requirements.
Print Assumptions C13_bad_date.
Print Assumptions C13_expired.
Print Assumptions C13_not_yet_valid.
Print Assumptions C13_arity.
Print Assumptions C13_scope.
Print Assumptions C13_provider_error.
Print Assumptions C13_wrong_signature.
Print Assumptions C13_accepted.
Print Assumptions C13_taxonomy.
Print Assumptions C13_status_is_error.
Print Assumptions C13_reachable_kinds.
Print Assumptions C13_refusal_status.
Print Assumptions C08_from_request_parts_never_panics.
Print Assumptions C08_carrier_params_never_panics.
Print Assumptions C08_get_authenticator_never_panics.
Print Assumptions C08_validate_signature_never_panics.
Print Assumptions C08_validate_never_panics.
Print Assumptions C08_validate_total.
Print Assumptions PipelineExamples.ex_accepted.
