(* C06: the secret-key object and the SigV4 HMAC key-derivation chain (model in Model/SigningKey.v),
   plus supporting facts: HMAC ignores zero padding inside a block, %Y%m%d formatting, the
   constant-time comparison model decides equality, lower-case hex is injective. *)
From Coq Require Import Lia.
From Verif Require Import Base.Bytes Base.Hex Crypto.Hmac Time.Calendar Time.Render Generated.SrcConsts Model.SigningKey Model.Validate.

(* ------------------------------------------------------------------------------------------ *)
(* HMAC and zero padding                                                                      *)
(* ------------------------------------------------------------------------------------------ *)

Lemma hmac_key_block_zero_pad : forall (H : bytes -> bytes) k n,
  (length k + n <= 64)%nat -> hmac_key_block H (k ++ repeat x00 n) = hmac_key_block H k.
Proof.
  intros H k n L. unfold hmac_key_block, block_size. cbv zeta.
  rewrite app_length, repeat_length.
  replace (Nat.ltb 64 (length k + n)) with false by (symmetry; apply Nat.ltb_ge; lia).
  replace (Nat.ltb 64 (length k)) with false by (symmetry; apply Nat.ltb_ge; lia).
  rewrite app_length, repeat_length.
  rewrite <- app_assoc, <- repeat_app.
  f_equal. f_equal. lia.
Qed.

(* HMAC ignores zero padding of a key that stays within one block: this is what makes hashing the
   whole fixed buffer correct for every secret length *)
Theorem hmac_zero_pad : forall (H : bytes -> bytes) k n m,
  (length k + n <= 64)%nat -> hmac H (k ++ repeat x00 n) m = hmac H k m.
Proof.
  intros H k n m L. unfold hmac. cbv zeta.
  rewrite (hmac_key_block_zero_pad H k n L). reflexivity.
Qed.

(* ------------------------------------------------------------------------------------------ *)
(* helper facts                                                                               *)
(* ------------------------------------------------------------------------------------------ *)

Lemma aws4_length : length aws4 = 4%nat.
Proof. reflexivity. Qed.

Lemma skipn_aws4 : forall l, skipn 4 (aws4 ++ l) = l.
Proof. reflexivity. Qed.

Lemma from_str_ok_inv : forall M s k, from_str M s = FsOk k ->
  (length s + 4 <= M)%nat /\
  k = {| ks_buf := aws4 ++ s ++ repeat x00 (M - 4 - length s); ks_len := length s + 4 |}.
Proof.
  intros M s k E. unfold from_str in E. cbv zeta in E.
  destruct (Nat.ltb_spec M (length s + 4)) as [L|L].
  - discriminate.
  - split; [exact L | congruence].
Qed.

Section KEYS.
  Variable H : bytes -> bytes.

  (* capacity: accepted iff it fits; never a panic, for every capacity M (including M < 4) *)
  Theorem C06_capacity : forall M s,
    (length s + 4 <= M)%nat <-> exists k, from_str M s = FsOk k.
  Proof.
    intros M s. split.
    - intro L. unfold from_str. cbv zeta.
      destruct (Nat.ltb_spec M (length s + 4)) as [L'|L']; [lia|].
      eexists. reflexivity.
    - intros [k E]. apply from_str_ok_inv in E. destruct E as [L _]. exact L.
  Qed.

  Theorem C06_too_long : forall M s, (M < length s + 4)%nat <-> from_str M s = FsKeyTooLong.
  Proof.
    intros M s. unfold from_str. cbv zeta.
    destruct (Nat.ltb_spec M (length s + 4)) as [L|L]; split; intro X.
    - reflexivity.
    - exact L.
    - lia.
    - discriminate.
  Qed.

  Theorem C06_never_panics : forall M s, from_str M s <> FsPanic.
  Proof.
    intros M s. unfold from_str. cbv zeta.
    destruct (Nat.ltb M (length s + 4)); discriminate.
  Qed.

  (* read-back *)
  Theorem C06_readback : forall M s k, from_str M s = FsOk k -> secret_as_ref k = s.
  Proof.
    intros M s k E. apply from_str_ok_inv in E. destruct E as [L ->].
    unfold secret_as_ref. cbn [ks_buf ks_len].
    rewrite skipn_aws4. rewrite Nat.add_sub.
    rewrite firstn_app, Nat.sub_diag, firstn_all. cbn [firstn]. apply app_nil_r.
  Qed.

  Theorem C06_buffer_shape : forall M s k, from_str M s = FsOk k ->
    length (ks_buf k) = M /\ ks_len k = (length s + 4)%nat /\ firstn (ks_len k) (ks_buf k) = aws4 ++ s.
  Proof.
    intros M s k E. apply from_str_ok_inv in E. destruct E as [L ->].
    cbn [ks_buf ks_len]. split; [|split].
    - rewrite !app_length, repeat_length, aws4_length. lia.
    - reflexivity.
    - rewrite app_assoc.
      replace (length s + 4)%nat with (length (aws4 ++ s) + 0)%nat
        by (rewrite app_length, aws4_length; lia).
      rewrite firstn_app_2. cbn [firstn]. apply app_nil_r.
  Qed.

  (* the chain, for the default capacity 44 (any capacity up to the 64-byte HMAC block works) *)
  Theorem C06_kdate : forall M s k date, (M <= 64)%nat -> from_str M s = FsOk k ->
    to_kdate H k date = hmac H (aws4 ++ s) (yyyymmdd_of_civil date).
  Proof.
    intros M s k date LM E. apply from_str_ok_inv in E. destruct E as [L ->].
    unfold to_kdate. cbv zeta. cbn [ks_buf].
    rewrite app_assoc. apply hmac_zero_pad.
    rewrite app_length, aws4_length. lia.
  Qed.

  Theorem C06_chain : forall M s k date region service, (M <= 64)%nat -> from_str M s = FsOk k ->
    to_ksigning H k date region service =
    hmac H (hmac H (hmac H (hmac H (aws4 ++ s) (yyyymmdd_of_civil date)) region) service) (s2b "aws4_request")
    /\ to_kservice H k date region service =
       hmac H (hmac H (hmac H (aws4 ++ s) (yyyymmdd_of_civil date)) region) service
    /\ to_kregion H k date region = hmac H (hmac H (aws4 ++ s) (yyyymmdd_of_civil date)) region.
  Proof.
    intros M s k date region service LM E.
    unfold to_ksigning, to_kservice, to_kregion, kdate_to_ksigning, kdate_to_kservice,
      kregion_to_ksigning, kservice_to_ksigning, kregion_to_kservice, kdate_to_kregion.
    cbv zeta.
    rewrite (C06_kdate M s k date LM E).
    repeat split; reflexivity.
  Qed.

  (* every shortcut equals the step-by-step composition *)
  Theorem C06_shortcuts : forall k date region service,
    to_kregion H k date region = kdate_to_kregion H (to_kdate H k date) region
    /\ to_kservice H k date region service = kregion_to_kservice H (kdate_to_kregion H (to_kdate H k date) region) service
    /\ to_ksigning H k date region service =
       kservice_to_ksigning H (kregion_to_kservice H (kdate_to_kregion H (to_kdate H k date) region) service)
    /\ (forall kd, kdate_to_kservice H kd region service = kregion_to_kservice H (kdate_to_kregion H kd region) service)
    /\ (forall kd, kdate_to_ksigning H kd region service =
                   kservice_to_ksigning H (kregion_to_kservice H (kdate_to_kregion H kd region) service))
    /\ (forall kr, kregion_to_ksigning H kr service = kservice_to_ksigning H (kregion_to_kservice H kr service)).
  Proof.
    intros k date region service.
    repeat split; intros; reflexivity.
  Qed.
End KEYS.

(* the terminator literal regenerated from the source is the SigV4 one *)
Theorem C06_terminator : src_signing_key_AWS4_REQUEST = s2b "aws4_request".
Proof. reflexivity. Qed.

(* ------------------------------------------------------------------------------------------ *)
(* decimal digits                                                                             *)
(* ------------------------------------------------------------------------------------------ *)

Lemma small_cases : forall d, (d < 10)%N ->
  d = 0%N \/ d = 1%N \/ d = 2%N \/ d = 3%N \/ d = 4%N \/ d = 5%N \/ d = 6%N \/ d = 7%N \/ d = 8%N \/ d = 9%N.
Proof. intros d L. lia. Qed.

Lemma digit_byte_is_digit : forall d, (d < 10)%N -> is_ascii_digit (digit_byte d) = true.
Proof.
  intros d L. apply small_cases in L.
  repeat (destruct L as [-> | L]; [reflexivity|]). subst d. reflexivity.
Qed.

Lemma b2n_digit_byte : forall d, (d < 10)%N -> b2n (digit_byte d) = (48 + d)%N.
Proof.
  intros d L. apply small_cases in L.
  repeat (destruct L as [-> | L]; [reflexivity|]). subst d. reflexivity.
Qed.

Lemma digit_byte_inj : forall a b, (a < 10)%N -> (b < 10)%N -> digit_byte a = digit_byte b -> a = b.
Proof.
  intros a b La Lb E. apply (f_equal b2n) in E.
  rewrite !b2n_digit_byte in E by assumption. lia.
Qed.

Lemma dec_fixed_length : forall w n, length (dec_fixed w n) = w.
Proof.
  induction w as [|w IH]; intro n; cbn [dec_fixed].
  - reflexivity.
  - rewrite app_length, IH. cbn. lia.
Qed.

Lemma dec_fixed_digits : forall w n, Forall (fun b => is_ascii_digit b = true) (dec_fixed w n).
Proof.
  induction w as [|w IH]; intro n; cbn [dec_fixed].
  - constructor.
  - apply Forall_app. split; [apply IH|].
    constructor; [|constructor].
    apply digit_byte_is_digit. apply N.mod_lt. discriminate.
Qed.

Lemma dec_fixed_inj : forall w a b, (a < 10 ^ N.of_nat w)%N -> (b < 10 ^ N.of_nat w)%N ->
  dec_fixed w a = dec_fixed w b -> a = b.
Proof.
  induction w as [|w IH]; intros a b La Lb E.
  - change (10 ^ N.of_nat 0)%N with 1%N in *. lia.
  - rewrite Nat2N.inj_succ, N.pow_succ_r' in La, Lb.
    cbn [dec_fixed] in E. apply app_inj_tail in E. destruct E as [E1 E2].
    apply IH in E1.
    + apply digit_byte_inj in E2; try (apply N.mod_lt; discriminate).
      rewrite (N.div_mod' a 10), (N.div_mod' b 10). congruence.
    + apply N.div_lt_upper_bound; [discriminate | exact La].
    + apply N.div_lt_upper_bound; [discriminate | exact Lb].
Qed.

Lemma app_inj_length : forall (A : Type) (a a' b b' : list A),
  length a = length a' -> a ++ b = a' ++ b' -> a = a' /\ b = b'.
Proof.
  intros A. induction a as [|x a IH]; intros [|x' a'] b b' L E; cbn in *; try discriminate.
  - auto.
  - injection E as -> E. injection L as L.
    destruct (IH _ _ _ L E) as [-> ->]. auto.
Qed.

Lemma render_year_4 : forall y, (0 <= y <= 9999)%Z -> render_year y = dec_fixed 4 (Z.to_N y).
Proof.
  intros y Hy. unfold render_year.
  replace (0 <=? y)%Z with true by (symmetry; apply Z.leb_le; lia).
  replace (y <=? 9999)%Z with true by (symmetry; apply Z.leb_le; lia).
  reflexivity.
Qed.

Lemma yyyymmdd_of_civil_small : forall y m d, (0 <= y <= 9999)%Z ->
  yyyymmdd_of_civil (y, m, d) = dec_fixed 4 (Z.to_N y) ++ dec_fixed 2 (Z.to_N m) ++ dec_fixed 2 (Z.to_N d).
Proof.
  intros y m d Hy. unfold yyyymmdd_of_civil, two. rewrite render_year_4 by assumption. reflexivity.
Qed.

(* date formatting: 8 ASCII digits, zero padded, for years 0..9999; injective on such dates *)
Theorem C06_date_format : forall y m d, (0 <= y <= 9999)%Z -> (1 <= m <= 12)%Z -> (1 <= d <= 31)%Z ->
  length (yyyymmdd_of_civil (y, m, d)) = 8%nat /\ Forall (fun b => is_ascii_digit b = true) (yyyymmdd_of_civil (y, m, d)).
Proof.
  intros y m d Hy Hm Hd. rewrite yyyymmdd_of_civil_small by assumption. split.
  - rewrite !app_length, !dec_fixed_length. reflexivity.
  - apply Forall_app; split; [|apply Forall_app; split]; apply dec_fixed_digits.
Qed.

Theorem C06_date_format_inj : forall y m d y' m' d',
  (0 <= y <= 9999)%Z -> (1 <= m <= 12)%Z -> (1 <= d <= 31)%Z ->
  (0 <= y' <= 9999)%Z -> (1 <= m' <= 12)%Z -> (1 <= d' <= 31)%Z ->
  yyyymmdd_of_civil (y, m, d) = yyyymmdd_of_civil (y', m', d') -> (y, m, d) = (y', m', d').
Proof.
  intros y m d y' m' d' Hy Hm Hd Hy' Hm' Hd' E.
  rewrite !yyyymmdd_of_civil_small in E by assumption.
  apply app_inj_length in E; [|rewrite !dec_fixed_length; reflexivity].
  destruct E as [Ey E].
  apply app_inj_length in E; [|rewrite !dec_fixed_length; reflexivity].
  destruct E as [Em Ed].
  apply dec_fixed_inj in Ey; [| change (10 ^ N.of_nat 4)%N with 10000%N; lia ..].
  apply dec_fixed_inj in Em; [| change (10 ^ N.of_nat 2)%N with 100%N; lia ..].
  apply dec_fixed_inj in Ed; [| change (10 ^ N.of_nat 2)%N with 100%N; lia ..].
  assert (y = y') by lia. assert (m = m') by lia. assert (d = d') by lia.
  congruence.
Qed.

(* ------------------------------------------------------------------------------------------ *)
(* constant-time comparison                                                                   *)
(* ------------------------------------------------------------------------------------------ *)

Lemma b2n_inj : forall x y, b2n x = b2n y -> x = y.
Proof.
  intros x y E. unfold b2n in E.
  assert (S : Some x = Some y).
  { rewrite <- (Byte.of_to_N x), <- (Byte.of_to_N y). rewrite E. reflexivity. }
  congruence.
Qed.

Lemma lxor_b2n_0 : forall x y, N.lxor (b2n x) (b2n y) = 0%N <-> x = y.
Proof.
  intros x y. split.
  - intro E. apply b2n_inj. apply N.lxor_eq. exact E.
  - intros ->. apply N.lxor_nilpotent.
Qed.

Lemma ct_fold_spec : forall a b acc, length a = length b ->
  (fold_left (fun acc p => N.lor acc (N.lxor (b2n (fst p)) (b2n (snd p)))) (combine a b) acc = 0%N
   <-> acc = 0%N /\ a = b).
Proof.
  induction a as [|x a IH]; intros [|y b] acc L; cbn in L; try discriminate.
  - cbn. tauto.
  - injection L as L. cbn [combine fold_left fst snd].
    rewrite (IH b _ L). rewrite N.lor_eq_0_iff, lxor_b2n_0.
    split.
    + intros [[-> ->] ->]. auto.
    + intros [-> E]. injection E as -> ->. auto.
Qed.

(* the constant-time comparison model decides equality of byte strings *)
Theorem ct_eq_spec : forall a b, ct_eq a b = true <-> a = b.
Proof.
  intros a b. unfold ct_eq. rewrite andb_true_iff, Nat.eqb_eq, N.eqb_eq. split.
  - intros [L E]. apply (ct_fold_spec a b 0%N L) in E. tauto.
  - intros ->. split; [reflexivity|]. apply (ct_fold_spec b b 0%N); auto.
Qed.

(* ------------------------------------------------------------------------------------------ *)
(* lower-case hex                                                                             *)
(* ------------------------------------------------------------------------------------------ *)

Lemma lower_hex_byte_inj : forall x y, lower_hex_byte x = lower_hex_byte y -> x = y.
Proof.
  intros x y E.
  pose proof (unhex2_lower_hex x) as Hx. pose proof (unhex2_lower_hex y) as Hy.
  rewrite E in Hx.
  destruct (lower_hex_byte y) as [|h [|l [|? ?]]]; try contradiction.
  congruence.
Qed.

Lemma lower_hex_cons : forall x a, lower_hex (x :: a) = lower_hex_byte x ++ lower_hex a.
Proof. reflexivity. Qed.

Lemma lower_hex_byte_length : forall x, length (lower_hex_byte x) = 2%nat.
Proof. reflexivity. Qed.

(* hex rendering is injective and has length 2n; lowercase hex alphabet *)
Theorem lower_hex_inj : forall a b, lower_hex a = lower_hex b -> a = b.
Proof.
  induction a as [|x a IH]; intros [|y b] E.
  - reflexivity.
  - discriminate.
  - discriminate.
  - rewrite !lower_hex_cons in E.
    apply app_inj_length in E; [|rewrite !lower_hex_byte_length; reflexivity].
    destruct E as [E1 E2]. apply lower_hex_byte_inj in E1. apply IH in E2. congruence.
Qed.

Theorem lower_hex_length : forall a, length (lower_hex a) = (2 * length a)%nat.
Proof.
  induction a as [|x a IH].
  - reflexivity.
  - rewrite lower_hex_cons, app_length, lower_hex_byte_length, IH. cbn [length]. lia.
Qed.

Theorem lower_hex_alphabet : forall a,
  Forall (fun c => is_ascii_digit c = true \/ in_range 97 102 c = true) (lower_hex a).
Proof.
  induction a as [|x a IH].
  - constructor.
  - rewrite lower_hex_cons. apply Forall_app. split; [|exact IH].
    unfold lower_hex_byte.
    constructor; [|constructor; [|constructor]]; destruct x; vm_compute; auto.
Qed.
