(* The imperative-style models of Model/UriImp.v (index loops, Vec::remove, explicit bounds
   checks, explicit fuel) compute exactly the structural models of Model/Uri.v:

     normalize_elem_imp_correct : normalize_elem_imp s = Done (normalize_elem s)
     canon_path_imp_correct     : canon_path_imp s3 p  = Done (canon_path s3 p)

   In particular the loops never run out of the stated fuel and none of the implicit Rust
   bounds checks / asserts modelled as [Panic] can fire.
   Standard library only; no axioms. *)
From Coq Require Import List Bool NArith Arith Lia.
From Coq Require Import Strings.Byte.
From Verif Require Import Base.Bytes Base.Hex Generated.SrcConsts Model.Uri Model.UriImp.
From Verif Require Import Proofs.PathProofs.
Import ListNotations.
Local Open Scope byte_scope.

(* ------------------------------------------------------------------------- *)
(* 1. Index lemmas                                                            *)
(* ------------------------------------------------------------------------- *)

Lemma skipn_nth_cons {A} (d : A) : forall (l : list A) i,
  i < List.length l -> skipn i l = nth i l d :: skipn (S i) l.
Proof.
  induction l as [|x l IH]; intros i Hi.
  - cbn [List.length] in Hi. lia.
  - destruct i as [|i].
    + reflexivity.
    + cbn [List.length] in Hi.
      change (skipn (S i) (x :: l)) with (skipn i l).
      change (skipn (S (S i)) (x :: l)) with (skipn (S i) l).
      change (nth (S i) (x :: l) d) with (nth i l d).
      apply IH. lia.
Qed.

Lemma skipn_short {A} (l : list A) i : List.length l <= i -> skipn i l = [].
Proof. apply skipn_all2. Qed.

Lemma nth_at {A} (a b : list A) x d i :
  i = List.length a -> nth i (a ++ x :: b) d = x.
Proof. intros ->. apply nth_middle. Qed.

Lemma remove_nth_at {A} : forall (a b : list A) x i,
  i = List.length a -> remove_nth i (a ++ x :: b) = a ++ b.
Proof.
  induction a as [|y a IH]; intros b x i ->.
  - reflexivity.
  - cbn [List.length app remove_nth]. f_equal. apply IH. reflexivity.
Qed.

Lemma set_nth_at {A} : forall (a b : list A) x v i,
  i = List.length a -> set_nth i v (a ++ x :: b) = a ++ v :: b.
Proof.
  induction a as [|y a IH]; intros b x v i ->.
  - reflexivity.
  - cbn [List.length app set_nth]. f_equal. apply IH. reflexivity.
Qed.

Lemma vec_get_ok {A} i (l : list A) d :
  i < List.length l -> vec_get i l d = Done (nth i l d).
Proof. intro H. unfold vec_get. apply Nat.ltb_lt in H. rewrite H. reflexivity. Qed.

Lemma vec_remove_ok {A} i (l : list A) :
  i < List.length l -> vec_remove i l = Done (remove_nth i l).
Proof. intro H. unfold vec_remove. apply Nat.ltb_lt in H. rewrite H. reflexivity. Qed.

Lemma vec_set_ok {A} i v (l : list A) :
  i < List.length l -> vec_set i v l = Done (set_nth i v l).
Proof. intro H. unfold vec_set. apply Nat.ltb_lt in H. rewrite H. reflexivity. Qed.

(* ------------------------------------------------------------------------- *)
(* 2. normalize_uri_element                                                   *)
(* ------------------------------------------------------------------------- *)

Lemma normalize_loop_unfold fuel s i result :
  normalize_loop (S fuel) s i result =
      if i <? List.length s then
        let c := nth i s x00 in
        if unreserved c then normalize_loop fuel s (i + 1) (result ++ [c])
        else if beqb c "%" then
          if List.length s <=? i + 2 then Done None
          else
            if negb (i + 3 <=? List.length s) then Panic
            else
              match unhex2 (nth (i + 1) s x00) (nth (i + 2) s x00) with
              | Some v =>
                  normalize_loop fuel s (i + 3)
                    (result ++ (if unreserved v then [v] else pct v))
              | None => Done None
              end
        else if beqb c "+" then normalize_loop fuel s (i + 1) (result ++ s2b "%20")
        else normalize_loop fuel s (i + 1) (result ++ pct c)
      else Done (Some result).
Proof. reflexivity. Qed.

Lemma option_map_app_cons (acc : bytes) c (X : option bytes) :
  option_map (app acc) (option_map (cons c) X) = option_map (app (acc ++ [c])) X.
Proof.
  destruct X as [x|]; [|reflexivity]. cbn [option_map].
  rewrite <- app_assoc. reflexivity.
Qed.

Lemma option_map_app_app (acc pre : bytes) (X : option bytes) :
  option_map (app acc) (option_map (app pre) X) = option_map (app (acc ++ pre)) X.
Proof.
  destruct X as [x|]; [|reflexivity]. cbn [option_map].
  rewrite <- app_assoc. reflexivity.
Qed.

(* Loop invariant: at index [i] with accumulator [result], the loop returns [result] followed
   by the structural normalisation of the unread suffix [skipn i s]. *)
Lemma normalize_loop_inv s : forall fuel i result,
  List.length s - i < fuel ->
  normalize_loop fuel s i result =
    Done (option_map (app result) (normalize_elem (skipn i s))).
Proof.
  induction fuel as [|fuel IH]; intros i result Hfuel; [lia|].
  rewrite normalize_loop_unfold.
  destruct (i <? List.length s) eqn:Hlt.
  2:{ apply Nat.ltb_ge in Hlt. rewrite skipn_short by exact Hlt.
      cbn [normalize_elem option_map]. rewrite app_nil_r. reflexivity. }
  apply Nat.ltb_lt in Hlt.
  rewrite (skipn_nth_cons x00 s i Hlt), normalize_elem_cons.
  cbv zeta.
  replace (i + 1) with (S i) by lia.
  destruct (unreserved (nth i s x00)) eqn:Hunres.
  { rewrite IH by lia. rewrite option_map_app_cons. reflexivity. }
  destruct (beqb (nth i s x00) "%") eqn:Hpct.
  { destruct (List.length s <=? i + 2) eqn:Hshort.
    - (* fewer than two bytes follow the '%' *)
      apply Nat.leb_le in Hshort.
      destruct (skipn (S i) s) as [|h [|l r']] eqn:Hsk; try reflexivity.
      exfalso.
      assert (Hlen : List.length (skipn (S i) s) = List.length s - S i) by apply skipn_length.
      rewrite Hsk in Hlen. cbn [List.length] in Hlen. lia.
    - apply Nat.leb_gt in Hshort.
      assert (Hslice : (i + 3 <=? List.length s) = true) by (apply Nat.leb_le; lia).
      rewrite Hslice. cbn [negb].
      rewrite (skipn_nth_cons x00 s (S i)) by lia.
      rewrite (skipn_nth_cons x00 s (S (S i))) by lia.
      replace (i + 2) with (S (S i)) by lia.
      replace (i + 3) with (S (S (S i))) by lia.
      destruct (unhex2 (nth (S i) s x00) (nth (S (S i)) s x00)) as [v|] eqn:Hhex;
        [|reflexivity].
      rewrite IH by lia. rewrite option_map_app_app. reflexivity. }
  destruct (beqb (nth i s x00) "+") eqn:Hplus.
  { rewrite IH by lia. rewrite option_map_app_app. reflexivity. }
  rewrite IH by lia. rewrite option_map_app_app. reflexivity.
Qed.

Theorem normalize_elem_imp_correct : forall s,
  normalize_elem_imp s = Done (normalize_elem s).
Proof.
  intro s. unfold normalize_elem_imp.
  rewrite normalize_loop_inv by lia.
  change (skipn 0 s) with s.
  destruct (normalize_elem s); reflexivity.
Qed.
Print Assumptions normalize_elem_imp_correct.

(* More fuel changes nothing (the bound [S (length s)] is not special). *)
Corollary normalize_loop_any_fuel : forall s fuel,
  List.length s < fuel -> normalize_loop fuel s 0 [] = Done (normalize_elem s).
Proof.
  intros s fuel Hfuel. rewrite normalize_loop_inv by lia.
  change (skipn 0 s) with s. destruct (normalize_elem s); reflexivity.
Qed.

(* all four branches, both error exits, an escape at the very end of the input *)
Example normalize_imp_ex1 :
  normalize_elem_imp (s2b "aZ9-._~%2e%2F%7e+ /%c3%A9") = Done (Some (s2b "aZ9-._~.%2F~%20%20%2F%C3%A9"))
  /\ normalize_elem (s2b "aZ9-._~%2e%2F%7e+ /%c3%A9") = Some (s2b "aZ9-._~.%2F~%20%20%2F%C3%A9").
Proof. split; vm_compute; reflexivity. Qed.

Example normalize_imp_ex2 :
  normalize_elem_imp (s2b "ab%") = Done None /\ normalize_elem_imp (s2b "ab%4") = Done None
  /\ normalize_elem_imp (s2b "ab%4g") = Done None /\ normalize_elem_imp (s2b "ab%41") = Done (Some (s2b "abA"))
  /\ normalize_elem_imp [] = Done (Some []).
Proof. repeat split; vm_compute; reflexivity. Qed.

(* one unit of fuel less than [S (length s)] is not enough: [OutOfFuel] is a real outcome of
   the loop function, excluded by the theorem only because the fuel bound is right *)
Example normalize_loop_fuel_tight :
  normalize_loop 3 (s2b "abc") 0 [] = OutOfFuel
  /\ normalize_loop 4 (s2b "abc") 0 [] = Done (Some (s2b "abc")).
Proof. split; vm_compute; reflexivity. Qed.

(* ------------------------------------------------------------------------- *)
(* 3. canonicalize_uri_path                                                   *)
(* ------------------------------------------------------------------------- *)

Lemma path_loop_imp_unfold fuel s3 components i :
  path_loop_imp (S fuel) s3 components i =
      if i <? List.length components then
        bind (vec_get i components []) (fun ci =>
        bind (normalize_elem_imp ci) (fun r =>
        match r with
        | None => Done None
        | Some component =>
            if bytes_eqb component dot && negb s3 then
              bind (vec_remove i components) (fun components =>
              path_loop_imp fuel s3 components i)
            else if bytes_eqb component dotdot && negb s3 then
              if i <=? 1 then Done None
              else
                bind (vec_remove (i - 1) components) (fun components =>
                bind (vec_remove (i - 1) components) (fun components =>
                bind (usize_dec i) (fun i =>
                path_loop_imp fuel s3 components i)))
            else
              bind (vec_set i component components) (fun components =>
              path_loop_imp fuel s3 components (i + 1))
        end))
      else Done (Some components).
Proof. reflexivity. Qed.

(* Loop invariant.  [components] is  c0 :: rev stack ++ rest  where [c0] is the (never
   touched) component before the first '/', [rev stack] are the processed, kept, normalised
   components components[1..i) and [rest] = components[i..] is unprocessed; [i = 1 + |stack|].
   Then the imperative loop returns c0 :: (what the stack loop returns). *)
Lemma path_loop_imp_inv s3 c0 : forall fuel stack rest components i,
  components = (c0 :: rev stack) ++ rest ->
  i = List.length (c0 :: rev stack) ->
  2 * List.length components - i < fuel ->
  path_loop_imp fuel s3 components i =
    Done (option_map (cons c0) (path_loop s3 rest stack)).
Proof.
  induction fuel as [|fuel IH]; intros stack rest components i Hcomps Hi Hfuel; [lia|].
  rewrite path_loop_imp_unfold.
  assert (Hlen : List.length components = i + List.length rest)
    by (rewrite Hcomps, app_length; lia).
  destruct rest as [|c rest'].
  { (* i = components.len(): the loop ends *)
    cbn [List.length] in Hlen.
    assert (Hge : (i <? List.length components) = false) by (apply Nat.ltb_ge; lia).
    rewrite Hge, Hcomps, app_nil_r. reflexivity. }
  cbn [List.length] in Hlen.
  assert (Hlt : (i <? List.length components) = true) by (apply Nat.ltb_lt; lia).
  rewrite Hlt.
  rewrite vec_get_ok by lia. cbn [bind].
  assert (Hnth : nth i components [] = c) by (rewrite Hcomps; apply nth_at; exact Hi).
  rewrite Hnth, normalize_elem_imp_correct. cbn [bind].
  rewrite path_loop_cons.
  destruct (normalize_elem c) as [n|] eqn:Hnorm; [|reflexivity].
  rewrite (andb_comm (bytes_eqb n dot)), (andb_comm (bytes_eqb n dotdot)).
  destruct (negb s3 && bytes_eqb n dot) eqn:Hdot.
  { (* ".": components.remove(i) *)
    rewrite vec_remove_ok by lia. cbn [bind].
    apply IH.
    - rewrite Hcomps. apply remove_nth_at. exact Hi.
    - exact Hi.
    - rewrite Hcomps, remove_nth_at by exact Hi.
      rewrite app_length, <- Hi. lia. }
  destruct (negb s3 && bytes_eqb n dotdot) eqn:Hdotdot.
  { (* "..": error at i <= 1, else remove(i-1); remove(i-1); i -= 1 *)
    destruct stack as [|t stack'].
    - cbn [rev List.length] in Hi. subst i. reflexivity.
    - assert (Hi' : i - 1 = List.length (c0 :: rev stack')).
      { rewrite Hi. cbn [rev List.length]. rewrite app_length. cbn [List.length]. lia. }
      assert (Hi1 : (i <=? 1) = false).
      { apply Nat.leb_gt. rewrite Hi. cbn [rev List.length]. rewrite app_length.
        cbn [List.length]. lia. }
      rewrite Hi1.
      assert (Hcomps' : components = (c0 :: rev stack') ++ t :: c :: rest').
      { rewrite Hcomps. cbn [rev]. rewrite app_comm_cons, <- app_assoc. reflexivity. }
      assert (Hrm1 : remove_nth (i - 1) components = (c0 :: rev stack') ++ c :: rest')
        by (rewrite Hcomps'; apply remove_nth_at; exact Hi').
      assert (Hrm2 : remove_nth (i - 1) ((c0 :: rev stack') ++ c :: rest')
                     = (c0 :: rev stack') ++ rest')
        by (apply remove_nth_at; exact Hi').
      rewrite vec_remove_ok by lia. cbn [bind]. rewrite Hrm1.
      rewrite vec_remove_ok by (rewrite app_length, <- Hi'; cbn [List.length]; lia).
      cbn [bind]. rewrite Hrm2.
      destruct i as [|j]; [cbn [List.length] in Hi'; lia|].
      cbn [usize_dec bind].
      replace (S j - 1) with j in Hi' by lia.
      apply IH.
      + reflexivity.
      + exact Hi'.
      + rewrite app_length, <- Hi'. lia. }
  (* other: components[i] = component; i += 1 *)
  rewrite vec_set_ok by lia. cbn [bind].
  apply IH.
  - rewrite Hcomps, set_nth_at by exact Hi.
    cbn [rev]. rewrite app_comm_cons, <- app_assoc. reflexivity.
  - rewrite Hi. cbn [rev List.length]. rewrite app_length. cbn [List.length]. lia.
  - rewrite Hcomps, set_nth_at by exact Hi.
    rewrite app_length, <- Hi. cbn [List.length]. lia.
Qed.

(* the component before the first '/' is empty, also after collapsing slashes *)
Lemma split_leading_slash (s3 : bool) (r : bytes) :
  split_on "/" (if s3 then "/" :: r else collapse_slashes ("/" :: r)) =
    [] :: tl (split_on "/" (if s3 then "/" :: r else collapse_slashes ("/" :: r))).
Proof.
  destruct s3.
  - reflexivity.
  - rewrite split_collapse. reflexivity.
Qed.

Theorem canon_path_imp_correct : forall s3 p,
  canon_path_imp s3 p = Done (canon_path s3 p).
Proof.
  intros s3 p. unfold canon_path_imp, canon_path.
  destruct p as [|c r]; [reflexivity|].
  cbn [List.length Nat.eqb orb].
  destruct (bytes_eqb (c :: r) slash) eqn:Hslash; [reflexivity|].
  assert (Hsw : starts_with slash (c :: r) = beqb c "/").
  { unfold slash. cbn [starts_with]. rewrite andb_true_r.
    destruct (beqb c "/") eqn:E.
    - apply beqb_eq in E. subst c. reflexivity.
    - apply beqb_neq. intro E'. apply beqb_neq in E. congruence. }
  rewrite Hsw.
  destruct (beqb c "/") eqn:Hc; [|reflexivity].
  cbn [negb]. cbv zeta.
  apply beqb_eq in Hc. subst c.
  rewrite split_leading_slash.
  set (comps := tl (split_on "/" (if s3 then "/" :: r else collapse_slashes ("/" :: r)))).
  rewrite (path_loop_imp_inv s3 [] _ [] comps ([] :: comps) 1).
  2:{ reflexivity. }
  2:{ reflexivity. }
  2:{ cbn [List.length]. lia. }
  cbn [bind].
  destruct (path_loop s3 comps []) as [kept|]; [|reflexivity].
  cbn [option_map List.length Nat.eqb].
  destruct kept as [|k ks]; reflexivity.
Qed.
Print Assumptions canon_path_imp_correct.

(* Both models on concrete paths: equal, [Done], never [Panic]/[OutOfFuel]. *)
Definition agree (s3 : bool) (p : bytes) (expected : option bytes) : Prop :=
  canon_path_imp s3 p = Done expected /\ canon_path s3 p = expected.

Example canon_imp_ex1 : agree false (s2b "/a/./b/../c") (Some (s2b "/a/c")).
Proof. split; vm_compute; reflexivity. Qed.

Example canon_imp_ex2 : agree false (s2b "/..") None.
Proof. split; vm_compute; reflexivity. Qed.

Example canon_imp_ex3 : agree false (s2b "/%2e%2E/x") None.
Proof. split; vm_compute; reflexivity. Qed.

Example canon_imp_ex4 : agree false (s2b "/a//b/") (Some (s2b "/a/b/")).
Proof. split; vm_compute; reflexivity. Qed.

Example canon_imp_ex5 : agree true (s2b "/a//b/./../c") (Some (s2b "/a//b/./../c")).
Proof. split; vm_compute; reflexivity. Qed.

Example canon_imp_ex6 : agree false (s2b "/a/b/../../c d/%7e/%zz") None.
Proof. split; vm_compute; reflexivity. Qed.

Example canon_imp_ex7 : agree false (s2b "/a/b/%2E%2e/../x+y/.") (Some (s2b "/x%20y")).
Proof. split; vm_compute; reflexivity. Qed.

Example canon_imp_ex8 : agree false (s2b "/a/..") (Some (s2b "/")) /\ agree false (s2b "//") (Some (s2b "/"))
  /\ agree false [] (Some (s2b "/")) /\ agree false (s2b "a/b") None /\ agree true (s2b "//") (Some (s2b "//")).
Proof. repeat split; vm_compute; reflexivity. Qed.

(* The loop function does run out of fuel when given too little, and the measure argument is
   tight up to a constant: "/a/b/c" has 4 components and needs 4 units (3 iterations + exit). *)
Example path_loop_imp_fuel :
  path_loop_imp 3 false (split_on "/" (s2b "/a/b/c")) 1 = OutOfFuel
  /\ path_loop_imp 4 false (split_on "/" (s2b "/a/b/c")) 1
     = Done (Some [[]; s2b "a"; s2b "b"; s2b "c"]).
Proof. split; vm_compute; reflexivity. Qed.

(* The bounds checks are live in the model (each primitive does return [Panic] out of range);
   the theorems above show that the loops never reach them. *)
Example vec_ops_panic :
  vec_remove 2 [s2b "a"; s2b "b"] = Panic /\ vec_set 2 [] [s2b "a"; s2b "b"] = Panic
  /\ vec_get 2 [s2b "a"; s2b "b"] [] = Panic /\ usize_dec 0 = Panic.
Proof. repeat split; reflexivity. Qed.
