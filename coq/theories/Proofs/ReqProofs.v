(* C05: the SignedHeaderRequirements containers denote case-folded sets, and the requirement
   check depends only on those sets. *)
From Verif Require Import Base.Bytes Model.Headers Model.Requirements Model.Validate.

(* the set of case-folded names a declaration list denotes *)
Definition denotes (l : list bytes) (n : bytes) : bool := mem_bytes (lower n) (map lower l).

(* ---- helpers ---- *)

Lemma mem_bytes_app x l1 l2 : mem_bytes x (l1 ++ l2) = mem_bytes x l1 || mem_bytes x l2.
Proof.
  induction l1 as [|y r IH]; cbn; [reflexivity|].
  rewrite IH, orb_assoc. reflexivity.
Qed.

Lemma bool_ext (a b : bool) : (a = true <-> b = true) -> a = b.
Proof. destruct a, b; intros [H1 H2]; auto; try (symmetry; auto). Qed.

Lemma denotes_iff l n : denotes l n = true <-> exists a, In a l /\ lower a = lower n.
Proof.
  unfold denotes. rewrite mem_bytes_In, in_map_iff.
  split; intros [a [H1 H2]]; exists a; auto.
Qed.

Theorem add_name_denotes : forall l h n, denotes (add_name l h) n = denotes l n || bytes_eqb (lower n) (lower h).
Proof.
  intros l h n. unfold add_name.
  destruct (mem_bytes (lower h) l) eqn:E.
  - destruct (bytes_eqb (lower n) (lower h)) eqn:E2.
    + rewrite orb_true_r. apply bytes_eqb_eq in E2.
      apply denotes_iff. exists (lower h). split.
      * apply mem_bytes_In; exact E.
      * rewrite lower_idem. symmetry; exact E2.
    + rewrite orb_false_r. reflexivity.
  - unfold denotes. rewrite map_app, mem_bytes_app. cbn. rewrite orb_false_r. reflexivity.
Qed.

Theorem remove_name_denotes : forall l h n, denotes (remove_name l h) n = denotes l n && negb (bytes_eqb (lower n) (lower h)).
Proof.
  intros l h n. apply bool_ext.
  rewrite andb_true_iff, negb_true_iff, !denotes_iff, bytes_eqb_neq.
  unfold remove_name. split.
  - intros [a [Hin Ha]]. apply filter_In in Hin. destruct Hin as [Hin Hf].
    apply negb_true_iff, bytes_eqb_neq in Hf. split.
    + exists a; auto.
    + congruence.
  - intros [[a [Hin Ha]] Hne]. exists a. split; [|exact Ha].
    apply filter_In. split; [exact Hin|].
    apply negb_true_iff, bytes_eqb_neq. congruence.
Qed.

(* abstract set semantics of an operation sequence *)
Definition abs_set := bytes -> bool.
Definition abs_add (s : abs_set) (h : bytes) : abs_set := fun n => s n || bytes_eqb (lower n) (lower h).
Definition abs_remove (s : abs_set) (h : bytes) : abs_set := fun n => s n && negb (bytes_eqb (lower n) (lower h)).
Record abs_reqs := { a_always : abs_set; a_ifreq : abs_set; a_prefixes : abs_set }.
Definition abs_apply (r : abs_reqs) (o : req_op) : abs_reqs :=
  match o with
  | AddAlways h => {| a_always := abs_add (a_always r) h; a_ifreq := a_ifreq r; a_prefixes := a_prefixes r |}
  | AddIfReq h => {| a_always := a_always r; a_ifreq := abs_add (a_ifreq r) h; a_prefixes := a_prefixes r |}
  | AddPrefix h => {| a_always := a_always r; a_ifreq := a_ifreq r; a_prefixes := abs_add (a_prefixes r) h |}
  | RemAlways h => {| a_always := abs_remove (a_always r) h; a_ifreq := a_ifreq r; a_prefixes := a_prefixes r |}
  | RemIfReq h => {| a_always := a_always r; a_ifreq := abs_remove (a_ifreq r) h; a_prefixes := a_prefixes r |}
  | RemPrefix h => {| a_always := a_always r; a_ifreq := a_ifreq r; a_prefixes := abs_remove (a_prefixes r) h |}
  end.
Definition abs_of (r : reqs) : abs_reqs :=
  {| a_always := denotes (always_present r); a_ifreq := denotes (if_in_request r); a_prefixes := denotes (prefixes r) |}.
Definition abs_eq (a b : abs_reqs) : Prop :=
  (forall n, a_always a n = a_always b n) /\ (forall n, a_ifreq a n = a_ifreq b n) /\ (forall n, a_prefixes a n = a_prefixes b n).

Lemma abs_eq_refl a : abs_eq a a.
Proof. repeat split. Qed.

Lemma abs_eq_trans a b c : abs_eq a b -> abs_eq b c -> abs_eq a c.
Proof.
  intros [H1 [H2 H3]] [K1 [K2 K3]]. repeat split; intro n; congruence.
Qed.

Lemma abs_apply_proper a b o : abs_eq a b -> abs_eq (abs_apply a o) (abs_apply b o).
Proof.
  intros [H1 [H2 H3]].
  destruct o; cbn; repeat split; cbn; intro n; unfold abs_add, abs_remove;
    rewrite ?H1, ?H2, ?H3; reflexivity.
Qed.

Lemma abs_fold_proper ops : forall a b, abs_eq a b -> abs_eq (fold_left abs_apply ops a) (fold_left abs_apply ops b).
Proof.
  induction ops as [|o ops IH]; intros a b H; cbn; [exact H|].
  apply IH, abs_apply_proper, H.
Qed.

Lemma abs_of_apply_op r o : abs_eq (abs_of (apply_op r o)) (abs_apply (abs_of r) o).
Proof.
  destruct o; cbn; repeat split; cbn; intro n; unfold abs_add, abs_remove;
    first [ apply add_name_denotes | apply remove_name_denotes | reflexivity ].
Qed.

(* C05: for every operation sequence the Vec container denotes the abstract insert/delete set *)
Theorem C05_containers_refine_sets : forall ops r,
  abs_eq (abs_of (apply_ops r ops)) (fold_left abs_apply ops (abs_of r)).
Proof.
  unfold apply_ops.
  induction ops as [|o ops IH]; intro r; cbn.
  - apply abs_eq_refl.
  - eapply abs_eq_trans; [apply IH|].
    apply abs_fold_proper, abs_of_apply_op.
Qed.

(* a check that looks at declarations only through [lower] is a statement about the denoted set *)
Lemma forallb_lower_denotes (P : bytes -> bool) l :
  forallb (fun a => P (lower a)) l = true <-> (forall n, denotes l n = true -> P (lower n) = true).
Proof.
  rewrite forallb_forall. split.
  - intros H n Hn. apply denotes_iff in Hn. destruct Hn as [a [Hin Ha]].
    rewrite <- Ha. apply H, Hin.
  - intros H a Hin. apply H. apply denotes_iff. exists a; auto.
Qed.

Lemma forallb_lower_ext (P : bytes -> bool) l1 l2 :
  (forall n, denotes l1 n = denotes l2 n) ->
  forallb (fun a => P (lower a)) l1 = forallb (fun a => P (lower a)) l2.
Proof.
  intro H. apply bool_ext. rewrite !forallb_lower_denotes.
  split; intros K n Hn; apply K; [rewrite H | rewrite <- H]; exact Hn.
Qed.

(* the requirement check depends only on the denoted sets (so letter case, duplicates and order of
   declarations, and which container built them, do not matter) *)
Theorem C05_reqs_ok_extensional : forall r1 r2 hm signed,
  abs_eq (abs_of r1) (abs_of r2) -> reqs_ok r1 hm signed = reqs_ok r2 hm signed.
Proof.
  intros r1 r2 hm signed [H1 [H2 H3]]. cbn in H1, H2, H3. unfold reqs_ok.
  rewrite (forallb_lower_ext (fun x => mem_bytes x signed) _ _ H1).
  rewrite (forallb_lower_ext
             (fun x => negb (match hget x hm with Some _ => true | None => false end)
                       || mem_bytes x signed) _ _ H2).
  rewrite (forallb_lower_ext
             (fun x => forallb (fun kv => negb (starts_with x (fst kv)) || mem_bytes (fst kv) signed) hm)
             _ _ H3).
  reflexivity.
Qed.

(* what the check means, in set terms *)
Theorem C05_reqs_ok_meaning : forall r hm signed,
  reqs_ok r hm signed = true <->
  (forall a, In a (always_present r) -> In (lower a) signed)
  /\ (forall c, In c (if_in_request r) -> hget (lower c) hm <> None -> In (lower c) signed)
  /\ (forall p k vs, In p (prefixes r) -> In (k, vs) hm -> starts_with (lower p) k = true -> In k signed).
Proof.
  intros r hm signed. unfold reqs_ok.
  rewrite !andb_true_iff, !forallb_forall.
  split.
  - intros [[HA HC] HP]. repeat split.
    + intros a Hin. apply mem_bytes_In, HA, Hin.
    + intros c Hin Hne. specialize (HC c Hin).
      apply orb_true_iff in HC. destruct HC as [HC|HC].
      * destruct (hget (lower c) hm); [discriminate | congruence].
      * apply mem_bytes_In, HC.
    + intros p k vs Hin Hkv Hsw. specialize (HP p Hin).
      rewrite forallb_forall in HP. specialize (HP (k, vs) Hkv). cbn in HP.
      rewrite Hsw in HP. cbn in HP. apply mem_bytes_In, HP.
  - intros [HA [HC HP]]. repeat split.
    + intros a Hin. apply mem_bytes_In, HA, Hin.
    + intros c Hin. apply orb_true_iff.
      destruct (hget (lower c) hm) eqn:E.
      * right. apply mem_bytes_In, HC; [exact Hin | congruence].
      * left. reflexivity.
    + intros p Hin. apply forallb_forall. intros [k vs] Hkv. cbn.
      destruct (starts_with (lower p) k) eqn:E; cbn; [|reflexivity].
      apply mem_bytes_In. eapply HP; eauto.
Qed.
