(* C07: theorems over the comparison expression regenerated from /repo/src/auth.rs and the leakage model *)
From Coq Require Import String List Bool Arith Lia.
From Verif Require Import Base.Bytes Base.Hex Crypto.Hmac Generated.SrcConsts Model.Errors Model.Validate
  Model.Leakage Spec.Audit.
Import ListNotations.
Local Open Scope string_scope.

(* ---------------------------------------------------------------------------------------- C07 *)

(* The comparison statement of validate_signature is classified by the extractor (tools/extract_src.py):
   "ct_eq" when the expression assigned to the verdict is a single call of subtle's ct_eq on the two byte
   strings (whatever the operands are called, with or without bool::from / .into()), and the body of
   validate_signature contains no other comparison of the presented signature; anything else is "other". *)
Definition classify_compare (s : string) : comparator :=
  if String.eqb s "ct_eq" then CmpCtEq else CmpOther.

Theorem C07_source_uses_ct : classify_compare src_sig_compare_kind = CmpCtEq.
Proof. vm_compute. reflexivity. Qed.

Lemma map_const_length {A B} (c : B) (l l' : list A) :
  List.length l = List.length l' -> map (fun _ => c) l = map (fun _ => c) l'.
Proof.
  revert l'. induction l as [|x l IH]; intros [|y l'] E; cbn in *; try discriminate; try reflexivity.
  f_equal. apply IH. lia.
Qed.

(* the steps of the constant-time comparison depend on the operand lengths only *)
Theorem C07_ct_eq_steps_data_independent : forall a b a' b',
  List.length a = List.length a' -> List.length b = List.length b' ->
  ct_eq_steps a b = ct_eq_steps a' b'.
Proof.
  intros a b a' b' La Lb. unfold ct_eq_steps. rewrite La, Lb.
  destruct (Nat.eqb (List.length a') (List.length b')); [|reflexivity].
  f_equal. apply map_const_length. rewrite !combine_length. lia.
Qed.

(* lifted to validate_signature: for a fixed request (all authenticator fields but the presented
   signature), configuration and provider, any two presented signatures of equal length leak the
   same steps *)
Theorem C07_validate_steps_independent_of_signature : forall (H : bytes -> bytes) au au' cf pv,
  au_creq_sha256 au = au_creq_sha256 au' -> au_credential au = au_credential au' ->
  au_token au = au_token au' -> au_timestamp au = au_timestamp au' ->
  List.length (au_signature au) = List.length (au_signature au') ->
  validate_signature_steps H au cf pv = validate_signature_steps H au' cf pv.
Proof.
  intros H au au' cf pv E1 E2 E3 E4 L.
  unfold validate_signature_steps, prevalidate, string_to_sign, gsk_request_of.
  rewrite E1, E2, E3, E4.
  destruct (Z.ltb _ _); [reflexivity|].
  destruct (Z.ltb _ _); [reflexivity|].
  destruct (split_on _ (au_credential au')) as [|p0 [|p1 [|p2 [|p3 [|p4 [|p5 r]]]]]]; try reflexivity.
  destruct (_ && _ && _ && _)%bool; [|reflexivity].
  destruct (split_once _ (au_credential au')) as [[x cscope]|]; [|reflexivity].
  destruct (snd (oneshot pv _)) as [key pr se|e]; [|reflexivity].
  apply C07_ct_eq_steps_data_independent; [exact L|reflexivity].
Qed.

(* the model distinguishes an early-exit comparison, so the theorem above is not vacuous *)
Lemma C07_early_exit_refuted : exists a a' b,
  List.length a = List.length a' /\ snd (early_exit_leaky a b) <> snd (early_exit_leaky a' b).
Proof.
  exists (s2b "ab"), (s2b "xb"), (s2b "ac"). split; [reflexivity|]. vm_compute. discriminate.
Qed.

Example C07_steps_example :
  ct_eq_steps (s2b "0123") (s2b "0124") = ct_eq_steps (s2b "9123") (s2b "0124")
  /\ ct_eq (s2b "0123") (s2b "0124") = false /\ ct_eq (s2b "9123") (s2b "0124") = false.
Proof. vm_compute. repeat split. Qed.

