(* C01 (soundness / forgery resistance), C12 (form folding), C15 (pass-through):
   the pipeline model of Model/Validate.v against the independent specification of
   Spec/{PathSpec,QuerySpec,Signer,RequestSpec}.v, for an arbitrary hash function [H]. *)
From Coq Require Import List Bool NArith ZArith Lia.
From Coq Require Import Sorting.Permutation Sorting.Sorted.
From Coq Require Import Strings.Byte.
From Verif Require Import Base.Bytes Base.Hex Base.Utf8 Crypto.Hmac Time.Calendar Time.Iso8601 Time.Render.
From Verif Require Import Generated.SrcConsts Model.Errors Model.Uri Model.Query Model.Headers Model.Labels
  Model.Requirements Model.Validate.
From Verif Require Import Spec.PathSpec Spec.QuerySpec Spec.Signer Spec.RequestSpec.
From Verif Require Import Proofs.PathProofs Proofs.QueryProofs Proofs.HeaderProofs Proofs.KeyProofs.
Import ListNotations.

(* ------------------------------------------------------------------------------------------ *)
(* 0. Definitions used by the statements                                                       *)
(* ------------------------------------------------------------------------------------------ *)

(* the URL query text of a request ([uri.query()], empty when absent) *)
Definition url_query (rq : request) : bytes := match rq_query rq with Some q => q | None => [] end.

(* both halves of a decoded pair, percent-encoded exactly once *)
Definition enc_pair (kv : bytes * bytes) : bytes * bytes := (pct_encode (fst kv), pct_encode (snd kv)).

(* every parameter except the signature itself *)
Definition not_signature (kv : bytes * bytes) : bool := negb (bytes_eqb (fst kv) x_amz_signature).

(* path plus optional "?query" *)
Definition with_query (path q : bytes) : bytes :=
  path ++ (if Query.is_nil q then [] else "?"%byte :: q).

Definition no_nl (s : bytes) : Prop := ~ In x0a s.

(* the authentication parameters the model extracts from the request (selection rules: C19) *)
Definition presented_params (H : bytes -> bytes) (rq : request) (cf : config) : option auth_params :=
  match from_request_parts H rq cf with
  | Ok (cr, _, _) => match get_auth_parameters cr (cf_reqs cf) with Ok ap => Some ap | _ => None end
  | _ => None
  end.

(* the request the key provider is expected to see for presented parameters [ap] at instant [ts] *)
Definition expected_gsk (cf : config) (ap : auth_params) (ts : Z) : gsk_request :=
  {| g_access_key := match split_on "/"%byte (ap_credential ap) with a :: _ => a | [] => [] end;
     g_token := ap_token ap;
     g_date := civil_of_days (day_of_instant ts);
     g_region := cf_region cf; g_service := cf_service cf |}.

(* ------------------------------------------------------------------------------------------ *)
(* 1. Small facts                                                                              *)
(* ------------------------------------------------------------------------------------------ *)

Lemma form_type_is_src : form_type = src_canonical_APPLICATION_X_WWW_FORM_URLENCODED.
Proof. reflexivity. Qed.

Lemma algorithm_is_src : s2b "AWS4-HMAC-SHA256" = src_auth_AWS4_HMAC_SHA256.
Proof. reflexivity. Qed.

Lemma enc_pair_is_q_enc : enc_pair = q_enc.
Proof. reflexivity. Qed.

(* the canonical query is determined by the multiset of encoded pairs of the map *)
Lemma query_map_decoded : forall q m, query_map q = Some m ->
  exists d, decoded_pairs q = Some d /\ Permutation (flatten m) (map enc_pair d).
Proof.
  intros q m E. rewrite q_query_map_dec in E.
  destruct (decoded_pairs q) as [d|]; cbn [option_map] in E; [|discriminate].
  injection E as <-. exists d. split; [reflexivity|].
  apply (q_flatten_push_all (map q_enc d) []).
Qed.

Lemma decoded_query_map : forall q d, decoded_pairs q = Some d -> exists m, query_map q = Some m.
Proof.
  intros q d E. rewrite q_query_map_dec, E. cbn [option_map]. eexists. reflexivity.
Qed.

Lemma canon_query_of_perm : forall m d, Permutation (flatten m) (map enc_pair d) ->
  canon_query m = spec_query_of_pairs d.
Proof.
  intros m d P. rewrite <- q_canon_query_push_all.
  unfold canon_query. rewrite !q_canon_query_flat. do 2 f_equal.
  apply sort_pairs_unique, q_filter_perm.
  eapply perm_trans; [exact P|]. apply Permutation_sym. apply (q_flatten_push_all (map q_enc d) []).
Qed.

Lemma fold_pairs : forall qm bm up bp,
  Permutation (flatten qm) (map enc_pair up) -> Permutation (flatten bm) (map enc_pair bp) ->
  Permutation (flatten (qmap_extend qm bm)) (map enc_pair (up ++ bp)).
Proof.
  intros qm bm up bp P1 P2. rewrite map_app.
  eapply perm_trans; [apply qmap_extend_flatten_perm|]. apply Permutation_app; assumption.
Qed.

(* ------------------------------------------------------------------------------------------ *)
(* 1b. Newline-separated assemblies                                                            *)
(* ------------------------------------------------------------------------------------------ *)

Lemma split_at_nl_left : forall a a' r r', no_nl a -> no_nl a' ->
  a ++ [x0a] ++ r = a' ++ [x0a] ++ r' -> a = a' /\ r = r'.
Proof.
  unfold no_nl. induction a as [|c a IH]; intros [|c' a'] r r' N N' E; cbn in E.
  - injection E as ->. auto.
  - injection E as <- _. exfalso. apply N'. left. reflexivity.
  - injection E as -> _. exfalso. apply N. left. reflexivity.
  - injection E as <- E. destruct (IH a' r r') as [-> ->]; auto.
    + intro I. apply N. right. exact I.
    + intro I. apply N'. right. exact I.
Qed.

Lemma split_at_nl_right : forall a a' r r', no_nl a -> no_nl a' ->
  r ++ [x0a] ++ a = r' ++ [x0a] ++ a' -> r = r' /\ a = a'.
Proof.
  intros a a' r r' N N' E. apply (f_equal (@rev byte)) in E.
  rewrite !rev_app_distr in E. cbn [rev app] in E. rewrite <- !app_assoc in E.
  apply split_at_nl_left in E.
  - destruct E as [E1 E2]. split.
    + rewrite <- (rev_involutive r), <- (rev_involutive r'), E2. reflexivity.
    + rewrite <- (rev_involutive a), <- (rev_involutive a'), E1. reflexivity.
  - unfold no_nl. rewrite <- in_rev. exact N.
  - unfold no_nl. rewrite <- in_rev. exact N'.
Qed.

Lemma lower_hex_no_nl : forall s, no_nl (lower_hex s).
Proof.
  intros s I. pose proof (lower_hex_alphabet s) as F. rewrite Forall_forall in F.
  destruct (F _ I) as [D|D]; vm_compute in D; discriminate.
Qed.

Lemma no_nl_app : forall a b, no_nl a -> no_nl b -> no_nl (a ++ b).
Proof. unfold no_nl. intros a b A B I. apply in_app_or in I. tauto. Qed.

Lemma no_nl_join : forall sep l, no_nl sep -> Forall no_nl l -> no_nl (join sep l).
Proof.
  intros sep l S F. induction F as [|x l X F IH]; [intros []|].
  destruct l as [|y t]; [exact X|].
  change (join sep (x :: y :: t)) with (x ++ sep ++ join sep (y :: t)).
  apply no_nl_app; [exact X|]. apply no_nl_app; [exact S | exact IH].
Qed.

Lemma canonical_request_tail : forall cr signed,
  canonical_request cr signed =
  (cr_method cr ++ [x0a] ++ cr_path cr ++ [x0a] ++ canon_query (cr_query cr) ++ [x0a]
   ++ header_lines (cr_headers cr) signed ++ [x0a] ++ join [";"%byte] signed) ++ [x0a] ++ cr_body_sha256 cr.
Proof. intros. unfold canonical_request, nl. rewrite <- !app_assoc. reflexivity. Qed.

(* ------------------------------------------------------------------------------------------ *)
(* 1c. Reading a canonical query back                                                          *)
(* ------------------------------------------------------------------------------------------ *)

Lemma split_join_gen : forall sep l,
  l <> [] -> Forall (fun s => ~ In sep s) l -> split_on sep (join [sep] l) = l.
Proof.
  intros sep l. induction l as [|x l IH]; intros Hne HF; [contradiction|].
  inversion HF as [|? ? Hx Hl]; subst.
  destruct l as [|y t].
  - cbn [join]. apply split_on_nosep. exact Hx.
  - rewrite join_cons2. change ([sep] ++ join [sep] (y :: t)) with (sep :: join [sep] (y :: t)).
    rewrite PathProofs.split_on_app_sep by exact Hx. rewrite IH; [reflexivity | discriminate | exact Hl].
Qed.

Definition enc_char (c : byte) : bool := spec_unreserved c || beqb c "%"%byte.

Lemma pct_encode_byte_chars : forall b, forallb enc_char (pct_encode_byte b) = true.
Proof. intro b. destruct b; vm_compute; reflexivity. Qed.

Lemma pct_encode_chars : forall s c, In c (pct_encode s) -> enc_char c = true.
Proof.
  intros s c I. unfold pct_encode in I. apply in_flat_map in I. destruct I as (b & _ & I).
  pose proof (pct_encode_byte_chars b) as F. rewrite forallb_forall in F. auto.
Qed.

Lemma split_once_app : forall sep k v, ~ In sep k -> split_once sep (k ++ sep :: v) = Some (k, v).
Proof.
  intros sep k v. induction k as [|c k IH]; intro N; cbn [app split_once].
  - rewrite beqb_refl. reflexivity.
  - assert (E : beqb c sep = false) by (apply beqb_neq; intros ->; apply N; left; reflexivity).
    rewrite E, IH; [reflexivity|]. intro I. apply N. right. exact I.
Qed.

Lemma split_once_none : forall sep s, ~ In sep s -> split_once sep s = None.
Proof.
  intros sep s. induction s as [|c s IH]; intro N; [reflexivity|]. cbn [split_once].
  assert (E : beqb c sep = false) by (apply beqb_neq; intros ->; apply N; left; reflexivity).
  rewrite E, IH; [reflexivity|]. intro I. apply N. right. exact I.
Qed.

Lemma raw_pairs_render : forall L,
  Forall (fun kv : bytes * bytes => ~ In "&"%byte (fst kv) /\ ~ In "&"%byte (snd kv) /\ ~ In "="%byte (fst kv)) L ->
  raw_pairs (join ["&"%byte] (map render_pair L)) = L.
Proof.
  intros L F. destruct L as [|kv0 L0] eqn:EL; [reflexivity|]. rewrite <- EL in *.
  unfold raw_pairs. rewrite split_join_gen.
  - assert (NN : forall M, filter (fun c : list byte => negb (PathSpec.is_nil c)) (map render_pair M) = map render_pair M).
    { clear. intro L. induction L as [|[k v] L IH]; [reflexivity|]. cbn [map filter]. rewrite IH.
      unfold render_pair. cbn [fst snd]. destruct k; reflexivity. }
    rewrite NN. rewrite map_map. clear EL.
    induction F as [|[k v] L (A & B & C) F IH]; [reflexivity|]. cbn [map]. rewrite IH.
    unfold render_pair. cbn [fst snd] in *. rewrite split_once_app by exact C. reflexivity.
  - rewrite EL. discriminate.
  - rewrite Forall_map. eapply Forall_impl; [|exact F]. cbn beta.
    intros [k v] (A & B & C) I. unfold render_pair in I. cbn [fst snd] in *.
    apply in_app_or in I. destruct I as [I|[I|I]]; [tauto|discriminate|tauto].
Qed.

Lemma map_opt_dec_enc : forall L, map_opt q_dec (map q_enc L) = Some L.
Proof.
  induction L as [|[k v] L IH]; [reflexivity|]. cbn [map map_opt]. rewrite IH.
  unfold q_dec, q_enc. cbn [fst snd]. rewrite !pct_decode_encode. reflexivity.
Qed.

(* parsing a canonical query back yields exactly the pairs it was built from, minus the signature *)
Theorem decoded_pairs_spec_query : forall ps,
  exists out, decoded_pairs (spec_query_of_pairs ps) = Some out /\ Permutation out (filter not_signature ps).
Proof.
  intro ps. unfold spec_query_of_pairs.
  change (fun kv : bytes * bytes => negb (bytes_eqb (fst kv) x_amz_signature)) with not_signature.
  change (fun kv : bytes * bytes => (pct_encode (fst kv), pct_encode (snd kv))) with q_enc.
  change (fun kv : bytes * bytes => fst kv ++ "="%byte :: snd kv) with render_pair.
  change spec_sort with sort_pairs.
  destruct (Permutation_map_inv q_enc (filter not_signature ps) (sort_pairs_perm (map q_enc (filter not_signature ps))))
    as (out & E & P).
  exists out. split; [|apply Permutation_sym; exact P].
  rewrite E, q_decoded_pairs_eq, raw_pairs_render; [apply map_opt_dec_enc|].
  apply Forall_forall. intros kv I. apply in_map_iff in I. destruct I as ([k v] & <- & _).
  unfold q_enc. cbn [fst snd].
  repeat split; intro I; apply pct_encode_chars in I; vm_compute in I; discriminate.
Qed.

Lemma canon_text_no_qmark : forall s, canon_text s -> ~ In "?"%byte s.
Proof.
  intros s C. induction C as [|r _ IH|b r U _ IH|b r U _ IH]; cbn.
  - tauto.
  - intros [E|I]; [discriminate|tauto].
  - intros [E|I]; [subst b; vm_compute in U; discriminate|tauto].
  - intros [E|I]; [discriminate|].
    change (In "?"%byte (upper_hex b ++ r)) in I. apply in_app_or in I. destruct I as [I|I]; [|tauto].
    assert (X : existsb (beqb "?"%byte) (upper_hex b) = false) by (destruct b; vm_compute; reflexivity).
    assert (Y : existsb (beqb "?"%byte) (upper_hex b) = true); [|congruence].
    apply existsb_exists. exists "?"%byte. split; [exact I | apply beqb_refl].
Qed.

Lemma split_with_query : forall path q, ~ In "?"%byte path ->
  split_once "?"%byte (with_query path q) = if Query.is_nil q then None else Some (path, q).
Proof.
  intros path q N. unfold with_query. destruct q as [|c q]; cbn [Query.is_nil].
  - rewrite app_nil_r. apply split_once_none. exact N.
  - apply split_once_app. exact N.
Qed.

(* ------------------------------------------------------------------------------------------ *)
(* 1d. Per-name value order of the parameter map                                               *)
(* ------------------------------------------------------------------------------------------ *)

(* the values stored under a name (HashMap::get, empty when absent) *)
Definition vals (k : bytes) (m : qmap) : list bytes := match qget k m with Some vs => vs | None => [] end.

(* the values of name [k] in a pair list, in list order *)
Definition values_in (k : bytes) (ps : list (bytes * bytes)) : list bytes :=
  map snd (filter (fun kv => bytes_eqb k (fst kv)) ps).

Lemma values_in_app : forall k a b, values_in k (a ++ b) = values_in k a ++ values_in k b.
Proof. intros. unfold values_in. rewrite filter_app, map_app. reflexivity. Qed.

Lemma vals_push : forall k k' v m,
  vals k (qmap_push k' v m) = vals k m ++ (if bytes_eqb k k' then [v] else []).
Proof.
  intros k k' v m. unfold vals, qget. induction m as [|[k0 vs] m IH]; cbn [qmap_push assoc].
  - destruct (bytes_eqb k k'); reflexivity.
  - destruct (bytes_eqb k' k0) eqn:E'; cbn [assoc].
    + apply bytes_eqb_eq in E'. subst k0. destruct (bytes_eqb k k'); [reflexivity|].
      rewrite app_nil_r. reflexivity.
    + destruct (bytes_eqb k k0) eqn:E0; [|exact IH].
      apply bytes_eqb_eq in E0. subst k0. rewrite bytes_eqb_sym, E', app_nil_r. reflexivity.
Qed.

Lemma vals_push_all : forall k ps m, vals k (q_push_all ps m) = vals k m ++ values_in k ps.
Proof.
  intros k ps. unfold q_push_all. induction ps as [|[k' v] ps IH]; intro m; cbn [fold_left].
  - unfold values_in. cbn. rewrite app_nil_r. reflexivity.
  - rewrite IH, vals_push. cbn [fst snd]. unfold values_in. cbn [filter fst].
    destruct (bytes_eqb k k'); cbn [map snd]; rewrite <- app_assoc; reflexivity.
Qed.

Definition entry_vals (k : bytes) (b : qmap) : list bytes :=
  flat_map (fun kv => if bytes_eqb k (fst kv) then snd kv else []) b.

Lemma vals_push_values : forall k k' vs m,
  vals k (fold_left (fun acc v => qmap_push k' v acc) vs m) = vals k m ++ (if bytes_eqb k k' then vs else []).
Proof.
  intros k k' vs. induction vs as [|v vs IH]; intro m; cbn [fold_left].
  - destruct (bytes_eqb k k'); rewrite app_nil_r; reflexivity.
  - rewrite IH, vals_push. destruct (bytes_eqb k k'); rewrite <- app_assoc; reflexivity.
Qed.

Lemma vals_extend : forall k b m, vals k (qmap_extend m b) = vals k m ++ entry_vals k b.
Proof.
  intros k b. unfold qmap_extend. induction b as [|[k' vs] b IH]; intro m; cbn [fold_left].
  - cbn. rewrite app_nil_r. reflexivity.
  - rewrite IH, vals_push_values. cbn [fst snd entry_vals flat_map]. rewrite <- app_assoc. reflexivity.
Qed.

Lemma nodup_snoc : forall {A} (l : list A) a, NoDup l -> ~ In a l -> NoDup (l ++ [a]).
Proof.
  intros A l a. induction l as [|x l IH]; intros N I; cbn [app].
  - constructor; [intros []|constructor].
  - inversion N as [|? ? N1 N2]; subst. constructor.
    + intro X. apply in_app_or in X. destruct X as [X|[X|[]]]; [contradiction|].
      subst. apply I. left. reflexivity.
    + apply IH; [exact N2|]. intro X. apply I. right. exact X.
Qed.

Lemma keys_push : forall k v m,
  map fst (qmap_push k v m) = if mem_bytes k (map fst m) then map fst m else map fst m ++ [k].
Proof.
  intros k v m. induction m as [|[k0 vs] m IH]; [reflexivity|]. cbn [qmap_push map fst mem_bytes].
  destruct (bytes_eqb k k0); cbn [orb map fst]; [reflexivity|]. rewrite IH.
  destruct (mem_bytes k (map fst m)); reflexivity.
Qed.

Lemma keys_push_nodup : forall k v m, NoDup (map fst m) -> NoDup (map fst (qmap_push k v m)).
Proof.
  intros k v m N. rewrite keys_push. destruct (mem_bytes k (map fst m)) eqn:E; [exact N|].
  apply nodup_snoc; [exact N|]. intro I. apply mem_bytes_In in I. congruence.
Qed.

Lemma keys_push_all_nodup : forall ps m, NoDup (map fst m) -> NoDup (map fst (q_push_all ps m)).
Proof.
  unfold q_push_all. induction ps as [|[k v] ps IH]; intros m N; cbn [fold_left]; [exact N|].
  apply IH, keys_push_nodup, N.
Qed.

Lemma entry_vals_absent : forall k m, ~ In k (map fst m) -> entry_vals k m = [].
Proof.
  intros k m. induction m as [|[k0 vs] m IH]; intro N; [reflexivity|]. cbn [entry_vals flat_map fst snd].
  assert (E : bytes_eqb k k0 = false) by (apply bytes_eqb_neq; intros ->; apply N; left; reflexivity).
  rewrite E. cbn [app]. apply IH. intro I. apply N. right. exact I.
Qed.

Lemma entry_vals_nodup : forall k m, NoDup (map fst m) -> entry_vals k m = vals k m.
Proof.
  intros k m. unfold vals, qget. induction m as [|[k0 vs] m IH]; intro N; [reflexivity|].
  cbn [map fst] in N. inversion N as [|? ? N1 N2]; subst.
  cbn [entry_vals flat_map fst snd assoc]. destruct (bytes_eqb k k0) eqn:E.
  - apply bytes_eqb_eq in E. subst k0. fold (entry_vals k m). rewrite entry_vals_absent by exact N1.
    apply app_nil_r.
  - cbn [app]. apply IH. exact N2.
Qed.

(* the map obtained from a query text stores, per name, the values in arrival order *)
Lemma query_map_vals : forall q m, query_map q = Some m ->
  exists d, decoded_pairs q = Some d /\ NoDup (map fst m) /\ forall k, vals k m = values_in k (map q_enc d).
Proof.
  intros q m E. rewrite q_query_map_dec in E.
  destruct (decoded_pairs q) as [d|]; cbn [option_map] in E; [|discriminate].
  injection E as <-. exists d. split; [reflexivity|]. split.
  - apply keys_push_all_nodup. constructor.
  - intro k. rewrite vals_push_all. reflexivity.
Qed.

(* ------------------------------------------------------------------------------------------ *)
(* 1e. Canonical paths and queries contain no newline                                          *)
(* ------------------------------------------------------------------------------------------ *)

Lemma upper_hex_chars : forall b, forallb enc_char (upper_hex b) = true.
Proof. intro b. destruct b; vm_compute; reflexivity. Qed.

Lemma canon_text_chars : forall s, canon_text s -> forall c, In c s -> c = "/"%byte \/ enc_char c = true.
Proof.
  intros s C. induction C as [|r _ IH|b r U _ IH|b r U _ IH]; intros c I.
  - destruct I.
  - destruct I as [<-|I]; [left; reflexivity|auto].
  - destruct I as [<-|I]; [right; unfold enc_char; rewrite U; reflexivity|auto].
  - cbn [app] in I. destruct I as [<-|I]; [right; reflexivity|].
    apply in_app_or in I. destruct I as [I|I]; [|auto].
    right. pose proof (upper_hex_chars b) as F. rewrite forallb_forall in F. auto.
Qed.

Lemma canon_text_no_nl : forall s, canon_text s -> no_nl s.
Proof.
  intros s C I. destruct (canon_text_chars s C _ I) as [E|E]; [discriminate|vm_compute in E; discriminate].
Qed.

Lemma canon_path_no_nl : forall s3 p c, canon_path s3 p = Some c -> no_nl c.
Proof. intros s3 p c E. apply canon_text_no_nl. eapply C09_alphabet. exact E. Qed.

Lemma spec_path_no_nl : forall s3 p c, spec_path s3 p = Some c -> no_nl c.
Proof.
  intros s3 p c E. rewrite <- spec_path_g_false in E. apply spec_path_g_shape in E.
  destruct E as (L & -> & _). apply canon_text_no_nl, canon_text_render.
Qed.

Lemma pct_encode_no_nl : forall s, no_nl (pct_encode s).
Proof. intros s I. apply pct_encode_chars in I. vm_compute in I. discriminate. Qed.

Lemma spec_query_no_nl : forall ps, no_nl (spec_query_of_pairs ps).
Proof.
  intro ps. unfold spec_query_of_pairs. apply no_nl_join; [intros [X|[]]; discriminate|].
  apply Forall_forall. intros x I. apply in_map_iff in I. destruct I as (kv & <- & I).
  change spec_sort with sort_pairs in I.
  apply (Permutation_in _ (sort_pairs_perm _)) in I. apply in_map_iff in I.
  destruct I as ([k v] & <- & _). cbn [fst snd].
  apply no_nl_app; [apply pct_encode_no_nl|]. intros [X|X]; [discriminate|]. exact (pct_encode_no_nl _ X).
Qed.

Lemma split_once_some : forall sep s a b, split_once sep s = Some (a, b) -> s = a ++ sep :: b.
Proof.
  intros sep s. induction s as [|c s IH]; intros a b E; [discriminate|]. cbn [split_once] in E.
  destruct (beqb c sep) eqn:EC.
  - apply beqb_eq in EC. subst c. injection E as <- <-. reflexivity.
  - destruct (split_once sep s) as [[a' b']|]; [|discriminate]. injection E as <- <-.
    rewrite (IH a' b' eq_refl). reflexivity.
Qed.

Section SOUND.
  Variable H : bytes -> bytes.

  (* ---------------------------------------------------------------------------------------- *)
  (* 2. Inversion of from_request_parts                                                        *)
  (* ---------------------------------------------------------------------------------------- *)

  Definition passed_parts (rq : request) (uri : bytes) : parts :=
    {| pt_method := rq_method rq; pt_uri := uri; pt_version := rq_version rq; pt_headers := rq_headers rq |}.

  Lemma frp_inv : forall rq cf cr pts body,
    from_request_parts H rq cf = Ok (cr, pts, body) ->
    exists path qm,
      canon_path (cf_s3 cf) (rq_path rq) = Some path /\
      query_map (url_query rq) = Some qm /\
      cr_method cr = rq_method rq /\ cr_path cr = path /\
      cr_headers cr = normalize_headers (rq_headers rq) /\
      cr_body_sha256 cr = lower_hex (H body) /\
      (if spec_folded rq cf then
         exists dec bm,
           spec_decoded_body rq = Some dec /\ query_map dec = Some bm /\
           cr_query cr = qmap_extend qm bm /\ body = [] /\
           pts = passed_parts rq (with_query path (canon_query (qmap_extend qm bm))) /\
           N.ltb max_uri_len (N.of_nat (List.length (with_query path (canon_query (qmap_extend qm bm))))) = false
       else cr_query cr = qm /\ body = rq_body rq /\ pts = passed_parts rq (rq_uri rq)).
  Proof.
    intros rq cf cr pts body HF.
    unfold from_request_parts in HF. fold (url_query rq) in HF.
    destruct (canon_path (cf_s3 cf) (rq_path rq)) as [path|] eqn:EP; cbn [of_opt bind] in HF; [|discriminate].
    destruct (query_map (url_query rq)) as [qm|] eqn:EQ; cbn [of_opt bind] in HF; [|discriminate].
    exists path, qm. split; [reflexivity|]. split; [reflexivity|].
    unfold spec_folded, spec_decoded_body. rewrite form_type_is_src.
    assert (UNF : forall (HF' : (let '(qm', pts0, body') := (qm, passed_parts rq (rq_uri rq), rq_body rq) in
                   Ok ({| cr_method := rq_method rq; cr_path := path; cr_query := qm';
                          cr_headers := normalize_headers (rq_headers rq);
                          cr_body_sha256 := sha256_hex H body' |}, pts0, body')) = Ok (cr, pts, body)),
             cr_method cr = rq_method rq /\ cr_path cr = path /\
             cr_headers cr = normalize_headers (rq_headers rq) /\
             cr_body_sha256 cr = lower_hex (H body) /\
             cr_query cr = qm /\ body = rq_body rq /\ pts = passed_parts rq (rq_uri rq)).
    { intro HF'. cbn in HF'. injection HF' as <- <- <-. cbn. unfold sha256_hex. repeat split; reflexivity. }
    destruct (cf_fold cf) eqn:EF; cbn [andb]; [|apply UNF in HF; tauto].
    destruct (content_type_charset (rq_headers rq)) as [[ctype charset]|] eqn:ECT; [|apply UNF in HF; tauto].
    destruct (bytes_eqb ctype src_canonical_APPLICATION_X_WWW_FORM_URLENCODED) eqn:ET;
      [|apply UNF in HF; tauto].
    clear UNF.
    assert (DEC : exists dec,
      match charset with
      | Some cs => match classify_label (flat_map latin1_char cs) with
                   | CsUtf8 => if utf8_valid (rq_body rq) then Some (rq_body rq) else None
                   | CsOther => rq_decoded rq
                   | CsUnknown => None
                   end
      | None => if utf8_valid (rq_body rq) then Some (rq_body rq) else None
      end = Some dec /\
      (bm <- of_opt MalformedQueryString (query_map dec) ;;
       (let merged := qmap_extend qm bm in
        let qs := canon_query merged in
        let pq := path ++ (if Query.is_nil qs then [] else "?"%byte :: qs) in
        if N.ltb max_uri_len (N.of_nat (List.length pq)) then Err MalformedQueryString
        else Ok (merged, passed_parts rq pq, []))) = 
      Ok (cr_query cr, pts, body) /\
      cr_method cr = rq_method rq /\ cr_path cr = path /\
      cr_headers cr = normalize_headers (rq_headers rq) /\
      cr_body_sha256 cr = lower_hex (H body)).
    { destruct charset as [cs|].
      - destruct (classify_label (flat_map latin1_char cs)) eqn:EC; cbn [bind] in HF; [| |discriminate].
        + destruct (utf8_valid (rq_body rq)); cbn [of_opt bind] in HF; [|discriminate].
          exists (rq_body rq). split; [reflexivity|].
          destruct (bm <- of_opt MalformedQueryString (query_map (rq_body rq));; _) as [[[q1 p1] b1]| |] eqn:EB;
            cbn [bind] in HF; try discriminate.
          injection HF as <- <- <-. cbn. unfold sha256_hex. repeat split; try reflexivity; try exact EB.
        + destruct (rq_decoded rq) as [dec|]; cbn [of_opt bind] in HF; [|discriminate].
          exists dec. split; [reflexivity|].
          destruct (bm <- of_opt MalformedQueryString (query_map dec);; _) as [[[q1 p1] b1]| |] eqn:EB;
            cbn [bind] in HF; try discriminate.
          injection HF as <- <- <-. cbn. unfold sha256_hex. repeat split; try reflexivity; try exact EB.
      - cbn [bind] in HF.
        destruct (utf8_valid (rq_body rq)); cbn [of_opt bind] in HF; [|discriminate].
        exists (rq_body rq). split; [reflexivity|].
        destruct (bm <- of_opt MalformedQueryString (query_map (rq_body rq));; _) as [[[q1 p1] b1]| |] eqn:EB;
          cbn [bind] in HF; try discriminate.
        injection HF as <- <- <-. cbn. unfold sha256_hex. repeat split; try reflexivity; try exact EB. }
    destruct DEC as (dec & ED & EB & E1 & E2 & E3 & E4).
    repeat (split; [assumption|]).
    exists dec.
    destruct (query_map dec) as [bm|]; cbn [of_opt bind] in EB; [|discriminate].
    exists bm. cbv zeta in EB. fold (with_query path (canon_query (qmap_extend qm bm))) in EB.
    destruct (N.ltb max_uri_len _) eqn:EL in EB; [discriminate|].
    injection EB as <- <- <-.
    split; [exact ED|]. repeat split; try reflexivity. exact EL.
  Qed.

  (* the parameters that enter the canonical query, in specification terms *)
  Lemma frp_pairs : forall rq cf cr pts body,
    from_request_parts H rq cf = Ok (cr, pts, body) ->
    exists up pairs,
      decoded_pairs (url_query rq) = Some up /\
      spec_all_pairs rq cf = Some pairs /\
      Permutation (flatten (cr_query cr)) (map enc_pair pairs) /\
      (if spec_folded rq cf then
         exists dec bp, spec_decoded_body rq = Some dec /\ decoded_pairs dec = Some bp /\ pairs = up ++ bp
       else pairs = up).
  Proof.
    intros rq cf cr pts body HF.
    destruct (frp_inv _ _ _ _ _ HF) as (path & qm & EP & EQ & _ & _ & _ & _ & HC).
    destruct (query_map_decoded _ _ EQ) as (up & EU & PU).
    unfold spec_all_pairs. fold (url_query rq). rewrite EU.
    destruct (spec_folded rq cf).
    - destruct HC as (dec & bm & ED & EB & EQ' & _).
      destruct (query_map_decoded _ _ EB) as (bp & EBP & PB).
      exists up, (up ++ bp). rewrite ED, EBP. cbn [option_map].
      split; [reflexivity|]. split; [reflexivity|]. split.
      + rewrite EQ'. apply fold_pairs; assumption.
      + exists dec, bp. auto.
    - destruct HC as (EQ' & _). exists up, up. rewrite EQ'. auto.
  Qed.

  (* ---------------------------------------------------------------------------------------- *)
  (* 3. The model's canonical request is the specification's                                   *)
  (* ---------------------------------------------------------------------------------------- *)

  (* unconditional form: everything but the path is the specification's; the path is the model's *)
  Lemma model_creq_is_spec_modulo_path : forall rq cf cr pts body,
    from_request_parts H rq cf = Ok (cr, pts, body) ->
    exists path pairs,
      canon_path (cf_s3 cf) (rq_path rq) = Some path /\
      spec_all_pairs rq cf = Some pairs /\
      forall signed,
        canonical_request cr signed =
        spec_canonical_request H (rq_method rq) path (spec_query_of_pairs pairs) (rq_headers rq) signed
                               (spec_payload rq cf).
  Proof.
    intros rq cf cr pts body HF.
    destruct (frp_inv _ _ _ _ _ HF) as (path & qm & EP & EQ & EM & EPA & EH & EB & HC).
    destruct (frp_pairs _ _ _ _ _ HF) as (up & pairs & _ & EA & PP & _).
    exists path, pairs. split; [exact EP|]. split; [exact EA|].
    intro signed. unfold canonical_request, spec_canonical_request, nl.
    rewrite EM, EPA, EH, EB, C11_block_is_spec, (canon_query_of_perm _ _ PP).
    assert (EBODY : body = spec_payload rq cf).
    { unfold spec_payload. destruct (spec_folded rq cf).
      - destruct HC as (? & ? & _ & _ & _ & -> & _). reflexivity.
      - destruct HC as (_ & -> & _). reflexivity. }
    rewrite <- EBODY. reflexivity.
  Qed.

  Theorem model_creq_is_spec : forall rq cf cr pts body,
    from_request_parts H rq cf = Ok (cr, pts, body) ->
    has_plus (rq_path rq) = false ->
    exists path pairs,
      spec_path (cf_s3 cf) (rq_path rq) = Some path /\
      spec_all_pairs rq cf = Some pairs /\
      forall signed,
        canonical_request cr signed =
        spec_canonical_request H (rq_method rq) path (spec_query_of_pairs pairs) (rq_headers rq) signed
                               (spec_payload rq cf).
  Proof.
    intros rq cf cr pts body HF HP.
    destruct (model_creq_is_spec_modulo_path _ _ _ _ _ HF) as (path & pairs & EP & EA & HS).
    exists path, pairs. rewrite <- (C09_model_is_spec _ _ HP). auto.
  Qed.

  (* ---------------------------------------------------------------------------------------- *)
  (* 4. Inversion of an accepting run                                                          *)
  (* ---------------------------------------------------------------------------------------- *)

  Definition model_sts (cr : canonical) (ap : auth_params) (ts : Z) (cscope : bytes) : bytes :=
    src_auth_AWS4_HMAC_SHA256 ++ nl ++ render_compact ts ++ nl ++ cscope ++ nl
    ++ lower_hex (H (canonical_request cr (ap_signed ap))).

  Lemma validate_accept_inv : forall rq cf pv calls p b pr se,
    validate H rq cf pv = (calls, Accepted p b pr se) ->
    exists cr ap ts key ak cscope,
      from_request_parts H rq cf = Ok (cr, p, b) /\
      get_auth_parameters cr (cf_reqs cf) = Ok ap /\
      parse_iso8601 (ap_timestamp ap) = Some ts /\
      split_once "/"%byte (ap_credential ap) = Some (ak, cscope) /\
      pv_ready pv = None /\
      calls = [expected_gsk cf ap ts] /\
      pv_answer pv (expected_gsk cf ap ts) = AnsOk key pr se /\
      ap_signature ap = lower_hex (hmac H key (model_sts cr ap ts cscope)).
  Proof.
    intros rq cf pv calls p b pr se HV. unfold validate in HV.
    destruct (from_request_parts H rq cf) as [[[cr pts] body]| |] eqn:HF; try discriminate.
    destruct (get_authenticator H cr (cf_reqs cf)) as [au| |] eqn:HA; try discriminate.
    destruct (validate_signature H au cf pv) as [calls' r] eqn:HS.
    injection HV as <- HO.
    destruct r as [[pr' se']| |]; try discriminate. injection HO as <- <- <- <-.
    unfold get_authenticator in HA.
    destruct (get_auth_parameters cr (cf_reqs cf)) as [ap| |] eqn:HG; cbn [bind] in HA; try discriminate.
    destruct (parse_iso8601 (ap_timestamp ap)) as [ts|] eqn:HT; cbn [of_opt bind] in HA; try discriminate.
    injection HA as <-.
    unfold validate_signature in HS.
    destruct (prevalidate _ _ _ _ _) as [u| |]; try (injection HS as _ HS; discriminate).
    unfold string_to_sign in HS. cbn [au_credential au_timestamp au_creq_sha256 au_signature] in HS.
    destruct (split_once "/"%byte (ap_credential ap)) as [[ak cscope]|] eqn:HC;
      try (injection HS as _ HS; discriminate).
    unfold oneshot in HS.
    destruct (pv_ready pv) as [e|] eqn:HR; [injection HS as _ HS; discriminate|].
    unfold gsk_request_of in HS. cbn [au_credential au_timestamp au_token] in HS.
    fold (expected_gsk cf ap ts) in HS.
    destruct (pv_answer pv (expected_gsk cf ap ts)) as [key pr0 se0|e] eqn:HP;
      [|injection HS as _ HS; discriminate].
    destruct (ct_eq (ap_signature ap) _) eqn:HE; [|injection HS as _ HS; discriminate].
    injection HS as <- <- <-. apply ct_eq_spec in HE.
    exists cr, ap, ts, key, ak, cscope. repeat split; try reflexivity; try assumption.
  Qed.

  (* ---------------------------------------------------------------------------------------- *)
  (* 5. C01                                                                                    *)
  (* ---------------------------------------------------------------------------------------- *)

  (* C01: acceptance implies that the presented signature is hex(HMAC(key, spec string-to-sign))
     under the key the provider returned for the single call *)
  Theorem C01_accept_implies_signature : forall rq cf pv calls p b pr se,
    validate H rq cf pv = (calls, Accepted p b pr se) ->
    has_plus (rq_path rq) = false ->
    exists ap ts g key sts,
      calls = [g] /\
      g = expected_gsk cf ap ts /\
      pv_ready pv = None /\
      pv_answer pv g = AnsOk key pr se /\
      presented_params H rq cf = Some ap /\
      parse_iso8601 (ap_timestamp ap) = Some ts /\
      spec_request_sts H rq cf ap ts = Some sts /\
      ap_signature ap = lower_hex (hmac H key sts).
  Proof.
    intros rq cf pv calls p b pr se HV HP.
    destruct (validate_accept_inv _ _ _ _ _ _ _ _ HV)
      as (cr & ap & ts & key & ak & cscope & HF & HG & HT & HC & HR & HCalls & HAns & HSig).
    destruct (model_creq_is_spec _ _ _ _ _ HF HP) as (path & pairs & EP & EA & HS).
    exists ap, ts, (expected_gsk cf ap ts), key, (model_sts cr ap ts cscope).
    repeat (split; [first [assumption | reflexivity]|]).
    split; [unfold presented_params; rewrite HF, HG; reflexivity|].
    split; [exact HT|]. split; [|exact HSig].
    unfold spec_request_sts. rewrite EP, EA, HC.
    unfold model_sts, spec_string_to_sign, nl. rewrite HS, algorithm_is_src. reflexivity.
  Qed.

  (* without the '+' guard the same holds with the model's canonical path in place of the
     specification's (everything else is the specification's) *)
  Theorem C01_accept_implies_signature_modulo_path : forall rq cf pv calls p b pr se,
    validate H rq cf pv = (calls, Accepted p b pr se) ->
    exists ap ts g key path pairs ak scope,
      calls = [g] /\ g = expected_gsk cf ap ts /\ pv_ready pv = None /\
      pv_answer pv g = AnsOk key pr se /\
      presented_params H rq cf = Some ap /\
      parse_iso8601 (ap_timestamp ap) = Some ts /\
      canon_path (cf_s3 cf) (rq_path rq) = Some path /\
      spec_all_pairs rq cf = Some pairs /\
      split_once "/"%byte (ap_credential ap) = Some (ak, scope) /\
      ap_signature ap =
        lower_hex (hmac H key
          (spec_string_to_sign H (render_compact ts) scope
             (spec_canonical_request H (rq_method rq) path (spec_query_of_pairs pairs) (rq_headers rq)
                                     (ap_signed ap) (spec_payload rq cf)))).
  Proof.
    intros rq cf pv calls p b pr se HV.
    destruct (validate_accept_inv _ _ _ _ _ _ _ _ HV)
      as (cr & ap & ts & key & ak & cscope & HF & HG & HT & HC & HR & HCalls & HAns & HSig).
    destruct (model_creq_is_spec_modulo_path _ _ _ _ _ HF) as (path & pairs & EP & EA & HS).
    exists ap, ts, (expected_gsk cf ap ts), key, path, pairs, ak, cscope.
    repeat (split; [first [assumption | reflexivity]|]).
    split; [unfold presented_params; rewrite HF, HG; reflexivity|].
    repeat (split; [first [assumption | reflexivity]|]).
    rewrite HSig. unfold model_sts, spec_string_to_sign, nl. rewrite HS, algorithm_is_src. reflexivity.
  Qed.

  (* C01: one signature string accepted twice exhibits equal MACs: either (key, string-to-sign)
     coincide or an HMAC collision is at hand *)
  Theorem C01_cross_request : forall rq1 cf1 pv1 calls1 p1 b1 pr1 se1 rq2 cf2 pv2 calls2 p2 b2 pr2 se2 ap1 ap2,
    validate H rq1 cf1 pv1 = (calls1, Accepted p1 b1 pr1 se1) ->
    validate H rq2 cf2 pv2 = (calls2, Accepted p2 b2 pr2 se2) ->
    has_plus (rq_path rq1) = false -> has_plus (rq_path rq2) = false ->
    presented_params H rq1 cf1 = Some ap1 -> presented_params H rq2 cf2 = Some ap2 ->
    ap_signature ap1 = ap_signature ap2 ->
    exists ts1 ts2 g1 g2 key1 key2 sts1 sts2,
      calls1 = [g1] /\ calls2 = [g2] /\
      pv_answer pv1 g1 = AnsOk key1 pr1 se1 /\ pv_answer pv2 g2 = AnsOk key2 pr2 se2 /\
      parse_iso8601 (ap_timestamp ap1) = Some ts1 /\ parse_iso8601 (ap_timestamp ap2) = Some ts2 /\
      spec_request_sts H rq1 cf1 ap1 ts1 = Some sts1 /\ spec_request_sts H rq2 cf2 ap2 ts2 = Some sts2 /\
      hmac H key1 sts1 = hmac H key2 sts2.
  Proof.
    intros rq1 cf1 pv1 calls1 p1 b1 pr1 se1 rq2 cf2 pv2 calls2 p2 b2 pr2 se2 ap1 ap2 V1 V2 P1 P2 A1 A2 ES.
    destruct (C01_accept_implies_signature _ _ _ _ _ _ _ _ V1 P1)
      as (ap1' & ts1 & g1 & key1 & sts1 & C1 & _ & _ & N1 & A1' & T1 & S1 & G1).
    destruct (C01_accept_implies_signature _ _ _ _ _ _ _ _ V2 P2)
      as (ap2' & ts2 & g2 & key2 & sts2 & C2 & _ & _ & N2 & A2' & T2 & S2 & G2).
    rewrite A1 in A1'. injection A1' as <-. rewrite A2 in A2'. injection A2' as <-.
    exists ts1, ts2, g1, g2, key1, key2, sts1, sts2.
    repeat (split; [assumption|]).
    apply lower_hex_inj. rewrite <- G1, <- G2. exact ES.
  Qed.

  (* C01: the accepted signature is 2*|H| lower-case hex digits *)
  Theorem C01_signature_shape : forall rq cf pv calls p b pr se,
    validate H rq cf pv = (calls, Accepted p b pr se) ->
    exists ap x,
      presented_params H rq cf = Some ap /\
      List.length (ap_signature ap) = (2 * List.length (H x))%nat /\
      Forall (fun c => is_ascii_digit c = true \/ in_range 97 102 c = true) (ap_signature ap).
  Proof.
    intros rq cf pv calls p b pr se HV.
    destruct (validate_accept_inv _ _ _ _ _ _ _ _ HV)
      as (cr & ap & ts & key & ak & cscope & HF & HG & HT & HC & HR & HCalls & HAns & HSig).
    exists ap. eexists. split; [unfold presented_params; rewrite HF, HG; reflexivity|].
    rewrite HSig. split; [|apply lower_hex_alphabet].
    rewrite lower_hex_length. unfold hmac. reflexivity.
  Qed.

  Corollary C01_signature_length : forall n rq cf pv calls p b pr se ap,
    (forall x, List.length (H x) = n) ->
    validate H rq cf pv = (calls, Accepted p b pr se) ->
    presented_params H rq cf = Some ap ->
    List.length (ap_signature ap) = (2 * n)%nat.
  Proof.
    intros n rq cf pv calls p b pr se ap HL HV HA.
    destruct (C01_signature_shape _ _ _ _ _ _ _ _ HV) as (ap' & x & HA' & L & _).
    rewrite HA in HA'. injection HA' as <-. rewrite L, HL. reflexivity.
  Qed.

  (* hence: an empty signature, or one containing any byte outside [0-9a-f] (e.g. upper-case hex),
     is never accepted *)
  Corollary C01_bad_signature_refused : forall rq cf pv ap,
    presented_params H rq cf = Some ap ->
    (ap_signature ap = [] /\ (forall x, H x <> [])
     \/ exists c, In c (ap_signature ap) /\ is_ascii_digit c = false /\ in_range 97 102 c = false) ->
    forall calls p b pr se, validate H rq cf pv <> (calls, Accepted p b pr se).
  Proof.
    intros rq cf pv ap HA HB calls p b pr se HV.
    destruct (C01_signature_shape _ _ _ _ _ _ _ _ HV) as (ap' & x & HA' & L & F).
    rewrite HA in HA'. injection HA' as <-.
    destruct HB as [[E NE]|(c & IC & D1 & D2)].
    - rewrite E in L. cbn in L. specialize (NE x). destruct (H x); [congruence|cbn in L; lia].
    - rewrite Forall_forall in F. specialize (F c IC). destruct F; congruence.
  Qed.

  (* ---------------------------------------------------------------------------------------- *)
  (* 6. C15 identity                                                                           *)
  (* ---------------------------------------------------------------------------------------- *)

  Theorem C15_identity : forall rq cf pv calls p b pr se,
    validate H rq cf pv = (calls, Accepted p b pr se) ->
    exists g key, calls = [g] /\ pv_ready pv = None /\ pv_answer pv g = AnsOk key pr se.
  Proof.
    intros rq cf pv calls p b pr se HV.
    destruct (validate_accept_inv _ _ _ _ _ _ _ _ HV)
      as (cr & ap & ts & key & ak & cscope & HF & HG & HT & HC & HR & HCalls & HAns & HSig).
    exists (expected_gsk cf ap ts), key. auto.
  Qed.

  (* ---------------------------------------------------------------------------------------- *)
  (* 7. C12                                                                                    *)
  (* ---------------------------------------------------------------------------------------- *)

  (* C12, folding: nothing dropped, nothing invented, duplicates kept; empty payload; rebuilt URI *)
  Theorem C12_fold : forall rq cf cr pts body,
    spec_folded rq cf = true ->
    from_request_parts H rq cf = Ok (cr, pts, body) ->
    exists up dec bp,
      decoded_pairs (url_query rq) = Some up /\
      spec_decoded_body rq = Some dec /\
      decoded_pairs dec = Some bp /\
      body = [] /\
      cr_body_sha256 cr = lower_hex (H []) /\
      Permutation (flatten (cr_query cr)) (map enc_pair (up ++ bp)) /\
      canon_query (cr_query cr) = spec_query_of_pairs (up ++ bp) /\
      pts = passed_parts rq (with_query (cr_path cr) (spec_query_of_pairs (up ++ bp))) /\
      (N.of_nat (List.length (pt_uri pts)) <= max_uri_len)%N.
  Proof.
    intros rq cf cr pts body SF HF.
    destruct (frp_inv _ _ _ _ _ HF) as (path & qm & EP & EQ & EM & EPA & EH & EB & HC).
    destruct (frp_pairs _ _ _ _ _ HF) as (up & pairs & EU & EA & PP & HP).
    rewrite SF in HC, HP.
    destruct HC as (dec & bm & ED & EBM & EQ' & -> & -> & EL).
    destruct HP as (dec' & bp & ED' & EBP & ->).
    rewrite ED in ED'. injection ED' as <-.
    exists up, dec, bp. repeat (split; [first [assumption | reflexivity]|]).
    rewrite <- EQ', EPA, (canon_query_of_perm _ _ PP).
    split; [reflexivity|]. split; [reflexivity|].
    cbn [passed_parts pt_uri]. rewrite <- EQ', (canon_query_of_perm _ _ PP) in EL.
    apply N.ltb_ge in EL. exact EL.
  Qed.

  (* C12, no folding: the body contributes nothing and is hashed verbatim *)
  Theorem C12_no_fold : forall rq cf cr pts body,
    spec_folded rq cf = false ->
    from_request_parts H rq cf = Ok (cr, pts, body) ->
    exists up,
      decoded_pairs (url_query rq) = Some up /\
      body = rq_body rq /\
      cr_body_sha256 cr = lower_hex (H (rq_body rq)) /\
      query_map (url_query rq) = Some (cr_query cr) /\
      Permutation (flatten (cr_query cr)) (map enc_pair up) /\
      canon_query (cr_query cr) = spec_query_of_pairs up /\
      pts = passed_parts rq (rq_uri rq).
  Proof.
    intros rq cf cr pts body SF HF.
    destruct (frp_inv _ _ _ _ _ HF) as (path & qm & EP & EQ & EM & EPA & EH & EB & HC).
    destruct (frp_pairs _ _ _ _ _ HF) as (up & pairs & EU & EA & PP & HP).
    rewrite SF in HC, HP. destruct HC as (EQ' & -> & ->). subst pairs.
    exists up. split; [exact EU|]. split; [reflexivity|]. split; [exact EB|].
    split; [rewrite EQ'; exact EQ|]. split; [exact PP|].
    split; [exact (canon_query_of_perm _ _ PP)|reflexivity].
  Qed.

  (* exactly when the body has no decoding *)
  Lemma spec_decoded_body_none : forall rq,
    spec_decoded_body rq = None <->
    (exists ct cs, content_type_charset (rq_headers rq) = Some (ct, Some cs) /\
        match classify_label (flat_map latin1_char cs) with
        | CsUnknown => True                                         (* unknown charset label *)
        | CsUtf8 => utf8_valid (rq_body rq) = false                 (* UTF-8 label, invalid UTF-8 *)
        | CsOther => rq_decoded rq = None                           (* known charset, undecodable *)
        end)
    \/ ((forall ct cs, content_type_charset (rq_headers rq) <> Some (ct, Some cs)) /\
        utf8_valid (rq_body rq) = false).                           (* no charset, invalid UTF-8 *)
  Proof.
    intro rq. unfold spec_decoded_body.
    destruct (content_type_charset (rq_headers rq)) as [[ct [cs|]]|].
    - split.
      + intro E. left. exists ct, cs. split; [reflexivity|].
        destruct (classify_label _); auto. destruct (utf8_valid _); [discriminate|reflexivity].
      + intros [(ct' & cs' & E & M)|(N & _)]; [|exfalso; eapply N; reflexivity].
        injection E as <- <-. destruct (classify_label _); auto. rewrite M. reflexivity.
    - split.
      + intro E. right. split; [intros ? ? ?; discriminate|]. destruct (utf8_valid _); [discriminate|reflexivity].
      + intros [(ct' & cs' & E & M)|(_ & ->)]; [discriminate|reflexivity].
    - split.
      + intro E. right. split; [intros ? ? ?; discriminate|]. destruct (utf8_valid _); [discriminate|reflexivity].
      + intros [(ct' & cs' & E & M)|(_ & ->)]; [discriminate|reflexivity].
  Qed.

  (* C12: an undecodable body or unknown charset is refused as InvalidBodyEncoding (400) *)
  Theorem C12_bad_encoding : forall rq cf,
    spec_folded rq cf = true ->
    spec_path (cf_s3 cf) (rq_path rq) <> None ->
    decoded_pairs (url_query rq) <> None ->
    spec_decoded_body rq = None ->
    from_request_parts H rq cf = Err InvalidBodyEncoding /\ status InvalidBodyEncoding = Some 400%N.
  Proof.
    intros rq cf SF HP HQ HD. split; [|reflexivity].
    assert (HP' : canon_path (cf_s3 cf) (rq_path rq) <> None)
      by (intro E; apply HP; apply C09_fails_iff_spec_fails; exact E).
    assert (HQ' : query_map (url_query rq) <> None)
      by (intro E; apply HQ; apply C10_error_iff; exact E).
    unfold from_request_parts. fold (url_query rq).
    destruct (canon_path (cf_s3 cf) (rq_path rq)) as [path|]; [|contradiction]. cbn [of_opt bind].
    destruct (query_map (url_query rq)) as [qm|]; [|contradiction]. cbn [of_opt bind].
    unfold spec_folded in SF. rewrite form_type_is_src in SF. unfold spec_decoded_body in HD.
    destruct (cf_fold cf); [|discriminate]. cbn [andb] in SF.
    destruct (content_type_charset (rq_headers rq)) as [[ct charset]|]; [|discriminate].
    rewrite SF. destruct charset as [cs|].
    - destruct (classify_label (flat_map latin1_char cs)); cbn [bind].
      + destruct (utf8_valid (rq_body rq)); [discriminate|]. reflexivity.
      + rewrite HD. reflexivity.
      + reflexivity.
    - cbn [bind]. destruct (utf8_valid (rq_body rq)); [discriminate|]. reflexivity.
  Qed.

  (* and only then *)
  Theorem C12_bad_encoding_only : forall rq cf,
    from_request_parts H rq cf = Err InvalidBodyEncoding ->
    spec_folded rq cf = true /\ spec_decoded_body rq = None.
  Proof.
    intros rq cf HF. unfold from_request_parts in HF. fold (url_query rq) in HF.
    destruct (canon_path (cf_s3 cf) (rq_path rq)) as [path|]; cbn [of_opt bind] in HF; [|discriminate].
    destruct (query_map (url_query rq)) as [qm|]; cbn [of_opt bind] in HF; [|discriminate].
    unfold spec_folded, spec_decoded_body. rewrite form_type_is_src.
    destruct (cf_fold cf); [|discriminate]. cbn [andb].
    destruct (content_type_charset (rq_headers rq)) as [[ct charset]|]; [|discriminate].
    destruct (bytes_eqb ct src_canonical_APPLICATION_X_WWW_FORM_URLENCODED); [|discriminate].
    split; [reflexivity|].
    assert (T : forall dec,
      (bm <- of_opt MalformedQueryString (query_map dec) ;;
       (let merged := qmap_extend qm bm in
        let qs := canon_query merged in
        let pq := path ++ (if Query.is_nil qs then [] else "?"%byte :: qs) in
        if N.ltb max_uri_len (N.of_nat (List.length pq)) then Err MalformedQueryString
        else Ok (merged, passed_parts rq pq, @nil byte))) <> Err InvalidBodyEncoding).
    { intro dec. destruct (query_map dec); cbn [of_opt bind]; [|discriminate].
      cbv zeta. destruct (N.ltb _ _); discriminate. }
    assert (T2 : forall (r : res (qmap * parts * bytes)), r <> Err InvalidBodyEncoding ->
       (folded <- r ;;
        (let '(qm', pts, body') := folded in
         Ok ({| cr_method := rq_method rq; cr_path := path; cr_query := qm';
                cr_headers := normalize_headers (rq_headers rq); cr_body_sha256 := sha256_hex H body' |},
             pts, body'))) <> Err InvalidBodyEncoding).
    { intros r N. destruct r as [[[? ?] ?]|k|]; cbn [bind]; try discriminate. congruence. }
    destruct charset as [cs|].
    - destruct (classify_label (flat_map latin1_char cs)); cbn [bind] in HF; [| |reflexivity].
      + destruct (utf8_valid (rq_body rq)); cbn [of_opt bind] in HF; [|reflexivity].
        exfalso. eapply (T2 _ (T (rq_body rq))). exact HF.
      + destruct (rq_decoded rq) as [dec|]; cbn [of_opt bind] in HF; [|reflexivity].
        exfalso. eapply (T2 _ (T dec)). exact HF.
    - cbn [bind] in HF. destruct (utf8_valid (rq_body rq)); cbn [of_opt bind] in HF; [|reflexivity].
      exfalso. eapply (T2 _ (T (rq_body rq))). exact HF.
  Qed.

  (* C12: without folding the body is covered by the signature *)
  Theorem C12_body_covered : forall rq1 cf1 cr1 pts1 body1 rq2 cf2 cr2 pts2 body2 signed1 signed2,
    spec_folded rq1 cf1 = false -> spec_folded rq2 cf2 = false ->
    from_request_parts H rq1 cf1 = Ok (cr1, pts1, body1) ->
    from_request_parts H rq2 cf2 = Ok (cr2, pts2, body2) ->
    H (rq_body rq1) <> H (rq_body rq2) ->
    canonical_request cr1 signed1 <> canonical_request cr2 signed2.
  Proof.
    intros rq1 cf1 cr1 pts1 body1 rq2 cf2 cr2 pts2 body2 signed1 signed2 S1 S2 F1 F2 NE E.
    destruct (C12_no_fold _ _ _ _ _ S1 F1) as (_ & _ & _ & B1 & _).
    destruct (C12_no_fold _ _ _ _ _ S2 F2) as (_ & _ & _ & B2 & _).
    rewrite !canonical_request_tail, B1, B2 in E.
    apply split_at_nl_right in E; try apply lower_hex_no_nl.
    destruct E as [_ E]. apply lower_hex_inj in E. contradiction.
  Qed.

  (* C12, per-name order: under every (encoded) name the map holds the values in arrival order,
     URL values first, then (when folded) the body's: repeated names are neither merged nor
     reordered *)
  Theorem C12_values_order : forall rq cf cr pts body,
    from_request_parts H rq cf = Ok (cr, pts, body) ->
    exists pairs, spec_all_pairs rq cf = Some pairs /\
      forall k, vals k (cr_query cr) = values_in k (map enc_pair pairs).
  Proof.
    intros rq cf cr pts body HF.
    destruct (frp_inv _ _ _ _ _ HF) as (path & qm & EP & EQ & _ & _ & _ & _ & HC).
    destruct (query_map_vals _ _ EQ) as (up & EU & _ & VU).
    unfold spec_all_pairs. fold (url_query rq). rewrite EU.
    destruct (spec_folded rq cf).
    - destruct HC as (dec & bm & ED & EB & EQ' & _).
      destruct (query_map_vals _ _ EB) as (bp & EBP & NB & VB).
      exists (up ++ bp). rewrite ED, EBP. split; [reflexivity|].
      intro k. rewrite EQ', vals_extend, (entry_vals_nodup _ _ NB), VU, VB, map_app, values_in_app.
      reflexivity.
    - destruct HC as (EQ' & _). exists up. split; [reflexivity|]. intro k. rewrite EQ'. apply VU.
  Qed.

  (* ---------------------------------------------------------------------------------------- *)
  (* 8. C15                                                                                    *)
  (* ---------------------------------------------------------------------------------------- *)

  Theorem C15_unfolded : forall rq cf pv calls p b pr se,
    validate H rq cf pv = (calls, Accepted p b pr se) ->
    spec_folded rq cf = false ->
    pt_method p = rq_method rq /\ pt_uri p = rq_uri rq /\ pt_version p = rq_version rq /\
    pt_headers p = rq_headers rq /\ b = rq_body rq.
  Proof.
    intros rq cf pv calls p b pr se HV SF.
    destruct (validate_accept_inv _ _ _ _ _ _ _ _ HV) as (cr & ap & ts & key & ak & cscope & HF & _).
    destruct (C12_no_fold _ _ _ _ _ SF HF) as (up & _ & -> & _ & _ & _ & _ & ->).
    cbn. auto.
  Qed.

  Theorem C15_folded : forall rq cf pv calls p b pr se,
    validate H rq cf pv = (calls, Accepted p b pr se) ->
    spec_folded rq cf = true ->
    exists path pairs back,
      pt_method p = rq_method rq /\ pt_version p = rq_version rq /\ pt_headers p = rq_headers rq /\
      b = [] /\
      canon_path (cf_s3 cf) (rq_path rq) = Some path /\
      spec_all_pairs rq cf = Some pairs /\
      (* the URI is the canonical path plus the canonical query that was authenticated *)
      pt_uri p = with_query path (spec_query_of_pairs pairs) /\
      split_once "?"%byte (pt_uri p) =
        (if Query.is_nil (spec_query_of_pairs pairs) then None else Some (path, spec_query_of_pairs pairs)) /\
      (* and parses back to exactly the merged URL-plus-body parameters, minus the signature *)
      decoded_pairs (spec_query_of_pairs pairs) = Some back /\
      Permutation back (filter not_signature pairs).
  Proof.
    intros rq cf pv calls p b pr se HV SF.
    destruct (validate_accept_inv _ _ _ _ _ _ _ _ HV) as (cr & ap & ts & key & ak & cscope & HF & _).
    destruct (C12_fold _ _ _ _ _ SF HF) as (up & dec & bp & EU & ED & EBP & -> & _ & _ & _ & -> & _).
    destruct (frp_inv _ _ _ _ _ HF) as (path & qm & EP & _ & _ & EPA & _).
    destruct (decoded_pairs_spec_query (up ++ bp)) as (back & EBK & PB).
    exists path, (up ++ bp), back. cbn [passed_parts pt_method pt_version pt_headers pt_uri].
    repeat (split; [reflexivity|]). split; [exact EP|].
    split. { unfold spec_all_pairs. fold (url_query rq). rewrite EU, SF, ED, EBP. reflexivity. }
    rewrite EPA. split; [reflexivity|]. split; [|split; assumption].
    apply split_with_query. apply canon_text_no_qmark. eapply C09_alphabet. exact EP.
  Qed.

  (* ---------------------------------------------------------------------------------------- *)
  (* 9. C01: the canonical request determines its components                                   *)
  (* ---------------------------------------------------------------------------------------- *)

  (* No hypothesis on header values is needed: the block is isolated by peeling the two last
     components (signed list, payload hash) from the right. *)
  Theorem C01_canonical_request_injective : forall m p q hs signed pl m' p' q' hs' signed' pl',
    no_nl m -> no_nl p -> no_nl q -> Forall no_nl signed ->
    no_nl m' -> no_nl p' -> no_nl q' -> Forall no_nl signed' ->
    spec_canonical_request H m p q hs signed pl = spec_canonical_request H m' p' q' hs' signed' pl' ->
    m = m' /\ p = p' /\ q = q' /\
    spec_header_block hs signed = spec_header_block hs' signed' /\
    join [";"%byte] signed = join [";"%byte] signed' /\
    lower_hex (H pl) = lower_hex (H pl') /\ H pl = H pl'.
  Proof.
    intros m p q hs signed pl m' p' q' hs' signed' pl' Nm Np Nq Ns Nm' Np' Nq' Ns' E.
    unfold spec_canonical_request in E.
    apply split_at_nl_left in E; [|assumption|assumption]. destruct E as [-> E].
    apply split_at_nl_left in E; [|assumption|assumption]. destruct E as [-> E].
    apply split_at_nl_left in E; [|assumption|assumption]. destruct E as [-> E].
    assert (R : forall a b c : bytes, a ++ [x0a] ++ b ++ [x0a] ++ c = (a ++ [x0a] ++ b) ++ [x0a] ++ c)
      by (intros; rewrite <- !app_assoc; reflexivity).
    rewrite !R in E.
    apply split_at_nl_right in E; try apply lower_hex_no_nl. destruct E as [E EH].
    assert (NJ : forall l, Forall no_nl l -> no_nl (join [";"%byte] l)).
    { intros l F. apply no_nl_join; [|exact F]. intros [X|[]]. discriminate. }
    apply split_at_nl_right in E; [|apply NJ; assumption|apply NJ; assumption].
    destruct E as [EB EJ].
    repeat (split; [first [reflexivity | assumption]|]). apply lower_hex_inj. exact EH.
  Qed.

  (* the string-to-sign determines its timestamp line, scope and hashed canonical request *)
  Theorem C01_string_to_sign_injective : forall t sc creq t' sc' creq',
    no_nl sc -> no_nl sc' ->
    spec_string_to_sign H t sc creq = spec_string_to_sign H t' sc' creq' ->
    t = t' /\ sc = sc' /\ H creq = H creq'.
  Proof.
    intros t sc creq t' sc' creq' N N' E. unfold spec_string_to_sign in E.
    apply split_at_nl_left in E; [|vm_compute; intuition discriminate ..]. destruct E as [_ E].
    assert (R : forall a b c : bytes, a ++ [x0a] ++ b ++ [x0a] ++ c = (a ++ [x0a] ++ b) ++ [x0a] ++ c)
      by (intros; rewrite <- !app_assoc; reflexivity).
    rewrite !R in E.
    apply split_at_nl_right in E; try apply lower_hex_no_nl. destruct E as [E EH].
    apply split_at_nl_right in E; [|assumption|assumption]. destruct E as [-> ->].
    split; [reflexivity|]. split; [reflexivity|]. apply lower_hex_inj. exact EH.
  Qed.

  (* C01, "hence": two requests with the same specification string-to-sign agree on the rendered
     timestamp and on the credential scope, and their canonical requests have the same hash; unless
     that is a hash collision they agree on method, canonical path, canonical query, header block,
     signed-header list and payload hash *)
  Theorem C01_equal_sts_equal_components : forall rq1 cf1 ap1 ts1 rq2 cf2 ap2 ts2 s,
    spec_request_sts H rq1 cf1 ap1 ts1 = Some s ->
    spec_request_sts H rq2 cf2 ap2 ts2 = Some s ->
    no_nl (ap_credential ap1) -> no_nl (ap_credential ap2) ->
    no_nl (rq_method rq1) -> no_nl (rq_method rq2) ->
    Forall no_nl (ap_signed ap1) -> Forall no_nl (ap_signed ap2) ->
    exists path1 path2 pairs1 pairs2 ak1 ak2 scope creq1 creq2,
      spec_path (cf_s3 cf1) (rq_path rq1) = Some path1 /\ spec_path (cf_s3 cf2) (rq_path rq2) = Some path2 /\
      spec_all_pairs rq1 cf1 = Some pairs1 /\ spec_all_pairs rq2 cf2 = Some pairs2 /\
      split_once "/"%byte (ap_credential ap1) = Some (ak1, scope) /\
      split_once "/"%byte (ap_credential ap2) = Some (ak2, scope) /\
      render_compact ts1 = render_compact ts2 /\
      creq1 = spec_canonical_request H (rq_method rq1) path1 (spec_query_of_pairs pairs1) (rq_headers rq1)
                                     (ap_signed ap1) (spec_payload rq1 cf1) /\
      creq2 = spec_canonical_request H (rq_method rq2) path2 (spec_query_of_pairs pairs2) (rq_headers rq2)
                                     (ap_signed ap2) (spec_payload rq2 cf2) /\
      H creq1 = H creq2 /\
      (creq1 = creq2 ->
         rq_method rq1 = rq_method rq2 /\ path1 = path2 /\
         spec_query_of_pairs pairs1 = spec_query_of_pairs pairs2 /\
         spec_header_block (rq_headers rq1) (ap_signed ap1) = spec_header_block (rq_headers rq2) (ap_signed ap2) /\
         join [";"%byte] (ap_signed ap1) = join [";"%byte] (ap_signed ap2) /\
         H (spec_payload rq1 cf1) = H (spec_payload rq2 cf2)).
  Proof.
    intros rq1 cf1 ap1 ts1 rq2 cf2 ap2 ts2 s S1 S2 NC1 NC2 NM1 NM2 NS1 NS2.
    unfold spec_request_sts in S1, S2.
    destruct (spec_path (cf_s3 cf1) (rq_path rq1)) as [path1|] eqn:P1; [|discriminate].
    destruct (spec_all_pairs rq1 cf1) as [pairs1|] eqn:A1; [|discriminate].
    destruct (split_once "/"%byte (ap_credential ap1)) as [[ak1 sc1]|] eqn:C1; [|discriminate].
    destruct (spec_path (cf_s3 cf2) (rq_path rq2)) as [path2|] eqn:P2; [|discriminate].
    destruct (spec_all_pairs rq2 cf2) as [pairs2|] eqn:A2; [|discriminate].
    destruct (split_once "/"%byte (ap_credential ap2)) as [[ak2 sc2]|] eqn:C2; [|discriminate].
    injection S1 as S1. injection S2 as S2. rewrite <- S2 in S1.
    assert (N1 : no_nl sc1).
    { intro I. apply NC1. rewrite (split_once_some _ _ _ _ C1). apply in_or_app. right. right. exact I. }
    assert (N2 : no_nl sc2).
    { intro I. apply NC2. rewrite (split_once_some _ _ _ _ C2). apply in_or_app. right. right. exact I. }
    apply C01_string_to_sign_injective in S1; [|assumption|assumption].
    destruct S1 as (ET & -> & EH).
    do 9 eexists. repeat (split; [first [reflexivity | eassumption]|]).
    intro EC. apply C01_canonical_request_injective in EC; try assumption;
      try (eapply spec_path_no_nl; eassumption); try apply spec_query_no_nl.
    destruct EC as (E1 & E2 & E3 & E4 & E5 & _ & E7). repeat split; assumption.
  Qed.

End SOUND.

(* the signed-header list itself is recovered from its ';'-joined rendering *)
Theorem C01_signed_list_injective : forall s s' : list bytes,
  Forall (fun n => n <> [] /\ ~ In ";"%byte n) s -> Forall (fun n => n <> [] /\ ~ In ";"%byte n) s' ->
  join [";"%byte] s = join [";"%byte] s' -> s = s'.
Proof.
  assert (NE : forall l : list bytes, Forall (fun n => n <> [] /\ ~ In ";"%byte n) l -> l <> [] ->
                                      join [";"%byte] l <> []).
  { intros l F N. destruct l as [|x [|y t]]; [contradiction| |].
    - inversion F as [|? ? [X _] _]; subst. exact X.
    - inversion F as [|? ? [X _] _]; subst. rewrite join_cons2. destruct x; [contradiction|discriminate]. }
  assert (NS : forall l : list bytes, Forall (fun n => n <> [] /\ ~ In ";"%byte n) l ->
                                      Forall (fun n => ~ In ";"%byte n) l).
  { intros l F. eapply Forall_impl; [|exact F]. cbn beta. tauto. }
  intros s s' F F' E.
  destruct s as [|x t]; [|destruct s' as [|x' t']].
  - destruct s' as [|x' t']; [reflexivity|]. exfalso. apply (NE (x' :: t') F'); [discriminate|]. rewrite <- E. reflexivity.
  - exfalso. apply (NE (x :: t) F); [discriminate|]. rewrite E. reflexivity.
  - rewrite <- (split_join_gen ";"%byte (x :: t)), <- (split_join_gen ";"%byte (x' :: t')), E;
      first [reflexivity | discriminate | apply NS; assumption].
Qed.

(* ------------------------------------------------------------------------------------------ *)
(* 10. The '+' guard is necessary (known finding D1)                                           *)
(* ------------------------------------------------------------------------------------------ *)

(* the conclusion of [C01_accept_implies_signature] as a decidable check, for a provider key *)
Definition c01_conclusion (H : bytes -> bytes) (rq : request) (cf : config) (key : bytes) : bool :=
  match presented_params H rq cf with
  | Some ap =>
      match parse_iso8601 (ap_timestamp ap) with
      | Some ts =>
          match spec_request_sts H rq cf ap ts with
          | Some sts => bytes_eqb (ap_signature ap) (lower_hex (hmac H key sts))
          | None => false
          end
      | None => false
      end
  | None => false
  end.

(* ------------------------------------------------------------------------------------------ *)
(* 11. Non-vacuity: concrete accepted requests (H := identity keeps vm_compute cheap; the      *)
(*     signatures are produced by the *specification* used as a signer)                        *)
(* ------------------------------------------------------------------------------------------ *)

Module Examples.
  Ltac conj := repeat match goal with |- _ /\ _ => split end.
  Definition idH (b : bytes) : bytes := b.
  Definition ex_ts : Z :=
    Eval vm_compute in match parse_iso8601 (s2b "20150830T123600Z") with Some t => t | None => 0%Z end.
  Definition ex_auth (sig : bytes) : bytes :=
    s2b "AWS4-HMAC-SHA256 Credential=AKID/20150830/us-east-1/svc/aws4_request, SignedHeaders=host;x-amz-date, Signature="
    ++ sig.
  Definition ex_rq (path : bytes) (q : option bytes) (uri : bytes) (ct : list (bytes * bytes)) (body sig : bytes)
    : request :=
    {| rq_method := s2b "POST"; rq_path := path; rq_query := q; rq_uri := uri; rq_version := 11%N;
       rq_headers := [(s2b "Host", s2b "example.com"); (s2b "X-Amz-Date", s2b "20150830T123600Z")] ++ ct ++
                     [(s2b "Authorization", ex_auth sig)];
       rq_body := body; rq_decoded := None |}.
  Definition ex_cf (fold : bool) : config :=
    {| cf_region := s2b "us-east-1"; cf_service := s2b "svc"; cf_now := ex_ts;
       cf_reqs := {| always_present := []; if_in_request := []; prefixes := [] |};
       cf_s3 := false; cf_fold := fold |}.
  Definition ex_key : bytes := s2b "k".
  Definition ex_pv : provider :=
    {| pv_ready_pending := 0; pv_ready := None; pv_call_pending := 0;
       pv_answer := fun _ => AnsOk ex_key (s2b "user") (s2b "sess") |}.
  Definition ex_pv' : provider :=
    {| pv_ready_pending := 0; pv_ready := None; pv_call_pending := 0;
       pv_answer := fun _ => AnsOk ex_key (s2b "other") (s2b "sess2") |}.

  (* the specification as signer: hex(HMAC(key, spec string-to-sign)) *)
  Definition spec_sign (rq : request) (cf : config) : bytes :=
    match presented_params idH rq cf with
    | Some ap => match spec_request_sts idH rq cf ap ex_ts with
                 | Some sts => lower_hex (hmac idH ex_key sts)
                 | None => []
                 end
    | None => []
    end.

  Definition accepted (r : list gsk_request * outcome) : bool :=
    match r with ([_], Accepted _ _ _ _) => true | _ => false end.

  Lemma accepted_inv : forall r, accepted r = true ->
    exists g p b pr se, r = ([g], Accepted p b pr se).
  Proof.
    intros [[|g [|g' l]] [p b pr se|k|n]] E; try discriminate. exists g, p, b, pr, se. reflexivity.
  Qed.

  (* (a) no folding *)
  Definition rq1 (sig : bytes) : request :=
    ex_rq (s2b "/a") (Some (s2b "x=1&y=%7e&x=0")) (s2b "/a?x=1&y=%7e&x=0") [] (s2b "hello") sig.
  Definition sig1 : bytes := Eval vm_compute in spec_sign (rq1 []) (ex_cf false).

  Example ex1_accepted :
    accepted (validate idH (rq1 sig1) (ex_cf false) ex_pv) = true /\
    has_plus (rq_path (rq1 sig1)) = false /\ spec_folded (rq1 sig1) (ex_cf false) = false.
  Proof. conj; vm_compute; reflexivity. Qed.

  (* hypotheses of model_creq_is_spec, C01_accept_implies_signature, C01_signature_shape,
     C12_no_fold, C15_unfolded, C15_identity are jointly satisfiable *)
  Example C01_C15_unfolded_nonvacuous :
    exists rq cf pv calls p b pr se cr,
      validate idH rq cf pv = (calls, Accepted p b pr se) /\
      from_request_parts idH rq cf = Ok (cr, p, b) /\
      has_plus (rq_path rq) = false /\ spec_folded rq cf = false /\ b <> [] /\ rq_query rq <> None.
  Proof.
    destruct ex1_accepted as (A & P & F). apply accepted_inv in A. destruct A as (g & p & b & pr & se & A).
    destruct (validate_accept_inv idH _ _ _ _ _ _ _ _ A) as (cr & _ & _ & _ & _ & _ & HF & _).
    exists (rq1 sig1), (ex_cf false), ex_pv, [g], p, b, pr, se, cr.
    repeat (split; [assumption|]).
    destruct (C15_unfolded idH _ _ _ _ _ _ _ _ A F) as (_ & _ & _ & _ & ->). split; discriminate.
  Qed.

  (* what the theorems say on this instance *)
  Example ex1_consequences :
    c01_conclusion idH (rq1 sig1) (ex_cf false) ex_key = true /\
    validate idH (rq1 sig1) (ex_cf false) ex_pv =
      ([expected_gsk (ex_cf false)
          {| ap_credential := s2b "AKID/20150830/us-east-1/svc/aws4_request"; ap_signature := sig1;
             ap_token := None; ap_signed := [s2b "host"; s2b "x-amz-date"];
             ap_timestamp := s2b "20150830T123600Z" |} ex_ts],
       Accepted (passed_parts (rq1 sig1) (s2b "/a?x=1&y=%7e&x=0")) (s2b "hello") (s2b "user") (s2b "sess")).
  Proof. split; vm_compute; reflexivity. Qed.

  (* a one-byte change of the body, of the query, of the path or of a signed header is refused *)
  Example ex1_mutations_refused :
    validate idH (ex_rq (s2b "/a") (Some (s2b "x=1&y=%7e&x=0")) (s2b "/a?x=1&y=%7e&x=0") [] (s2b "hellp") sig1)
             (ex_cf false) ex_pv = ([expected_gsk (ex_cf false)
          {| ap_credential := s2b "AKID/20150830/us-east-1/svc/aws4_request"; ap_signature := sig1;
             ap_token := None; ap_signed := [s2b "host"; s2b "x-amz-date"];
             ap_timestamp := s2b "20150830T123600Z" |} ex_ts], Refused SignatureDoesNotMatch) /\
    snd (validate idH (ex_rq (s2b "/a") (Some (s2b "x=1&y=%7e&x=2")) (s2b "/a?x=1&y=%7e&x=2") [] (s2b "hello") sig1)
             (ex_cf false) ex_pv) = Refused SignatureDoesNotMatch /\
    snd (validate idH (ex_rq (s2b "/b") (Some (s2b "x=1&y=%7e&x=0")) (s2b "/b?x=1&y=%7e&x=0") [] (s2b "hello") sig1)
             (ex_cf false) ex_pv) = Refused SignatureDoesNotMatch.
  Proof. conj; vm_compute; reflexivity. Qed.

  (* C12_body_covered: hypotheses satisfiable *)
  Example C12_body_covered_nonvacuous :
    let rqa := rq1 sig1 in
    let rqb := ex_rq (s2b "/a") (Some (s2b "x=1&y=%7e&x=0")) (s2b "/a?x=1&y=%7e&x=0") [] (s2b "hellp") sig1 in
    spec_folded rqa (ex_cf false) = false /\ spec_folded rqb (ex_cf false) = false /\
    (exists r, from_request_parts idH rqa (ex_cf false) = Ok r) /\
    (exists r, from_request_parts idH rqb (ex_cf false) = Ok r) /\
    idH (rq_body rqa) <> idH (rq_body rqb).
  Proof.
    cbv zeta. split; [reflexivity|]. split; [reflexivity|].
    split; [eexists; vm_compute; reflexivity|]. split; [eexists; vm_compute; reflexivity|]. discriminate.
  Qed.

  (* C01_cross_request: hypotheses satisfiable (same signature accepted under two providers) *)
  Example C01_cross_request_nonvacuous :
    accepted (validate idH (rq1 sig1) (ex_cf false) ex_pv) = true /\
    accepted (validate idH (rq1 sig1) (ex_cf false) ex_pv') = true /\
    snd (validate idH (rq1 sig1) (ex_cf false) ex_pv) <> snd (validate idH (rq1 sig1) (ex_cf false) ex_pv').
  Proof. split; [|split]; vm_compute; try reflexivity. discriminate. Qed.

  (* C01_bad_signature_refused: hypotheses satisfiable (upper-case hex digit, and empty signature) *)
  Example C01_bad_signature_nonvacuous :
    (exists ap c, presented_params idH (rq1 (s2b "3A")) (ex_cf false) = Some ap /\
                  In c (ap_signature ap) /\ is_ascii_digit c = false /\ in_range 97 102 c = false) /\
    (exists ap, presented_params idH (rq1 []) (ex_cf false) = Some ap /\ ap_signature ap = []).
  Proof.
    split.
    - eexists. exists "A"%byte. split; [vm_compute; reflexivity|]. cbn [ap_signature].
      split; [right; left; reflexivity|]. split; reflexivity.
    - eexists. split; vm_compute; reflexivity.
  Qed.

  (* (b) folding: a name repeated across URL and body, a signature parameter is absent *)
  Definition form_ct : list (bytes * bytes) :=
    [(s2b "Content-Type", s2b "application/x-www-form-urlencoded; charset=UTF-8")].
  Definition rq2 (sig : bytes) : request :=
    ex_rq (s2b "/f") (Some (s2b "x=1&z=%2F")) (s2b "/f?x=1&z=%2F") form_ct (s2b "b=2&x=0&a=+") sig.
  Definition sig2 : bytes := Eval vm_compute in spec_sign (rq2 []) (ex_cf true).

  Example ex2_accepted :
    accepted (validate idH (rq2 sig2) (ex_cf true) ex_pv) = true /\
    has_plus (rq_path (rq2 sig2)) = false /\ spec_folded (rq2 sig2) (ex_cf true) = true.
  Proof. conj; vm_compute; reflexivity. Qed.

  Example C12_C15_folded_nonvacuous :
    exists rq cf pv calls p b pr se cr,
      validate idH rq cf pv = (calls, Accepted p b pr se) /\
      from_request_parts idH rq cf = Ok (cr, p, b) /\
      has_plus (rq_path rq) = false /\ spec_folded rq cf = true /\ rq_body rq <> [] /\ rq_query rq <> None.
  Proof.
    destruct ex2_accepted as (A & P & F). apply accepted_inv in A. destruct A as (g & p & b & pr & se & A).
    destruct (validate_accept_inv idH _ _ _ _ _ _ _ _ A) as (cr & _ & _ & _ & _ & _ & HF & _).
    exists (rq2 sig2), (ex_cf true), ex_pv, [g], p, b, pr, se, cr.
    repeat (split; [assumption|]). split; discriminate.
  Qed.

  Example ex2_consequences :
    c01_conclusion idH (rq2 sig2) (ex_cf true) ex_key = true /\
    snd (validate idH (rq2 sig2) (ex_cf true) ex_pv) =
      Accepted (passed_parts (rq2 sig2) (s2b "/f?a=%20&b=2&x=0&x=1&z=%2F")) [] (s2b "user") (s2b "sess") /\
    spec_all_pairs (rq2 sig2) (ex_cf true) =
      Some [(s2b "x", s2b "1"); (s2b "z", s2b "/"); (s2b "b", s2b "2"); (s2b "x", s2b "0"); (s2b "a", s2b " ")] /\
    (* the same request without the option: body hashed verbatim, URI untouched, other signature *)
    snd (validate idH (rq2 sig2) (ex_cf false) ex_pv) = Refused SignatureDoesNotMatch.
  Proof. conj; vm_compute; reflexivity. Qed.

  (* C12_bad_encoding: hypotheses satisfiable, for invalid UTF-8 and for an unknown label *)
  Definition rq3 : request := ex_rq (s2b "/f") (Some (s2b "x=1")) (s2b "/f?x=1") form_ct [xff] [].
  Definition rq4 : request :=
    ex_rq (s2b "/f") (Some (s2b "x=1")) (s2b "/f?x=1")
          [(s2b "Content-Type", s2b "application/x-www-form-urlencoded; charset=klingon")] (s2b "a=1") [].
  Example C12_bad_encoding_nonvacuous :
    (spec_folded rq3 (ex_cf true) = true /\ spec_path false (rq_path rq3) <> None /\
     decoded_pairs (url_query rq3) <> None /\ spec_decoded_body rq3 = None /\
     from_request_parts idH rq3 (ex_cf true) = Err InvalidBodyEncoding) /\
    (spec_folded rq4 (ex_cf true) = true /\ spec_path false (rq_path rq4) <> None /\
     decoded_pairs (url_query rq4) <> None /\ spec_decoded_body rq4 = None /\
     from_request_parts idH rq4 (ex_cf true) = Err InvalidBodyEncoding).
  Proof. conj; vm_compute; try reflexivity; discriminate. Qed.

  (* C01_canonical_request_injective: hypotheses satisfiable by a real canonical request *)
  Example C01_injective_nonvacuous :
    let m := s2b "POST" in let p := s2b "/a" in let q := s2b "x=0&x=1&y=~" in
    let signed := [s2b "host"; s2b "x-amz-date"] in
    no_nl m /\ no_nl p /\ no_nl q /\ Forall no_nl signed /\
    Forall (fun n => n <> [] /\ ~ In ";"%byte n) signed /\
    exists cr pts body, from_request_parts idH (rq1 sig1) (ex_cf false) = Ok (cr, pts, body) /\
      canonical_request cr signed =
      spec_canonical_request idH m p q (rq_headers (rq1 sig1)) signed (s2b "hello").
  Proof.
    cbv zeta. unfold no_nl.
    assert (D : forall (l : bytes), existsb (beqb x0a) l = false -> ~ In x0a l).
    { intros l E I. assert (existsb (beqb x0a) l = true); [|congruence].
      apply existsb_exists. exists x0a. split; [exact I|apply beqb_refl]. }
    assert (D2 : forall (l : bytes), existsb (beqb ";"%byte) l = false -> ~ In ";"%byte l).
    { intros l E I. assert (existsb (beqb ";"%byte) l = true); [|congruence].
      apply existsb_exists. exists ";"%byte. split; [exact I|apply beqb_refl]. }
    repeat split; try (apply D; reflexivity).
    - repeat constructor; apply D; reflexivity.
    - repeat constructor; try discriminate; apply D2; reflexivity.
    - do 3 eexists. split; vm_compute; reflexivity.
  Qed.

  (* C01_equal_sts_equal_components: hypotheses satisfiable by two different requests (an extra
     unsigned header, another body-less spelling of the URI field) with one string-to-sign *)
  Example C01_equal_sts_nonvacuous :
    let rqa := rq1 sig1 in
    let rqb := ex_rq (s2b "/./a") (Some (s2b "x=1&x=0&y=~")) (s2b "/./a?x=1&x=0&y=~") [(s2b "X-Other", s2b "1")]
                     (s2b "hello") sig1 in
    exists ap s,
      presented_params idH rqa (ex_cf false) = Some ap /\ presented_params idH rqb (ex_cf false) = Some ap /\
      rq_path rqa <> rq_path rqb /\ rq_query rqa <> rq_query rqb /\ rq_headers rqa <> rq_headers rqb /\
      spec_request_sts idH rqa (ex_cf false) ap ex_ts = Some s /\
      spec_request_sts idH rqb (ex_cf false) ap ex_ts = Some s /\
      existsb (beqb x0a) (ap_credential ap) = false /\ existsb (beqb x0a) (rq_method rqa) = false /\
      forallb (fun n => negb (existsb (beqb x0a) n)) (ap_signed ap) = true.
  Proof.
    cbv zeta. do 2 eexists.
    split; [vm_compute; reflexivity|]. split; [vm_compute; reflexivity|].
    split; [discriminate|]. split; [discriminate|]. split; [discriminate|].
    split; [vm_compute; reflexivity|]. split; [vm_compute; reflexivity|].
    split; [vm_compute; reflexivity|]. split; vm_compute; reflexivity.
  Qed.

  (* (c) the known-finding class D1: "/a+b" and "/a%20b" share one model canonical request; the
     signature the specification issues for "/a%20b" is accepted for "/a+b", for which the
     specification's string-to-sign is a different one *)
  Definition rqB (sig : bytes) : request := ex_rq (s2b "/a%20b") None (s2b "/a%20b") [] [] sig.
  Definition rqA (sig : bytes) : request := ex_rq (s2b "/a+b") None (s2b "/a+b") [] [] sig.
  Definition sigB : bytes := Eval vm_compute in spec_sign (rqB []) (ex_cf false).

  Theorem C01_plus_refuted :
    canon_path false (s2b "/a+b") = Some (s2b "/a%20b") /\
    spec_path false (s2b "/a+b") = Some (s2b "/a%2Bb") /\
    canon_path false (s2b "/a%20b") = Some (s2b "/a%20b") /\
    spec_path false (s2b "/a%20b") = Some (s2b "/a%20b") /\
    exists H rq cf pv key calls p b pr se,
      validate H rq cf pv = (calls, Accepted p b pr se) /\
      has_plus (rq_path rq) = true /\
      (forall g, pv_answer pv g = AnsOk key pr se) /\
      (* the conclusion of C01_accept_implies_signature fails *)
      c01_conclusion H rq cf key = false /\
      (* because the signature is the one issued for another wire path *)
      exists rq', rq_headers rq' = rq_headers rq /\ rq_path rq' <> rq_path rq /\
                  c01_conclusion H rq' cf key = true /\
                  exists calls' p', validate H rq' cf pv = (calls', Accepted p' b pr se).
  Proof.
    repeat (split; [vm_compute; reflexivity|]).
    assert (A : accepted (validate idH (rqA sigB) (ex_cf false) ex_pv) = true) by (vm_compute; reflexivity).
    assert (B : accepted (validate idH (rqB sigB) (ex_cf false) ex_pv) = true) by (vm_compute; reflexivity).
    apply accepted_inv in A. destruct A as (g & p & b & pr & se & A).
    apply accepted_inv in B. destruct B as (g' & p' & b' & pr' & se' & B).
    destruct (C15_identity idH _ _ _ _ _ _ _ _ A) as (g0 & key & _ & _ & EA).
    destruct (C15_identity idH _ _ _ _ _ _ _ _ B) as (g1 & key' & _ & _ & EB).
    cbn in EA, EB. injection EA as <- <- <-. injection EB as <- <- <-.
    destruct (C15_unfolded idH _ _ _ _ _ _ _ _ A eq_refl) as (_ & _ & _ & _ & ->).
    destruct (C15_unfolded idH _ _ _ _ _ _ _ _ B eq_refl) as (_ & _ & _ & _ & ->).
    exists idH, (rqA sigB), (ex_cf false), ex_pv, ex_key, [g], p, [], (s2b "user"), (s2b "sess").
    split; [exact A|]. split; [reflexivity|]. split; [reflexivity|].
    split; [vm_compute; reflexivity|].
    exists (rqB sigB). split; [reflexivity|]. split; [discriminate|].
    split; [vm_compute; reflexivity|]. exists [g'], p'. exact B.
  Qed.
End Examples.

Definition C01_plus_refuted := Examples.C01_plus_refuted.

Print Assumptions model_creq_is_spec.
Print Assumptions C01_accept_implies_signature.
Print Assumptions C01_accept_implies_signature_modulo_path.
Print Assumptions C01_cross_request.
Print Assumptions C01_signature_shape.
Print Assumptions C01_signature_length.
Print Assumptions C01_bad_signature_refused.
Print Assumptions C01_canonical_request_injective.
Print Assumptions C01_signed_list_injective.
Print Assumptions C01_string_to_sign_injective.
Print Assumptions C01_equal_sts_equal_components.
Print Assumptions C01_plus_refuted.
Print Assumptions decoded_pairs_spec_query.
Print Assumptions C12_fold.
Print Assumptions C12_no_fold.
Print Assumptions C12_bad_encoding.
Print Assumptions C12_bad_encoding_only.
Print Assumptions spec_decoded_body_none.
Print Assumptions C12_body_covered.
Print Assumptions C12_values_order.
Print Assumptions C15_unfolded.
Print Assumptions C15_folded.
Print Assumptions C15_identity.
Print Assumptions Examples.C01_C15_unfolded_nonvacuous.
Print Assumptions Examples.C12_C15_folded_nonvacuous.
Print Assumptions Examples.C01_equal_sts_nonvacuous.
