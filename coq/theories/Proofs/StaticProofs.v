(* Theorems over the tables regenerated from /repo/src (Generated/SrcConsts.v) and the leakage
   model: C07 (comparison is the constant-time one; its steps are data-independent), C17 (no log
   site at debug level or above and no error-construction site interpolates key material; key
   renderings are constant), C08 (every panic-capable site of the source is an audited one). *)
From Coq Require Import String List Bool Arith Lia.
From Verif Require Import Base.Bytes Base.Hex Crypto.Hmac Generated.SrcConsts Model.Errors Model.Validate
  Model.Leakage Spec.Audit.
Import ListNotations.
Local Open Scope string_scope.

(* ---------------------------------------------------------------------------------------- C07 *)

Definition classify_compare (s : string) : comparator :=
  if mem_str s ct_compare_forms then CmpCtEq else CmpOther.

Theorem C07_source_uses_ct : classify_compare src_sig_compare = CmpCtEq.
Proof. vm_compute. reflexivity. Qed.

Lemma map_const_length {A B} (c : B) (l l' : list A) :
  List.length l = List.length l' -> map (fun _ => c) l = map (fun _ => c) l'.
Proof.
  revert l'. induction l as [|x l IH]; intros [|y l'] E; cbn in *; try discriminate; try reflexivity.
  f_equal. apply IH. lia.
Qed.

(* the steps of the constant-time comparison depend on the operand lengths only *)
Theorem C07_ct_eq_steps_data_independent : forall a b a' b',
  List.length a = List.length a' -> List.length b = List.length b' ->
  ct_eq_steps a b = ct_eq_steps a' b'.
Proof.
  intros a b a' b' La Lb. unfold ct_eq_steps. rewrite La, Lb.
  destruct (Nat.eqb (List.length a') (List.length b')); [|reflexivity].
  f_equal. apply map_const_length. rewrite !combine_length. lia.
Qed.

(* lifted to validate_signature: for a fixed request (all authenticator fields but the presented
   signature), configuration and provider, any two presented signatures of equal length leak the
   same steps *)
Theorem C07_validate_steps_independent_of_signature : forall (H : bytes -> bytes) au au' cf pv,
  au_creq_sha256 au = au_creq_sha256 au' -> au_credential au = au_credential au' ->
  au_token au = au_token au' -> au_timestamp au = au_timestamp au' ->
  List.length (au_signature au) = List.length (au_signature au') ->
  validate_signature_steps H au cf pv = validate_signature_steps H au' cf pv.
Proof.
  intros H au au' cf pv E1 E2 E3 E4 L.
  unfold validate_signature_steps, prevalidate, string_to_sign, gsk_request_of.
  rewrite E1, E2, E3, E4.
  destruct (Z.ltb _ _); [reflexivity|].
  destruct (Z.ltb _ _); [reflexivity|].
  destruct (split_on _ (au_credential au')) as [|p0 [|p1 [|p2 [|p3 [|p4 [|p5 r]]]]]]; try reflexivity.
  destruct (_ && _ && _ && _)%bool; [|reflexivity].
  destruct (split_once _ (au_credential au')) as [[x cscope]|]; [|reflexivity].
  destruct (snd (oneshot pv _)) as [key pr se|e]; [|reflexivity].
  apply C07_ct_eq_steps_data_independent; [exact L|reflexivity].
Qed.

(* the model distinguishes an early-exit comparison, so the theorem above is not vacuous *)
Lemma C07_early_exit_refuted : exists a a' b,
  List.length a = List.length a' /\ snd (early_exit_leaky a b) <> snd (early_exit_leaky a' b).
Proof.
  exists (s2b "ab"), (s2b "xb"), (s2b "ac"). split; [reflexivity|]. vm_compute. discriminate.
Qed.

Example C07_steps_example :
  ct_eq_steps (s2b "0123") (s2b "0124") = ct_eq_steps (s2b "9123") (s2b "0124")
  /\ ct_eq (s2b "0123") (s2b "0124") = false /\ ct_eq (s2b "9123") (s2b "0124") = false.
Proof. vm_compute. repeat split. Qed.

(* ---------------------------------------------------------------------------------------- C17 *)

Definition log_site_clean (s : string * string * list string) : bool :=
  let '(_, lvl, ids) := s in negb (level_in_scope lvl) || site_idents_clean ids.

Theorem C17_log_sites : forallb log_site_clean src_log_sites = true.
Proof. vm_compute. reflexivity. Qed.

Definition error_site_clean (s : string * string * list string) : bool :=
  let '(_, _, ids) := s in site_idents_clean ids.

Theorem C17_error_sites : forallb error_site_clean src_error_sites = true.
Proof. vm_compute. reflexivity. Qed.

(* Debug and Display of the five key types are constant literals (the type's name), for every
   key type, and no key type derives Debug/Display *)
Definition rendering_constant (r : string * string * option string) : bool :=
  let '(ty, _, body) := r in match body with Some lit => String.eqb lit ty | None => false end.

Definition has_rendering (ty tr : string) : bool :=
  existsb (fun r => let '(ty', tr', _) := r in String.eqb ty ty' && String.eqb tr tr') src_key_renderings.

Theorem C17_renderings_constant :
  forallb rendering_constant src_key_renderings = true
  /\ forallb (fun ty => has_rendering ty "Debug" && has_rendering ty "Display") key_types = true
  /\ forallb (fun d => negb (mem_str (snd d) ["Debug"; "Display"])) src_key_derives = true.
Proof. vm_compute. repeat split. Qed.

(* the logging that does mention the expected signature is at trace level only *)
Theorem C17_expected_signature_only_at_trace :
  forallb (fun s => let '(_, lvl, ids) := s in
                    negb (mem_str "expected_signature" ids) || String.eqb lvl "trace") src_log_sites = true.
Proof. vm_compute. reflexivity. Qed.

(* ---------------------------------------------------------------------------------------- C08 *)

Definition site_eqb (a b : string * string) : bool := String.eqb (fst a) (fst b) && String.eqb (snd a) (snd b).

Theorem C08_site_inventory :
  forallb (fun s => existsb (site_eqb s) audited_panic_sites) src_panic_sites = true.
Proof. vm_compute. reflexivity. Qed.
