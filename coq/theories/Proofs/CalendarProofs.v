(* Proofs about the proleptic Gregorian calendar model (Time/Calendar.v):
   year inversion for all integers, civil <-> day-number round trips, and the
   named non-existent dates. *)
From Coq Require Import ZArith Lia List Bool.
From Coq Require Import ZifyBool.
From Verif Require Import Time.Calendar.
Import ListNotations.
Local Open Scope Z_scope.

(* lia with floor division / modulo by literals *)
Ltac dlia := Z.div_mod_to_equations; lia.

(* ---------------------------------------------------------------------- *)
(* year inversion, for ALL integers                                        *)

Theorem year_of_day_spec : forall n,
  days_before_year (year_of_day n) <= n < days_before_year (year_of_day n + 1).
Proof.
  intro n. unfold year_of_day, days_before_year.
  destruct (Z.min_spec 3 ((n mod 146097) / 36524)) as [[H1 E1]|[H1 E1]];
    rewrite E1; clear E1;
  match goal with
  | |- context [Z.min 3 ?x] =>
      destruct (Z.min_spec 3 x) as [[H2 E2]|[H2 E2]]; rewrite E2; clear E2
  end; dlia.
Qed.

Lemma is_leap_cases y :
  (is_leap y = true /\ (y mod 4 = 0 /\ y mod 100 <> 0 \/ y mod 400 = 0)) \/
  (is_leap y = false /\ ~ (y mod 4 = 0 /\ y mod 100 <> 0 \/ y mod 400 = 0)).
Proof.
  unfold is_leap.
  destruct (y mod 4 =? 0) eqn:E4; destruct (y mod 100 =? 0) eqn:E100;
    destruct (y mod 400 =? 0) eqn:E400; cbn;
    rewrite ?Z.eqb_eq, ?Z.eqb_neq in *;
    first [ left; split; [reflexivity | tauto] | right; split; [reflexivity | tauto] ].
Qed.

Theorem days_before_year_succ : forall y,
  days_before_year (y + 1) = days_before_year y + year_length y.
Proof.
  intro y. unfold year_length, days_before_year.
  destruct (is_leap_cases y) as [[-> H]|[-> H]]; dlia.
Qed.

Lemma year_length_pos y : 365 <= year_length y <= 366.
Proof. unfold year_length. destruct (is_leap y); lia. Qed.

Lemma days_before_year_mono_nat : forall (k : nat) y,
  days_before_year y + 365 * Z.of_nat k <= days_before_year (y + Z.of_nat k).
Proof.
  induction k as [|k IH]; intro y.
  - replace (y + Z.of_nat 0) with y by lia. lia.
  - replace (y + Z.of_nat (S k)) with ((y + Z.of_nat k) + 1) by lia.
    rewrite days_before_year_succ.
    specialize (IH y). pose proof (year_length_pos (y + Z.of_nat k)). lia.
Qed.

Lemma days_before_year_mono y y' : y <= y' -> days_before_year y <= days_before_year y'.
Proof.
  intro H. pose proof (days_before_year_mono_nat (Z.to_nat (y' - y)) y) as M.
  rewrite Z2Nat.id in M by lia. replace (y + (y' - y)) with y' in M by lia. lia.
Qed.

Theorem year_of_day_unique : forall n y,
  days_before_year y <= n < days_before_year (y + 1) -> year_of_day n = y.
Proof.
  intros n y H. pose proof (year_of_day_spec n) as S.
  set (Y := year_of_day n) in *.
  destruct (Z.lt_trichotomy Y y) as [L|[E|L]]; [exfalso|exact E|exfalso].
  - pose proof (days_before_year_mono (Y + 1) y ltac:(lia)). lia.
  - pose proof (days_before_year_mono (y + 1) Y ltac:(lia)). lia.
Qed.

(* ---------------------------------------------------------------------- *)
(* months                                                                  *)

Definition months11 : list Z := [1; 2; 3; 4; 5; 6; 7; 8; 9; 10; 11].

Lemma month_range m : 1 <= m <= 12 ->
  m = 1 \/ m = 2 \/ m = 3 \/ m = 4 \/ m = 5 \/ m = 6 \/
  m = 7 \/ m = 8 \/ m = 9 \/ m = 10 \/ m = 11 \/ m = 12.
Proof. lia. Qed.

Ltac split_ltb :=
  repeat match goal with
         | |- context [?a <? ?b] => destruct (Z.ltb_spec a b); try lia
         end.

Lemma month_scan_correct leap m d :
  1 <= m <= 12 -> 1 <= d <= days_in_month leap m ->
  month_scan leap (days_before_month leap m + (d - 1)) months11 = (m, d).
Proof.
  intros Hm Hd. unfold months11.
  destruct leap;
    destruct (month_range m Hm) as [E|[E|[E|[E|[E|[E|[E|[E|[E|[E|[E|E]]]]]]]]]]]; subst m;
    cbn [days_in_month days_before_month month_scan] in *;
    split_ltb; f_equal; lia.
Qed.

Lemma month_scan_inv (leap : bool) doy m d :
  0 <= doy < (if leap then 366 else 365) ->
  month_scan leap doy months11 = (m, d) ->
  1 <= m <= 12 /\ 1 <= d <= days_in_month leap m /\ days_before_month leap m + (d - 1) = doy.
Proof.
  intros Hdoy. unfold months11.
  destruct leap; cbn [days_in_month month_scan];
    split_ltb; intro E; inversion E; subst; cbn [days_in_month days_before_month]; lia.
Qed.

Lemma days_before_month_bound (leap : bool) m d :
  1 <= m <= 12 -> 1 <= d <= days_in_month leap m ->
  0 <= days_before_month leap m + (d - 1) < (if leap then 366 else 365).
Proof.
  intros Hm Hd.
  destruct leap;
    destruct (month_range m Hm) as [E|[E|[E|[E|[E|[E|[E|[E|[E|[E|[E|E]]]]]]]]]]]; subst m;
    cbn [days_in_month days_before_month] in *; lia.
Qed.

Lemma valid_date_inv y m d :
  valid_date y m d = true -> 1 <= m <= 12 /\ 1 <= d <= days_in_month (is_leap y) m.
Proof.
  unfold valid_date. rewrite !andb_true_iff, !Z.leb_le. tauto.
Qed.

Lemma valid_date_intro y m d :
  1 <= m <= 12 -> 1 <= d <= days_in_month (is_leap y) m -> valid_date y m d = true.
Proof.
  unfold valid_date. rewrite !andb_true_iff, !Z.leb_le. tauto.
Qed.

(* ---------------------------------------------------------------------- *)
(* round trips                                                             *)

Lemma year_of_days_of_civil y m d :
  valid_date y m d = true -> year_of_day (days_of_civil y m d) = y.
Proof.
  intro V. apply valid_date_inv in V. destruct V as [Hm Hd].
  apply year_of_day_unique. rewrite days_before_year_succ.
  unfold days_of_civil, year_length.
  pose proof (days_before_month_bound (is_leap y) m d Hm Hd) as B.
  destruct (is_leap y); lia.
Qed.

Theorem civil_of_days_of_civil : forall y m d,
  valid_date y m d = true -> civil_of_days (days_of_civil y m d) = (y, m, d).
Proof.
  intros y m d V. unfold civil_of_days.
  rewrite (year_of_days_of_civil y m d V).
  apply valid_date_inv in V. destruct V as [Hm Hd].
  replace (days_of_civil y m d - days_before_year y)
    with (days_before_month (is_leap y) m + (d - 1)) by (unfold days_of_civil; lia).
  change [1; 2; 3; 4; 5; 6; 7; 8; 9; 10; 11] with months11.
  rewrite (month_scan_correct (is_leap y) m d Hm Hd). reflexivity.
Qed.

Theorem days_of_civil_of_days : forall n y m d,
  civil_of_days n = (y, m, d) -> valid_date y m d = true /\ days_of_civil y m d = n.
Proof.
  intros n y m d. unfold civil_of_days.
  change [1; 2; 3; 4; 5; 6; 7; 8; 9; 10; 11] with months11.
  destruct (month_scan (is_leap (year_of_day n)) (n - days_before_year (year_of_day n)) months11)
    as [m0 d0] eqn:MS.
  intro E. inversion E; subst y m0 d0. clear E.
  pose proof (year_of_day_spec n) as S.
  rewrite days_before_year_succ in S. unfold year_length in S.
  apply month_scan_inv in MS.
  - destruct MS as (Hm & Hd & Hs). split.
    + apply valid_date_intro; assumption.
    + unfold days_of_civil. lia.
  - destruct (is_leap (year_of_day n)); lia.
Qed.

Theorem days_of_civil_inj : forall y m d y' m' d',
  valid_date y m d = true -> valid_date y' m' d' = true ->
  days_of_civil y m d = days_of_civil y' m' d' -> (y, m, d) = (y', m', d').
Proof.
  intros y m d y' m' d' V V' E.
  rewrite <- (civil_of_days_of_civil y m d V), <- (civil_of_days_of_civil y' m' d' V'), E.
  reflexivity.
Qed.

Theorem unix_epoch_day_correct : days_of_civil 1970 1 1 = unix_epoch_day.
Proof. vm_compute. reflexivity. Qed.

(* ---------------------------------------------------------------------- *)
(* calendar facts the property names: these dates do not exist             *)

Lemma days_in_month_le_31 leap m : days_in_month leap m <= 31.
Proof.
  destruct (Z_le_gt_dec 1 m) as [L|G]; [destruct (Z_le_gt_dec m 12) as [L'|G']|].
  - destruct leap;
      destruct (month_range m (conj L L')) as [E|[E|[E|[E|[E|[E|[E|[E|[E|[E|[E|E]]]]]]]]]]];
      subst m; cbn; lia.
  - assert (days_in_month leap m = 0) as ->; [|lia].
    destruct m as [|p|p]; try lia.
    do 4 (destruct p as [p|p|]; try lia; try reflexivity).
  - assert (days_in_month leap m = 0) as ->; [|lia].
    destruct m as [|p|p]; try lia; reflexivity.
Qed.

Theorem no_feb_30 : forall y, valid_date y 2 30 = false.
Proof. intro y. unfold valid_date. cbn. destruct (is_leap y); reflexivity. Qed.

Theorem feb_29_iff_leap : forall y, valid_date y 2 29 = is_leap y.
Proof. intro y. unfold valid_date. cbn. destruct (is_leap y); reflexivity. Qed.

Theorem no_day_32 : forall y m, valid_date y m 32 = false.
Proof.
  intros y m. unfold valid_date.
  pose proof (days_in_month_le_31 (is_leap y) m) as H.
  destruct (Z.leb_spec 32 (days_in_month (is_leap y) m)); [lia|].
  rewrite andb_false_r. reflexivity.
Qed.

Theorem no_month_13 : forall y d, valid_date y 13 d = false.
Proof. intros y d. unfold valid_date. reflexivity. Qed.
