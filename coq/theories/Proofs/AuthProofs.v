(* Properties C03 (credential scope), C04 (freshness window) and C14 (key provider protocol) of the
   validation pipeline of Model/Validate.v.  Everything is proved for an arbitrary hash function
   [H : bytes -> bytes], an arbitrary request, configuration and provider.

   Layout:
     0. concrete data for the non-vacuity Examples (identity "hash")
     1. structure lemmas: how [validate] decomposes into its stages
     2. C04  freshness window
     3. C03  credential scope
     4. C14  key provider protocol (single validation)
     5. C14  histories over a stateful provider                                              *)
From Coq Require Import ZArith Lia List Bool.
From Coq Require Import Strings.Byte.
From Verif Require Import Base.Bytes Base.Hex Crypto.Hmac Time.Calendar Time.Iso8601 Time.Render.
From Verif Require Import Generated.SrcConsts Model.Errors Model.Requirements Model.Validate.
Import ListNotations.

(* ========================================================================================== *)
(* 0. Concrete data used by the Examples                                                      *)
(* ========================================================================================== *)

Definition Hid : bytes -> bytes := fun b => b.

Definition ex_date_basic : bytes := s2b "20150830T123600Z".
Definition ex_date_extended : bytes := s2b "2015-08-30T12:36:00Z".
Definition ex_date_offset : bytes := s2b "2015-08-30T18:06:00+05:30".
Definition ex_now : Z := 1440938160000000000%Z.        (* 2015-08-30T12:36:00Z, ns since the Unix epoch *)

Definition ex_cred : bytes := s2b "AKIDEXAMPLE/20150830/us-east-1/svc/aws4_request".
Definition ex_cred_foreign : bytes := s2b "AKIDEXAMPLE/20150830/eu-west-1/svc/aws4_request".
Definition ex_cred_4parts : bytes := s2b "AKIDEXAMPLE/20150830/us-east-1/svc".
Definition ex_cred_yesterday : bytes := s2b "AKIDEXAMPLE/20150829/us-east-1/svc/aws4_request".

(* [datehdr] is the header carrying the timestamp, [signed] the SignedHeaders parameter *)
Definition ex_request_gen (datehdr signed cred date sig : bytes) : request :=
  {| rq_method := s2b "GET"; rq_path := s2b "/"; rq_query := None; rq_uri := s2b "/"; rq_version := 11%N;
     rq_headers :=
       [(s2b "host", s2b "example.amazonaws.com");
        (datehdr, date);
        (s2b "authorization",
         s2b "AWS4-HMAC-SHA256 Credential=" ++ cred ++ s2b ", SignedHeaders=" ++ signed
           ++ s2b ", Signature=" ++ sig)];
     rq_body := []; rq_decoded := None |}.

Definition ex_request : bytes -> bytes -> bytes -> request :=
  ex_request_gen (s2b "x-amz-date") (s2b "host;x-amz-date").

Definition ex_config (region : bytes) (now : Z) : config :=
  {| cf_region := region; cf_service := s2b "svc"; cf_now := now; cf_reqs := no_reqs;
     cf_s3 := false; cf_fold := false |}.

Definition ex_region : bytes := s2b "us-east-1".
Definition ex_cf : config := ex_config ex_region ex_now.

Definition ex_key : bytes := s2b "signing-key".
Definition ex_ok : gsk_answer := AnsOk ex_key (s2b "principal") (s2b "session").

(* a provider that hands the same key to everybody: every correctly formed signature "verifies
   under the foreign scope's key" too *)
Definition ex_pv : provider :=
  {| pv_ready_pending := 0; pv_ready := None; pv_call_pending := 0; pv_answer := fun _ => ex_ok |}.
Definition ex_pv_not_ready (e : boxed_error) : provider :=
  {| pv_ready_pending := 2; pv_ready := Some e; pv_call_pending := 0; pv_answer := fun _ => ex_ok |}.
Definition ex_pv_failing (e : boxed_error) : provider :=
  {| pv_ready_pending := 0; pv_ready := None; pv_call_pending := 3; pv_answer := fun _ => AnsErr e |}.

(* the signature the model itself expects (identity hash, key [ex_key]) *)
Definition ex_sign_gen (datehdr signed cred date : bytes) : bytes :=
  match from_request_parts Hid (ex_request_gen datehdr signed cred date []) ex_cf with
  | Ok (cr, _, _) =>
      match get_authenticator Hid cr no_reqs with
      | Ok au => match string_to_sign au with
                 | Ok sts => lower_hex (hmac Hid ex_key sts)
                 | _ => []
                 end
      | _ => []
      end
  | _ => []
  end.

Definition ex_sign : bytes -> bytes -> bytes := ex_sign_gen (s2b "x-amz-date") (s2b "host;x-amz-date").

Definition ex_signed (cred date : bytes) : request := ex_request cred date (ex_sign cred date).
Definition ex_good : request := ex_signed ex_cred ex_date_basic.

Definition ex_asked : gsk_request :=
  {| g_access_key := s2b "AKIDEXAMPLE"; g_token := None; g_date := (2015, 8, 30)%Z;
     g_region := ex_region; g_service := s2b "svc" |}.

Definition ex_au (cred : bytes) (t : Z) : authenticator :=
  {| au_creq_sha256 := []; au_credential := cred; au_token := None; au_signature := []; au_timestamp := t |}.

(* ========================================================================================== *)
(* Provider-independent definitions used in the statements                                    *)
(* ========================================================================================== *)

(* C04: the window *)
Definition fresh (t now : Z) : Prop :=
  (now - allowed_mismatch_ns <= t <= now + allowed_mismatch_ns)%Z.

(* rules 10-11 on their own *)
Definition freshness_stage (t now : Z) : res unit :=
  if Z.ltb t (now - allowed_mismatch_ns) then Err SignatureDoesNotMatch
  else if Z.ltb (now + allowed_mismatch_ns) t then Err SignatureDoesNotMatch
  else Ok tt.

(* rules 12-13 on their own; the instant enters only as the rendered scope date *)
Definition scope_check_on (cred date region service : bytes) : res unit :=
  match split_on "/"%byte cred with
  | [_; d; r; s; term] =>
      if bytes_eqb r region && bytes_eqb s service && bytes_eqb term src_auth_AWS4_REQUEST
         && bytes_eqb d date
      then Ok tt else Err SignatureDoesNotMatch
  | _ => Err IncompleteSignature
  end.

Definition scope_check (au : authenticator) (region service : bytes) : res unit :=
  scope_check_on (au_credential au) (yyyymmdd (au_timestamp au)) region service.

(* the last step of sigv4_validate_request *)
Definition lift_outcome (pts : parts) (body : bytes) (r : res (bytes * bytes)) : outcome :=
  match r with
  | Ok (principal, session) => Accepted pts body principal session
  | Err k => Refused k
  | Panic s => Panicked s
  end.

(* C14: a provider with internal state (tower::Service takes &mut self) *)
Record sprovider (St : Type) := {
  sp_ready : St -> option boxed_error;
  sp_answer : St -> gsk_request -> St * gsk_answer
}.
Arguments sp_ready {St} _ _.
Arguments sp_answer {St} _ _ _.

Section AUTH.
  Variable H : bytes -> bytes.

  (* the authenticator as a function of the parameters and of the *instant* *)
  Definition authenticator_of (cr : canonical) (ap : auth_params) (ts : Z) : authenticator :=
    {| au_creq_sha256 := H (canonical_request cr (ap_signed ap));
       au_credential := ap_credential ap; au_token := ap_token ap;
       au_signature := ap_signature ap; au_timestamp := ts |}.

  (* rule 9 and the construction, from already extracted parameters *)
  Definition authenticator_from_params (cr : canonical) (ap : auth_params) : res authenticator :=
    match parse_iso8601 (ap_timestamp ap) with
    | Some ts => Ok (authenticator_of cr ap ts)
    | None => Err IncompleteSignature
    end.

  (* the request the provider would be asked for, if the request gets that far; does not
     mention the provider *)
  Definition asked (rq : request) (cf : config) : option gsk_request :=
    match from_request_parts H rq cf with
    | Ok (cr, _, _) =>
        match get_authenticator H cr (cf_reqs cf) with
        | Ok au =>
            match prevalidate au (cf_region cf) (cf_service cf) (cf_now cf) allowed_mismatch_ns with
            | Ok _ => Some (gsk_request_of au (cf_region cf) (cf_service cf))
            | _ => None
            end
        | _ => None
        end
    | _ => None
    end.

  Definition passes_prevalidation (rq : request) (cf : config) : bool :=
    match asked rq cf with Some _ => true | None => false end.

  (* ======================================================================================== *)
  (* 1. Structure lemmas                                                                      *)
  (* ======================================================================================== *)

  Lemma split_once_none_split_on : forall sep s, split_once sep s = None -> split_on sep s = [s].
  Proof.
    intros sep s. induction s as [|c r IH]; cbn [split_once split_on]; intro E; [reflexivity|].
    destruct (beqb c sep); [discriminate|].
    destruct (split_once sep r) as [[a b]|]; [discriminate|].
    rewrite IH by reflexivity. reflexivity.
  Qed.

  Lemma get_authenticator_eq : forall cr rs,
    get_authenticator H cr rs = bind (get_auth_parameters cr rs) (authenticator_from_params cr).
  Proof.
    intros cr rs. unfold get_authenticator, authenticator_from_params, bind, of_opt.
    destruct (get_auth_parameters cr rs) as [ap|k|s]; try reflexivity.
    destruct (parse_iso8601 (ap_timestamp ap)); reflexivity.
  Qed.

  Lemma get_authenticator_inv : forall cr rs au,
    get_authenticator H cr rs = Ok au ->
    exists ap ts, get_auth_parameters cr rs = Ok ap /\ parse_iso8601 (ap_timestamp ap) = Some ts /\
                  au = authenticator_of cr ap ts.
  Proof.
    intros cr rs au. rewrite get_authenticator_eq. unfold bind, authenticator_from_params.
    destruct (get_auth_parameters cr rs) as [ap|k|s]; try discriminate.
    destruct (parse_iso8601 (ap_timestamp ap)) as [ts|] eqn:Ets; try discriminate.
    intro E. inversion E. exists ap, ts. auto.
  Qed.

  Lemma prevalidate_stages : forall au region service now,
    prevalidate au region service now allowed_mismatch_ns =
    bind (freshness_stage (au_timestamp au) now) (fun _ => scope_check au region service).
  Proof.
    intros. unfold prevalidate, freshness_stage, bind, scope_check, scope_check_on.
    destruct (Z.ltb (au_timestamp au) (now - allowed_mismatch_ns)); [reflexivity|].
    destruct (Z.ltb (now + allowed_mismatch_ns) (au_timestamp au)); reflexivity.
  Qed.

  Lemma freshness_stage_fresh : forall t now, fresh t now -> freshness_stage t now = Ok tt.
  Proof.
    intros t now [Hlo Hhi]. unfold freshness_stage.
    destruct (Z.ltb_spec t (now - allowed_mismatch_ns)); [lia|].
    destruct (Z.ltb_spec (now + allowed_mismatch_ns) t); [lia|]. reflexivity.
  Qed.

  Lemma freshness_stage_stale : forall t now, ~ fresh t now -> freshness_stage t now = Err SignatureDoesNotMatch.
  Proof.
    intros t now Hn. unfold freshness_stage.
    destruct (Z.ltb_spec t (now - allowed_mismatch_ns)); [reflexivity|].
    destruct (Z.ltb_spec (now + allowed_mismatch_ns) t); [reflexivity|].
    exfalso. apply Hn. unfold fresh. lia.
  Qed.

  Lemma fresh_dec : forall t now, {fresh t now} + {~ fresh t now}.
  Proof.
    intros t now. unfold fresh.
    destruct (Z_le_dec (now - allowed_mismatch_ns) t); [|right; lia].
    destruct (Z_le_dec t (now + allowed_mismatch_ns)); [left; lia | right; lia].
  Qed.

  Lemma scope_check_on_ok_inv : forall cred date region service u,
    scope_check_on cred date region service = Ok u ->
    exists ak, split_on "/"%byte cred = [ak; date; region; service; src_auth_AWS4_REQUEST].
  Proof.
    intros cred date region service u. unfold scope_check_on.
    destruct (split_on "/"%byte cred) as [|ak [|d [|r [|s [|term [|x l]]]]]]; try discriminate.
    destruct (bytes_eqb r region) eqn:Er; cbn [andb]; try discriminate.
    destruct (bytes_eqb s service) eqn:Es; cbn [andb]; try discriminate.
    destruct (bytes_eqb term src_auth_AWS4_REQUEST) eqn:Et; cbn [andb]; try discriminate.
    destruct (bytes_eqb d date) eqn:Ed; try discriminate.
    apply bytes_eqb_eq in Er, Es, Et, Ed. subst. intros _. exists ak. reflexivity.
  Qed.

  Lemma scope_check_on_ok_intro : forall cred ak date region service,
    split_on "/"%byte cred = [ak; date; region; service; src_auth_AWS4_REQUEST] ->
    scope_check_on cred date region service = Ok tt.
  Proof.
    intros cred ak date region service E. unfold scope_check_on. rewrite E.
    rewrite !bytes_eqb_refl. reflexivity.
  Qed.

  Lemma scope_check_on_arity : forall cred date region service,
    List.length (split_on "/"%byte cred) <> 5%nat ->
    scope_check_on cred date region service = Err IncompleteSignature.
  Proof.
    intros cred date region service. unfold scope_check_on.
    destruct (split_on "/"%byte cred) as [|ak [|d [|r [|s [|term [|x l]]]]]]; cbn [List.length];
      intro Hl; try reflexivity. exfalso. apply Hl. reflexivity.
  Qed.

  Lemma scope_check_on_mismatch : forall cred date region service ak d r s term,
    split_on "/"%byte cred = [ak; d; r; s; term] ->
    r <> region \/ s <> service \/ term <> src_auth_AWS4_REQUEST \/ d <> date ->
    scope_check_on cred date region service = Err SignatureDoesNotMatch.
  Proof.
    intros cred date region service ak d r s term E Hm. unfold scope_check_on. rewrite E.
    destruct (bytes_eqb r region) eqn:Er; cbn [andb]; [|reflexivity].
    destruct (bytes_eqb s service) eqn:Es; cbn [andb]; [|reflexivity].
    destruct (bytes_eqb term src_auth_AWS4_REQUEST) eqn:Et; cbn [andb]; [|reflexivity].
    destruct (bytes_eqb d date) eqn:Ed; [|reflexivity].
    apply bytes_eqb_eq in Er, Es, Et, Ed. exfalso. tauto.
  Qed.

  (* prevalidate never panics, and only produces the two kinds of the property texts *)
  Lemma prevalidate_results : forall au region service now,
    let r := prevalidate au region service now allowed_mismatch_ns in
    r = Ok tt \/ r = Err SignatureDoesNotMatch \/ r = Err IncompleteSignature.
  Proof.
    intros au region service now. cbv zeta. rewrite prevalidate_stages. unfold bind, freshness_stage.
    destruct (Z.ltb _ _); [auto|]. destruct (Z.ltb _ _); [auto|].
    unfold scope_check, scope_check_on.
    destruct (split_on "/"%byte (au_credential au)) as [|ak [|d [|r [|s [|term [|x l]]]]]]; auto.
    destruct (_ && _); auto.
  Qed.

  Lemma prevalidate_ok_inv : forall au region service now u,
    prevalidate au region service now allowed_mismatch_ns = Ok u ->
    fresh (au_timestamp au) now /\
    exists ak, split_on "/"%byte (au_credential au) =
               [ak; yyyymmdd (au_timestamp au); region; service; src_auth_AWS4_REQUEST].
  Proof.
    intros au region service now u. rewrite prevalidate_stages. unfold bind.
    destruct (fresh_dec (au_timestamp au) now) as [Hf|Hf].
    - rewrite (freshness_stage_fresh _ _ Hf). intro E. split; [exact Hf|].
      eapply scope_check_on_ok_inv. exact E.
    - rewrite (freshness_stage_stale _ _ Hf). discriminate.
  Qed.

  (* after rule 12 the second split of the credential cannot fail: site_cscope is unreachable *)
  Lemma prevalidate_ok_string_to_sign : forall au region service now u,
    prevalidate au region service now allowed_mismatch_ns = Ok u ->
    exists sts, string_to_sign au = Ok sts.
  Proof.
    intros au region service now u Hp. apply prevalidate_ok_inv in Hp. destruct Hp as [_ [ak Hs]].
    unfold string_to_sign.
    destruct (split_once "/"%byte (au_credential au)) as [[a b]|] eqn:E; [eexists; reflexivity|].
    apply split_once_none_split_on in E. rewrite E in Hs. discriminate.
  Qed.

  (* validate_signature once prevalidation has passed *)
  Lemma validate_signature_prevalidated : forall au cf pv u,
    prevalidate au (cf_region cf) (cf_service cf) (cf_now cf) allowed_mismatch_ns = Ok u ->
    exists sts, string_to_sign au = Ok sts /\
    validate_signature H au cf pv =
      match pv_ready pv with
      | Some e => ([], Err (from_box e))
      | None =>
          ([gsk_request_of au (cf_region cf) (cf_service cf)],
           match pv_answer pv (gsk_request_of au (cf_region cf) (cf_service cf)) with
           | AnsErr e => Err (from_box e)
           | AnsOk key principal session =>
               if ct_eq (au_signature au) (lower_hex (hmac H key sts)) then Ok (principal, session)
               else Err SignatureDoesNotMatch
           end)
      end.
  Proof.
    intros au cf pv u Hp. destruct (prevalidate_ok_string_to_sign _ _ _ _ _ Hp) as [sts Hs].
    exists sts. split; [exact Hs|].
    unfold validate_signature, oneshot. rewrite Hp, Hs.
    destruct (pv_ready pv) as [e|]; [reflexivity|].
    destruct (pv_answer pv _) as [key pr se|e]; [|reflexivity].
    destruct (ct_eq _ _); reflexivity.
  Qed.

  Lemma validate_signature_refused_early : forall au cf pv k,
    prevalidate au (cf_region cf) (cf_service cf) (cf_now cf) allowed_mismatch_ns = Err k ->
    validate_signature H au cf pv = ([], Err k).
  Proof. intros au cf pv k Hp. unfold validate_signature. rewrite Hp. reflexivity. Qed.

  Lemma validate_staged : forall rq cf pv cr pts body au,
    from_request_parts H rq cf = Ok (cr, pts, body) ->
    get_authenticator H cr (cf_reqs cf) = Ok au ->
    validate H rq cf pv =
      (fst (validate_signature H au cf pv), lift_outcome pts body (snd (validate_signature H au cf pv))).
  Proof.
    intros rq cf pv cr pts body au Hf Hg. unfold validate. rewrite Hf, Hg.
    destruct (validate_signature H au cf pv) as [calls r]. reflexivity.
  Qed.

  Lemma validate_lift : forall rq cf pv cr pts body au calls r,
    from_request_parts H rq cf = Ok (cr, pts, body) ->
    get_authenticator H cr (cf_reqs cf) = Ok au ->
    validate_signature H au cf pv = (calls, r) ->
    validate H rq cf pv = (calls, lift_outcome pts body r).
  Proof.
    intros rq cf pv cr pts body au calls r Hf Hg Hv.
    rewrite (validate_staged _ _ _ _ _ _ _ Hf Hg), Hv. reflexivity.
  Qed.

  Lemma validate_accept_inv : forall rq cf pv calls p b pr se,
    validate H rq cf pv = (calls, Accepted p b pr se) ->
    exists cr au, from_request_parts H rq cf = Ok (cr, p, b) /\
                  get_authenticator H cr (cf_reqs cf) = Ok au /\
                  validate_signature H au cf pv = (calls, Ok (pr, se)).
  Proof.
    intros rq cf pv calls p b pr se. unfold validate.
    destruct (from_request_parts H rq cf) as [[[cr pts] body]|k|s] eqn:Ef; try discriminate.
    destruct (get_authenticator H cr (cf_reqs cf)) as [au|k|s] eqn:Eg; try discriminate.
    destruct (validate_signature H au cf pv) as [calls' r] eqn:Ev.
    destruct r as [[pr' se']|k|s]; try discriminate.
    intro E. inversion E. subst. exists cr, au. auto.
  Qed.

  Lemma validate_signature_ok_inv : forall au cf pv calls pr se,
    validate_signature H au cf pv = (calls, Ok (pr, se)) ->
    prevalidate au (cf_region cf) (cf_service cf) (cf_now cf) allowed_mismatch_ns = Ok tt /\
    pv_ready pv = None /\
    calls = [gsk_request_of au (cf_region cf) (cf_service cf)] /\
    exists sts key, string_to_sign au = Ok sts /\
      pv_answer pv (gsk_request_of au (cf_region cf) (cf_service cf)) = AnsOk key pr se /\
      ct_eq (au_signature au) (lower_hex (hmac H key sts)) = true.
  Proof.
    intros au cf pv calls pr se Hv.
    destruct (prevalidate au (cf_region cf) (cf_service cf) (cf_now cf) allowed_mismatch_ns)
      as [[]|k|s] eqn:Hp.
    - destruct (validate_signature_prevalidated au cf pv tt Hp) as [sts [Hs Hq]].
      rewrite Hq in Hv. clear Hq.
      destruct (pv_ready pv) as [e|]; [discriminate|].
      destruct (pv_answer pv _) as [key pr' se'|e] eqn:Ha; [|discriminate].
      destruct (ct_eq _ _) eqn:Hc; [|discriminate].
      inversion Hv. subst. repeat split; try reflexivity. exists sts, key. auto.
    - unfold validate_signature in Hv. rewrite Hp in Hv. discriminate.
    - unfold validate_signature in Hv. rewrite Hp in Hv. discriminate.
  Qed.

  (* ======================================================================================== *)
  (* 2. C04 - freshness window                                                                *)
  (* ======================================================================================== *)

  (* stated over the regenerated constant (the Duration handed to validate_signature by
     sigv4_validate_request, in nanoseconds): changing it in the source breaks these two *)
  Theorem C04_constant : allowed_mismatch_ns = (900 * 1000000000)%Z.
  Proof. reflexivity. Qed.

  Theorem C04_constant_minutes : src_allowed_mismatch_ns = (15 * 60 * 1000000000)%Z /\ ns_per_s = 1000000000%Z.
  Proof. split; reflexivity. Qed.

  (* the freshness stage passes exactly inside the closed window; outside it, it is a
     signature mismatch *)
  Theorem C04_window : forall t now,
    (freshness_stage t now = Ok tt <-> fresh t now) /\
    (freshness_stage t now = Err SignatureDoesNotMatch <-> ~ fresh t now).
  Proof.
    intros t now. destruct (fresh_dec t now) as [Hf|Hf].
    - rewrite (freshness_stage_fresh _ _ Hf). split; split; intros; try discriminate; tauto.
    - rewrite (freshness_stage_stale _ _ Hf). split; split; intros; try discriminate; tauto.
  Qed.

  Theorem C04_accept_implies_fresh : forall rq cf pv calls p b pr se,
    validate H rq cf pv = (calls, Accepted p b pr se) ->
    exists cr pts body ap ts,
      from_request_parts H rq cf = Ok (cr, pts, body) /\
      get_auth_parameters cr (cf_reqs cf) = Ok ap /\
      parse_iso8601 (ap_timestamp ap) = Some ts /\
      fresh ts (cf_now cf).
  Proof.
    intros rq cf pv calls p b pr se Hv.
    destruct (validate_accept_inv _ _ _ _ _ _ _ _ Hv) as [cr [au [Hf [Hg Hs]]]].
    destruct (get_authenticator_inv _ _ _ Hg) as [ap [ts [Hap [Hts Hau]]]].
    apply validate_signature_ok_inv in Hs. destruct Hs as [Hp _].
    apply prevalidate_ok_inv in Hp. destruct Hp as [Hfr _]. subst au. cbn [au_timestamp authenticator_of] in Hfr.
    exists cr, p, b, ap, ts. auto.
  Qed.

  (* outside the window: refused as a signature mismatch, zero provider calls, whatever the
     provider, the credential or the signature are *)
  Theorem C04_stale_refused_no_lookup : forall au cf pv,
    ~ fresh (au_timestamp au) (cf_now cf) ->
    validate_signature H au cf pv = ([], Err SignatureDoesNotMatch).
  Proof.
    intros au cf pv Hn. apply validate_signature_refused_early.
    rewrite prevalidate_stages, (freshness_stage_stale _ _ Hn). reflexivity.
  Qed.

  Theorem C04_stale_refused_no_lookup_validate : forall rq cf pv cr pts body au,
    from_request_parts H rq cf = Ok (cr, pts, body) ->
    get_authenticator H cr (cf_reqs cf) = Ok au ->
    ~ fresh (au_timestamp au) (cf_now cf) ->
    validate H rq cf pv = ([], Refused SignatureDoesNotMatch).
  Proof.
    intros rq cf pv cr pts body au Hf Hg Hn.
    rewrite (validate_lift _ _ _ _ _ _ _ _ _ Hf Hg (C04_stale_refused_no_lookup au cf pv Hn)). reflexivity.
  Qed.

  (* the same, phrased over the text of the request: the parameters and the parsed instant *)
  Theorem C04_stale_refused_no_lookup_params : forall rq cf pv cr pts body ap ts,
    from_request_parts H rq cf = Ok (cr, pts, body) ->
    get_auth_parameters cr (cf_reqs cf) = Ok ap ->
    parse_iso8601 (ap_timestamp ap) = Some ts ->
    ~ fresh ts (cf_now cf) ->
    validate H rq cf pv = ([], Refused SignatureDoesNotMatch).
  Proof.
    intros rq cf pv cr pts body ap ts Hf Hap Hts Hn.
    apply (C04_stale_refused_no_lookup_validate rq cf pv cr pts body (authenticator_of cr ap ts) Hf).
    - rewrite get_authenticator_eq, Hap. unfold bind, authenticator_from_params. rewrite Hts. reflexivity.
    - exact Hn.
  Qed.

  (* inside the window the timestamp never causes rejection by itself: prevalidate *is* the
     scope check, in which the instant appears only as the rendered scope date *)
  Theorem C04_fresh_never_rejected_by_time : forall au region service now,
    fresh (au_timestamp au) now ->
    prevalidate au region service now allowed_mismatch_ns = scope_check au region service.
  Proof.
    intros au region service now Hf. rewrite prevalidate_stages, (freshness_stage_fresh _ _ Hf). reflexivity.
  Qed.

  Theorem C04_scope_check_uses_date_only : forall au region service,
    scope_check au region service =
    scope_check_on (au_credential au) (yyyymmdd (au_timestamp au)) region service.
  Proof. reflexivity. Qed.

  (* two instants on the same UTC day inside the window are indistinguishable to prevalidate *)
  Theorem C04_fresh_same_day_same_decision : forall au au' region service now,
    fresh (au_timestamp au) now -> fresh (au_timestamp au') now ->
    au_credential au = au_credential au' ->
    day_of_instant (au_timestamp au) = day_of_instant (au_timestamp au') ->
    prevalidate au region service now allowed_mismatch_ns =
    prevalidate au' region service now allowed_mismatch_ns.
  Proof.
    intros au au' region service now Hf Hf' Hc Hd.
    rewrite !C04_fresh_never_rejected_by_time by assumption.
    unfold scope_check, yyyymmdd. rewrite Hc, Hd. reflexivity.
  Qed.

  (* textual independence.  (i) the authenticator is a function of the instant, not of the text *)
  Theorem C04_textual_independence : forall cr1 cr2 ap1 ap2 t,
    ap_credential ap1 = ap_credential ap2 -> ap_signature ap1 = ap_signature ap2 ->
    ap_token ap1 = ap_token ap2 ->
    canonical_request cr1 (ap_signed ap1) = canonical_request cr2 (ap_signed ap2) ->
    parse_iso8601 (ap_timestamp ap1) = Some t -> parse_iso8601 (ap_timestamp ap2) = Some t ->
    authenticator_from_params cr1 ap1 = authenticator_from_params cr2 ap2 /\
    authenticator_from_params cr1 ap1 = Ok (authenticator_of cr1 ap1 t).
  Proof.
    intros cr1 cr2 ap1 ap2 t Hc Hs Ht Hh H1 H2. unfold authenticator_from_params, authenticator_of.
    rewrite H1, H2, Hc, Hs, Ht, Hh. split; reflexivity.
  Qed.

  (* [authenticator_from_params] is what [get_authenticator] runs after parameter extraction *)
  Theorem C04_get_authenticator_factors : forall cr rs,
    get_authenticator H cr rs = bind (get_auth_parameters cr rs) (authenticator_from_params cr).
  Proof. exact get_authenticator_eq. Qed.

  (* (ii) the freshness decision: two texts denoting the same instant get the same decision,
     whatever else differs between the two requests *)
  Theorem C04_textual_independence_decision : forall cr1 cr2 ap1 ap2 au1 au2 t now,
    parse_iso8601 (ap_timestamp ap1) = Some t -> parse_iso8601 (ap_timestamp ap2) = Some t ->
    authenticator_from_params cr1 ap1 = Ok au1 -> authenticator_from_params cr2 ap2 = Ok au2 ->
    freshness_stage (au_timestamp au1) now = freshness_stage (au_timestamp au2) now /\
    (fresh (au_timestamp au1) now <-> fresh (au_timestamp au2) now).
  Proof.
    intros cr1 cr2 ap1 ap2 au1 au2 t now H1 H2. unfold authenticator_from_params. rewrite H1, H2.
    intros E1 E2. inversion E1. inversion E2. cbn [au_timestamp authenticator_of]. split; [reflexivity|tauto].
  Qed.

  (* (iii) downstream of the authenticator, only the instant is visible: validate_signature of
     authenticators that agree on all fields including the *parsed* timestamp coincide, so with
     (i) the whole verdict is independent of the textual form *)
  Theorem C04_textual_independence_verdict : forall cr1 cr2 ap1 ap2 au1 au2 t cf pv,
    ap_credential ap1 = ap_credential ap2 -> ap_signature ap1 = ap_signature ap2 ->
    ap_token ap1 = ap_token ap2 ->
    canonical_request cr1 (ap_signed ap1) = canonical_request cr2 (ap_signed ap2) ->
    parse_iso8601 (ap_timestamp ap1) = Some t -> parse_iso8601 (ap_timestamp ap2) = Some t ->
    authenticator_from_params cr1 ap1 = Ok au1 -> authenticator_from_params cr2 ap2 = Ok au2 ->
    validate_signature H au1 cf pv = validate_signature H au2 cf pv.
  Proof.
    intros cr1 cr2 ap1 ap2 au1 au2 t cf pv Hc Hs Ht Hh H1 H2 E1 E2.
    destruct (C04_textual_independence cr1 cr2 ap1 ap2 t Hc Hs Ht Hh H1 H2) as [E _].
    rewrite E in E1. rewrite E1 in E2. inversion E2. reflexivity.
  Qed.

  (* (iv) whole pipeline: two requests whose timestamps are different texts of one instant and
     which otherwise lead to the same parameters and the same canonical request (the header
     carrying the date is then necessarily unsigned) get the same calls and the same verdict,
     up to the passed-through parts and body *)
  Theorem C04_textual_independence_validate : forall rq1 rq2 cf pv cr1 cr2 pts1 pts2 body1 body2 ap1 ap2 t,
    from_request_parts H rq1 cf = Ok (cr1, pts1, body1) ->
    from_request_parts H rq2 cf = Ok (cr2, pts2, body2) ->
    get_auth_parameters cr1 (cf_reqs cf) = Ok ap1 -> get_auth_parameters cr2 (cf_reqs cf) = Ok ap2 ->
    ap_credential ap1 = ap_credential ap2 -> ap_signature ap1 = ap_signature ap2 ->
    ap_token ap1 = ap_token ap2 ->
    canonical_request cr1 (ap_signed ap1) = canonical_request cr2 (ap_signed ap2) ->
    parse_iso8601 (ap_timestamp ap1) = Some t -> parse_iso8601 (ap_timestamp ap2) = Some t ->
    exists calls r,
      validate H rq1 cf pv = (calls, lift_outcome pts1 body1 r) /\
      validate H rq2 cf pv = (calls, lift_outcome pts2 body2 r).
  Proof.
    intros rq1 rq2 cf pv cr1 cr2 pts1 pts2 body1 body2 ap1 ap2 t Hf1 Hf2 Ha1 Ha2 Hc Hs Ht Hh H1 H2.
    destruct (C04_textual_independence cr1 cr2 ap1 ap2 t Hc Hs Ht Hh H1 H2) as [E E1].
    assert (Hg1 : get_authenticator H cr1 (cf_reqs cf) = Ok (authenticator_of cr1 ap1 t))
      by (rewrite get_authenticator_eq, Ha1; exact E1).
    assert (Hg2 : get_authenticator H cr2 (cf_reqs cf) = Ok (authenticator_of cr1 ap1 t))
      by (rewrite get_authenticator_eq, Ha2; cbn [bind]; rewrite <- E; exact E1).
    exists (fst (validate_signature H (authenticator_of cr1 ap1 t) cf pv)),
           (snd (validate_signature H (authenticator_of cr1 ap1 t) cf pv)).
    split; [exact (validate_staged _ _ _ _ _ _ _ Hf1 Hg1) | exact (validate_staged _ _ _ _ _ _ _ Hf2 Hg2)].
  Qed.

  (* ======================================================================================== *)
  (* 3. C03 - credential scope                                                                *)
  (* ======================================================================================== *)

  Lemma C03_terminator : src_auth_AWS4_REQUEST = s2b "aws4_request".
  Proof. reflexivity. Qed.

  Lemma C03_status_400 : status IncompleteSignature = Some 400%N.
  Proof. vm_compute. reflexivity. Qed.

  Lemma C03_status_403 : status SignatureDoesNotMatch = Some 403%N.
  Proof. vm_compute. reflexivity. Qed.

  Theorem C03_accept_implies_scope : forall rq cf pv calls p b pr se,
    validate H rq cf pv = (calls, Accepted p b pr se) ->
    exists cr ap ts ak d r s term,
      from_request_parts H rq cf = Ok (cr, p, b) /\
      get_auth_parameters cr (cf_reqs cf) = Ok ap /\
      parse_iso8601 (ap_timestamp ap) = Some ts /\
      split_on "/"%byte (ap_credential ap) = [ak; d; r; s; term] /\
      r = cf_region cf /\ s = cf_service cf /\ term = src_auth_AWS4_REQUEST /\
      d = yyyymmdd ts /\
      calls = [ {| g_access_key := ak; g_token := ap_token ap;
                   g_date := civil_of_days (day_of_instant ts);
                   g_region := cf_region cf; g_service := cf_service cf |} ].
  Proof.
    intros rq cf pv calls p b pr se Hv.
    destruct (validate_accept_inv _ _ _ _ _ _ _ _ Hv) as [cr [au [Hf [Hg Hs]]]].
    destruct (get_authenticator_inv _ _ _ Hg) as [ap [ts [Hap [Hts Hau]]]].
    apply validate_signature_ok_inv in Hs. destruct Hs as [Hp [_ [Hcalls _]]].
    apply prevalidate_ok_inv in Hp. destruct Hp as [_ [ak Hsplit]].
    subst au. cbn [au_timestamp au_credential authenticator_of] in Hsplit.
    exists cr, ap, ts, ak, (yyyymmdd ts), (cf_region cf), (cf_service cf), src_auth_AWS4_REQUEST.
    repeat (split; [first [assumption | reflexivity]|]).
    rewrite Hcalls. unfold gsk_request_of. cbn [au_timestamp au_credential au_token authenticator_of].
    rewrite Hsplit. reflexivity.
  Qed.

  (* the scope date is the rendering of the civil date handed to the provider *)
  Theorem C03_scope_date_is_utc_date : forall ts,
    yyyymmdd ts = yyyymmdd_of_civil (civil_of_days (day_of_instant ts)).
  Proof. reflexivity. Qed.

  Theorem C03_arity_is_incomplete : forall au cf pv,
    fresh (au_timestamp au) (cf_now cf) ->
    List.length (split_on "/"%byte (au_credential au)) <> 5%nat ->
    validate_signature H au cf pv = ([], Err IncompleteSignature).
  Proof.
    intros au cf pv Hf Hl. apply validate_signature_refused_early.
    rewrite C04_fresh_never_rejected_by_time by exact Hf.
    apply scope_check_on_arity. exact Hl.
  Qed.

  Theorem C03_mismatch_is_403_no_lookup : forall au cf pv ak d r s term,
    fresh (au_timestamp au) (cf_now cf) ->
    split_on "/"%byte (au_credential au) = [ak; d; r; s; term] ->
    r <> cf_region cf \/ s <> cf_service cf \/ term <> src_auth_AWS4_REQUEST \/
      d <> yyyymmdd (au_timestamp au) ->
    validate_signature H au cf pv = ([], Err SignatureDoesNotMatch).
  Proof.
    intros au cf pv ak d r s term Hf Hs Hm. apply validate_signature_refused_early.
    rewrite C04_fresh_never_rejected_by_time by exact Hf.
    eapply scope_check_on_mismatch; eassumption.
  Qed.

  Theorem C03_arity_is_incomplete_validate : forall rq cf pv cr pts body au,
    from_request_parts H rq cf = Ok (cr, pts, body) ->
    get_authenticator H cr (cf_reqs cf) = Ok au ->
    fresh (au_timestamp au) (cf_now cf) ->
    List.length (split_on "/"%byte (au_credential au)) <> 5%nat ->
    validate H rq cf pv = ([], Refused IncompleteSignature).
  Proof.
    intros rq cf pv cr pts body au Hf Hg Hfr Hl.
    rewrite (validate_lift _ _ _ _ _ _ _ _ _ Hf Hg (C03_arity_is_incomplete au cf pv Hfr Hl)). reflexivity.
  Qed.

  Theorem C03_mismatch_is_403_no_lookup_validate : forall rq cf pv cr pts body au ak d r s term,
    from_request_parts H rq cf = Ok (cr, pts, body) ->
    get_authenticator H cr (cf_reqs cf) = Ok au ->
    fresh (au_timestamp au) (cf_now cf) ->
    split_on "/"%byte (au_credential au) = [ak; d; r; s; term] ->
    r <> cf_region cf \/ s <> cf_service cf \/ term <> src_auth_AWS4_REQUEST \/
      d <> yyyymmdd (au_timestamp au) ->
    validate H rq cf pv = ([], Refused SignatureDoesNotMatch).
  Proof.
    intros rq cf pv cr pts body au ak d r s term Hf Hg Hfr Hs Hm.
    rewrite (validate_lift _ _ _ _ _ _ _ _ _ Hf Hg
               (C03_mismatch_is_403_no_lookup au cf pv ak d r s term Hfr Hs Hm)). reflexivity.
  Qed.

  (* complete classification of prevalidate for a fresh timestamp *)
  Theorem C03_scope_decision : forall au region service now,
    fresh (au_timestamp au) now ->
    (prevalidate au region service now allowed_mismatch_ns = Ok tt <->
       exists ak, split_on "/"%byte (au_credential au) =
                  [ak; yyyymmdd (au_timestamp au); region; service; src_auth_AWS4_REQUEST]) /\
    (prevalidate au region service now allowed_mismatch_ns = Err IncompleteSignature <->
       List.length (split_on "/"%byte (au_credential au)) <> 5%nat).
  Proof.
    intros au region service now Hf. split; split.
    - intro Hp. apply prevalidate_ok_inv in Hp. tauto.
    - intros [ak Hs]. rewrite C04_fresh_never_rejected_by_time by exact Hf.
      eapply scope_check_on_ok_intro. exact Hs.
    - rewrite C04_fresh_never_rejected_by_time by exact Hf. unfold scope_check, scope_check_on.
      destruct (split_on "/"%byte (au_credential au)) as [|ak [|d [|r [|s [|term [|x l]]]]]];
        cbn [List.length]; try (intros _; discriminate).
      destruct (_ && _); discriminate.
    - intro Hl. rewrite C04_fresh_never_rejected_by_time by exact Hf. apply scope_check_on_arity. exact Hl.
  Qed.

  (* ======================================================================================== *)
  (* 4. C14 - key provider protocol, one validation                                           *)
  (* ======================================================================================== *)

  (* exact description of the calls: the provider is called iff prevalidation passed and it
     signalled readiness, and then exactly once with [asked] *)
  Theorem C14_calls_exact : forall rq cf pv,
    fst (validate H rq cf pv) =
    match asked rq cf, pv_ready pv with
    | Some r, None => [r]
    | _, _ => []
    end.
  Proof.
    intros rq cf pv. unfold asked, validate.
    destruct (from_request_parts H rq cf) as [[[cr pts] body]|k|s]; try reflexivity.
    destruct (get_authenticator H cr (cf_reqs cf)) as [au|k|s]; try reflexivity.
    destruct (prevalidate au (cf_region cf) (cf_service cf) (cf_now cf) allowed_mismatch_ns)
      as [u|k|s] eqn:Hp.
    - destruct (validate_signature_prevalidated au cf pv u Hp) as [sts [_ Hq]]. rewrite Hq.
      destruct (pv_ready pv); reflexivity.
    - rewrite (validate_signature_refused_early au cf pv k Hp). reflexivity.
    - unfold validate_signature. rewrite Hp. reflexivity.
  Qed.

  Theorem C14_at_most_once : forall rq cf pv, (List.length (fst (validate H rq cf pv)) <= 1)%nat.
  Proof.
    intros rq cf pv. rewrite C14_calls_exact.
    destruct (asked rq cf); [destruct (pv_ready pv)|]; cbn [List.length]; lia.
  Qed.

  Theorem C14_calls_le_prevalidated : forall rq cf pv,
    (List.length (fst (validate H rq cf pv)) <= if passes_prevalidation rq cf then 1 else 0)%nat.
  Proof.
    intros rq cf pv. rewrite C14_calls_exact. unfold passes_prevalidation.
    destruct (asked rq cf); [destruct (pv_ready pv)|]; cbn [List.length]; lia.
  Qed.

  (* a failure at any earlier stage means the provider is never touched *)
  Theorem C14_no_call_unless_prevalidated : forall rq cf pv,
    (forall x, from_request_parts H rq cf <> Ok x) \/
    (exists cr pts body, from_request_parts H rq cf = Ok (cr, pts, body) /\
       ((forall au, get_authenticator H cr (cf_reqs cf) <> Ok au) \/
        (exists au, get_authenticator H cr (cf_reqs cf) = Ok au /\
           prevalidate au (cf_region cf) (cf_service cf) (cf_now cf) allowed_mismatch_ns <> Ok tt))) ->
    fst (validate H rq cf pv) = [].
  Proof.
    intros rq cf pv Hc. rewrite C14_calls_exact.
    assert (Ha : asked rq cf = None); [|rewrite Ha; reflexivity].
    unfold asked. destruct Hc as [Hc | [cr [pts [body [Hf Hc]]]]].
    - destruct (from_request_parts H rq cf) as [[[cr pts] body]|k|s]; try reflexivity.
      exfalso. eapply Hc. reflexivity.
    - rewrite Hf. destruct Hc as [Hc | [au [Hg Hc]]].
      + destruct (get_authenticator H cr (cf_reqs cf)) as [au|k|s]; try reflexivity.
        exfalso. eapply Hc. reflexivity.
      + rewrite Hg.
        destruct (prevalidate au (cf_region cf) (cf_service cf) (cf_now cf) allowed_mismatch_ns)
          as [[]|k|s]; try reflexivity.
        exfalso. apply Hc. reflexivity.
  Qed.

  (* the converse reading: every call that is made was preceded by a successful run of every
     earlier stage and by a readiness signal, and it carries exactly the checked scope *)
  Theorem C14_call_implies_prevalidated : forall rq cf pv r,
    In r (fst (validate H rq cf pv)) ->
    exists cr pts body au,
      from_request_parts H rq cf = Ok (cr, pts, body) /\
      get_authenticator H cr (cf_reqs cf) = Ok au /\
      prevalidate au (cf_region cf) (cf_service cf) (cf_now cf) allowed_mismatch_ns = Ok tt /\
      pv_ready pv = None /\
      r = gsk_request_of au (cf_region cf) (cf_service cf) /\
      fst (validate H rq cf pv) = [r].
  Proof.
    intros rq cf pv r. rewrite C14_calls_exact. unfold asked.
    destruct (from_request_parts H rq cf) as [[[cr pts] body]|k|s] eqn:Ef;
      [|intro Hin; destruct Hin|intro Hin; destruct Hin].
    destruct (get_authenticator H cr (cf_reqs cf)) as [au|k|s] eqn:Eg;
      [|intro Hin; destruct Hin|intro Hin; destruct Hin].
    destruct (prevalidate au (cf_region cf) (cf_service cf) (cf_now cf) allowed_mismatch_ns)
      as [[]|k|s] eqn:Ep; [|intro Hin; destruct Hin|intro Hin; destruct Hin].
    destruct (pv_ready pv) as [e|] eqn:Er; [intro Hin; destruct Hin|].
    intros [E|[]]. subst r. exists cr, pts, body, au. auto 10.
  Qed.

  (* a provider that is not ready (poll_ready returned an error) is never called, and its error
     is what the caller gets once the request has passed every earlier rule *)
  Theorem C14_no_call_before_ready : forall rq cf pv e,
    pv_ready pv = Some e ->
    fst (validate H rq cf pv) = [] /\
    (forall cr pts body au,
       from_request_parts H rq cf = Ok (cr, pts, body) ->
       get_authenticator H cr (cf_reqs cf) = Ok au ->
       prevalidate au (cf_region cf) (cf_service cf) (cf_now cf) allowed_mismatch_ns = Ok tt ->
       validate H rq cf pv = ([], Refused (from_box e))).
  Proof.
    intros rq cf pv e Hr. split.
    - rewrite C14_calls_exact, Hr. destruct (asked rq cf); reflexivity.
    - intros cr pts body au Hf Hg Hp.
      destruct (validate_signature_prevalidated au cf pv tt Hp) as [sts [_ Hq]]. rewrite Hr in Hq.
      rewrite (validate_lift _ _ _ _ _ _ _ _ _ Hf Hg Hq). reflexivity.
  Qed.

  Theorem C14_provider_error_verbatim : forall rq cf pv cr pts body au e,
    from_request_parts H rq cf = Ok (cr, pts, body) ->
    get_authenticator H cr (cf_reqs cf) = Ok au ->
    prevalidate au (cf_region cf) (cf_service cf) (cf_now cf) allowed_mismatch_ns = Ok tt ->
    pv_ready pv = None ->
    pv_answer pv (gsk_request_of au (cf_region cf) (cf_service cf)) = AnsErr e ->
    validate H rq cf pv = ([gsk_request_of au (cf_region cf) (cf_service cf)], Refused (from_box e)).
  Proof.
    intros rq cf pv cr pts body au e Hf Hg Hp Hr Ha.
    destruct (validate_signature_prevalidated au cf pv tt Hp) as [sts [_ Hq]]. rewrite Hr, Ha in Hq.
    rewrite (validate_lift _ _ _ _ _ _ _ _ _ Hf Hg Hq). reflexivity.
  Qed.

  Lemma C14_from_box_sig : forall k, from_box (BoxSig k) = k.
  Proof. reflexivity. Qed.

  Lemma C14_from_box_foreign : from_box BoxForeign = InternalServiceError.
  Proof. reflexivity. Qed.

  Lemma C14_status_500 : status InternalServiceError = Some 500%N.
  Proof. vm_compute. reflexivity. Qed.

  (* acceptance needs a readiness signal and a key for the single request asked *)
  Theorem C14_accept_implies_answer : forall rq cf pv calls p b pr se,
    validate H rq cf pv = (calls, Accepted p b pr se) ->
    pv_ready pv = None /\
    exists r key, asked rq cf = Some r /\ calls = [r] /\ pv_answer pv r = AnsOk key pr se.
  Proof.
    intros rq cf pv calls p b pr se Hv.
    assert (Hc : fst (validate H rq cf pv) = calls) by (rewrite Hv; reflexivity).
    destruct (validate_accept_inv _ _ _ _ _ _ _ _ Hv) as [cr [au [Hf [Hg Hs]]]].
    apply validate_signature_ok_inv in Hs.
    destruct Hs as [Hp [Hr [Hcalls [sts [key [_ [Ha _]]]]]]].
    split; [exact Hr|]. exists (gsk_request_of au (cf_region cf) (cf_service cf)), key.
    split; [|split; assumption].
    unfold asked. rewrite Hf, Hg, Hp. reflexivity.
  Qed.

  Theorem C14_never_accepts_on_error : forall rq cf pv,
    pv_ready pv <> None \/
    (forall r, In r (fst (validate H rq cf pv)) -> exists e, pv_answer pv r = AnsErr e) ->
    forall p b pr se, snd (validate H rq cf pv) <> Accepted p b pr se.
  Proof.
    intros rq cf pv Hc p b pr se Hs.
    destruct (validate H rq cf pv) as [calls o] eqn:Hv. cbn [fst snd] in Hc, Hs. subst o.
    destruct (C14_accept_implies_answer _ _ _ _ _ _ _ _ Hv) as [Hr [r [key [_ [Hcalls Ha]]]]].
    destruct Hc as [Hc|Hc]; [contradiction|].
    destruct (Hc r) as [e He]; [rewrite Hcalls; left; reflexivity|]. congruence.
  Qed.

  (* the same, without mentioning the calls: phrased over [asked] *)
  Theorem C14_never_accepts_on_error_asked : forall rq cf pv,
    pv_ready pv <> None \/
    (forall r, asked rq cf = Some r -> exists e, pv_answer pv r = AnsErr e) ->
    forall p b pr se, snd (validate H rq cf pv) <> Accepted p b pr se.
  Proof.
    intros rq cf pv Hc p b pr se Hs.
    destruct (validate H rq cf pv) as [calls o] eqn:Hv. cbn [snd] in Hs. subst o.
    destruct (C14_accept_implies_answer _ _ _ _ _ _ _ _ Hv) as [Hr [r [key [Hask [_ Ha]]]]].
    destruct Hc as [Hc|Hc]; [contradiction|].
    destruct (Hc r Hask) as [e He]. congruence.
  Qed.

  (* Pending results of poll_ready / of the future do not influence anything: the verdict and the
     calls are a function of [pv_ready] and of (the graph of) [pv_answer] only *)
  Theorem C14_pending_irrelevant : forall rq cf pv pv',
    pv_ready pv = pv_ready pv' ->
    (forall r, pv_answer pv r = pv_answer pv' r) ->
    validate H rq cf pv = validate H rq cf pv'.
  Proof.
    intros rq cf pv pv' Hr Ha. unfold validate.
    destruct (from_request_parts H rq cf) as [[[cr pts] body]|k|s]; try reflexivity.
    destruct (get_authenticator H cr (cf_reqs cf)) as [au|k|s]; try reflexivity.
    replace (validate_signature H au cf pv') with (validate_signature H au cf pv); [reflexivity|].
    unfold validate_signature, oneshot. rewrite Hr, Ha. reflexivity.
  Qed.

  Corollary C14_pending_irrelevant_counts : forall rq cf n m n' m' ready answer,
    validate H rq cf {| pv_ready_pending := n; pv_ready := ready; pv_call_pending := m; pv_answer := answer |} =
    validate H rq cf {| pv_ready_pending := n'; pv_ready := ready; pv_call_pending := m'; pv_answer := answer |}.
  Proof. intros. apply C14_pending_irrelevant; reflexivity. Qed.

  (* only the answer to the single request asked matters *)
  Theorem C14_only_asked_answer_matters : forall rq cf pv pv',
    pv_ready pv = pv_ready pv' ->
    (forall r, asked rq cf = Some r -> pv_answer pv r = pv_answer pv' r) ->
    validate H rq cf pv = validate H rq cf pv'.
  Proof.
    intros rq cf pv pv' Hr Ha. unfold asked in Ha. unfold validate.
    destruct (from_request_parts H rq cf) as [[[cr pts] body]|k|s]; try reflexivity.
    destruct (get_authenticator H cr (cf_reqs cf)) as [au|k|s]; try reflexivity.
    replace (validate_signature H au cf pv') with (validate_signature H au cf pv); [reflexivity|].
    unfold validate_signature, oneshot. rewrite Hr.
    destruct (prevalidate au (cf_region cf) (cf_service cf) (cf_now cf) allowed_mismatch_ns)
      as [u|k|s]; try reflexivity.
    rewrite (Ha _ eq_refl). reflexivity.
  Qed.

  (* ======================================================================================== *)
  (* 5. C14 - histories: many validations sharing one stateful provider                       *)
  (* ======================================================================================== *)

  Section HISTORY.
    Context {St : Type} (sp : sprovider St).

    (* the provider as one validation sees it *)
    Definition freeze (s : St) : provider :=
      {| pv_ready_pending := 0; pv_ready := sp_ready sp s; pv_call_pending := 0;
         pv_answer := fun r => snd (sp_answer sp s r) |}.

    (* the state after serving a list of calls *)
    Definition advance (s : St) (calls : list gsk_request) : St :=
      fold_left (fun s r => fst (sp_answer sp s r)) calls s.

    Fixpoint run_history (s : St) (hist : list (request * config))
      : St * list (list gsk_request * outcome) :=
      match hist with
      | [] => (s, [])
      | (rq, cf) :: rest =>
          let r := validate H rq cf (freeze s) in
          let '(s', rs) := run_history (advance s (fst r)) rest in
          (s', r :: rs)
      end.

    (* the same as a left fold with an explicit accumulator *)
    Definition history_step (acc : St * list (list gsk_request * outcome)) (x : request * config)
      : St * list (list gsk_request * outcome) :=
      let r := validate H (fst x) (snd x) (freeze (fst acc)) in
      (advance (fst acc) (fst r), snd acc ++ [r]).

    Definition all_calls (rs : list (list gsk_request * outcome)) : list gsk_request :=
      concat (map fst rs).

    Lemma advance_app : forall s a b, advance s (a ++ b) = advance (advance s a) b.
    Proof. intros. unfold advance. apply fold_left_app. Qed.

    Lemma run_history_cons : forall s rq cf rest,
      run_history s ((rq, cf) :: rest) =
      (fst (run_history (advance s (fst (validate H rq cf (freeze s)))) rest),
       validate H rq cf (freeze s) :: snd (run_history (advance s (fst (validate H rq cf (freeze s)))) rest)).
    Proof.
      intros. cbn [run_history]. cbv zeta.
      destruct (run_history (advance s (fst (validate H rq cf (freeze s)))) rest). reflexivity.
    Qed.

    Lemma run_history_fold_left_gen : forall hist s acc,
      fold_left history_step hist (s, acc) =
      (fst (run_history s hist), acc ++ snd (run_history s hist)).
    Proof.
      induction hist as [|[rq cf] rest IH]; intros s acc.
      - cbn. rewrite app_nil_r. reflexivity.
      - rewrite run_history_cons. cbn [fold_left fst snd]. unfold history_step at 2. cbn [fst snd].
        rewrite IH, <- app_assoc. reflexivity.
    Qed.

    Theorem C14_history_is_fold_left : forall hist s,
      run_history s hist = fold_left history_step hist (s, []).
    Proof.
      intros. rewrite run_history_fold_left_gen. cbn [app]. destruct (run_history s hist); reflexivity.
    Qed.

    Lemma run_history_length : forall hist s, List.length (snd (run_history s hist)) = List.length hist.
    Proof.
      induction hist as [|[rq cf] rest IH]; intro s; [reflexivity|].
      rewrite run_history_cons. cbn [snd List.length]. rewrite IH. reflexivity.
    Qed.

    (* (a) total calls <= number of validations that passed prevalidation *)
    Theorem C14_history_calls_bounded : forall hist s,
      (List.length (all_calls (snd (run_history s hist))) <=
       List.length (filter (fun x => passes_prevalidation (fst x) (snd x)) hist))%nat.
    Proof.
      induction hist as [|[rq cf] rest IH]; intro s; [cbn; lia|].
      rewrite run_history_cons. unfold all_calls in *. cbn [snd map concat filter fst].
      rewrite app_length.
      specialize (IH (advance s (fst (validate H rq cf (freeze s))))).
      pose proof (C14_calls_le_prevalidated rq cf (freeze s)) as Hc.
      destruct (passes_prevalidation rq cf); cbn [List.length]; lia.
    Qed.

    (* (b) the n-th outcome (and the n-th list of calls) is the stand-alone [validate] against
       the provider frozen in the state reached by serving exactly the calls made before *)
    Theorem C14_history_outcomes : forall hist s n rq cf,
      nth_error hist n = Some (rq, cf) ->
      nth_error (snd (run_history s hist)) n =
      Some (validate H rq cf
              (freeze (advance s (all_calls (firstn n (snd (run_history s hist))))))).
    Proof.
      induction hist as [|[rq0 cf0] rest IH]; intros s n rq cf Hn.
      - destruct n; discriminate.
      - rewrite run_history_cons. cbn [snd]. destruct n as [|n].
        + cbn in Hn. inversion Hn. subst. reflexivity.
        + cbn [nth_error] in Hn |- *. rewrite (IH _ n rq cf Hn).
          unfold all_calls. cbn [firstn map concat]. rewrite advance_app. reflexivity.
    Qed.

    (* (c) the final state is the fold of the provider's transition over exactly the calls made *)
    Theorem C14_history_final_state : forall hist s,
      fst (run_history s hist) = advance s (all_calls (snd (run_history s hist))).
    Proof.
      induction hist as [|[rq cf] rest IH]; intro s; [reflexivity|].
      rewrite run_history_cons. cbn [fst snd]. unfold all_calls. cbn [map concat].
      rewrite advance_app. apply IH.
    Qed.

    Theorem C14_history : forall hist s,
      let res := run_history s hist in
      (* (a) *)
      (List.length (all_calls (snd res)) <=
       List.length (filter (fun x => passes_prevalidation (fst x) (snd x)) hist))%nat /\
      (* (b) *)
      (forall n rq cf, nth_error hist n = Some (rq, cf) ->
         nth_error (snd res) n =
         Some (validate H rq cf (freeze (advance s (all_calls (firstn n (snd res))))))) /\
      (* (c) *)
      fst res = advance s (all_calls (snd res)) /\
      List.length (snd res) = List.length hist.
    Proof.
      intros hist s. cbv zeta. split; [apply C14_history_calls_bounded|].
      split; [intros n rq cf; apply C14_history_outcomes|].
      split; [apply C14_history_final_state | apply run_history_length].
    Qed.

    (* consequences for every element of a history *)
    Theorem C14_history_each_at_most_once : forall hist s r,
      In r (snd (run_history s hist)) -> (List.length (fst r) <= 1)%nat.
    Proof.
      induction hist as [|[rq cf] rest IH]; intros s r; [intros []|].
      rewrite run_history_cons. cbn [snd]. intros [E|Hin].
      - subst r. apply C14_at_most_once.
      - eapply IH. exact Hin.
    Qed.

    (* no acceptance anywhere in a history without a key answer in the state of that moment *)
    Theorem C14_history_accept_needs_key : forall hist s n rq cf calls p b pr se,
      nth_error hist n = Some (rq, cf) ->
      nth_error (snd (run_history s hist)) n = Some (calls, Accepted p b pr se) ->
      let s_n := advance s (all_calls (firstn n (snd (run_history s hist)))) in
      sp_ready sp s_n = None /\
      exists r key, calls = [r] /\ asked rq cf = Some r /\ snd (sp_answer sp s_n r) = AnsOk key pr se.
    Proof.
      intros hist s n rq cf calls p b pr se Hn Hr. cbv zeta.
      rewrite (C14_history_outcomes hist s n rq cf Hn) in Hr. inversion Hr as [Hv].
      destruct (C14_accept_implies_answer _ _ _ _ _ _ _ _ Hv) as [Hready [r [key [Hask [Hc Ha]]]]].
      split; [exact Hready|]. exists r, key. auto.
    Qed.
  End HISTORY.
End AUTH.

(* ========================================================================================== *)
(* 6. Non-vacuity: the hypotheses of the theorems above are inhabited                          *)
(* ========================================================================================== *)

(* evaluate a closed left-hand side with the VM, leaving the right-hand side (which may contain
   existential variables) to unification *)
Ltac vm_lhs :=
  match goal with
  | |- ?l = _ => let v := eval vm_compute in l in transitivity v; [vm_compute; reflexivity|]
  end.

(* --- C04 --- *)

(* a correctly signed request is accepted with exactly one call: hypothesis of
   C04_accept_implies_fresh, C03_accept_implies_scope, C14_accept_implies_answer *)
Example ex_good_accepted :
  exists p, validate Hid ex_good ex_cf ex_pv = ([ex_asked], Accepted p [] (s2b "principal") (s2b "session")).
Proof. vm_compute. eexists. reflexivity. Qed.

Example ex_good_stages :
  exists cr pts au,
    from_request_parts Hid ex_good ex_cf = Ok (cr, pts, []) /\
    get_authenticator Hid cr (cf_reqs ex_cf) = Ok au /\
    au_timestamp au = ex_now /\ au_credential au = ex_cred /\
    prevalidate au (cf_region ex_cf) (cf_service ex_cf) (cf_now ex_cf) allowed_mismatch_ns = Ok tt.
Proof.
  do 3 eexists. split; [vm_lhs; reflexivity|]. split; [vm_lhs; reflexivity|].
  repeat split; vm_compute; reflexivity.
Qed.

(* the theorems applied to the concrete request *)
Example C04_accept_implies_fresh_applied :
  exists cr pts body ap ts,
    from_request_parts Hid ex_good ex_cf = Ok (cr, pts, body) /\
    get_auth_parameters cr (cf_reqs ex_cf) = Ok ap /\
    parse_iso8601 (ap_timestamp ap) = Some ts /\ fresh ts (cf_now ex_cf).
Proof. destruct ex_good_accepted as [p Hp]. exact (C04_accept_implies_fresh Hid _ _ _ _ _ _ _ _ Hp). Qed.

Example C14_accept_implies_answer_applied :
  pv_ready ex_pv = None /\
  exists r key, asked Hid ex_good ex_cf = Some r /\ [ex_asked] = [r] /\
                pv_answer ex_pv r = AnsOk key (s2b "principal") (s2b "session").
Proof. destruct ex_good_accepted as [p Hp]. exact (C14_accept_implies_answer Hid _ _ _ _ _ _ _ _ Hp). Qed.

(* boundaries: exactly now +- 900 s is inside, one nanosecond further is outside *)
Example C04_boundary_upper_in : fresh (ex_now + 900 * 1000000000) ex_now.
Proof. unfold fresh. rewrite C04_constant. lia. Qed.
Example C04_boundary_lower_in : fresh (ex_now - 900 * 1000000000) ex_now.
Proof. unfold fresh. rewrite C04_constant. lia. Qed.
Example C04_boundary_upper_out : ~ fresh (ex_now + 900 * 1000000000 + 1) ex_now.
Proof. unfold fresh. rewrite C04_constant. lia. Qed.
Example C04_boundary_lower_out : ~ fresh (ex_now - 900 * 1000000000 - 1) ex_now.
Proof. unfold fresh. rewrite C04_constant. lia. Qed.

Example C04_boundary_prevalidate :
  let pre t := prevalidate (ex_au ex_cred t) ex_region (s2b "svc") ex_now allowed_mismatch_ns in
  pre (ex_now + 900 * 1000000000)%Z = Ok tt /\
  pre (ex_now - 900 * 1000000000)%Z = Ok tt /\
  pre (ex_now + 900 * 1000000000 + 1)%Z = Err SignatureDoesNotMatch /\
  pre (ex_now - 900 * 1000000000 - 1)%Z = Err SignatureDoesNotMatch.
Proof. vm_compute. repeat split; reflexivity. Qed.

(* the same through the whole pipeline: the request of 12:36:00 seen by a server whose clock is
   exactly 15 min ahead / behind is accepted; one nanosecond more and it is refused without a
   key lookup, although the signature is correct *)
Example C04_boundary_validate :
  (exists p, validate Hid ex_good (ex_config ex_region (ex_now + 900 * 1000000000)) ex_pv
             = ([ex_asked], Accepted p [] (s2b "principal") (s2b "session"))) /\
  (exists p, validate Hid ex_good (ex_config ex_region (ex_now - 900 * 1000000000)) ex_pv
             = ([ex_asked], Accepted p [] (s2b "principal") (s2b "session"))) /\
  validate Hid ex_good (ex_config ex_region (ex_now + 900 * 1000000000 + 1)) ex_pv
    = ([], Refused SignatureDoesNotMatch) /\
  validate Hid ex_good (ex_config ex_region (ex_now - 900 * 1000000000 - 1)) ex_pv
    = ([], Refused SignatureDoesNotMatch).
Proof. vm_compute. split; [eexists; reflexivity|]. split; [eexists; reflexivity|]. split; reflexivity. Qed.

(* hypotheses of C04_stale_refused_no_lookup_validate *)
Example C04_stale_inhabited :
  let cf := ex_config ex_region (ex_now + 900 * 1000000000 + 1) in
  exists cr pts body au,
    from_request_parts Hid ex_good cf = Ok (cr, pts, body) /\
    get_authenticator Hid cr (cf_reqs cf) = Ok au /\
    ~ fresh (au_timestamp au) (cf_now cf).
Proof.
  cbv zeta. do 4 eexists. split; [vm_lhs; reflexivity|]. split; [vm_lhs; reflexivity|].
  cbn [au_timestamp cf_now ex_config]. unfold fresh. rewrite C04_constant. unfold ex_now. lia.
Qed.

(* three renderings of the same instant *)
Example C04_three_texts_one_instant :
  parse_iso8601 ex_date_basic = Some ex_now /\
  parse_iso8601 ex_date_extended = Some ex_now /\
  parse_iso8601 ex_date_offset = Some ex_now.
Proof. vm_compute. repeat split; reflexivity. Qed.

(* and a request carrying the extended / offset form (signed over that text) is accepted with the
   same call to the provider *)
Example C04_other_renderings_accepted :
  (exists p, validate Hid (ex_signed ex_cred ex_date_extended) ex_cf ex_pv
             = ([ex_asked], Accepted p [] (s2b "principal") (s2b "session"))) /\
  (exists p, validate Hid (ex_signed ex_cred ex_date_offset) ex_cf ex_pv
             = ([ex_asked], Accepted p [] (s2b "principal") (s2b "session"))).
Proof. vm_compute. split; eexists; reflexivity. Qed.

(* end to end: the timestamp travels in an unsigned [date] header; one signature, three texts of
   the same instant, three acceptances (hypotheses of C04_textual_independence_validate) *)
Definition ex_sig_date : bytes := ex_sign_gen (s2b "date") (s2b "host") ex_cred ex_date_basic.
Definition ex_date_rq (date : bytes) : request := ex_request_gen (s2b "date") (s2b "host") ex_cred date ex_sig_date.

Example C04_textual_independence_end_to_end :
  (exists p, validate Hid (ex_date_rq ex_date_basic) ex_cf ex_pv
             = ([ex_asked], Accepted p [] (s2b "principal") (s2b "session"))) /\
  (exists p, validate Hid (ex_date_rq ex_date_extended) ex_cf ex_pv
             = ([ex_asked], Accepted p [] (s2b "principal") (s2b "session"))) /\
  (exists p, validate Hid (ex_date_rq ex_date_offset) ex_cf ex_pv
             = ([ex_asked], Accepted p [] (s2b "principal") (s2b "session"))).
Proof. vm_compute. repeat split; eexists; reflexivity. Qed.

Example C04_textual_independence_inhabited :
  exists cr1 cr2 pts1 pts2 ap1 ap2,
    from_request_parts Hid (ex_date_rq ex_date_basic) ex_cf = Ok (cr1, pts1, []) /\
    from_request_parts Hid (ex_date_rq ex_date_offset) ex_cf = Ok (cr2, pts2, []) /\
    get_auth_parameters cr1 (cf_reqs ex_cf) = Ok ap1 /\ get_auth_parameters cr2 (cf_reqs ex_cf) = Ok ap2 /\
    ap_timestamp ap1 <> ap_timestamp ap2 /\
    ap_credential ap1 = ap_credential ap2 /\ ap_signature ap1 = ap_signature ap2 /\
    ap_token ap1 = ap_token ap2 /\
    canonical_request cr1 (ap_signed ap1) = canonical_request cr2 (ap_signed ap2) /\
    parse_iso8601 (ap_timestamp ap1) = Some ex_now /\ parse_iso8601 (ap_timestamp ap2) = Some ex_now.
Proof.
  do 6 eexists. split; [vm_lhs; reflexivity|]. split; [vm_lhs; reflexivity|].
  split; [vm_lhs; reflexivity|]. split; [vm_lhs; reflexivity|].
  split; [vm_compute; discriminate|]. repeat split; vm_compute; reflexivity.
Qed.

(* --- C03 --- *)

Example C03_accept_implies_scope_applied :
  exists cr ap ts ak d r s term p,
    from_request_parts Hid ex_good ex_cf = Ok (cr, p, []) /\
    get_auth_parameters cr (cf_reqs ex_cf) = Ok ap /\
    parse_iso8601 (ap_timestamp ap) = Some ts /\
    split_on "/"%byte (ap_credential ap) = [ak; d; r; s; term] /\
    r = cf_region ex_cf /\ s = cf_service ex_cf /\ term = src_auth_AWS4_REQUEST /\ d = yyyymmdd ts /\
    [ex_asked] = [ {| g_access_key := ak; g_token := ap_token ap; g_date := civil_of_days (day_of_instant ts);
                      g_region := cf_region ex_cf; g_service := cf_service ex_cf |} ].
Proof.
  destruct ex_good_accepted as [p Hp].
  destruct (C03_accept_implies_scope Hid _ _ _ _ _ _ _ _ Hp) as [cr [ap [ts [ak [d [r [s [term Hc]]]]]]]].
  exists cr, ap, ts, ak, d, r, s, term, p. exact Hc.
Qed.

(* a request correctly signed for eu-west-1 ... *)
Example C03_foreign_scope_verifies_at_home :
  exists p, validate Hid (ex_signed ex_cred_foreign ex_date_basic) (ex_config (s2b "eu-west-1") ex_now) ex_pv
            = ([ {| g_access_key := s2b "AKIDEXAMPLE"; g_token := None; g_date := (2015, 8, 30)%Z;
                    g_region := s2b "eu-west-1"; g_service := s2b "svc" |} ],
               Accepted p [] (s2b "principal") (s2b "session")).
Proof. vm_compute. eexists. reflexivity. Qed.

(* ... is refused by a us-east-1 server without any key lookup, although [ex_pv] would hand out
   the very key under which the signature verifies *)
Example C03_foreign_scope_refused :
  validate Hid (ex_signed ex_cred_foreign ex_date_basic) ex_cf ex_pv = ([], Refused SignatureDoesNotMatch).
Proof. vm_compute. reflexivity. Qed.

(* hypotheses of C03_mismatch_is_403_no_lookup_validate (region), and of its date disjunct *)
Example C03_mismatch_inhabited :
  exists cr pts body au ak d r s term,
    from_request_parts Hid (ex_signed ex_cred_foreign ex_date_basic) ex_cf = Ok (cr, pts, body) /\
    get_authenticator Hid cr (cf_reqs ex_cf) = Ok au /\
    fresh (au_timestamp au) (cf_now ex_cf) /\
    split_on "/"%byte (au_credential au) = [ak; d; r; s; term] /\
    r <> cf_region ex_cf.
Proof.
  do 9 eexists. split; [vm_lhs; reflexivity|]. split; [vm_lhs; reflexivity|]. split.
  - cbn [au_timestamp cf_now ex_cf ex_config]. unfold fresh. rewrite C04_constant. unfold ex_now. lia.
  - split; [vm_lhs; reflexivity|]. vm_compute. discriminate.
Qed.

Example C03_date_mismatch_refused :
  validate Hid (ex_signed ex_cred_yesterday ex_date_basic) ex_cf ex_pv = ([], Refused SignatureDoesNotMatch) /\
  prevalidate (ex_au ex_cred_yesterday ex_now) ex_region (s2b "svc") ex_now allowed_mismatch_ns
    = Err SignatureDoesNotMatch.
Proof. vm_compute. split; reflexivity. Qed.

(* hypotheses of C03_arity_is_incomplete(_validate): four parts *)
Example C03_arity_inhabited :
  validate Hid (ex_signed ex_cred_4parts ex_date_basic) ex_cf ex_pv = ([], Refused IncompleteSignature) /\
  List.length (split_on "/"%byte ex_cred_4parts) = 4%nat /\
  fresh (au_timestamp (ex_au ex_cred_4parts ex_now)) ex_now.
Proof.
  split; [vm_compute; reflexivity|]. split; [vm_compute; reflexivity|].
  cbn [au_timestamp ex_au]. unfold fresh. rewrite C04_constant. lia.
Qed.

(* --- C14 --- *)

(* not ready: no call, the readiness error comes back (verbatim for a SignatureError, 500 otherwise) *)
Example C14_not_ready_inhabited :
  validate Hid ex_good ex_cf (ex_pv_not_ready (BoxSig ExpiredToken)) = ([], Refused ExpiredToken) /\
  validate Hid ex_good ex_cf (ex_pv_not_ready BoxForeign) = ([], Refused InternalServiceError).
Proof. vm_compute. split; reflexivity. Qed.

(* error answer: one call, the error comes back *)
Example C14_error_answer_inhabited :
  validate Hid ex_good ex_cf (ex_pv_failing (BoxSig InvalidClientTokenId)) = ([ex_asked], Refused InvalidClientTokenId) /\
  validate Hid ex_good ex_cf (ex_pv_failing BoxForeign) = ([ex_asked], Refused InternalServiceError).
Proof. vm_compute. split; reflexivity. Qed.

Example C14_asked_inhabited : asked Hid ex_good ex_cf = Some ex_asked.
Proof. vm_compute. reflexivity. Qed.

(* hypotheses of C14_provider_error_verbatim, and the theorem applied *)
Example C14_provider_error_verbatim_applied : forall e,
  exists r, validate Hid ex_good ex_cf (ex_pv_failing e) = ([r], Refused (from_box e)).
Proof.
  intro e. destruct ex_good_stages as [cr [pts [au [Hf [Hg [_ [_ Hp]]]]]]]. eexists.
  exact (C14_provider_error_verbatim Hid ex_good ex_cf (ex_pv_failing e) cr pts [] au e Hf Hg Hp eq_refl eq_refl).
Qed.

(* a wrong (empty) signature on an otherwise acceptable request: one call, then a mismatch *)
Example C14_wrong_signature_one_call :
  validate Hid (ex_request ex_cred ex_date_basic []) ex_cf ex_pv = ([ex_asked], Refused SignatureDoesNotMatch).
Proof. vm_compute. reflexivity. Qed.

(* failures before prevalidation: unparsable date (rule 9) *)
Example C14_early_failures_inhabited :
  validate Hid (ex_signed ex_cred (s2b "yesterday")) ex_cf ex_pv = ([], Refused IncompleteSignature) /\
  asked Hid (ex_signed ex_cred (s2b "yesterday")) ex_cf = None /\
  (exists cr pts body, from_request_parts Hid (ex_signed ex_cred (s2b "yesterday")) ex_cf = Ok (cr, pts, body) /\
     forall au, get_authenticator Hid cr (cf_reqs ex_cf) <> Ok au).
Proof.
  split; [vm_compute; reflexivity|]. split; [vm_compute; reflexivity|].
  do 3 eexists. split; [vm_lhs; reflexivity|].
  intros au E. vm_compute in E. discriminate.
Qed.

Example C14_bad_path_no_call :
  let rq := {| rq_method := s2b "GET"; rq_path := s2b "/%zz"; rq_query := None; rq_uri := s2b "/%zz";
               rq_version := 11%N; rq_headers := rq_headers ex_good; rq_body := []; rq_decoded := None |} in
  (forall x, from_request_parts Hid rq ex_cf <> Ok x) /\
  validate Hid rq ex_cf ex_pv = ([], Refused InvalidURIPath).
Proof. cbv zeta. split; [intros x E; vm_compute in E; discriminate | vm_compute; reflexivity]. Qed.

(* a history over a provider that gives out the key once and then fails: state = number of calls
   served.  good / stale / good / good-but-not-ready-any-more *)
Definition ex_sp : sprovider nat :=
  {| sp_ready := fun n => if Nat.leb 2 n then Some BoxForeign else None;
     sp_answer := fun n _ => (S n, if Nat.eqb n 0 then ex_ok else AnsErr (BoxSig ExpiredToken)) |}.

Definition ex_history : list (request * config) :=
  [(ex_good, ex_cf);
   (ex_good, ex_config ex_region (ex_now + 900 * 1000000000 + 1));
   (ex_good, ex_cf);
   (ex_good, ex_cf)].

Example C14_history_inhabited :
  exists p,
  run_history Hid ex_sp 0%nat ex_history =
  (2%nat,
   [([ex_asked], Accepted p [] (s2b "principal") (s2b "session"));
    ([], Refused SignatureDoesNotMatch);
    ([ex_asked], Refused ExpiredToken);
    ([], Refused InternalServiceError)]) /\
  List.length (filter (fun x => passes_prevalidation Hid (fst x) (snd x)) ex_history) = 3%nat.
Proof. vm_compute. eexists. split; reflexivity. Qed.

(* ========================================================================================== *)
Print Assumptions C04_constant.
Print Assumptions C04_window.
Print Assumptions C04_accept_implies_fresh.
Print Assumptions C04_stale_refused_no_lookup.
Print Assumptions C04_stale_refused_no_lookup_validate.
Print Assumptions C04_stale_refused_no_lookup_params.
Print Assumptions C04_fresh_never_rejected_by_time.
Print Assumptions C04_fresh_same_day_same_decision.
Print Assumptions C04_textual_independence.
Print Assumptions C04_textual_independence_decision.
Print Assumptions C04_textual_independence_verdict.
Print Assumptions C04_textual_independence_validate.
Print Assumptions C03_terminator.
Print Assumptions C03_status_400.
Print Assumptions C03_status_403.
Print Assumptions C03_accept_implies_scope.
Print Assumptions C03_arity_is_incomplete.
Print Assumptions C03_mismatch_is_403_no_lookup.
Print Assumptions C03_arity_is_incomplete_validate.
Print Assumptions C03_mismatch_is_403_no_lookup_validate.
Print Assumptions C03_scope_decision.
Print Assumptions C14_calls_exact.
Print Assumptions C14_at_most_once.
Print Assumptions C14_no_call_unless_prevalidated.
Print Assumptions C14_call_implies_prevalidated.
Print Assumptions C14_no_call_before_ready.
Print Assumptions C14_provider_error_verbatim.
Print Assumptions C14_status_500.
Print Assumptions C14_accept_implies_answer.
Print Assumptions C14_never_accepts_on_error.
Print Assumptions C14_never_accepts_on_error_asked.
Print Assumptions C14_pending_irrelevant.
Print Assumptions C14_only_asked_answer_matters.
Print Assumptions C14_history_is_fold_left.
Print Assumptions C14_history.
Print Assumptions C14_history_accept_needs_key.
Print Assumptions C04_boundary_validate.
Print Assumptions C03_foreign_scope_refused.
Print Assumptions C14_history_inhabited.
