(* Proofs for property C09 (path canonicalisation): the model [canon_path] of
   src/canonical.rs against the independent specification [spec_path].
   Standard library only; no axioms. *)
From Coq Require Import List Bool NArith Arith Lia Wf_nat.
From Coq Require Import Strings.Byte.
From Verif Require Import Base.Bytes Base.Hex Generated.SrcConsts Model.Uri Spec.PathSpec.
Import ListNotations.
Local Open Scope byte_scope.

(* ------------------------------------------------------------------------- *)
(* 1. Finite facts over the 256 bytes                                         *)
(* ------------------------------------------------------------------------- *)

Lemma unreserved_is_spec : forall b, unreserved b = spec_unreserved b.
Proof. destruct b; reflexivity. Qed.

Lemma upper_hex_src_is_upper_hex : forall b, upper_hex_src b = upper_hex b.
Proof. destruct b; vm_compute; reflexivity. Qed.

Lemma unres_not_pct b : spec_unreserved b = true -> beqb b "%" = false.
Proof. intro H. apply beqb_neq. intros ->. vm_compute in H. discriminate. Qed.

Lemma unres_not_plus b : spec_unreserved b = true -> beqb b "+" = false.
Proof. intro H. apply beqb_neq. intros ->. vm_compute in H. discriminate. Qed.

Lemma unres_not_slash b : spec_unreserved b = true -> beqb b "/" = false.
Proof. intro H. apply beqb_neq. intros ->. vm_compute in H. discriminate. Qed.

Lemma encode_byte_no_slash b : existsb (beqb "/") (pct_encode_byte b) = false.
Proof. destruct b; vm_compute; reflexivity. Qed.

Lemma pct_is_encode v : (if unreserved v then [v] else pct v) = pct_encode_byte v.
Proof.
  unfold pct, pct_encode_byte.
  rewrite unreserved_is_spec, upper_hex_src_is_upper_hex. reflexivity.
Qed.

(* ------------------------------------------------------------------------- *)
(* 2. Unfolding equations (keep [cbn]/[simpl] away from the byte tests)        *)
(* ------------------------------------------------------------------------- *)

Lemma normalize_elem_cons c r :
  normalize_elem (c :: r) =
      if unreserved c then option_map (cons c) (normalize_elem r)
      else if beqb c "%" then
        match r with
        | h :: l :: r' =>
            match unhex2 h l with
            | Some v =>
                option_map (app (if unreserved v then [v] else pct v)) (normalize_elem r')
            | None => None
            end
        | _ => None
        end
      else if beqb c "+" then option_map (app (s2b "%20")) (normalize_elem r)
      else option_map (app (pct c)) (normalize_elem r).
Proof. reflexivity. Qed.

Lemma pct_decode_cons plus c r :
  pct_decode plus (c :: r) =
      if beqb c "%" then
        match r with
        | h :: l :: r' =>
            match unhex2 h l with
            | Some v => option_map (cons v) (pct_decode plus r')
            | None => None
            end
        | _ => None
        end
      else if plus && beqb c "+" then option_map (cons " ") (pct_decode plus r)
      else option_map (cons c) (pct_decode plus r).
Proof. reflexivity. Qed.

Lemma pct_encode_cons b s : pct_encode (b :: s) = pct_encode_byte b ++ pct_encode s.
Proof. reflexivity. Qed.

Lemma pct_encode_app a b : pct_encode (a ++ b) = pct_encode a ++ pct_encode b.
Proof. unfold pct_encode. apply flat_map_app. Qed.

Lemma has_plus_cons c r : has_plus (c :: r) = beqb c "+" || has_plus r.
Proof. reflexivity. Qed.

Lemma bytes_strong_ind (P : bytes -> Prop) :
  (forall s, (forall t, length t < length s -> P t) -> P s) -> forall s, P s.
Proof.
  intros H s. remember (length s) as n eqn:E. revert s E.
  induction n as [n IH] using lt_wf_ind. intros s ->.
  apply H. intros t Ht. exact (IH _ Ht t eq_refl).
Qed.

(* ------------------------------------------------------------------------- *)
(* 3. Element level                                                           *)
(* ------------------------------------------------------------------------- *)

Theorem normalize_elem_query_spec : forall s,
  normalize_elem s = option_map pct_encode (pct_decode true s).
Proof.
  induction s as [s IH] using bytes_strong_ind.
  destruct s as [|c r]; [reflexivity|].
  rewrite normalize_elem_cons, pct_decode_cons, unreserved_is_spec.
  destruct (spec_unreserved c) eqn:U.
  - rewrite (unres_not_pct _ U), (unres_not_plus _ U), andb_false_r.
    rewrite IH by (simpl; lia).
    destruct (pct_decode true r); [|reflexivity].
    cbn [option_map]. rewrite pct_encode_cons. unfold pct_encode_byte. rewrite U. reflexivity.
  - destruct (beqb c "%") eqn:E.
    + destruct r as [|h [|l r']]; try reflexivity.
      destruct (unhex2 h l); [|reflexivity].
      rewrite pct_is_encode, IH by (simpl; lia).
      destruct (pct_decode true r'); reflexivity.
    + rewrite andb_true_l. destruct (beqb c "+") eqn:E2.
      * rewrite IH by (simpl; lia).
        destruct (pct_decode true r); reflexivity.
      * rewrite IH by (simpl; lia).
        destruct (pct_decode true r); [|reflexivity].
        cbn [option_map]. rewrite pct_encode_cons. unfold pct_encode_byte. rewrite U.
        unfold pct. rewrite upper_hex_src_is_upper_hex. reflexivity.
Qed.

Lemma pct_decode_no_plus : forall s, has_plus s = false ->
  pct_decode true s = pct_decode false s.
Proof.
  induction s as [s IH] using bytes_strong_ind.
  destruct s as [|c r]; [reflexivity|].
  rewrite has_plus_cons. intro H. apply orb_false_iff in H. destruct H as [H1 H2].
  rewrite !pct_decode_cons, H1. rewrite andb_false_r. simpl andb.
  destruct (beqb c "%").
  - destruct r as [|h [|l r']]; try reflexivity.
    destruct (unhex2 h l); [|reflexivity].
    rewrite IH; [reflexivity | simpl; lia |].
    rewrite !has_plus_cons in H2.
    apply orb_false_iff in H2. destruct H2 as [_ H2].
    apply orb_false_iff in H2. tauto.
  - rewrite IH; [reflexivity | simpl; lia | exact H2].
Qed.

Theorem normalize_elem_path_spec : forall s, has_plus s = false ->
  normalize_elem s = option_map pct_encode (pct_decode false s).
Proof.
  intros s H. rewrite normalize_elem_query_spec, pct_decode_no_plus by exact H. reflexivity.
Qed.

Lemma pct_decode_encode_byte plus b r :
  pct_decode plus (pct_encode_byte b ++ r) = option_map (cons b) (pct_decode plus r).
Proof.
  unfold pct_encode_byte. destruct (spec_unreserved b) eqn:U.
  - change ([b] ++ r) with (b :: r).
    rewrite pct_decode_cons, (unres_not_pct _ U), (unres_not_plus _ U), andb_false_r.
    reflexivity.
  - pose proof (unhex2_upper_hex b) as H.
    destruct (upper_hex b) as [|h [|l [|x t]]]; try contradiction.
    change (("%" :: [h; l]) ++ r) with ("%" :: h :: l :: r).
    rewrite pct_decode_cons. change (beqb "%" "%") with true. cbv iota.
    rewrite H. reflexivity.
Qed.

Theorem pct_decode_encode : forall plus s, pct_decode plus (pct_encode s) = Some s.
Proof.
  intros plus s. induction s as [|b s IH]; [reflexivity|].
  rewrite pct_encode_cons, pct_decode_encode_byte, IH. reflexivity.
Qed.

Theorem pct_encode_inj : forall a b, pct_encode a = pct_encode b -> a = b.
Proof.
  intros a b H.
  pose proof (pct_decode_encode false a) as Ha. rewrite H, pct_decode_encode in Ha.
  congruence.
Qed.

Theorem normalize_elem_idempotent : forall s n,
  normalize_elem s = Some n -> normalize_elem n = Some n.
Proof.
  intros s n H. rewrite normalize_elem_query_spec in H.
  destruct (pct_decode true s) as [d|]; [|discriminate].
  simpl in H. injection H as <-.
  rewrite normalize_elem_query_spec, pct_decode_encode. reflexivity.
Qed.

(* ------------------------------------------------------------------------- *)
(* 4. List lemmas: split_on / join / collapse_slashes                          *)
(* ------------------------------------------------------------------------- *)

Lemma split_on_nonempty sep s : split_on sep s <> [].
Proof.
  destruct s as [|c r]; simpl; [discriminate|].
  destruct (beqb c sep); [discriminate|].
  destruct (split_on sep r); discriminate.
Qed.

Lemma split_on_cons sep c r :
  split_on sep (c :: r) =
    if beqb c sep then [] :: split_on sep r
    else (c :: hd [] (split_on sep r)) :: tl (split_on sep r).
Proof.
  simpl. destruct (beqb c sep); [reflexivity|].
  pose proof (split_on_nonempty sep r).
  destruct (split_on sep r); [contradiction | reflexivity].
Qed.

Lemma split_on_app_sep sep x r :
  ~ In sep x -> split_on sep (x ++ sep :: r) = x :: split_on sep r.
Proof.
  induction x as [|c x IH]; intro H.
  - simpl. rewrite beqb_refl. reflexivity.
  - change ((c :: x) ++ sep :: r) with (c :: (x ++ sep :: r)). rewrite split_on_cons.
    assert (E : beqb c sep = false) by (apply beqb_neq; intros ->; apply H; left; reflexivity).
    rewrite E, IH by (intro; apply H; right; assumption). reflexivity.
Qed.

Lemma split_on_nosep sep x : ~ In sep x -> split_on sep x = [x].
Proof.
  induction x as [|c x IH]; intro H; [reflexivity|].
  rewrite split_on_cons.
  assert (E : beqb c sep = false) by (apply beqb_neq; intros ->; apply H; left; reflexivity).
  rewrite E, IH by (intro; apply H; right; assumption). reflexivity.
Qed.

Lemma join_cons2 sep x y t : join sep (x :: y :: t) = x ++ sep ++ join sep (y :: t).
Proof. reflexivity. Qed.

Lemma split_join l :
  l <> [] -> Forall (fun s => ~ In "/" s) l -> split_on "/" (join ["/"] l) = l.
Proof.
  induction l as [|x l IH]; intros Hne HF; [contradiction|].
  inversion HF as [|? ? Hx Hl]; subst.
  destruct l as [|y t].
  - simpl. apply split_on_nosep. exact Hx.
  - rewrite join_cons2. change (["/"] ++ join ["/"] (y :: t)) with ("/" :: join ["/"] (y :: t)).
    rewrite split_on_app_sep by exact Hx. rewrite IH; [reflexivity | discriminate | exact Hl].
Qed.

Lemma encode_no_slash s : ~ In "/" (pct_encode s).
Proof.
  unfold pct_encode. rewrite in_flat_map. intros [b [_ Hb]].
  pose proof (encode_byte_no_slash b) as H.
  assert (existsb (beqb "/") (pct_encode_byte b) = true); [|congruence].
  apply existsb_exists. exists "/". split; [exact Hb | apply beqb_refl].
Qed.

Lemma split_join_encode L :
  L <> [] -> split_on "/" (join ["/"] (map pct_encode L)) = map pct_encode L.
Proof.
  intro H. apply split_join.
  - destruct L; [contradiction | discriminate].
  - apply Forall_forall. intros s Hs. apply in_map_iff in Hs. destruct Hs as [d [<- _]].
    apply encode_no_slash.
Qed.

Notation nn := (fun s : bytes => negb (is_nil s)).

Definition trail (b : bool) : list bytes := if b then [[]] else [].

(* what slash-collapsing does to the list of segments after the first one *)
Definition squash (l : list bytes) : list bytes :=
  filter nn l ++ trail (is_nil (last l ["x"])).

Lemma last_cons2 {A} (a b : A) l d : last (a :: b :: l) d = last (b :: l) d.
Proof. reflexivity. Qed.

Lemma squash_nil_cons l : l <> [] -> squash ([] :: l) = squash l.
Proof.
  intro H. destruct l as [|y t]; [contradiction|].
  unfold squash. rewrite last_cons2. reflexivity.
Qed.

Lemma squash_cons_nonnil c x t : squash ((c :: x) :: t) = (c :: x) :: squash t.
Proof.
  unfold squash. destruct t as [|y t]; [reflexivity|].
  rewrite last_cons2. reflexivity.
Qed.

Lemma collapse_slashes_cons c r :
  collapse_slashes (c :: r) =
      if beqb c "/" then
        match r with
        | c' :: _ => if beqb c' "/" then collapse_slashes r else c :: collapse_slashes r
        | [] => [c]
        end
      else c :: collapse_slashes r.
Proof. reflexivity. Qed.

Lemma split_collapse r :
  split_on "/" (collapse_slashes r) =
    hd [] (split_on "/" r) :: squash (tl (split_on "/" r)).
Proof.
  induction r as [|c r IH]; [reflexivity|].
  rewrite collapse_slashes_cons, (split_on_cons "/" c r).
  destruct (beqb c "/") eqn:E.
  - apply beqb_eq in E. subst c. cbn [hd tl].
    destruct r as [|c' r']; [reflexivity|].
    destruct (beqb c' "/") eqn:E'.
    + rewrite IH. rewrite (split_on_cons "/" c' r'), E'. cbn [hd tl].
      rewrite squash_nil_cons by apply split_on_nonempty. reflexivity.
    + rewrite (split_on_cons "/" "/"). change (beqb "/" "/") with true. cbv iota.
      rewrite IH. rewrite (split_on_cons "/" c' r'), E'. cbn [hd tl].
      rewrite squash_cons_nonnil. reflexivity.
  - rewrite split_on_cons, E, IH. cbn [hd tl]. reflexivity.
Qed.

(* ------------------------------------------------------------------------- *)
(* 5. map_opt / decode on segment lists                                       *)
(* ------------------------------------------------------------------------- *)

Lemma map_opt_cons {A B} (f : A -> option B) x r :
  map_opt f (x :: r) =
    match f x, map_opt f r with Some y, Some ys => Some (y :: ys) | _, _ => None end.
Proof. reflexivity. Qed.

Lemma map_opt_cons_inv {A B} (f : A -> option B) x r ys :
  map_opt f (x :: r) = Some ys ->
  exists y ys', f x = Some y /\ map_opt f r = Some ys' /\ ys = y :: ys'.
Proof.
  rewrite map_opt_cons. destruct (f x) as [y|]; [|discriminate].
  destruct (map_opt f r) as [ys'|]; [|discriminate].
  intro H. injection H as <-. eauto.
Qed.

Lemma map_opt_app {A B} (f : A -> option B) a b :
  map_opt f (a ++ b) =
    match map_opt f a, map_opt f b with Some x, Some y => Some (x ++ y) | _, _ => None end.
Proof.
  induction a as [|x a IH].
  - simpl. destruct (map_opt f b); reflexivity.
  - rewrite <- app_comm_cons, !map_opt_cons, IH.
    destruct (f x); [|reflexivity].
    destruct (map_opt f a); [|reflexivity].
    destruct (map_opt f b); reflexivity.
Qed.

Lemma map_opt_nonempty {A B} (f : A -> option B) l ys :
  map_opt f l = Some ys -> l <> [] -> ys <> [].
Proof.
  destruct l; [contradiction|]. intros H _.
  apply map_opt_cons_inv in H. destruct H as (y & ys' & _ & _ & ->). discriminate.
Qed.

Lemma map_opt_encode plus L : map_opt (pct_decode plus) (map pct_encode L) = Some L.
Proof.
  induction L as [|d L IH]; [reflexivity|].
  cbn [map]. rewrite map_opt_cons, pct_decode_encode, IH. reflexivity.
Qed.

Lemma decode_is_nil plus s d : pct_decode plus s = Some d -> is_nil d = is_nil s.
Proof.
  destruct s as [|c r].
  - simpl. intro H. injection H as <-. reflexivity.
  - rewrite pct_decode_cons.
    destruct (beqb c "%").
    + destruct r as [|h [|l r']]; try discriminate.
      destruct (unhex2 h l); [|discriminate].
      destruct (pct_decode plus r'); [|discriminate].
      intro H. injection H as <-. reflexivity.
    + destruct (plus && beqb c "+");
        (destruct (pct_decode plus r); [|discriminate]);
        intro H; injection H as <-; reflexivity.
Qed.

Lemma map_opt_filter plus segs :
  map_opt (pct_decode plus) (filter nn segs) =
  option_map (filter nn) (map_opt (pct_decode plus) segs).
Proof.
  induction segs as [|s rest IH]; [reflexivity|].
  rewrite map_opt_cons. destruct s as [|c r].
  - cbn [filter is_nil negb]. rewrite IH.
    change (pct_decode plus []) with (Some (@nil byte)).
    destruct (map_opt (pct_decode plus) rest); reflexivity.
  - cbn [filter is_nil negb]. rewrite map_opt_cons, IH.
    destruct (pct_decode plus (c :: r)) as [d|] eqn:D; [|reflexivity].
    apply decode_is_nil in D.
    destruct (map_opt (pct_decode plus) rest); [|reflexivity].
    cbn [option_map filter]. rewrite D. reflexivity.
Qed.

Lemma map_opt_last plus segs : forall ds,
  map_opt (pct_decode plus) segs = Some ds ->
  is_nil (last ds ["x"]) = is_nil (last segs ["x"]).
Proof.
  induction segs as [|s rest IH]; intros ds H.
  - simpl in H. injection H as <-. reflexivity.
  - apply map_opt_cons_inv in H. destruct H as (d & ds' & Hd & Hr & ->).
    destruct rest as [|s2 rest'].
    + simpl in Hr. injection Hr as <-. simpl. eapply decode_is_nil; eassumption.
    + pose proof Hr as Hr'.
      apply map_opt_cons_inv in Hr'. destruct Hr' as (d2 & ds'' & _ & _ & ->).
      rewrite !last_cons2. apply IH. exact Hr.
Qed.

Lemma map_opt_trail plus b : map_opt (pct_decode plus) (trail b) = Some (trail b).
Proof. destruct b; reflexivity. Qed.

Lemma map_opt_squash plus segs :
  map_opt (pct_decode plus) (squash segs) =
  option_map squash (map_opt (pct_decode plus) segs).
Proof.
  unfold squash. rewrite map_opt_app, map_opt_filter, map_opt_trail.
  destruct (map_opt (pct_decode plus) segs) as [ds|] eqn:E; [|reflexivity].
  cbn [option_map]. rewrite (map_opt_last _ _ _ E). reflexivity.
Qed.

(* ------------------------------------------------------------------------- *)
(* 6. resolve_dots / path_loop                                                *)
(* ------------------------------------------------------------------------- *)

Lemma resolve_dots_cons s rest stack :
  resolve_dots (s :: rest) stack =
      if bytes_eqb s ["."] then resolve_dots rest stack
      else if bytes_eqb s ["."; "."] then
        match stack with
        | [] => None
        | _ :: st => resolve_dots rest st
        end
      else resolve_dots rest (s :: stack).
Proof. reflexivity. Qed.

Lemma resolve_dots_trail segs b : forall st,
  resolve_dots (segs ++ trail b) st =
  option_map (fun k => k ++ trail b) (resolve_dots segs st).
Proof.
  induction segs as [|s rest IH]; intro st.
  - destruct b; simpl; [|rewrite app_nil_r; reflexivity]. reflexivity.
  - rewrite <- app_comm_cons, !resolve_dots_cons.
    destruct (bytes_eqb s ["."]); [apply IH|].
    destruct (bytes_eqb s ["."; "."]); [|apply IH].
    destruct st; [reflexivity | apply IH].
Qed.

Lemma encode_eqb d e : bytes_eqb (pct_encode d) (pct_encode e) = bytes_eqb d e.
Proof.
  destruct (bytes_eqb d e) eqn:E.
  - apply bytes_eqb_eq in E. subst. apply bytes_eqb_refl.
  - apply bytes_eqb_neq. apply bytes_eqb_neq in E. intro H. apply E, pct_encode_inj, H.
Qed.

Lemma encode_eqb_dot d : bytes_eqb (pct_encode d) dot = bytes_eqb d ["."].
Proof. change dot with (pct_encode ["."]). apply encode_eqb. Qed.

Lemma encode_eqb_dotdot d : bytes_eqb (pct_encode d) dotdot = bytes_eqb d ["."; "."].
Proof. change dotdot with (pct_encode ["."; "."]). apply encode_eqb. Qed.

Lemma path_loop_cons s3 c rest stack :
  path_loop s3 (c :: rest) stack =
      match normalize_elem c with
      | None => None
      | Some n =>
          if negb s3 && bytes_eqb n dot then path_loop s3 rest stack
          else if negb s3 && bytes_eqb n dotdot then
            match stack with
            | [] => None
            | _ :: stack' => path_loop s3 rest stack'
            end
          else path_loop s3 rest (n :: stack)
      end.
Proof. reflexivity. Qed.

Lemma path_loop_std segs : forall st,
  path_loop false segs (map pct_encode st) =
  match map_opt (pct_decode true) segs with
  | None => None
  | Some ds => option_map (map pct_encode) (resolve_dots ds st)
  end.
Proof.
  induction segs as [|c rest IH]; intro st.
  - simpl. rewrite map_rev. reflexivity.
  - rewrite path_loop_cons, map_opt_cons, normalize_elem_query_spec.
    destruct (pct_decode true c) as [d|]; [|reflexivity].
    cbn [option_map negb andb]. rewrite encode_eqb_dot, encode_eqb_dotdot.
    destruct (bytes_eqb d ["."]) eqn:E1.
    + rewrite IH. destruct (map_opt (pct_decode true) rest); [|reflexivity].
      rewrite resolve_dots_cons, E1. reflexivity.
    + destruct (bytes_eqb d ["."; "."]) eqn:E2.
      * destruct st as [|x st'].
        -- cbn [map]. destruct (map_opt (pct_decode true) rest); [|reflexivity].
           rewrite resolve_dots_cons, E1, E2. reflexivity.
        -- cbn [map]. rewrite IH. destruct (map_opt (pct_decode true) rest); [|reflexivity].
           rewrite resolve_dots_cons, E1, E2. reflexivity.
      * change (pct_encode d :: map pct_encode st) with (map pct_encode (d :: st)).
        rewrite IH. destruct (map_opt (pct_decode true) rest); [|reflexivity].
        rewrite resolve_dots_cons, E1, E2. reflexivity.
Qed.

Lemma path_loop_s3 segs : forall st,
  path_loop true segs (map pct_encode st) =
  option_map (fun ds => map pct_encode (rev st ++ ds)) (map_opt (pct_decode true) segs).
Proof.
  induction segs as [|c rest IH]; intro st.
  - simpl. rewrite app_nil_r, map_rev. reflexivity.
  - rewrite path_loop_cons, map_opt_cons, normalize_elem_query_spec.
    destruct (pct_decode true c) as [d|]; [|reflexivity].
    cbn [option_map negb andb].
    change (pct_encode d :: map pct_encode st) with (map pct_encode (d :: st)).
    rewrite IH. destruct (map_opt (pct_decode true) rest); [|reflexivity].
    cbn [option_map rev]. rewrite <- app_assoc. reflexivity.
Qed.

(* ------------------------------------------------------------------------- *)
(* 7. The specification, generalised over the '+' flavour of decoding          *)
(* ------------------------------------------------------------------------- *)

Definition spec_core (s3 : bool) (dsegs : list bytes) : option bytes :=
  if s3 then Some (render_path dsegs)
  else
    match resolve_dots (filter nn dsegs) [] with
    | None => None
    | Some kept => Some (render_path (kept ++ trail (is_nil (last dsegs ["x"]))))
    end.

Definition spec_path_g (plus s3 : bool) (p : bytes) : option bytes :=
  match p with
  | [] => Some ["/"]
  | c :: rest =>
      if negb (beqb c "/") then None
      else if is_nil rest then Some ["/"]
      else
        match map_opt (pct_decode plus) (split_on "/" rest) with
        | None => None
        | Some dsegs => spec_core s3 dsegs
        end
  end.

Lemma spec_path_g_false s3 p : spec_path_g false s3 p = spec_path s3 p.
Proof.
  destruct p as [|c rest]; [reflexivity|].
  unfold spec_path_g, spec_path, spec_core, trail.
  destruct (negb (beqb c "/")); [reflexivity|].
  destruct (is_nil rest); [reflexivity|].
  destruct (map_opt (pct_decode false) (split_on "/" rest)); [|reflexivity].
  destruct s3; reflexivity.
Qed.

Lemma render_finish L :
  match map pct_encode L with
  | [] => Some slash
  | _ :: _ => Some ("/" :: join slash (map pct_encode L))
  end = Some (render_path L).
Proof. destruct L; reflexivity. Qed.

(* the model is the specification with query-flavoured decoding, unconditionally *)
Theorem canon_path_spec_g : forall s3 p, canon_path s3 p = spec_path_g true s3 p.
Proof.
  intros s3 p. destruct p as [|c r]; [reflexivity|].
  unfold canon_path, spec_path_g.
  destruct (beqb c "/") eqn:E.
  2:{ cbn [negb]. destruct (bytes_eqb (c :: r) slash) eqn:B; [|reflexivity].
      apply bytes_eqb_eq in B. injection B as -> _. discriminate E. }
  apply beqb_eq in E. subst c. cbn [negb].
  destruct r as [|c' r']; [reflexivity|].
  assert (B : bytes_eqb ("/" :: c' :: r') slash = false)
    by (apply bytes_eqb_neq; discriminate).
  rewrite B. cbn [is_nil]. set (r := c' :: r').
  destruct s3.
  - rewrite (split_on_cons "/" "/" r). change (beqb "/" "/") with true. cbv iota.
    change (@nil bytes) with (map pct_encode []) at 1.
    rewrite path_loop_s3.
    destruct (map_opt (pct_decode true) (split_on "/" r)) as [ds|]; [|reflexivity].
    cbn [option_map rev app spec_core]. apply render_finish.
  - rewrite split_collapse.
    rewrite (split_on_cons "/" "/" r). change (beqb "/" "/") with true. cbv iota.
    cbn [hd tl].
    change (@nil bytes) with (map pct_encode []) at 1.
    rewrite path_loop_std, map_opt_squash.
    destruct (map_opt (pct_decode true) (split_on "/" r)) as [ds|]; [|reflexivity].
    cbn [option_map spec_core]. unfold squash at 1. rewrite resolve_dots_trail.
    destruct (resolve_dots (filter nn ds) []) as [kept|]; [|reflexivity].
    cbn [option_map]. apply render_finish.
Qed.

(* ------------------------------------------------------------------------- *)
(* 8. C09: model = spec outside the '+' class                                  *)
(* ------------------------------------------------------------------------- *)

Lemma has_plus_split r :
  has_plus r = false -> Forall (fun s => has_plus s = false) (split_on "/" r).
Proof.
  induction r as [|c r IH]; intro H.
  - constructor; [reflexivity | constructor].
  - rewrite has_plus_cons in H. apply orb_false_iff in H. destruct H as [H1 H2].
    specialize (IH H2). rewrite split_on_cons.
    destruct (beqb c "/").
    + constructor; [reflexivity | exact IH].
    + pose proof (split_on_nonempty "/" r) as NE.
      destruct (split_on "/" r) as [|h t]; [contradiction|].
      inversion IH; subst. cbn [hd tl]. constructor; [|assumption].
      rewrite has_plus_cons, H1. assumption.
Qed.

Lemma map_opt_ext_Forall {A B} (f g : A -> option B) l :
  Forall (fun x => f x = g x) l -> map_opt f l = map_opt g l.
Proof.
  induction 1 as [|x l Hx _ IH]; [reflexivity|].
  rewrite !map_opt_cons, Hx, IH. reflexivity.
Qed.

Lemma spec_g_no_plus s3 p :
  has_plus p = false -> spec_path_g true s3 p = spec_path_g false s3 p.
Proof.
  destruct p as [|c rest]; [reflexivity|].
  rewrite has_plus_cons. intro H. apply orb_false_iff in H. destruct H as [_ H].
  unfold spec_path_g.
  rewrite (map_opt_ext_Forall (pct_decode true) (pct_decode false)); [reflexivity|].
  eapply Forall_impl; [|apply has_plus_split; exact H].
  intros s Hs. apply pct_decode_no_plus. exact Hs.
Qed.

Theorem C09_model_is_spec : forall s3 p, has_plus p = false -> canon_path s3 p = spec_path s3 p.
Proof.
  intros s3 p H. rewrite canon_path_spec_g, spec_g_no_plus by exact H.
  apply spec_path_g_false.
Qed.

(* ------------------------------------------------------------------------- *)
(* 9. Shape of the output; re-parsing a rendered path                          *)
(* ------------------------------------------------------------------------- *)

Definition clean (k : bytes) : Prop := k <> [] /\ k <> ["."] /\ k <> ["."; "."].

Definition std_shape (s3 : bool) (L : list bytes) : Prop :=
  s3 = false -> exists K b, L = K ++ trail b /\ Forall clean K.

Lemma resolve_dots_clean_out segs : forall st k,
  Forall (fun s : bytes => s <> []) segs -> Forall clean st ->
  resolve_dots segs st = Some k -> Forall clean k.
Proof.
  induction segs as [|a segs IH]; intros st k Hs Hst H.
  - simpl in H. injection H as <-. apply Forall_rev. exact Hst.
  - rewrite resolve_dots_cons in H. inversion Hs as [|? ? Ha Hs']; subst.
    destruct (bytes_eqb a ["."]) eqn:E1; [eapply IH; eauto|].
    destruct (bytes_eqb a ["."; "."]) eqn:E2.
    + destruct st as [|x st']; [discriminate|].
      inversion Hst; subst. eapply IH; eauto.
    + eapply IH; [exact Hs' | | exact H].
      constructor; [|exact Hst].
      split; [exact Ha | split; apply bytes_eqb_neq; assumption].
Qed.

Lemma resolve_dots_clean_in segs : forall st,
  Forall clean segs -> resolve_dots segs st = Some (rev st ++ segs).
Proof.
  induction segs as [|a segs IH]; intros st H.
  - simpl. rewrite app_nil_r. reflexivity.
  - inversion H as [|? ? Ha Hs]; subst. destruct Ha as (_ & N1 & N2).
    apply bytes_eqb_neq in N1, N2.
    rewrite resolve_dots_cons, N1, N2, IH by exact Hs.
    simpl. rewrite <- app_assoc. reflexivity.
Qed.

Lemma filter_nn_nonnil l : Forall (fun s : bytes => s <> []) (filter nn l).
Proof.
  apply Forall_forall. intros s Hs. apply filter_In in Hs. destruct Hs as [_ Hs].
  destruct s; [discriminate Hs | discriminate].
Qed.

Lemma filter_nn_clean K b : Forall clean K -> filter nn (K ++ trail b) = K.
Proof.
  intro H. rewrite filter_app.
  replace (filter nn (trail b)) with (@nil bytes) by (destruct b; reflexivity).
  rewrite app_nil_r. induction H as [|k K Hk _ IH]; [reflexivity|].
  destruct Hk as (N & _). destruct k; [contradiction|].
  cbn [filter is_nil negb]. rewrite IH. reflexivity.
Qed.

Lemma last_clean K b : Forall clean K -> is_nil (last (K ++ trail b) ["x"]) = b.
Proof.
  intro H. destruct b.
  - unfold trail. rewrite last_last. reflexivity.
  - unfold trail. rewrite app_nil_r.
    destruct K as [|k K']; [reflexivity|].
    assert (In (last (k :: K') ["x"]) (k :: K')) as HI.
    { destruct (exists_last (l := k :: K')) as (l' & a & E); [discriminate|].
      rewrite E, last_last. apply in_or_app. right. left. reflexivity. }
    rewrite Forall_forall in H. destruct (H _ HI) as (N & _).
    destruct (last (k :: K') ["x"]); [contradiction | reflexivity].
Qed.

Lemma spec_core_fix s3 L : std_shape s3 L -> spec_core s3 L = Some (render_path L).
Proof.
  intro H. destruct s3; [reflexivity|].
  destruct (H eq_refl) as (K & b & -> & HK).
  unfold spec_core. rewrite filter_nn_clean, last_clean by exact HK.
  rewrite resolve_dots_clean_in by exact HK. reflexivity.
Qed.

Lemma spec_core_shape s3 ds c :
  spec_core s3 ds = Some c -> exists L, c = render_path L /\ std_shape s3 L.
Proof.
  unfold spec_core. destruct s3.
  - intro H. injection H as <-. exists ds. split; [reflexivity | discriminate].
  - destruct (resolve_dots (filter nn ds) []) as [kept|] eqn:E; [|discriminate].
    intro H. injection H as <-. eexists. split; [reflexivity|].
    intros _. exists kept, (is_nil (last ds ["x"])). split; [reflexivity|].
    eapply resolve_dots_clean_out; [apply filter_nn_nonnil | constructor | exact E].
Qed.

Lemma std_shape_nil s3 : std_shape s3 [].
Proof. intros _. exists [], false. split; [reflexivity | constructor]. Qed.

Lemma spec_path_g_shape plus s3 p c :
  spec_path_g plus s3 p = Some c -> exists L, c = render_path L /\ std_shape s3 L.
Proof.
  destruct p as [|c0 rest].
  - intro H. injection H as <-. exists []. split; [reflexivity | apply std_shape_nil].
  - unfold spec_path_g. destruct (negb (beqb c0 "/")); [discriminate|].
    destruct (is_nil rest).
    + intro H. injection H as <-. exists []. split; [reflexivity | apply std_shape_nil].
    + destruct (map_opt (pct_decode plus) (split_on "/" rest)); [|discriminate].
      apply spec_core_shape.
Qed.

Lemma reparse plus s3 L :
  L <> [] ->
  spec_path_g plus s3 (render_path L) =
    if is_nil (join ["/"] (map pct_encode L)) then Some ["/"] else spec_core s3 L.
Proof.
  intro NE.
  assert (R : render_path L = "/" :: join ["/"] (map pct_encode L))
    by (destruct L; [contradiction | reflexivity]).
  rewrite R. unfold spec_path_g. change (negb (beqb "/" "/")) with false. cbv iota.
  destruct (is_nil (join ["/"] (map pct_encode L))); [reflexivity|].
  rewrite split_join_encode by exact NE. rewrite map_opt_encode. reflexivity.
Qed.

Lemma spec_path_g_render plus s3 L :
  std_shape s3 L -> spec_path_g plus s3 (render_path L) = Some (render_path L).
Proof.
  intro H. destruct L as [|x L']; [reflexivity|].
  rewrite reparse by discriminate.
  destruct (join ["/"] (map pct_encode (x :: L'))) eqn:J.
  - cbn [is_nil]. unfold render_path. rewrite J. reflexivity.
  - cbn [is_nil]. apply spec_core_fix. exact H.
Qed.

Theorem spec_path_g_idempotent plus plus' s3 p c :
  spec_path_g plus s3 p = Some c -> spec_path_g plus' s3 c = Some c.
Proof.
  intro H. apply spec_path_g_shape in H. destruct H as (L & -> & HL).
  apply spec_path_g_render. exact HL.
Qed.

Theorem C09_idempotent : forall s3 p c, canon_path s3 p = Some c -> canon_path s3 c = Some c.
Proof.
  intros s3 p c. rewrite !canon_path_spec_g. apply spec_path_g_idempotent.
Qed.

(* ------------------------------------------------------------------------- *)
(* 10. Failure set                                                            *)
(* ------------------------------------------------------------------------- *)

(* decoding flavours differ only in ' ' versus '+' *)
Definition phi (b : byte) : byte := if beqb b "+" then " " else b.

Lemma option_map_phi_cons v (X : option bytes) :
  option_map (map phi) (option_map (cons v) X) =
  option_map (cons (phi v)) (option_map (map phi) X).
Proof. destruct X; reflexivity. Qed.

Lemma decode_phi : forall s,
  option_map (map phi) (pct_decode true s) = option_map (map phi) (pct_decode false s).
Proof.
  induction s as [s IH] using bytes_strong_ind.
  destruct s as [|c r]; [reflexivity|].
  rewrite !pct_decode_cons.
  destruct (beqb c "%").
  - destruct r as [|h [|l r']]; try reflexivity.
    destruct (unhex2 h l); [|reflexivity].
    rewrite !option_map_phi_cons, IH by (simpl; lia). reflexivity.
  - cbn [andb]. destruct (beqb c "+") eqn:E.
    + apply beqb_eq in E. subst c.
      rewrite !option_map_phi_cons, IH by (simpl; lia). reflexivity.
    + rewrite !option_map_phi_cons, IH by (simpl; lia). reflexivity.
Qed.

Lemma map_opt_phi segs :
  option_map (map (map phi)) (map_opt (pct_decode true) segs) =
  option_map (map (map phi)) (map_opt (pct_decode false) segs).
Proof.
  induction segs as [|s rest IH]; [reflexivity|].
  rewrite !map_opt_cons. pose proof (decode_phi s) as D.
  destruct (pct_decode true s) as [a|], (pct_decode false s) as [b|];
    cbn [option_map] in D; try discriminate; [|reflexivity].
  injection D as D.
  destruct (map_opt (pct_decode true) rest) as [x|],
           (map_opt (pct_decode false) rest) as [y|];
    cbn [option_map] in IH; try discriminate; [|reflexivity].
  injection IH as IH. cbn [option_map map]. rewrite D, IH. reflexivity.
Qed.

Lemma phi_dot x : beqb (phi x) "." = beqb x ".".
Proof.
  unfold phi. destruct (beqb x "+") eqn:E; [|reflexivity].
  apply beqb_eq in E. subst x. reflexivity.
Qed.

Lemma phi_eqb_dot a : bytes_eqb (map phi a) ["."] = bytes_eqb a ["."].
Proof.
  destruct a as [|x [|y t]]; cbn [map bytes_eqb]; rewrite ?phi_dot; reflexivity.
Qed.

Lemma phi_eqb_dotdot a : bytes_eqb (map phi a) ["."; "."] = bytes_eqb a ["."; "."].
Proof.
  destruct a as [|x [|y [|z t]]]; cbn [map bytes_eqb]; rewrite ?phi_dot; reflexivity.
Qed.

Lemma resolve_fail_phi l1 : forall l2 st1 st2,
  map (map phi) l1 = map (map phi) l2 -> length st1 = length st2 ->
  (resolve_dots l1 st1 = None <-> resolve_dots l2 st2 = None).
Proof.
  induction l1 as [|a l1 IH]; intros [|b l2] st1 st2 HM HL; try discriminate HM.
  - simpl. split; discriminate.
  - cbn [map] in HM. injection HM as Hab HM.
    rewrite !resolve_dots_cons.
    rewrite <- (phi_eqb_dot a), <- (phi_eqb_dot b), <- (phi_eqb_dotdot a), <- (phi_eqb_dotdot b).
    rewrite Hab.
    destruct (bytes_eqb (map phi b) ["."]); [apply IH; assumption|].
    destruct (bytes_eqb (map phi b) ["."; "."]).
    + destruct st1, st2; try discriminate HL; [tauto|].
      apply IH; [assumption | simpl in HL; lia].
    + apply IH; [assumption | simpl; lia].
Qed.

Lemma filter_nn_map (f : byte -> byte) l :
  filter nn (map (map f) l) = map (map f) (filter nn l).
Proof.
  induction l as [|a l IH]; [reflexivity|].
  cbn [map filter]. destruct a; cbn [map is_nil negb]; rewrite IH; reflexivity.
Qed.

Lemma spec_core_fail_phi s3 d1 d2 :
  map (map phi) d1 = map (map phi) d2 ->
  (spec_core s3 d1 = None <-> spec_core s3 d2 = None).
Proof.
  intro H. unfold spec_core. destruct s3; [split; discriminate|].
  assert (F : resolve_dots (filter nn d1) [] = None <-> resolve_dots (filter nn d2) [] = None).
  { apply resolve_fail_phi; [|reflexivity]. rewrite <- !filter_nn_map, H. reflexivity. }
  destruct (resolve_dots (filter nn d1) []), (resolve_dots (filter nn d2) []);
    split; intro X; try discriminate X; try reflexivity.
  - destruct F as [_ F]. discriminate (F eq_refl).
  - destruct F as [F _]. discriminate (F eq_refl).
Qed.

Lemma spec_g_fail_flavour s3 p :
  spec_path_g true s3 p = None <-> spec_path_g false s3 p = None.
Proof.
  destruct p as [|c rest]; [reflexivity|].
  unfold spec_path_g.
  destruct (negb (beqb c "/")); [reflexivity|].
  destruct (is_nil rest); [reflexivity|].
  pose proof (map_opt_phi (split_on "/" rest)) as M.
  destruct (map_opt (pct_decode true) (split_on "/" rest)) as [d1|],
           (map_opt (pct_decode false) (split_on "/" rest)) as [d2|];
    cbn [option_map] in M; try discriminate M; [|reflexivity].
  injection M as M. apply spec_core_fail_phi. exact M.
Qed.

Theorem C09_fails_iff_spec_fails : forall s3 p, canon_path s3 p = None <-> spec_path s3 p = None.
Proof.
  intros s3 p. rewrite canon_path_spec_g, <- spec_path_g_false. apply spec_g_fail_flavour.
Qed.

Theorem C09_spec_failure_set : forall s3 p,
  spec_path s3 p = None <->
  (exists c r, p = c :: r /\ c <> "/"%byte)
  \/ (exists r, p = "/"%byte :: r /\ r <> [] /\
        (map_opt (pct_decode false) (split_on "/"%byte r) = None
         \/ (s3 = false /\ exists d, map_opt (pct_decode false) (split_on "/"%byte r) = Some d /\
               resolve_dots (filter (fun s => negb (is_nil s)) d) [] = None))).
Proof.
  intros s3 p. split.
  - destruct p as [|c rest]; [discriminate|].
    unfold spec_path. destruct (beqb c "/") eqn:E; cbn [negb].
    + apply beqb_eq in E. subst c. intro H. right. exists rest. split; [reflexivity|].
      destruct rest as [|c' r']; [discriminate H|]. cbn [is_nil] in H.
      split; [discriminate|].
      destruct (map_opt (pct_decode false) (split_on "/" (c' :: r'))) as [d|]; [|left; reflexivity].
      right. destruct s3; [discriminate H|]. split; [reflexivity|].
      exists d. split; [reflexivity|].
      destruct (resolve_dots (filter (fun s => negb (is_nil s)) d) []); [discriminate H | reflexivity].
    + intros _. left. exists c, rest. split; [reflexivity|]. apply beqb_neq. exact E.
  - intros [(c & r & -> & N) | (r & -> & NE & H)].
    + unfold spec_path. apply beqb_neq in N. rewrite N. reflexivity.
    + unfold spec_path. change (negb (beqb "/" "/")) with false. cbv iota.
      destruct r as [|c' r']; [contradiction|]. cbn [is_nil].
      destruct H as [H | (-> & d & Hd & HR)].
      * rewrite H. reflexivity.
      * rewrite Hd, HR. reflexivity.
Qed.

(* ------------------------------------------------------------------------- *)
(* 11. Output alphabet                                                        *)
(* ------------------------------------------------------------------------- *)

Inductive canon_text : bytes -> Prop :=
| ct_nil : canon_text []
| ct_slash : forall r, canon_text r -> canon_text ("/"%byte :: r)
| ct_unres : forall b r, spec_unreserved b = true -> canon_text r -> canon_text (b :: r)
| ct_esc : forall b r, spec_unreserved b = false -> canon_text r ->
                       canon_text (("%"%byte :: upper_hex b) ++ r).

Lemma canon_text_app a b : canon_text a -> canon_text b -> canon_text (a ++ b).
Proof.
  intros Ha Hb. induction Ha as [|r _ IH|x r U _ IH|x r U _ IH].
  - exact Hb.
  - rewrite <- app_comm_cons. apply ct_slash, IH.
  - rewrite <- app_comm_cons. apply ct_unres; [exact U | exact IH].
  - rewrite <- app_assoc. apply ct_esc; [exact U | exact IH].
Qed.

Lemma canon_text_encode s : canon_text (pct_encode s).
Proof.
  induction s as [|b s IH]; [constructor|].
  rewrite pct_encode_cons. unfold pct_encode_byte.
  destruct (spec_unreserved b) eqn:U.
  - change ([b] ++ pct_encode s) with (b :: pct_encode s). apply ct_unres; assumption.
  - apply ct_esc; assumption.
Qed.

Lemma canon_text_join l : Forall canon_text l -> canon_text (join ["/"] l).
Proof.
  induction 1 as [|x l Hx Hl IH]; [constructor|].
  destruct l as [|y t]; [exact Hx|].
  rewrite join_cons2. apply canon_text_app; [exact Hx|].
  change (["/"] ++ join ["/"] (y :: t)) with ("/" :: join ["/"] (y :: t)).
  apply ct_slash, IH.
Qed.

Lemma canon_text_render L : canon_text (render_path L).
Proof.
  destruct L as [|x L']; [apply ct_slash, ct_nil|].
  unfold render_path. apply ct_slash, canon_text_join.
  apply Forall_forall. intros s Hs. apply in_map_iff in Hs. destruct Hs as (d & <- & _).
  apply canon_text_encode.
Qed.

Theorem C09_alphabet : forall s3 p c, canon_path s3 p = Some c -> canon_text c.
Proof.
  intros s3 p c H. rewrite canon_path_spec_g in H.
  apply spec_path_g_shape in H. destruct H as (L & -> & _). apply canon_text_render.
Qed.

(* ------------------------------------------------------------------------- *)
(* 12. No dot segments in standard mode                                       *)
(* ------------------------------------------------------------------------- *)

Lemma split_render L :
  split_on "/" (render_path L) =
    match L with [] => [[]; []] | _ => [] :: map pct_encode L end.
Proof.
  destruct L as [|x L']; [reflexivity|].
  unfold render_path. rewrite split_on_cons. change (beqb "/" "/") with true. cbv iota.
  rewrite split_join_encode by discriminate. reflexivity.
Qed.

Theorem C09_no_dot_segments : forall p c, canon_path false p = Some c ->
  forall seg, In seg (split_on "/"%byte c) -> seg <> ["."%byte] /\ seg <> ["."%byte; "."%byte].
Proof.
  intros p c H seg HI. rewrite canon_path_spec_g in H.
  apply spec_path_g_shape in H. destruct H as (L & -> & HL).
  destruct (HL eq_refl) as (K & b & -> & HK).
  rewrite split_render in HI.
  assert (G : seg = [] \/ exists k, In k K /\ seg = pct_encode k).
  { destruct (K ++ trail b) as [|x L'] eqn:EL.
    - left. destruct HI as [<-|[<-|[]]]; reflexivity.
    - destruct HI as [<-|HI]; [left; reflexivity|].
      rewrite <- EL in HI. apply in_map_iff in HI. destruct HI as (k & <- & Hk).
      apply in_app_or in Hk. destruct Hk as [Hk|Hk].
      + right. exists k. split; [exact Hk | reflexivity].
      + left. destruct b; [|contradiction]. destruct Hk as [<-|[]]. reflexivity. }
  destruct G as [->|(k & Hk & ->)]; [split; discriminate|].
  rewrite Forall_forall in HK. destruct (HK _ Hk) as (_ & N1 & N2).
  split; intro E.
  - apply N1. apply pct_encode_inj. exact E.
  - apply N2. apply pct_encode_inj. exact E.
Qed.

(* ------------------------------------------------------------------------- *)
(* 13. Spelling insensitivity                                                 *)
(* ------------------------------------------------------------------------- *)

Lemma spec_path_slash s3 r :
  r <> [] ->
  spec_path s3 ("/" :: r) =
    match map_opt (pct_decode false) (split_on "/" r) with
    | None => None
    | Some d => spec_core s3 d
    end.
Proof.
  intro NE. rewrite <- spec_path_g_false. destruct r; [contradiction | reflexivity].
Qed.

Theorem C09_spelling_insensitive : forall s3 r1 r2,
  has_plus r1 = false -> has_plus r2 = false -> r1 <> [] -> r2 <> [] ->
  map_opt (pct_decode false) (split_on "/"%byte r1) = map_opt (pct_decode false) (split_on "/"%byte r2) ->
  canon_path s3 ("/"%byte :: r1) = canon_path s3 ("/"%byte :: r2).
Proof.
  intros s3 r1 r2 P1 P2 N1 N2 H.
  rewrite !C09_model_is_spec by (rewrite has_plus_cons; assumption).
  rewrite !spec_path_slash by assumption. rewrite H. reflexivity.
Qed.

(* The '+' guard of [C09_model_is_spec] is necessary (known finding D1): "/a+b". *)
Lemma C09_model_is_spec_plus_refuted :
  exists s3 p, has_plus p = true /\ canon_path s3 p <> spec_path s3 p.
Proof. exists false, ["/"; "a"; "+"; "b"]. split; [reflexivity | vm_compute; discriminate]. Qed.

Print Assumptions unreserved_is_spec.
Print Assumptions upper_hex_src_is_upper_hex.
Print Assumptions normalize_elem_path_spec.
Print Assumptions normalize_elem_query_spec.
Print Assumptions pct_decode_encode.
Print Assumptions pct_encode_inj.
Print Assumptions normalize_elem_idempotent.
Print Assumptions C09_model_is_spec.
Print Assumptions C09_idempotent.
Print Assumptions C09_fails_iff_spec_fails.
Print Assumptions C09_spec_failure_set.
Print Assumptions C09_alphabet.
Print Assumptions C09_no_dot_segments.
Print Assumptions C09_spelling_insensitive.
