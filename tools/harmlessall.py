#!/usr/bin/env python3
"""Development-time false-alarm measurement: run the quick checks of the given properties (default: all)
against every behaviour-preserving rewrite in harmless/*/patch.diff, in isolated slots.  Any VIOLATION
here is a false alarm (or a rewrite that is not behaviour-preserving after all: look at the replay)."""
import concurrent.futures, json, os, subprocess, sys, time
ROOT = os.path.normpath(os.path.join(os.path.dirname(os.path.abspath(__file__)), ".."))
ALL = ["C%02d" % i for i in range(1, 20)]


def main():
    args = sys.argv[1:]
    jobs = int(args[args.index("--jobs") + 1]) if "--jobs" in args else 4
    only = args[args.index("--only") + 1] if "--only" in args else None
    props = args[args.index("--props") + 1].split(",") if "--props" in args else ALL
    names = sorted(d for d in os.listdir(os.path.join(ROOT, "harmless")) if os.path.exists(os.path.join(ROOT, "harmless", d, "patch.diff")))
    if only:
        names = [n for n in names if n.startswith(only)]
    queue = list(names)
    summary = {}

    def worker(slot):
        while queue:
            try:
                name = queue.pop(0)
            except IndexError:
                return
            t0 = time.time()
            cmd = [sys.executable, os.path.join(ROOT, "tools", "seedtest.py"), "run", os.path.join(ROOT, "harmless", name, "patch.diff")] + props + ["--slot", str(20 + slot)]
            p = subprocess.run(cmd, cwd=ROOT, stdout=subprocess.PIPE, stderr=subprocess.STDOUT)
            out = p.stdout.decode("utf-8", "replace")
            last = [l for l in out.split("\n") if l.startswith("{")]
            try:
                r = json.loads(last[-1])
            except Exception:
                r = {"error": out[-500:]}
            alarms = {k: v["lines"] for k, v in r.items() if isinstance(v, dict) and v.get("rc") != 0}
            summary[name] = alarms
            print("%s: %s (%.0fs)" % (name, "quiet on %d checks" % len(props) if not alarms else "ALARMS " + json.dumps(alarms)[:600], time.time() - t0), flush=True)
            json.dump({"checks_run": props, "alarms": alarms, "ran": "tools/harmlessall.py (tools/seedtest.py run <patch> <props> --slot K)"},
                      open(os.path.join(ROOT, "harmless", name, "result.json"), "w"), indent=1)

    with concurrent.futures.ThreadPoolExecutor(max_workers=jobs) as ex:
        list(ex.map(worker, range(jobs)))


if __name__ == "__main__":
    main()
