#!/usr/bin/env python3
"""Development-time mutation campaign (not run by any check).

Generates small syntactic mutants of /repo/src/*.rs (non-test code), keeps those that still compile and pass the
72-test suite, and runs every quick check against each in isolated slots (tools/seedtest.py --slot).  A surviving
mutant that no check notices is either equivalent or a gap in the machinery: the list is written to
<outdir>/undetected.txt for manual inspection.

usage: mutate.py <outdir> [--n 80] [--seed 1] [--jobs 4] [--files canonical.rs,auth.rs,...]
"""
import concurrent.futures, json, os, random, re, subprocess, sys, time

ROOT = os.path.normpath(os.path.join(os.path.dirname(os.path.abspath(__file__)), ".."))
ENV = dict(os.environ, CARGO_NET_OFFLINE="true")
ALL = ["C%02d" % i for i in range(1, 20)]

OPS = [
    (r" < ", " <= "), (r" <= ", " < "), (r" > ", " >= "), (r" >= ", " > "), (r" == ", " != "), (r" != ", " == "),
    (r" && ", " || "), (r" \|\| ", " && "),
    (r"if !", "if "), (r" \+ 1\b", " + 2"), (r" - 1\b", " - 0"), (r" \+ 2\b", " + 1"), (r" \+ 3\b", " + 2"), (r" \+ 4\b", " + 3"),
    (r"\.to_lowercase\(\)", ".to_string()"), (r"\.to_ascii_lowercase\(\)", ".to_vec()"),
    (r"trim_ascii\(([a-z_]+)\)", r"\1"), (r"\.is_empty\(\)", ".len() == 1"),
    (r"\[0\]", "[values.len() - 1]"), (r"\.first\(\)", ".last()"), (r"continue;", "break;"),
    (r"Duration::minutes\((\w+)\)", r"Duration::minutes(\1 + 1)"), (r"i \+= 1;", "i += 2;"), (r"i -= 1;", "i -= 0;"),
    (r"\.sort\(\);", ";"), (r"\.sort_unstable\(\);", ";"), (r"push\(b'%'\)", "push(b'$')"),
    (r"0x0f|0xf\b", "0x7"), (r">> 4", ">> 3"), (r"StatusCode::BAD_REQUEST", "StatusCode::FORBIDDEN"),
    (r"StatusCode::FORBIDDEN", "StatusCode::BAD_REQUEST"), (r"SignatureDoesNotMatch\(", "IncompleteSignature(Some"),
]


def sh(cmd, cwd=None, timeout=3600):
    p = subprocess.run(cmd, cwd=cwd, shell=isinstance(cmd, str), stdout=subprocess.PIPE, stderr=subprocess.STDOUT, env=ENV, timeout=timeout)
    return p.returncode, p.stdout.decode("utf-8", "replace")


def candidates(files):
    out = []
    for f in files:
        path = os.path.join("/repo/src", f)
        lines = open(path).read().split("\n")
        in_tests = False
        for i, ln in enumerate(lines):
            if re.match(r"\s*#\[cfg\(test\)\]", ln) or re.match(r"\s*mod tests\b", ln):
                in_tests = True
            if in_tests:
                continue
            s = ln.strip()
            if not s or s.startswith("//") or s.startswith("#[") or re.match(r"(trace|debug|info|warn|error)!\(", s) or "assert" in s:
                continue
            code = ln.split("//")[0]
            for pat, rep in OPS:
                for m in re.finditer(pat, code):
                    new = code[:m.start()] + m.expand(rep) + code[m.end():] + ln[len(code):]
                    if new != ln:
                        out.append((f, i, ln, new))
    return out


def main():
    args = sys.argv[1:]
    outdir = os.path.abspath(args[0])
    n = int(args[args.index("--n") + 1]) if "--n" in args else 80
    seed = int(args[args.index("--seed") + 1]) if "--seed" in args else 1
    jobs = int(args[args.index("--jobs") + 1]) if "--jobs" in args else 4
    files = args[args.index("--files") + 1].split(",") if "--files" in args else ["canonical.rs", "auth.rs", "signing_key.rs", "chronoutil.rs", "error.rs", "signature.rs", "crypto.rs"]
    os.makedirs(outdir, exist_ok=True)
    if "--phase2-only" in args:
        survivors = [tuple(x) for x in json.load(open(os.path.join(outdir, "survivors.json")))]
        return phase2(outdir, survivors, jobs)
    cands = candidates(files)
    random.Random(seed).shuffle(cands)
    print("%d candidate mutants; sampling until %d survive the suite" % (len(cands), n), flush=True)
    # phase 1: find survivors (compile + 72 tests) in a dedicated worktree
    wt = "/tmp/mutate_wt"
    if not os.path.exists(wt):
        sh(["git", "-C", "/repo", "worktree", "add", "-q", "--detach", wt, "HEAD"])
    sh("git reset -q --hard && cp /repo/Cargo.lock .", cwd=wt)
    survivors = []
    tried = 0
    for f, i, old, new in cands:
        if len(survivors) >= n:
            break
        tried += 1
        path = os.path.join(wt, "src", f)
        lines = open(path).read().split("\n")
        if lines[i] != old:
            continue
        lines[i] = new
        open(path, "w").write("\n".join(lines))
        rc, out = sh("cargo test --offline --lib --tests 2>&1 | grep -E 'test result|^error' | head -3", cwd=wt, timeout=900)
        ok = bool(re.search(r"test result: ok\. 72 passed", out))
        if ok:
            rc2, _ = sh("cargo build --offline --features unstable 2>&1 | tail -1", cwd=wt, timeout=900)
            k = len(survivors)
            d = os.path.join(outdir, "m%03d" % k)
            os.makedirs(d, exist_ok=True)
            _, diff = sh("git diff -- src", cwd=wt)
            open(os.path.join(d, "patch.diff"), "w").write(diff)
            survivors.append((k, f, i + 1, old.strip(), new.strip()))
            print("survivor m%03d %s:%d  %s  =>  %s" % (k, f, i + 1, old.strip()[:70], new.strip()[:70]), flush=True)
        sh("git checkout -q -- src", cwd=wt)
    print("tried %d, survivors %d" % (tried, len(survivors)), flush=True)
    json.dump(survivors, open(os.path.join(outdir, "survivors.json"), "w"), indent=1)
    return phase2(outdir, survivors, jobs)


def phase2(outdir, survivors, jobs):
    # phase 2: run all checks on each survivor
    queue = list(survivors)
    results = {}

    def worker(slot):
        while True:
            try:
                k, f, line, old, new = queue.pop(0)
            except IndexError:
                return
            t0 = time.time()
            cmd = [sys.executable, os.path.join(ROOT, "tools", "seedtest.py"), "run", os.path.join(outdir, "m%03d" % k, "patch.diff")] + ALL + ["--slot", str(30 + slot)]
            p = subprocess.run(cmd, cwd=ROOT, stdout=subprocess.PIPE, stderr=subprocess.STDOUT)
            out = p.stdout.decode("utf-8", "replace")
            last = [l for l in out.split("\n") if l.startswith("{")]
            try:
                r = json.loads(last[-1])
            except Exception:
                r = {"error": out[-300:]}
            alarms = sorted(k2 for k2, v in r.items() if isinstance(v, dict) and v.get("rc") == 1)
            infra = sorted(k2 for k2, v in r.items() if isinstance(v, dict) and v.get("rc") not in (0, 1))
            results[k] = {"file": f, "line": line, "old": old, "new": new, "alarms": alarms, "infra": infra}
            print("m%03d %s:%d %s (%.0fs)  %s => %s" % (k, f, line, "DETECTED by " + ",".join(alarms) if alarms else "UNDETECTED" + (" infra " + ",".join(infra) if infra else ""),
                                                       time.time() - t0, old[:60], new[:60]), flush=True)
            json.dump(results, open(os.path.join(outdir, "results.json"), "w"), indent=1)

    with concurrent.futures.ThreadPoolExecutor(max_workers=jobs) as ex:
        list(ex.map(worker, range(jobs)))
    und = [v for v in results.values() if not v["alarms"]]
    with open(os.path.join(outdir, "undetected.txt"), "w") as fh:
        for v in und:
            fh.write("%s:%d\n  - %s\n  + %s\n" % (v["file"], v["line"], v["old"], v["new"]))
    print("detected %d of %d surviving mutants; undetected listed in %s" % (len(results) - len(und), len(results), os.path.join(outdir, "undetected.txt")))


if __name__ == "__main__":
    main()
