#!/usr/bin/env python3
"""Orchestrator: ./check <property> [--tier quick|thorough] [--replay FILE]

For one property it (1) checks proof hygiene, (2) regenerates Generated/SrcConsts.v from
/repo/src, (3) rebuilds the harness against /repo's working tree, (4) re-checks the property's
theorems (coq/theories/Props/<id>.v) and their Print Assumptions, (5) runs the correspondence:
harness cases evaluated by the Gallina model and the property predicates under coqc vm_compute,
(6) searches for a concrete failing input when (2), (4) or (5) broke, (7) writes
evidence/<id>.json and prints the verdict.

Exit codes: 0 property held on everything explored; 1 with a VIOLATION line; 2 infrastructure
error (no VIOLATION line).
"""
import concurrent.futures
import fcntl
import json
import os
import re
import shutil
import subprocess
import sys
import time

ROOT = os.path.normpath(os.path.join(os.path.dirname(os.path.abspath(__file__)), ".."))
REPO = os.environ.get("VERIF_REPO", "/repo")
# the three directories below can be redirected for isolated development runs against a scratch
# copy of the repository (tools/seedtest.py); the registered checks never set these variables
COQ = os.environ.get("VERIF_COQ", os.path.join(ROOT, "coq"))
HARNESS = os.environ.get("VERIF_HARNESS", os.path.join(ROOT, "harness"))
OUT = os.environ.get("VERIF_OUT", os.path.join(ROOT, "out"))
EVIDENCE = os.environ.get("VERIF_EVIDENCE", os.path.join(ROOT, "evidence"))
GEN = os.path.join(HARNESS, "target", "release", "gen")
JOBS = int(os.environ.get("VERIF_JOBS", "16"))
HEAVY_CHARS = 60000      # a case whose Gallina term is longer than this is "heavy" (see evaluate)
HEAVY_JOBS = int(os.environ.get("VERIF_HEAVY_JOBS", "4"))

sys.path.insert(0, os.path.dirname(os.path.abspath(__file__)))
from properties import PROPS, CLASSES  # noqa: E402

ALLOWED_AXIOMS = set()  # expected: every property theorem is closed under the global context

FORBIDDEN = re.compile(
    r"\b(Admitted|admit|Axiom|Axioms|Parameter|Parameters|Conjecture|Conjectures|Admit Obligations|"
    r"bypass_check|Unset Guard Checking|Unset Positivity Checking|Unset Universe Checking|type-in-type|"
    r"impredicative-set|native_compute)\b")


class Infra(Exception):
    pass


class Hang(Exception):
    """the generator (which runs the implementation in-process) did not finish: some generated input makes the
    implementation loop or block"""
    def __init__(self, family, done):
        Exception.__init__(self, family)
        self.family, self.done = family, done


def sh(cmd, cwd=None, timeout=3600, env=None):
    """Run a command under a time limit.  (coreutils `timeout` is deliberately not used: wrapped in
    it, 16 parallel coqc processes spend minutes of system time in this sandbox.)"""
    import signal
    e = dict(os.environ)
    e["CARGO_NET_OFFLINE"] = "true"
    if env:
        e.update(env)
    p = subprocess.Popen(cmd, cwd=cwd, stdout=subprocess.PIPE, stderr=subprocess.STDOUT, env=e,
                         shell=isinstance(cmd, str))
    try:
        out, _ = p.communicate(timeout=timeout)
    except subprocess.TimeoutExpired:
        try:
            p.kill()
        except ProcessLookupError:
            pass
        out, _ = p.communicate()
        return 124, out.decode("utf-8", "replace") + "\n[timed out after %ds]" % timeout
    return p.returncode, out.decode("utf-8", "replace")


def strip_coq_comments(s):
    out = []
    depth = 0
    i = 0
    in_str = False
    while i < len(s):
        if depth == 0 and s[i] == '"':
            in_str = not in_str
            out.append(s[i]); i += 1; continue
        if not in_str and s.startswith("(*", i):
            depth += 1; i += 2; continue
        if not in_str and depth > 0 and s.startswith("*)", i):
            depth -= 1; i += 2; continue
        if depth == 0:
            out.append(s[i])
        i += 1
    return "".join(out)


def hygiene():
    """No Admitted/admit/Axiom/Parameter/... anywhere in the development; Variable/Hypothesis only
    inside sections (checked structurally: every such line must lie between Section and End)."""
    bad = []
    for d, _, fs in os.walk(os.path.join(COQ, "theories")):
        for f in fs:
            if not f.endswith(".v"):
                continue
            p = os.path.join(d, f)
            with open(p, encoding="utf-8") as fh:
                txt = strip_coq_comments(fh.read())
            # string literals may legitimately contain words (generated source text)
            code = re.sub(r'"(?:[^"]|"")*"', '""', txt)
            for m in FORBIDDEN.finditer(code):
                bad.append("%s: %s" % (os.path.relpath(p, ROOT), m.group(0)))
            depth = 0
            for line in code.split("\n"):
                if re.match(r"\s*Section\s+\w+", line):
                    depth += 1
                elif re.match(r"\s*End\s+\w+", line) and depth > 0:
                    depth -= 1
                elif re.match(r"\s*(Variables?|Hypothes[ie]s|Context)\b", line) and depth == 0:
                    bad.append("%s: %s outside a section" % (os.path.relpath(p, ROOT), line.strip()[:40]))
    with open(os.path.join(COQ, "_CoqProject"), encoding="utf-8") as fh:
        cp = fh.read()
    if "type-in-type" in cp or "impredicative-set" in cp or "-vos" in cp:
        bad.append("_CoqProject: forbidden flag")
    return bad


class Lock:
    def __enter__(self):
        os.makedirs(OUT, exist_ok=True)
        self.f = open(os.path.join(OUT, ".lock"), "w")
        fcntl.flock(self.f, fcntl.LOCK_EX)
        return self

    def __exit__(self, *a):
        fcntl.flock(self.f, fcntl.LOCK_UN)
        self.f.close()


def regenerate():
    rc, out = sh([sys.executable, os.path.join(ROOT, "tools", "extract_src.py")])
    if rc != 0:
        return False, out
    return True, out


def ensure_makefile():
    mk = os.path.join(COQ, "Makefile")
    cp = os.path.join(COQ, "_CoqProject")
    if not os.path.exists(mk) or os.path.getmtime(mk) < os.path.getmtime(cp):
        rc, out = sh("coq_makefile -f _CoqProject -o Makefile", cwd=COQ)
        if rc != 0:
            raise Infra("coq_makefile failed:\n" + out)


def make(targets, timeout=3000):
    ensure_makefile()
    return sh("ulimit -s 1000000 2>/dev/null; exec make -j%d %s" % (JOBS, " ".join(targets)), cwd=COQ, timeout=timeout)


def build_harness():
    lock_src = os.path.join(REPO, "Cargo.lock")
    lock_dst = os.path.join(HARNESS, "Cargo.lock")
    if not os.path.exists(lock_dst):
        shutil.copyfile(lock_src, lock_dst)
    rc, out = sh(["cargo", "build", "--release", "--offline", "--quiet"], cwd=HARNESS, timeout=1800)
    if rc != 0:
        # lock file may be stale w.r.t. /repo
        shutil.copyfile(lock_src, lock_dst)
        rc, out = sh(["cargo", "build", "--release", "--offline", "--quiet"], cwd=HARNESS, timeout=1800)
    return rc == 0, out


def props_obligations(pid):
    p = os.path.join(COQ, "theories", "Props", pid + ".v")
    if not os.path.exists(p):
        return []
    with open(p, encoding="utf-8") as fh:
        txt = strip_coq_comments(fh.read())
    return re.findall(r"^\s*Theorem\s+(\w+)", txt, re.M)


def check_proofs(pid):
    """Re-check Props/<id>.v (always recompiled so that Print Assumptions output is captured)."""
    names = props_obligations(pid)
    if not names:
        # development only: a property that is not yet claimed in MANIFEST.json has no Props file
        return {"obligations": 0, "discharged": 0, "names": [], "axioms": [], "log": "", "ok": True}
    vo = os.path.join(COQ, "theories", "Props", pid + ".vo")
    if os.path.exists(vo):
        os.remove(vo)
    rc, out = make(["theories/Props/%s.vo" % pid])
    info = {"obligations": len(names), "discharged": 0, "names": names, "axioms": [], "log": out[-4000:], "ok": False}
    if rc != 0:
        # how many theorems of the file were reached before the failure is not reported by make;
        # count none of them as discharged
        return info
    closed = len(re.findall(r"Closed under the global context", out))
    axioms = []
    for m in re.finditer(r"Axioms:\n((?:.+\n?)+?)(?:\n|$)", out):
        for ln in m.group(1).split("\n"):
            mm = re.match(r"^(\S+)\s*:", ln)
            if mm:
                axioms.append(mm.group(1))
    info["axioms"] = sorted(set(axioms))
    unexpected = [a for a in info["axioms"] if a not in ALLOWED_AXIOMS]
    # every theorem must be followed by a Print Assumptions that answered
    answered = closed + len(re.findall(r"^Axioms:", out, re.M))
    info["discharged"] = len(names) if (answered >= len(names) and not unexpected) else min(answered, len(names))
    info["ok"] = (answered >= len(names)) and not unexpected
    if unexpected:
        info["log"] += "\nunexpected axioms: " + ", ".join(unexpected)
    return info


def coqchk(pid):
    """Thorough tier only: re-check the compiled property file and everything it depends on with the
    independent checker and collect the axioms it reports."""
    rc, out = sh("ulimit -s 1000000 2>/dev/null; exec coqchk -o -silent -Q %s Verif Verif.Props.%s" % (
        os.path.join(COQ, "theories"), pid), cwd=COQ, timeout=3000)
    m = re.search(r"\* Axioms:(.*?)\n\s*\n\* Constants", out, re.S)
    axioms = []
    if m:
        txt = m.group(1).strip()
        if txt != "<none>":
            axioms = [a.strip() for a in txt.split("\n") if a.strip()]
    other = {}
    for key in ("type-in-type", "unsafe (co)fixpoints", "positivity is assumed"):
        mm = re.search(re.escape(key) + r":(.*?)\n\s*\n", out + "\n\n", re.S)
        if mm and mm.group(1).strip() not in ("<none>", ""):
            other[key] = mm.group(1).strip()[:300]
    ok = rc == 0 and m is not None and not [a for a in axioms if a not in ALLOWED_AXIOMS] and not other
    return {"ok": ok, "rc": rc, "axioms": axioms, "unsafe": other, "tail": out[-1500:]}


def new_panic_sites():
    """C08, advisory: panic-capable sites of the source that are not in the audited list (Run/Inventory.v)."""
    rc, out = make(["theories/Run/Inventory.vo"])
    if rc != 0:
        return None, out[-1500:]
    os.makedirs(os.path.join(OUT, "C08"), exist_ok=True)
    path = os.path.join(OUT, "C08", "inventory_eval.v")
    with open(path, "w", encoding="utf-8") as fh:
        fh.write("From Verif Require Import Run.Inventory.\nFrom Coq Require Import String List.\nImport ListNotations.\n"
                 "Open Scope string_scope.\nSet Printing Depth 100000.\nSet Printing Width 1000000.\n"
                 "Eval vm_compute in new_panic_sites.\n")
    rc, out = sh("coqc -noglob -Q %s Verif %s" % (os.path.join(COQ, "theories"), path), timeout=600)
    if rc != 0:
        return None, out[-1500:]
    sites = re.findall(r'\("([^"]*)",\s*"((?:[^"]|"")*)"\)', out)
    return [(m, st.replace('""', '"')) for m, st in sites], ""


# ----------------------------------------------------------------------------------------------
# correspondence

CTTRACE = os.path.join(HARNESS, "target", "release", "cttrace")


GEN_TIMEOUT = {"quick": 900}


def gen_cases(family, tier, seed, outfile):
    limit = GEN_TIMEOUT.get(tier, 3000)
    if family == "c07":
        rc, out = sh([CTTRACE, tier, str(seed), outfile], timeout=limit)
    else:
        rc, out = sh([GEN, family, tier, str(seed), outfile], timeout=limit)
    if rc == 124:
        done = 0
        try:
            with open(outfile, encoding="utf-8", errors="replace") as fh:
                done = sum(1 for _ in fh)
        except OSError:
            pass
        raise Hang(family, done)
    if rc != 0:
        raise Infra("harness generator failed (%s):\n%s" % (family, out[-3000:]))
    with open(outfile, encoding="utf-8") as fh:
        lines = [ln.rstrip("\n") for ln in fh if ln.strip()]
    cases = []
    for ln in lines:
        parts = ln.split("\t")
        if len(parts) != 3:
            raise Infra("bad case line: " + ln[:200])
        cases.append({"coq": parts[0], "input": parts[1], "tags": parts[2].split(",")})
    return cases


def replay_cases(input_lines, outfile):
    lines = []
    for binary, sel in ((GEN, lambda l: not l.startswith("cttrace")), (CTTRACE, lambda l: l.startswith("cttrace"))):
        mine = [ln for ln in input_lines if sel(ln)]
        if not mine:
            continue
        lst = outfile + ".inputs"
        with open(lst, "w", encoding="utf-8") as fh:
            for ln in mine:
                fh.write(ln + "\n")
        if binary == GEN:
            rc, out = sh([GEN, "replaymany", "x", "0", outfile, lst], timeout=3000)
        else:
            rc, out = sh([CTTRACE, "replay", "x", outfile, lst], timeout=3000)
        if rc != 0:
            raise Infra("harness replay failed:\n" + out[-3000:])
        with open(outfile, encoding="utf-8") as fh:
            lines += [ln.rstrip("\n") for ln in fh if ln.strip()]
    cases = []
    for ln in lines:
        parts = ln.split("\t")
        cases.append({"coq": parts[0], "input": parts[1], "tags": parts[2].split(",")})
    return cases


def case_weight(c):
    kind = c["coq"].split(" ", 1)[0]
    return max(1, len(c["coq"]) // 400) * (40 if kind == "ValidateCase" else 30 if kind == "KeyCase" else 1)


def run_shard(args):
    idx, path, timeout = args
    t0 = time.time()
    rc, out = sh("ulimit -s 1000000 2>/dev/null; exec coqc -noglob -Q %s Verif %s" % (
        os.path.join(COQ, "theories"), path), timeout=timeout)
    return idx, rc, out, time.time() - t0


def evaluate(cases, workdir, shard_weight=1500, timeout=1500):
    """Run the model on the cases; returns list of flags (one per case)."""
    os.makedirs(workdir, exist_ok=True)
    for f in os.listdir(workdir):
        if f.startswith("cases_"):
            os.remove(os.path.join(workdir, f))
    shards = []
    cur, w = [], 0
    # cases with very large literals (bodies of 64 KiB and more) make coqc use several GB each: they get
    # shards of their own, a few cases each, and at most HEAVY_JOBS of those run at the same time
    heavy = [i for i, c in enumerate(cases) if len(c["coq"]) > HEAVY_CHARS]
    heavy_set = set(heavy)
    total = sum(case_weight(c) for i, c in enumerate(cases) if i not in heavy_set)
    # about one shard per core (each coqc start costs ~1 s user + ~1.5 s system time here)
    shard_weight = max(shard_weight, total // JOBS + 1)
    for i, c in enumerate(cases):
        if i in heavy_set:
            continue
        cw = case_weight(c)
        if cur and w + cw > shard_weight:
            shards.append(cur); cur, w = [], 0
        cur.append(i); w += cw
    if cur:
        shards.append(cur)
    n_light = len(shards)
    for off in range(0, len(heavy), 3):
        shards.append(heavy[off:off + 3])
    jobs = []
    for k, idxs in enumerate(shards):
        path = os.path.join(workdir, "cases_%04d.v" % k)
        with open(path, "w", encoding="utf-8") as fh:
            fh.write("From Verif Require Import Run.Driver.\n")
            # chunks of 40 cases: keeps the list literals shallow (deep ones overflow coqc's stack)
            for off in range(0, len(idxs), 40):
                fh.write("Eval vm_compute in report_from %d%%N [\n" % off)
                fh.write(";\n".join(cases[i]["coq"] for i in idxs[off:off + 40]))
                fh.write("\n].\n")
        jobs.append((k, path, timeout))
    flags = [None] * len(cases)
    for pool_jobs, workers in ((jobs[:n_light], JOBS), (jobs[n_light:], HEAVY_JOBS)):
      if not pool_jobs:
          continue
      with concurrent.futures.ThreadPoolExecutor(max_workers=workers) as ex:
        for k, rc, out, dt in ex.map(run_shard, pool_jobs):
            if rc != 0:
                raise Infra("coqc failed on shard %d (rc=%d):\n%s" % (k, rc, out[-3000:]))
            answers = re.findall(r"=\s*(\[.*?\])\s*:\s*list N\b", out, re.S)
            if len(answers) != (len(shards[k]) + 39) // 40:
                raise Infra("cannot parse coqc output of shard %d:\n%s" % (k, out[-2000:]))
            for i in shards[k]:
                flags[i] = 0
            for a in answers:
                for tok in re.findall(r"\d+", a):
                    flags[shards[k][int(tok) // 1024]] = int(tok) % 1024
    for f in os.listdir(workdir):
        if f.startswith("cases_") and not f.endswith(".v"):
            os.remove(os.path.join(workdir, f))
    return flags


# hex-valued fields of a replay input that may be shortened (everything else - property number, options,
# times, provider script - is part of what makes the case fail and is kept as it is)
SHRINK_KEYS = {"validate": ("u", "b"), "c17": ("u", "b"), "c18": ("u", "b"), "path": ("p",), "query": ("q",),
               "key": ("s", "rg", "sv"), "capacity": ("s",), "iso": ("t",), "hdrval": ("v",)}


def shrink(case, workdir, want):
    """Greedy byte-deletion shrinking of the hex fields of a replay input; `want(flag)` says
    whether a candidate still shows the same failure."""
    best = case
    for _round in range(25):
        kind, _, rest = best["input"].partition(" ")
        toks = rest.split()
        cands = []
        for ti, tok in enumerate(toks):
            k, _, v = tok.partition("=")
            if len(v) < 2 or len(v) % 2 or not re.fullmatch(r"[0-9a-f]*", v) or k not in SHRINK_KEYS.get(kind, ()):
                continue
            n = len(v) // 2
            step = max(1, n // 40)
            for chunk in (max(1, n // 2), max(1, n // 4), 1):
                for pos in range(0, n, max(step, chunk)):
                    nv = v[:2 * pos] + v[2 * (pos + chunk):]
                    if nv != v:
                        cands.append(" ".join([kind] + toks[:ti] + [k + "=" + nv] + toks[ti + 1:]))
        cands = list(dict.fromkeys(cands))[:400]
        if not cands:
            break
        try:
            cs = replay_cases(cands, os.path.join(workdir, "shrink.cases"))
            fl = evaluate(cs, os.path.join(workdir, "shrink"))
        except Infra:
            break
        nxt = None
        for c, f in zip(cs, fl):
            if want(f):
                if nxt is None or len(c["input"]) < len(nxt["input"]):
                    nxt = c
                    nxt["flag"] = f
        if nxt is None or len(nxt["input"]) >= len(best["input"]):
            break
        best = nxt
    return best


# ----------------------------------------------------------------------------------------------

def load_known():
    p = os.path.join(ROOT, "known_findings.json")
    if not os.path.exists(p):
        return []
    with open(p, encoding="utf-8") as fh:
        return json.load(fh).get("entries", [])


def write_evidence(pid, ev):
    os.makedirs(EVIDENCE, exist_ok=True)
    with open(os.path.join(EVIDENCE, pid + ".json"), "w", encoding="utf-8") as fh:
        json.dump(ev, fh, indent=1, sort_keys=True)
        fh.write("\n")


def main():
    args = sys.argv[1:]
    if not args:
        print(__doc__)
        return 2
    pid = args[0]
    tier = os.environ.get("VERIF_TIER", "quick")
    replay = None
    i = 1
    while i < len(args):
        if args[i] == "--tier":
            tier = args[i + 1]; i += 2
        elif args[i] == "--replay":
            replay = args[i + 1]; i += 2
        else:
            i += 1
    if pid not in PROPS:
        print("unknown property", pid)
        return 2
    seed = int(os.environ.get("VERIF_SEED", "0") or 0)
    spec = PROPS[pid]
    t0 = time.time()
    work = os.path.join(OUT, pid)
    os.makedirs(work, exist_ok=True)
    known = [e for e in load_known() if e.get("property") == pid]
    open_classes = {e["class"]: e for e in known if e.get("status") == "open"}

    broken = []   # (what, detail): obligations / translations / correspondences that no longer check
    notes = []
    try:
        with Lock():
            bad = hygiene()
            if bad:
                print("INFRA: proof hygiene violated:\n  " + "\n  ".join(bad[:20]))
                return 2
            ok, out = regenerate()
            if not ok:
                raise Infra("extract_src.py failed:\n" + out)
            ok, out = build_harness()
            if not ok:
                raise Infra("cannot build the harness against %s (does the crate compile?):\n%s" % (REPO, out[-4000:]))
            rc, out = make(["theories/Run/Driver.vo"])
            if rc != 0:
                raise Infra("Run/Driver.vo does not build (model files must compile):\n" + out[-4000:])
            proofs = check_proofs(pid)
            chk = None
            if tier == "thorough" and proofs["ok"] and proofs["names"] and not replay:
                chk = coqchk(pid)
                if not chk["ok"]:
                    proofs["ok"] = False
                    proofs["log"] += "\ncoqchk did not confirm the property file:\n" + chk["tail"]
        if not proofs["ok"]:
            broken.append(("proof", "coq/theories/Props/%s.v no longer checks (theorems: %s)" % (pid, ", ".join(proofs["names"])),
                           proofs["log"][-1500:]))

        # ---- correspondence
        if replay:
            with open(replay, encoding="utf-8") as fh:
                rp = json.load(fh)
            inputs = rp.get("inputs") or ([rp["input"]] if rp.get("input") else [])
            cases = replay_cases(inputs, os.path.join(work, "replay.cases")) if inputs else []
        else:
            cases = []
            for fam in spec["families"]:
                cases += gen_cases(fam, tier, seed, os.path.join(work, fam + ".cases"))
        flags = evaluate(cases, os.path.join(work, "eval")) if cases else []
        advisory = {}
        if pid == "C08" and not replay:
            sites, err = new_panic_sites()
            advisory["new_panic_sites"] = sites if sites is not None else "could not evaluate: " + err
            if sites:
                # widen the search for a panicking input; no alarm unless one is found
                notes.append("panic-site inventory: %d site(s) not in the audited list; search widened" % len(sites))
                for stier, sseed in (("thorough", seed), ("search", seed + 1)):
                    if stier == tier:
                        continue
                    extra = []
                    for fam in spec["families"]:
                        extra += gen_cases(fam, stier, sseed, os.path.join(work, fam + ".inv.cases"))
                    ef = evaluate(extra, os.path.join(work, "inv"))
                    cases += extra
                    flags += ef
                    if any(f & 2 for f in ef):
                        break

        def classify(cases, flags):
            viol, kn, mism = [], [], []
            for c, f in zip(cases, flags):
                cls = f >> 2
                if f & 2:
                    if cls and cls in open_classes:
                        kn.append((c, f))
                    else:
                        viol.append((c, f))
                elif f & 1:
                    mism.append((c, f))
            return viol, kn, mism

        viol, kn, mism = classify(cases, flags)
        searched = 0
        if mism:
            broken.append(("correspondence", "model and implementation disagree on %d case(s), e.g. %s" % (len(mism), mism[0][0]["input"][:300]), ""))
        if broken and not viol and not replay:
            # ---- search for a concrete failing input of the property itself
            for stier, sseed in (("thorough", seed), ("search", seed + 1), ("search", seed + 2)):
                if stier == tier and sseed == seed:
                    continue
                sc = []
                for fam in spec["families"]:
                    sc += gen_cases(fam, stier, sseed, os.path.join(work, fam + ".search.cases"))
                sf = evaluate(sc, os.path.join(work, "search"))
                searched += len(sc)
                v2, k2, m2 = classify(sc, sf)
                kn += k2
                if v2:
                    viol = v2
                    break

        # ---- evidence
        tagcount = {}
        for c in cases:
            for t in c["tags"]:
                tagcount[t] = tagcount.get(t, 0) + 1
        distinct = len(set(c["input"] for c in cases if "trivial" not in c["tags"]))
        samples = []
        step = max(1, len(cases) // 6)
        for c in cases[::step][:6]:
            samples.append({"input": c["input"][:400], "tags": c["tags"], "term": c["coq"][:400]})
        for n in proofs["names"][:40]:
            samples.append({"obligation": n})
        violations = 1 if (viol or broken) else 0
        ev = {
            "property_id": pid,
            "tier": tier if tier in ("quick", "thorough") else "thorough",
            "seed": seed,
            "level": spec["level"],
            "coverage": {
                "obligations": proofs["obligations"],
                "discharged": proofs["discharged"],
                "checker_cmd": "make -C coq theories/Props/%s.vo (coqc 8.16.1, full .vo build) + Print Assumptions under every theorem" % pid,
                "trusted_base": spec["trusted_base"],
                "theorems": proofs["names"],
                "axioms_reported": proofs["axioms"],
                "coqchk": ({"ran": True, "ok": chk["ok"], "axioms": chk["axioms"]} if chk else {"ran": False, "note": "coqchk -o runs in the thorough tier"}),
                "evaluations": len(cases) + searched,
                "distinct_nontrivial": distinct,
                "rule": spec["rule"],
                "samples": samples,
                "input_distribution": dict(sorted(tagcount.items())),
                "correspondence_mismatches": len(mism),
                "known_finding_cases": len(kn),
                "search_cases": searched,
                "advisory": advisory,
                "notes": notes,
                "exhaustive": False,
            },
            "assumptions": spec["assumptions"],
            "wall_s": round(time.time() - t0, 2),
            "violations": violations,
        }
        if not replay:
            write_evidence(pid, ev)   # a replay re-runs one input; it does not describe a check run

        # ---- verdict
        seen_classes = {}
        for c, f in kn:
            seen_classes.setdefault(f >> 2, c)
        for cls, c in sorted(seen_classes.items()):
            e = open_classes[cls]
            print("KNOWN-FINDING: property=%s %s (e.g. %s)" % (pid, e["what"], c["input"][:160]))
        if viol:
            c, f = viol[0]
            try:
                c2 = shrink(dict(c), work, lambda g: (g & 2) and (g >> 2) == (f >> 2))
            except Exception:
                c2 = c
            rp = os.path.join(work, "replay_%d.json" % seed)
            with open(rp, "w", encoding="utf-8") as fh:
                json.dump({"property": pid, "input": c2["input"], "original_input": c["input"], "flags": f,
                           "observed": c2["coq"][:4000], "tags": c["tags"],
                           "meaning": "bit1: the property predicate fails on the implementation's observation for this input; "
                                      "bit0: implementation differs from the model",
                           "broken": [b[:2] for b in broken]}, fh, indent=1)
            print("property %s FAILS on input: %s" % (pid, c2["input"][:600]))
            print("VIOLATION property=%s replay=%s" % (pid, rp))
            return 1
        if broken:
            rp = os.path.join(work, "replay_%d.json" % seed)
            with open(rp, "w", encoding="utf-8") as fh:
                json.dump({"property": pid, "no_failing_input_found": True,
                           "no_longer_checks": [{"kind": k, "what": w, "log": l} for k, w, l in broken],
                           "inputs": [c["input"] for c, _ in mism[:20]],
                           "searched_cases": searched + len(cases)}, fh, indent=1)
            for k, w, _ in broken:
                print("BROKEN %s: %s" % (k, w[:500]))
            print("VIOLATION property=%s replay=%s no-failing-input-found" % (pid, rp))
            return 1
        print("OK property=%s tier=%s theorems=%d/%d cases=%d known_finding_cases=%d wall=%.1fs" % (
            pid, tier, proofs["discharged"], proofs["obligations"], len(cases), len(kn), time.time() - t0))
        return 0
    except Hang as h:
        msg = ("the implementation did not return on an input of generator family '%s' within the time limit "
               "(%d cases had completed): it loops or blocks" % (h.family, h.done))
        if pid == "C08":
            # totality is exactly this property: a call that never returns is a violation, even though the
            # input cannot be named (the generator runs the implementation in-process)
            rp = os.path.join(work, "replay_%d.json" % seed)
            with open(rp, "w", encoding="utf-8") as fh:
                json.dump({"property": pid, "no_failing_input_found": True, "hang": {"family": h.family, "completed_cases": h.done},
                           "no_longer_checks": [{"kind": "correspondence", "what": msg, "log": ""}]}, fh, indent=1)
            write_evidence(pid, {"property_id": pid, "tier": tier if tier in ("quick", "thorough") else "thorough", "seed": seed,
                                 "level": spec["level"],
                                 "coverage": {"obligations": 1, "discharged": 0, "checker_cmd": "n/a (generator did not terminate)",
                                              "trusted_base": spec["trusted_base"], "evaluations": h.done, "distinct_nontrivial": 0,
                                              "rule": spec["rule"], "samples": [{"hang_in_family": h.family}], "exhaustive": False},
                                 "assumptions": spec["assumptions"], "wall_s": round(time.time() - t0, 2), "violations": 1})
            print("BROKEN correspondence: " + msg)
            print("VIOLATION property=%s replay=%s no-failing-input-found" % (pid, rp))
            return 1
        print("INFRA: " + msg + "; run ./check C08")
        return 2
    except Infra as e:
        print("INFRA: " + str(e))
        return 2
    except subprocess.TimeoutExpired as e:
        print("INFRA: timeout: " + str(e))
        return 2


if __name__ == "__main__":
    sys.exit(main())
