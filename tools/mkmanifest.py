#!/usr/bin/env python3
"""Write MANIFEST.json from tools/properties.py (claimed checks) + the fixed property list."""
import json, os, sys
ROOT = os.path.normpath(os.path.join(os.path.dirname(os.path.abspath(__file__)), ".."))
sys.path.insert(0, os.path.dirname(os.path.abspath(__file__)))
from properties import PROPS, MANIFEST_TEXT, CLAIMED
ids = [json.loads(l)["id"] for l in open(os.path.join(ROOT, "properties.jsonl")) if l.strip()]
checks = []
na = []
for pid in ids:
    if pid in CLAIMED and pid in PROPS and pid in MANIFEST_TEXT:
        t = MANIFEST_TEXT[pid]
        checks.append({
            "property_id": pid,
            "quick_cmd": "./check %s --tier quick" % pid,
            "thorough_cmd": "./check %s --tier thorough" % pid,
            "evidence_file": "/verif/evidence/%s.json" % pid,
            "replay_cmd_template": "./check %s --replay {path}" % pid,
            "engine": "coq-model+correspondence",
            "level_claimed": {"category": PROPS[pid]["level"], "text": t["text"], "design_ref": t["design_ref"]},
            "level_note": t["note"],
            "technique": t["technique"],
        })
    else:
        na.append({"property_id": pid, "reason": "not claimed yet: the model, theorems and correspondence for this property are still being built (see DESIGN.md section 6); it is applicable in principle"})
m = {
    "version": 1,
    "setup_cmd": "./setup.sh",
    "hooks": {
        "guard": "scratchstack_aws_signature_verif",
        "enable": "no source hooks are needed: the harness depends on /repo by path with the crate's existing cargo feature `unstable`",
        "baseline_off_cmd": "cd /repo && cargo test --workspace --no-fail-fast --offline --lib --tests",
        "source_commits": [],
        "add_only": True,
    },
    "engines": [{
        "name": "coq-model+correspondence",
        "path": "/verif/coq, /verif/harness, /verif/tools",
        "serves_properties": [c["property_id"] for c in checks],
        "kind_free_text": "Rocq/Coq 8.16.1 proofs over a hand-written Gallina model; model tied to /repo on every run by a differential correspondence (Rust harness -> cases.v -> coqc vm_compute) and by constants regenerated from the source",
    }],
    "checks": checks,
    "notes": "Exit 2 = infrastructure error (no verdict). known_findings.json lists open findings and fixed: entries.",
    "not_applicable": na,
}
with open(os.path.join(ROOT, "MANIFEST.json"), "w") as fh:
    json.dump(m, fh, indent=1)
    fh.write("\n")
print("MANIFEST.json: %d checks, %d not claimed" % (len(checks), len(na)))
