#!/usr/bin/env python3
"""Development-time helper (NOT run by the checks): writes coq/theories/Props/<id>.v from the
table below by copying each theorem's statement out of its Proofs file, so that the property
files contain nothing but restated theorems closed by `exact`, plus Print Assumptions.
The generated files are committed; a later edit of a Proofs statement that weakens a theorem
makes `exact` fail against the pinned statement here.

usage: mkprops.py [C09 ...]
"""
import os, re, sys
ROOT = os.path.normpath(os.path.join(os.path.dirname(os.path.abspath(__file__)), ".."))
TH = os.path.join(ROOT, "coq", "theories")

# property -> list of (module, theorem name, section prefix or "")
HP = "forall (H : bytes -> bytes), "
TABLE = {
    "C05": [("ReqProofs", n, "") for n in
            ["add_name_denotes", "remove_name_denotes", "C05_containers_refine_sets", "C05_reqs_ok_extensional",
             "C05_reqs_ok_meaning"]],
    "C06": [("KeyProofs", "hmac_zero_pad", "")] +
           [("KeyProofs", n, sec) for n, sec in
            [("C06_capacity", ""), ("C06_too_long", ""), ("C06_never_panics", ""), ("C06_readback", ""),
             ("C06_buffer_shape", ""), ("C06_kdate", HP), ("C06_chain", HP), ("C06_shortcuts", HP),
             ("C06_terminator", ""), ("C06_date_format", ""), ("C06_date_format_inj", "")]],
    "C09": [("PathProofs", n, "") for n in
            ["normalize_elem_path_spec", "pct_decode_encode", "pct_encode_inj", "C09_model_is_spec", "C09_idempotent",
             "C09_fails_iff_spec_fails", "C09_spec_failure_set", "C09_alphabet", "C09_no_dot_segments",
             "C09_spelling_insensitive", "C09_model_is_spec_plus_refuted"]],
    "C10": [("QueryProofs", n, "") for n in
            ["sort_pairs_perm", "sort_pairs_sorted", "sort_pairs_unique", "C10_order_independent", "C10_model_is_spec",
             "C10_error_iff", "C10_multiset", "C10_lists_every_pair", "qmap_extend_flatten_perm", "query_map_flatten_perm"]],
    "C11": [("HeaderProofs", n, "") for n in
            ["C11_value_normal_form", "norm_value_idempotent", "norm_value_pad", "norm_value_space_run", "norm_value_shape",
             "hget_normalize_headers", "C11_block_is_spec", "C11_block_per_name_order", "C11_block_name_case",
             "C11_block_unsigned"]],
    "C16": [("IsoProofs", n, "") for n in
            ["iso_regex_sound", "iso_regex_complete", "wf_iso8601_functional", "C16_accept_iff", "C16_rejects",
             "C16_scope_date_is_prefix", "C16_compact_length", "C16_render_roundtrip"]] +
           [("CalendarProofs", n, "") for n in
            ["year_of_day_spec", "days_before_year_succ", "civil_of_days_of_civil", "days_of_civil_of_days",
             "days_of_civil_inj", "unix_epoch_day_correct", "no_feb_30", "feb_29_iff_leap", "no_day_32", "no_month_13"]],
}
# later tables are merged in from mkprops_extra.py if present
try:
    sys.path.insert(0, os.path.dirname(os.path.abspath(__file__)))
    from mkprops_extra import EXTRA  # noqa
    for k, v in EXTRA.items():
        TABLE.setdefault(k, []).extend(v)
except ImportError:
    pass

HEADER = {}


def strip_comments(s):
    out, depth, i = [], 0, 0
    while i < len(s):
        if s.startswith("(*", i):
            depth += 1; i += 2; continue
        if depth and s.startswith("*)", i):
            depth -= 1; i += 2; continue
        if not depth:
            out.append(s[i])
        i += 1
    return "".join(out)


def imports_of(mod):
    with open(os.path.join(TH, "Proofs", mod + ".v")) as fh:
        s = strip_comments(fh.read())
    imps = re.findall(r"^((?:From|Require)\b.*?\.)\s*$", s, re.M | re.S)
    opens = re.findall(r"^((?:Local )?Open Scope \w+\.)", s, re.M)
    opens += re.findall(r"^(Local Notation \w+ := [\w.]+\.)", s, re.M)
    return imps, opens


def statement(mod, name):
    with open(os.path.join(TH, "Proofs", mod + ".v")) as fh:
        s = strip_comments(fh.read())
    m = re.search(r"^\s*(?:Theorem|Lemma|Corollary)\s+%s\b(.*?)\.\s*\n\s*Proof" % re.escape(name), s, re.S | re.M)
    if not m:
        raise SystemExit("cannot find %s.%s" % (mod, name))
    body = m.group(1).strip()
    # binder form "x y (z : T) : stmt" -> "forall x y (z : T), stmt"
    if not body.startswith(":"):
        depth = 0
        for i, ch in enumerate(body):
            if ch in "({[":
                depth += 1
            elif ch in ")}]":
                depth -= 1
            elif ch == ":" and depth == 0 and not body.startswith(":=", i):
                binders, stmt = body[:i].strip(), body[i + 1:].strip()
                return "forall %s, %s" % (binders, stmt)
        raise SystemExit("cannot split binders of %s" % name)
    return body[1:].strip()


PREFIX = {}
_LOCALH = {}
_SEC = {}


def local_h(mod):
    """section-local definitions of a Proofs module that are generalised over the section variable H"""
    if mod in _LOCALH:
        return _LOCALH[mod]
    import subprocess
    names, depth, sec = [], 0, 0
    secof, thsec = {}, {}
    for l in open(os.path.join(TH, "Proofs", mod + ".v")):
        if re.match(r"\s*Section\s+\w+", l):
            depth += 1; sec += 1
        elif re.match(r"\s*End\s+\w+", l) and depth:
            depth -= 1
        elif depth:
            m = re.match(r"\s*(?:Definition|Fixpoint)\s+(\w+)", l)
            if m:
                names.append(m.group(1)); secof[m.group(1)] = sec
            m = re.match(r"\s*(?:Theorem|Lemma|Corollary)\s+(\w+)", l)
            if m:
                thsec[m.group(1)] = sec
    _SEC[mod] = (secof, thsec)
    res = set()
    if names:
        tmp = "/tmp/mkprops_chk.v"
        with open(tmp, "w") as fh:
            fh.write("From Verif Require Import Proofs.%s.\n" % mod)
            for n in names:
                fh.write("Check %s.%s.\n" % (mod, n))
        out = subprocess.run("coqc -noglob -Q %s Verif %s" % (TH, tmp), shell=True, stdout=subprocess.PIPE,
                             stderr=subprocess.STDOUT).stdout.decode()
        out = " ".join(out.split())
        for n in names:
            m = re.search(r"%s\.%s : (\S+ \S+ \S+)" % (mod, n), out) or re.search(r"\b%s : (\S+ \S+ \S+)" % n, out)
            if m and m.group(1).replace("Bytes.", "").startswith("(bytes -> bytes)"):
                res.add(n)
    _LOCALH[mod] = res
    return res


def trial(pid):
    """compile Props/<pid>.v; on a failing theorem whose prefix is undetermined, switch it to the H prefix and retry"""
    import subprocess
    names = [(m, n) for m, n, pre in TABLE[pid] if pre is None]
    for _ in range(len(names) + 2):
        write(pid)
        r = subprocess.run("coqc -noglob -Q %s Verif %s" % (TH, os.path.join(TH, "Props", pid + ".v")), shell=True,
                           stdout=subprocess.PIPE, stderr=subprocess.STDOUT)
        out = r.stdout.decode()
        if r.returncode == 0:
            return True
        m = re.search(r'line (\d+), characters', out)
        if not m:
            print(out[-2000:]); return False
        ln = int(m.group(1))
        src = open(os.path.join(TH, "Props", pid + ".v")).read().split("\n")
        # find the theorem enclosing that line
        th = None
        for i in range(ln - 1, -1, -1):
            mm = re.match(r"Theorem (\w+) :", src[i])
            if mm:
                th = mm.group(1); break
        cand = [(m_, n) for m_, n in names if (n if re.match(r"C\d\d", n) else "%s_%s" % (pid, n)) == th]
        if not cand or PREFIX.get(cand[0]) == HP:
            print("cannot fix %s in %s:\n%s" % (th, pid, out[-1500:])); return False
        PREFIX[cand[0]] = HP
    return False


def main():
    ids = sys.argv[1:] or sorted(TABLE)
    for pid in ids:
        if any(pre is None for _, _, pre in TABLE[pid]):
            print(pid, "trial:", trial(pid))
        else:
            write(pid)


def write_all():
    ids = sys.argv[1:] or sorted(TABLE)
    for pid in ids:
        write(pid)


def write(pid):
    os.makedirs(os.path.join(TH, "Props"), exist_ok=True)
    if True:
        mods = []
        for mod, _, _ in TABLE[pid]:
            if mod not in mods:
                mods.append(mod)
        lines = ["(* Property %s: statement pins.  Nothing but restated theorems closed by [exact], with" % pid,
                 "   Print Assumptions under each.  Written by tools/mkprops.py at development time; committed. *)"]
        seen = set()
        opens = []
        for mod in mods:
            imps, ops = imports_of(mod)
            for im in imps:
                im1 = " ".join(im.split())
                if im1 not in seen:
                    seen.add(im1); lines.append(im1)
            for o in ops:
                if o not in opens:
                    opens.append(o)
        lines.append("From Verif Require Import " + " ".join("Proofs." + m for m in mods) + ".")
        for o in opens:
            lines.append(o if o.startswith("Local") else "Local " + o)
        lines.append("")
        for mod, name, pre in TABLE[pid]:
            if pre is None:
                pre = PREFIX.get((mod, name), "")
            st = statement(mod, name)
            lhs = local_h(mod)
            secof, thsec = _SEC[mod]
            lh = [n for n in lhs if re.search(r"\b%s\b" % n, st) and secof.get(n) == thsec.get(name)]
            if lh:
                pre = HP
                for n in lh:
                    st = re.sub(r"\b%s\b" % n, "(%s H)" % n, st)
            pname = name if re.match(r"C\d\d", name) else "%s_%s" % (pid, name)
            lines.append("Theorem %s :\n  %s%s." % (pname, pre, st))
            lines.append("Proof. exact %s.%s. Qed." % (mod, name))
            lines.append("Print Assumptions %s." % pname)
            lines.append("")
        with open(os.path.join(TH, "Props", pid + ".v"), "w") as fh:
            fh.write("\n".join(lines))
        print("wrote Props/%s.v (%d theorems)" % (pid, len(TABLE[pid])))


if __name__ == "__main__":
    main()
