#!/bin/sh
# Development-time measurement (not run by any check): line/region coverage of /repo/src achieved by the quick
# tier of all generator families, using -C instrument-coverage on the nightly toolchain and its llvm-tools.
# usage: tools/coverage.sh [tier]      (writes /tmp/covrun; prints the llvm-cov report)
set -e
TIER=${1:-quick}
ROOT=$(cd "$(dirname "$0")/.." && pwd)
W=/tmp/covrun
rm -rf $W; mkdir -p $W/prof $W/out
rsync -a --exclude target "$ROOT/harness/" $W/harness/
cp /repo/Cargo.lock $W/harness/Cargo.lock
(cd $W/harness && CARGO_NET_OFFLINE=true RUSTFLAGS="-C instrument-coverage" cargo +nightly build --release --offline --quiet)
export LLVM_PROFILE_FILE="$W/prof/%p-%m.profraw"
for f in path c01 c02 c15 c03 c04 c05 c11 c12 c13 c14 c16e c19 c08 c10 c06 c16 reqops hdrval errtab c17 c18; do
  $W/harness/target/release/gen $f $TIER 0 $W/out/$f.cases 2>/dev/null || true
done
$W/harness/target/release/cttrace $TIER 0 $W/out/c07.cases 2>/dev/null || true
T=$(dirname "$(rustup +nightly which rustc)")/../lib/rustlib/x86_64-unknown-linux-gnu/bin
$T/llvm-profdata merge -sparse $W/prof/*.profraw -o $W/all.profdata
$T/llvm-cov report $W/harness/target/release/gen -object $W/harness/target/release/cttrace -instr-profile=$W/all.profdata /repo/src
echo "--- uncovered lines ---"
$T/llvm-cov show $W/harness/target/release/gen -object $W/harness/target/release/cttrace -instr-profile=$W/all.profdata /repo/src \
  --show-line-counts-or-regions 2>/dev/null | grep -E "^\s+[0-9]+\|\s+0\|" | cut -c1-140
