#!/usr/bin/env python3
"""Print the seeded-change catch matrix (markdown) from seeded/*/meta.json."""
import json, os
ROOT = os.path.normpath(os.path.join(os.path.dirname(os.path.abspath(__file__)), ".."))
rows = []
for d in sorted(os.listdir(os.path.join(ROOT, "seeded"))):
    mp = os.path.join(ROOT, "seeded", d, "meta.json")
    if os.path.exists(mp):
        m = json.load(open(mp))
        rows.append((d, m["breaks_property"], m["needs_to_manifest"], m.get("first_result", m["result"]), m.get("now", m["result"])))
print("| seeded change | property | needs, to manifest | first quick tier | current quick tier |")
print("|---|---|---|---|---|")
for r in rows:
    print("| `%s` | %s | %s | %s | %s |" % r)
