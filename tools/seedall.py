#!/usr/bin/env python3
"""Development-time regression of the machinery: run every seeded change (seeded/*/patch.diff) against
its property's quick check in isolated slots (tools/seedtest.py --slot), N in parallel, and record the
verdict in seeded/<name>/meta.json ("now"); the first recorded verdict is kept as "first_result".
Also runs the unchanged tree once per property involved ("-" patch) to show the check is quiet there.

usage: seedall.py [--jobs 4] [--tier quick] [--only PREFIX] [--extra-props]
"""
import concurrent.futures, json, os, subprocess, sys, time

ROOT = os.path.normpath(os.path.join(os.path.dirname(os.path.abspath(__file__)), ".."))


def run(slot, patch, pids, tier):
    cmd = [sys.executable, os.path.join(ROOT, "tools", "seedtest.py"), "run", patch] + pids + ["--slot", str(slot), "--tier", tier]
    p = subprocess.run(cmd, cwd=ROOT, stdout=subprocess.PIPE, stderr=subprocess.STDOUT)
    out = p.stdout.decode("utf-8", "replace")
    last = [l for l in out.split("\n") if l.startswith("{")]
    try:
        return json.loads(last[-1])
    except Exception:
        return {"error": out[-600:]}


def main():
    args = sys.argv[1:]
    jobs, tier, only = 4, "quick", None
    if "--jobs" in args:
        jobs = int(args[args.index("--jobs") + 1])
    if "--tier" in args:
        tier = args[args.index("--tier") + 1]
    if "--only" in args:
        only = args[args.index("--only") + 1]
    names = sorted(d for d in os.listdir(os.path.join(ROOT, "seeded")) if os.path.exists(os.path.join(ROOT, "seeded", d, "patch.diff")))
    if only:
        names = [n for n in names if n.startswith(only)]
    work = [(n, json.load(open(os.path.join(ROOT, "seeded", n, "meta.json")))) for n in names]
    queue = list(work)
    results = {}

    def worker(slot):
        while True:
            try:
                name, meta = queue.pop(0)
            except IndexError:
                return
            t0 = time.time()
            r = run(10 + slot, os.path.join(ROOT, "seeded", name, "patch.diff"), [meta["breaks_property"]], tier)
            results[name] = r
            pid = meta["breaks_property"]
            rr = r.get(pid, {})
            rc = rr.get("rc")
            lines = rr.get("lines", [])
            viol = [l for l in lines if l.startswith("VIOLATION")]
            fails = [l for l in lines if l.startswith("property ")]
            if rc == 1 and viol:
                verdict = "caught: " + ("no-failing-input-found (broken obligation)" if "no-failing-input-found" in viol[0]
                                        else (fails[0][:160] if fails else "VIOLATION"))
            elif rc == 0:
                verdict = "MISSED"
            else:
                verdict = "INFRA rc=%s %s" % (rc, str(r)[:200])
            print("%-45s %s %s (%.0fs)" % (name, pid, verdict[:150], time.time() - t0), flush=True)
            mp = os.path.join(ROOT, "seeded", name, "meta.json")
            m = json.load(open(mp))
            if "first_result" not in m:
                m["first_result"] = m.get("result", "")
            m["now"] = verdict + " (%s tier)" % tier
            m["result"] = m["now"]
            json.dump(m, open(mp, "w"), indent=1)

    with concurrent.futures.ThreadPoolExecutor(max_workers=jobs) as ex:
        list(ex.map(worker, range(jobs)))
    caught = sum(1 for n, _ in work if json.load(open(os.path.join(ROOT, "seeded", n, "meta.json")))["now"].startswith("caught"))
    print("caught %d of %d" % (caught, len(work)))


if __name__ == "__main__":
    main()
