#!/usr/bin/env python3
"""Regenerate coq/theories/Generated/SrcConsts.v from /repo/src/*.rs.

A deliberately small, shape-checking translator: it copies literals, match tables and
syntactic inventories out of the Rust source into Gallina definitions.  The model and the
property theorems *use* these definitions, so they are re-checked against what the source
says now.  When a construct no longer has the shape this script understands, the
corresponding definition is emitted as an explicit `Unrecognised` marker value (never
guessed), which breaks the obligations that depend on it.

Only non-test code is read: everything from the first `#[cfg(test)]` on is dropped.
"""
import os
import re
import sys

REPO = os.environ.get("VERIF_REPO", "/repo")
OUT = os.path.join(os.environ.get("VERIF_COQ", os.path.join(os.path.dirname(os.path.abspath(__file__)), "..", "coq")),
                   "theories", "Generated", "SrcConsts.v")


def read_src(name):
    with open(os.path.join(REPO, "src", name), encoding="utf-8") as f:
        s = f.read()
    i = s.find("#[cfg(test)]\nmod ")
    if i >= 0:
        s = s[:i]
    return s


def strip_comments(s):
    # remove // comments (not inside string literals: good enough, sources have no "//" in
    # code-position strings except URLs inside string literals, which we protect)
    out = []
    for line in s.split("\n"):
        res = []
        in_str = False
        i = 0
        while i < len(line):
            ch = line[i]
            if in_str:
                res.append(ch)
                if ch == "\\" and i + 1 < len(line):
                    res.append(line[i + 1])
                    i += 1
                elif ch == '"':
                    in_str = False
            else:
                if ch == '"':
                    in_str = True
                    res.append(ch)
                elif ch == "/" and i + 1 < len(line) and line[i + 1] == "/":
                    break
                else:
                    res.append(ch)
            i += 1
        out.append("".join(res))
    return "\n".join(out)


def coq_str(s):
    return '"' + s.replace('"', '""') + '"'


def rust_unescape(lit):
    """Decode the body of a Rust (byte) string literal into a list of ints (bytes)."""
    out = []
    i = 0
    b = lit.encode("utf-8")
    while i < len(b):
        c = b[i]
        if c == 0x5C:  # backslash
            n = chr(b[i + 1])
            if n == "n":
                out.append(10); i += 2
            elif n == "r":
                out.append(13); i += 2
            elif n == "t":
                out.append(9); i += 2
            elif n == "0":
                out.append(0); i += 2
            elif n == "\\":
                out.append(0x5C); i += 2
            elif n == '"':
                out.append(0x22); i += 2
            elif n == "'":
                out.append(0x27); i += 2
            elif n == "x":
                out.append(int(b[i + 2:i + 4].decode(), 16)); i += 4
            elif n == "\n":
                # line continuation: skip newline and leading whitespace
                i += 2
                while i < len(b) and chr(b[i]) in " \t\n\r":
                    i += 1
            else:
                raise ValueError("unknown escape \\" + n)
        else:
            out.append(c)
            i += 1
    return out


def bytes_term(bs):
    return "[" + "; ".join("x%02x" % b for b in bs) + "]"


def balanced(s, start, open_ch, close_ch):
    """s[start] == open_ch; return index just after the matching close_ch (string-literal aware)."""
    assert s[start] == open_ch, (s[start:start + 20], open_ch)
    depth = 0
    i = start
    in_str = False
    while i < len(s):
        ch = s[i]
        if in_str:
            if ch == "\\":
                i += 1
            elif ch == '"':
                in_str = False
        else:
            if ch == '"':
                in_str = True
            elif ch == "'" and i + 2 < len(s) and (s[i + 2] == "'" or (s[i + 1] == "\\" and s[i + 3] == "'")):
                # char literal
                i += 3 if s[i + 1] == "\\" else 2
            elif ch == open_ch:
                depth += 1
            elif ch == close_ch:
                depth -= 1
                if depth == 0:
                    return i + 1
        i += 1
    raise ValueError("unbalanced")


def fn_body(src, signature_re):
    m = re.search(signature_re, src)
    if not m:
        return None
    i = src.index("{", m.end() - 1) if src[m.end() - 1] != "{" else m.end() - 1
    j = balanced(src, i, "{", "}")
    return src[i + 1:j - 1]


def norm_ws(s):
    return re.sub(r"\s+", " ", s).strip()


# ----------------------------------------------------------------------------------------------
# Boolean byte-expression translator (for is_rfc3986_unreserved)

def translate_byte_pred(expr, var):
    """expr is a `||`-disjunction of `var.is_ascii_xxx()` and `var == b'X'` atoms."""
    atoms = [a.strip() for a in expr.split("||")]
    out = []
    for a in atoms:
        m = re.fullmatch(re.escape(var) + r"\.(is_ascii_[a-z]+)\(\)", a)
        if m and m.group(1) in ("is_ascii_alphanumeric", "is_ascii_digit", "is_ascii_whitespace"):
            out.append("%s %s" % (m.group(1), var))
            continue
        if m and m.group(1) == "is_ascii_uppercase":
            out.append("is_ascii_upper %s" % var); continue
        if m and m.group(1) == "is_ascii_lowercase":
            out.append("is_ascii_lower %s" % var); continue
        if m and m.group(1) == "is_ascii_alphabetic":
            out.append("(is_ascii_upper %s || is_ascii_lower %s)" % (var, var)); continue
        m = re.fullmatch(re.escape(var) + r"\s*==\s*b'(\\?.)'", a)
        if m:
            bs = rust_unescape(m.group(1))
            out.append("beqb %s x%02x" % (var, bs[0]))
            continue
        m = re.fullmatch(r"\(?\s*b'(\\?.)'\s*\.\.=\s*b'(\\?.)'\s*\)?\.contains\(&" + re.escape(var) + r"\)", a)
        if m:
            lo = rust_unescape(m.group(1))[0]; hi = rust_unescape(m.group(2))[0]
            out.append("in_range %d %d %s" % (lo, hi, var)); continue
        m = re.fullmatch(r"matches!\(\s*" + re.escape(var) + r"\s*,(.*)\)", a, re.S)
        if m:
            alts = [x.strip() for x in m.group(1).split("|")]
            sub = []
            ok = True
            for alt in alts:
                mm = re.fullmatch(r"b'(\\?.)'", alt)
                if mm:
                    sub.append("beqb %s x%02x" % (var, rust_unescape(mm.group(1))[0])); continue
                mm = re.fullmatch(r"b'(\\?.)'\s*\.\.=\s*b'(\\?.)'", alt)
                if mm:
                    sub.append("in_range %d %d %s" % (rust_unescape(mm.group(1))[0], rust_unescape(mm.group(2))[0], var)); continue
                ok = False
            if ok:
                out.append("(" + " || ".join(sub) + ")"); continue
        return None
    return "(" + " || ".join(out) + ")%bool"


# ----------------------------------------------------------------------------------------------

def main():
    files = ["auth.rs", "canonical.rs", "chronoutil.rs", "crypto.rs", "error.rs", "signature.rs", "signing_key.rs"]
    src = {f: strip_comments(read_src(f)) for f in files}
    o = []
    w = o.append
    w("(* GENERATED by tools/extract_src.py from %s/src -- do not edit. *)" % REPO)
    w("From Verif Require Import Base.Bytes.")
    w("From Coq Require Import Strings.String.")
    w("Local Open Scope string_scope.")
    w("")

    # 1. is_rfc3986_unreserved
    body = fn_body(src["canonical.rs"], r"fn is_rfc3986_unreserved\(c: u8\) -> bool \{")
    tr = translate_byte_pred(norm_ws(body), "c") if body is not None else None
    w("(* canonical.rs is_rfc3986_unreserved: %s *)" % (norm_ws(body).replace("*)", "* )") if body else "NOT FOUND"))
    if tr is None:
        w("Definition src_is_rfc3986_unreserved_recognised : bool := false.")
        w("Definition src_is_rfc3986_unreserved (c : byte) : bool := false.")
    else:
        w("Definition src_is_rfc3986_unreserved_recognised : bool := true.")
        w("Definition src_is_rfc3986_unreserved (c : byte) : bool := %s." % tr)
    w("")

    # 2. HEX_DIGITS_UPPER
    m = re.search(r"const HEX_DIGITS_UPPER: \[u8; 16\] =\s*\[(.*?)\];", src["canonical.rs"], re.S)
    digs = []
    if m:
        for a in m.group(1).split(","):
            a = a.strip()
            if not a:
                continue
            mm = re.fullmatch(r"b'(\\?.)'", a)
            digs.append(rust_unescape(mm.group(1))[0] if mm else 0)
    w("Definition src_HEX_DIGITS_UPPER : list byte := %s." % bytes_term(digs))
    mm = re.search(r"fn u8_to_upper_hex\(b: u8\) -> \[u8; 2\] \{(.*?)\n\}", src["canonical.rs"], re.S)
    w("Definition src_u8_to_upper_hex_body : string := %s." % coq_str(norm_ws(mm.group(1)) if mm else "NOT FOUND"))
    w("")

    # 3. the allowed clock mismatch handed to validate_signature by sigv4_validate_request, in nanoseconds:
    #    `Duration::<unit>(<CONST or literal>)`, whatever the constant is called and whatever the unit
    ns = -1
    unit = "NOT FOUND"
    body = fn_body(src["signature.rs"], r"pub async fn sigv4_validate_request<") or src["signature.rs"]
    mults = {"weeks": 7 * 86400 * 10**9, "days": 86400 * 10**9, "hours": 3600 * 10**9, "minutes": 60 * 10**9, "seconds": 10**9,
             "milliseconds": 10**6, "microseconds": 10**3, "nanoseconds": 1}
    cands = re.findall(r"Duration::(\w+)\(\s*([A-Za-z_][A-Za-z0-9_]*|\d[\d_]*)\s*\)", body)
    if len(cands) == 1 and cands[0][0] in mults:
        unit, arg = cands[0]
        val = None
        if arg[0].isdigit():
            val = int(arg.replace("_", ""))
        else:
            for f in files:
                mm = re.search(r"const %s: \w+ = (\d[\d_]*);" % re.escape(arg), src[f])
                if mm:
                    val = int(mm.group(1).replace("_", ""))
        if val is not None:
            ns = val * mults[unit]
    w("Definition src_allowed_mismatch_ns : Z := %s%%Z." % (str(ns) if ns >= 0 else "(-1)"))
    w("Definition src_allowed_mismatch_unit : string := %s." % coq_str(unit))
    w("")

    # 4. string / byte-string constants
    w("(* const NAME: &str / &[u8] literals, per file *)")
    consts = []
    for f in files:
        for m in re.finditer(r"const ([A-Z0-9_]+): &(?:'static )?(str|\[u8\]) =\s*b?\"((?:[^\"\\]|\\.)*)\";", src[f], re.S):
            consts.append((f[:-3], m.group(1), rust_unescape(m.group(3))))
    for f, name, bs in consts:
        w("Definition src_%s_%s : bytes := %s." % (f, name, bytes_term(bs)))
    w("Definition src_const_names : list string := [%s]." % "; ".join(coq_str(f + "." + n) for f, n, _ in consts))
    w("")

    # 5. error enum, code and status tables
    m = re.search(r"pub enum SignatureError \{(.*?)\n\}", src["error.rs"], re.S)
    variants = re.findall(r"^\s*([A-Z][A-Za-z0-9]*)\(", m.group(1), re.M) if m else []
    w("Definition src_error_variants : list string := [%s]." % "; ".join(coq_str(v) for v in variants))
    errconsts = dict((n, bs) for f, n, bs in consts if f == "error")

    def match_arms(body):
        mm = re.search(r"match self \{(.*)\}", body, re.S)
        arms = []
        for arm in re.finditer(r"((?:Self::\w+\(_\)|_)(?:\s*\|\s*Self::\w+\(_\))*)\s*=>\s*([A-Za-z0-9_:]+),", mm.group(1), re.S):
            pats = [p.strip() for p in arm.group(1).split("|")]
            arms.append((pats, arm.group(2)))
        return arms

    body = fn_body(src["error.rs"], r"fn error_code\(&self\) -> &'static str \{")
    code_rows = []
    code_default = None
    ok = body is not None
    if ok:
        for pats, rhs in match_arms(body):
            if rhs not in errconsts:
                ok = False
                break
            for p in pats:
                if p == "_":
                    code_default = errconsts[rhs]
                else:
                    code_rows.append((re.fullmatch(r"Self::(\w+)\(_\)", p).group(1), errconsts[rhs]))
    w("Definition src_error_code_recognised : bool := %s." % ("true" if ok else "false"))
    w("Definition src_error_code_table : list (string * bytes) := [%s]." % "; ".join("(%s, %s)" % (coq_str(k), bytes_term(v)) for k, v in code_rows))
    w("Definition src_error_code_default : option bytes := %s." % ("None" if code_default is None else "Some " + bytes_term(code_default)))

    statuses = {"BAD_REQUEST": 400, "FORBIDDEN": 403, "INTERNAL_SERVER_ERROR": 500, "OK": 200, "UNAUTHORIZED": 401,
                "NOT_FOUND": 404, "SERVICE_UNAVAILABLE": 503, "CREATED": 201, "ACCEPTED": 202, "NO_CONTENT": 204,
                "METHOD_NOT_ALLOWED": 405, "CONFLICT": 409, "PAYLOAD_TOO_LARGE": 413, "URI_TOO_LONG": 414,
                "UNSUPPORTED_MEDIA_TYPE": 415, "TOO_MANY_REQUESTS": 429, "NOT_IMPLEMENTED": 501, "BAD_GATEWAY": 502,
                "GATEWAY_TIMEOUT": 504, "MOVED_PERMANENTLY": 301, "FOUND": 302, "NOT_MODIFIED": 304}
    body = fn_body(src["error.rs"], r"fn http_status\(&self\) -> StatusCode \{")
    st_rows = []
    st_default = None
    ok = body is not None
    if ok:
        for pats, rhs in match_arms(body):
            mm = re.fullmatch(r"StatusCode::([A-Z_]+)", rhs)
            if not mm or mm.group(1) not in statuses:
                ok = False
                break
            for p in pats:
                if p == "_":
                    st_default = statuses[mm.group(1)]
                else:
                    st_rows.append((re.fullmatch(r"Self::(\w+)\(_\)", p).group(1), statuses[mm.group(1)]))
    w("Definition src_http_status_recognised : bool := %s." % ("true" if ok else "false"))
    w("Definition src_http_status_table : list (string * N) := [%s]." % "; ".join("(%s, %d%%N)" % (coq_str(k), v) for k, v in st_rows))
    w("Definition src_http_status_default : option N := %s." % ("None" if st_default is None else "Some %d%%N" % st_default))
    w("")

    # 6. regexes
    regs = []
    for f in ("canonical.rs", "chronoutil.rs"):
        for m in re.finditer(r"static ref ([A-Z0-9_]+): Regex = Regex::new\(\s*r?\"((?:[^\"\\]|\\.)*)\"\s*\)", src[f], re.S):
            regs.append((m.group(1), m.group(2)))
    w("Definition src_regexes : list (string * string) := [%s]." % "; ".join("(%s, %s)" % (coq_str(n), coq_str(norm_ws(r) if r.startswith("(?x)") else r)) for n, r in regs))
    w("")

    # 7. key renderings
    rows = []
    for m in re.finditer(r"impl (Debug|Display) for (K\w+Key) \{\s*fn fmt\(&self, f: &mut Formatter<'_>\) -> FmtResult \{(.*?)\}\s*\}", src["signing_key.rs"], re.S):
        b = norm_ws(m.group(3))
        mm = re.fullmatch(r'f\.write_str\("((?:[^"\\]|\\.)*)"\)', b)
        rows.append((m.group(2), m.group(1), mm.group(1) if mm else None, b))
    w("Definition src_key_renderings : list (string * string * option string) := [%s]." % "; ".join(
        "(%s, %s, %s)" % (coq_str(t), coq_str(tr_), "None" if lit is None else "Some " + coq_str(lit)) for t, tr_, lit, _ in rows))
    derives = []
    for m in re.finditer(r"#\[derive\(([^)]*)\)\]\s*(?:#\[[^\]]*\]\s*)*pub struct (K\w+Key)", src["signing_key.rs"]):
        for d in m.group(1).split(","):
            derives.append((m.group(2), d.strip()))
    w("Definition src_key_derives : list (string * string) := [%s]." % "; ".join("(%s, %s)" % (coq_str(a), coq_str(b)) for a, b in derives))
    w("")

    # 8. the signature comparison statement
    body = fn_body(src["auth.rs"], r"pub async fn validate_signature<S, F>\(")
    cmp_stmt = "NOT FOUND"
    if body:
        m = re.search(r"let is_equal(?:: bool)? =(.*?);", body, re.S)
        if m:
            cmp_stmt = norm_ws(m.group(1))
    w("Definition src_sig_compare : string := %s." % coq_str(cmp_stmt))
    # tolerant classification: one ct_eq call on two plain operands decides the verdict, and nothing else in
    # the body compares the presented signature (==, eq_ignore_ascii_case, starts_with, zip, position, memcmp)
    kind = "other"
    if body and re.fullmatch(r"(?:bool::from\()?\s*[\w.()&]+?\.ct_eq\(\s*[\w.()&]+\s*\)\s*(?:\.into\(\)|\))?", cmp_stmt or ""):
        rest = body.replace(cmp_stmt, "")
        rest = re.sub(r'"(?:[^"\\]|\\.)*"', '""', rest)
        suspicious = re.search(r"signature\w*\s*(==|!=)|(==|!=)\s*\w*signature|eq_ignore_ascii_case|starts_with|ends_with|\.zip\(|\.position\(|memcmp|\.iter\(\)\.eq\(|(?<!let )(?<!mut )\bis_equal\s*=[^=]|\bis_equal\s*\|=|\bis_equal\s*&=", rest)
        if not suspicious:
            kind = "ct_eq"
    w("Definition src_sig_compare_kind : string := %s." % coq_str(kind))
    w("Definition src_validate_signature_body : string := %s." % coq_str(norm_ws(body) if body else "NOT FOUND"))
    # the same with log macro statements and string literals removed: the control skeleton
    # (order of prevalidate / string-to-sign / key lookup / comparison), insensitive to rewording
    skel = "NOT FOUND"
    if body:
        b = body
        out, i = [], 0
        while i < len(b):
            m = re.compile(r"\b(trace|debug|info|warn|error)!\(").match(b, i)
            if m:
                depth, j, in_str = 1, m.end(), False
                while j < len(b) and depth:
                    ch = b[j]
                    if in_str:
                        if ch == "\\":
                            j += 1
                        elif ch == '"':
                            in_str = False
                    elif ch == '"':
                        in_str = True
                    elif ch == "(":
                        depth += 1
                    elif ch == ")":
                        depth -= 1
                    j += 1
                while j < len(b) and b[j] in " \t\n;":
                    j += 1
                i = j
                continue
            out.append(b[i]); i += 1
        skel = re.sub(r'"(?:[^"\\]|\\.)*"', '""', "".join(out))
        skel = norm_ws(skel)
    w("Definition src_validate_signature_skeleton : string := %s." % coq_str(skel))
    w("")

    # 9. log sites: macro level + identifiers mentioned in arguments after the format string
    sites = []
    for f in files:
        for m in re.finditer(r"\b(trace|debug|info|warn|error)!\(", src[f]):
            j = balanced(src[f], m.end() - 1, "(", ")")
            args = src[f][m.end():j - 1]
            # drop the format string literal
            mm = re.match(r'\s*"((?:[^"\\]|\\.)*)"\s*,?', args, re.S)
            fmt = mm.group(1) if mm else ""
            rest = args[mm.end():] if mm else args
            inline = re.findall(r"\{([a-zA-Z_][a-zA-Z0-9_]*)[:}]", fmt)
            idents = sorted(set(re.findall(r"[a-zA-Z_][a-zA-Z0-9_]*", re.sub(r'"(?:[^"\\]|\\.)*"', "", rest)) + inline))
            sites.append((f[:-3], m.group(1), idents))
    w("Definition src_log_sites : list (string * string * list string) := [%s]." % ";\n  ".join(
        "(%s, %s, [%s])" % (coq_str(f), coq_str(l), "; ".join(coq_str(i) for i in ids)) for f, l, ids in sites))
    w("")

    # 9b. error construction sites: identifiers interpolated into SignatureError::X(format!(...)) messages
    esites = []
    for f in files:
        for m in re.finditer(r"SignatureError::(\w+)\(", src[f]):
            j = balanced(src[f], m.end() - 1, "(", ")")
            args = src[f][m.end():j - 1]
            noq = re.sub(r'"(?:[^"\\]|\\.)*"', "", args)
            fmts = re.findall(r'"((?:[^"\\]|\\.)*)"', args)
            inline = []
            for fm in fmts:
                inline += re.findall(r"\{([a-zA-Z_][a-zA-Z0-9_]*)[:}]", fm)
            idents = sorted(set(re.findall(r"[a-zA-Z_][a-zA-Z0-9_]*", noq) + inline))
            esites.append((f[:-3], m.group(1), idents))
    w("Definition src_error_sites : list (string * string * list string) := [%s]." % ";\n  ".join(
        "(%s, %s, [%s])" % (coq_str(f), coq_str(k), "; ".join(coq_str(i) for i in ids)) for f, k, ids in esites))
    w("")

    # 10. panic-capable sites (non-test code)
    psites = []
    pat = re.compile(r"\.unwrap\(\)|\.expect\(|\bpanic!\(|\bassert!\(|\bassert_eq!\(|\bassert_ne!\(|\bunreachable!\(|\.copy_from_slice\(|\.clone_from_slice\(|\.split_at\(|\.remove\(|\[[^\[\]\n;]*\]")
    blanked = {f: re.sub(r'"(?:[^"\\]|\\.)*"', '""', src[f], flags=re.S) for f in files}
    for f in files:
        for ln in blanked[f].split("\n"):
            s = ln.strip()
            if not s or s.startswith("#[") or s.startswith("use ") or s.startswith("//"):
                continue
            # string literal contents are blanked so that messages may be reworded freely
            bare = s
            for m in pat.finditer(bare):
                tok = m.group(0)
                if tok.startswith("["):
                    # indexing / slicing only when it follows an identifier, `)` or `]`
                    k = m.start()
                    if k == 0 or not re.match(r"[A-Za-z0-9_\)\]]", bare[k - 1]):
                        continue
                    # type positions like `[u8; 32]` / attribute-ish / array types
                    if re.fullmatch(r"\[\s*(u8|Cow<[^\]]*|&[^\]]*|0)\s*(;[^\]]*)?\]", tok):
                        continue
                psites.append((f[:-3], norm_ws(bare)))
                break
    # usize subtraction on lengths/capacities
    for f in files:
        for ln in blanked[f].split("\n"):
            s = norm_ws(ln)
            if re.search(r"\b(len\(\)|len|M|i)\s*-\s*\d", s) and (f[:-3], s) not in psites:
                psites.append((f[:-3], s))
    w("Definition src_panic_sites : list (string * string) := [%s]." % ";\n  ".join("(%s, %s)" % (coq_str(f), coq_str(s)) for f, s in psites))
    w("")

    text = "\n".join(o) + "\n"
    out = os.path.normpath(OUT)
    old = None
    if os.path.exists(out):
        with open(out, encoding="utf-8") as fh:
            old = fh.read()
    if old != text:
        os.makedirs(os.path.dirname(out), exist_ok=True)
        with open(out, "w", encoding="utf-8") as fh:
            fh.write(text)
        print("extract_src: wrote", out)
    else:
        print("extract_src: unchanged")


if __name__ == "__main__":
    main()
