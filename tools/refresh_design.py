#!/usr/bin/env python3
"""Refresh the generated tables of DESIGN.md (sections 12b, 12c) from seeded/*/meta.json and harmless/*/result.json."""
import json, os, re, subprocess, sys
ROOT = os.path.normpath(os.path.join(os.path.dirname(os.path.abspath(__file__)), ".."))
p = os.path.join(ROOT, "DESIGN.md")
s = open(p).read()
matrix = subprocess.run([sys.executable, os.path.join(ROOT, "tools", "seedmatrix.py")], stdout=subprocess.PIPE).stdout.decode()
rows = ["| rewrite | checks run | alarms |", "|---|---|---|"]
hd = os.path.join(ROOT, "harmless")
for d in sorted(os.listdir(hd)):
    rp = os.path.join(hd, d, "result.json")
    first = open(os.path.join(hd, d, "notes.md")).read().strip().split("\n")[0][:140] if os.path.exists(os.path.join(hd, d, "notes.md")) else ""
    if os.path.exists(rp):
        r = json.load(open(rp))
        al = r["alarms"]
        rows.append("| `%s` %s | %d | %s |" % (d, first.replace("|", "/"), len(r["checks_run"]),
                                             "none" if not al else "; ".join("%s: %s" % (k, (v[-1] if v else "")[:120].replace("|", "/")) for k, v in al.items())))
    else:
        rows.append("| `%s` %s | not run yet | |" % (d, first.replace("|", "/")))
def put(tag, body):
    global s
    b, e = "<!-- %s-BEGIN -->" % tag, "<!-- %s-END -->" % tag
    if b in s:
        s = s[:s.index(b) + len(b)] + "\n" + body + "\n" + s[s.index(e):]
    else:
        s = s.replace("\n" + tag + "\n", "\n%s\n%s\n%s\n" % (b, body, e))
put("SEEDMATRIX", matrix.strip())
put("HARMLESSSUMMARY", "\n".join(rows))
open(p, "w").write(s)
print("DESIGN.md tables refreshed")
