"""Additional property -> theorem tables for tools/mkprops.py (prefix None = detect by trial compile)."""
def T(mod, names):
    return [(mod, n, None) for n in names.split()]

EXTRA = {
    "C16": T("SoundnessProofs", "C01_accept_implies_signature") + T("AuthProofs", "C03_scope_date_is_utc_date C04_textual_independence_decision"),
    "C09": T("UriImpProofs", "normalize_elem_imp_correct canon_path_imp_correct"),
    "C10": T("UriImpProofs", "normalize_elem_imp_correct"),
    "C01": T("SoundnessProofs", "model_creq_is_spec C01_accept_implies_signature C01_accept_implies_signature_modulo_path C01_cross_request "
                                "C01_signature_shape C01_signature_length C01_bad_signature_refused C01_canonical_request_injective "
                                "C01_string_to_sign_injective C01_equal_sts_equal_components C01_signed_list_injective")
           + T("KeyProofs", "ct_eq_spec lower_hex_inj lower_hex_length lower_hex_alphabet"),
    "C07": T("StaticC07", "C07_source_uses_ct C07_ct_eq_steps_data_independent C07_validate_steps_independent_of_signature C07_early_exit_refuted")
           + T("KeyProofs", "ct_eq_spec"),
    "C08": T("PipelineProofs", "normalize_elem_unescape query_map_good qmap_extend_good normalize_headers_good from_request_parts_good "
                               "C08_from_request_parts_never_panics C08_carrier_params_never_panics C08_get_authenticator_never_panics "
                               "C08_validate_signature_never_panics C08_validate_never_panics C08_validate_total")
           + T("KeyProofs", "C06_never_panics C06_capacity C06_too_long"),
    "C12": T("SoundnessProofs", "C12_fold C12_values_order C12_no_fold C12_bad_encoding spec_decoded_body_none C12_bad_encoding_only C12_body_covered "
                                "decoded_pairs_spec_query")
           + T("QueryProofs", "qmap_extend_flatten_perm"),
    "C13": T("PipelineProofs", "first_failure_staged validate_eq C13_precedence C13_calls C13_path_first C13_query_second C13_form_errors_third "
                               "C13_no_carrier C13_both_carriers C13_bad_algorithm_header C13_bad_algorithm_query C13_param_syntax "
                               "C13_missing_params_header C13_missing_params_query C13_requirements C13_bad_date C13_expired C13_not_yet_valid "
                               "C13_arity C13_scope C13_provider_error C13_wrong_signature C13_accepted C13_taxonomy C13_status_is_error "
                               "C13_reachable_kinds C13_refusal_status C13_request_refusal_status"),
    "C15": T("SoundnessProofs", "C15_unfolded C15_folded C15_identity C12_values_order decoded_pairs_spec_query"),
    "C17": T("SelectionProofs", "C17_calls_independent_of_key C17_refusal_independent_of_key "
                                "C17_refusal_independent_of_presented_signature_match C17_key_enters_only_the_comparison")
           + T("StaticC17", "C17_log_sites C17_error_sites C17_renderings_constant C17_expected_signature_only_at_trace"),
    "C18": T("SelectionProofs", "normalize_headers_nodup query_map_nodup qmap_extend_nodup reqs_ok_perm header_lines_perm C18_order_independent "
                                "C18_authenticator_order_independent C18_validate_order_independent from_request_parts_nodup "
                                "C18_folded_uri_order_independent C18_history_independent C18_fold_order_independent")
           + T("QueryProofs", "C10_order_independent"),
    "C19": T("SelectionProofs", "C19_header_first_value C19_later_duplicate_ignored C19_first_date C19_first_token C19_first_authorization "
                                "C19_last_param_wins C19_last_param_wins_header C19_first_query_value C19_url_before_body qget_qmap_extend "
                                "C19_selection C19_selection_header C19_selection_query C19_query_values_of_request C19_both_carriers_refused")
           + T("CompletenessProofs", "C19_unique_acceptance"),
    "C02": T("CompletenessProofs", "C02_spec_signed_accepted C02_accept_iff_spec_signature C02_presented_params_intro spec_path_same_path "
                                   "canon_path_same_path C11_block_trimall C02_spelling_insensitive_components C02_spelling_insensitive_sts "
                                   "C02_spelling_insensitive C02_spelling_insensitive_accept C02_presented_params_header_carrier "
                                   "C02_spelling_insensitive_header_carrier C02_spelling_insensitive_folded_sts C02_spelling_insensitive_folded "
                                   "C02_reference_signer_accepted C02_reference_signer_accepted_compact C02_no_algorithm_parameter")
           + T("SoundnessProofs", "model_creq_is_spec C01_accept_implies_signature")
           + T("PathProofs", "C09_model_is_spec C09_spelling_insensitive") + T("QueryProofs", "C10_model_is_spec C10_multiset")
           + T("HeaderProofs", "C11_value_normal_form C11_block_is_spec C11_block_per_name_order C11_block_name_case norm_value_pad norm_value_space_run")
           + T("IsoProofs", "C16_render_roundtrip"),
    "C03": T("AuthProofs", "C03_terminator C03_status_400 C03_status_403 C03_accept_implies_scope C03_scope_date_is_utc_date C03_arity_is_incomplete "
                           "C03_mismatch_is_403_no_lookup C03_arity_is_incomplete_validate C03_mismatch_is_403_no_lookup_validate C03_scope_decision")
           + T("PipelineProofs", "C13_arity C13_scope"),
    "C04": T("AuthProofs", "C04_constant C04_constant_minutes C04_window C04_accept_implies_fresh C04_stale_refused_no_lookup "
                           "C04_stale_refused_no_lookup_validate C04_stale_refused_no_lookup_params C04_fresh_never_rejected_by_time "
                           "C04_scope_check_uses_date_only C04_fresh_same_day_same_decision C04_textual_independence C04_get_authenticator_factors "
                           "C04_textual_independence_decision C04_textual_independence_verdict C04_textual_independence_validate")
           + T("PipelineProofs", "C13_expired C13_not_yet_valid"),
    "C14": T("AuthProofs", "C14_calls_exact C14_at_most_once C14_calls_le_prevalidated C14_no_call_unless_prevalidated C14_call_implies_prevalidated "
                           "C14_no_call_before_ready C14_provider_error_verbatim C14_from_box_sig C14_from_box_foreign C14_status_500 "
                           "C14_accept_implies_answer C14_never_accepts_on_error C14_never_accepts_on_error_asked C14_pending_irrelevant "
                           "C14_pending_irrelevant_counts C14_only_asked_answer_matters")
           + T("PipelineProofs", "C13_calls C13_provider_error"),
    "C05": T("CompletenessProofs", "C05_reqs_ok_raw C05_accept_implies_requirements C05_violation_refused_403 C05_requirements_pass "
                                   "C05_requirement_extensional C05_requirement_case_insensitive")
           + T("PipelineProofs", "C13_requirements get_auth_parameters_eq"),
    "C11": T("CompletenessProofs", "C11_block_trimall C11_unsigned_no_influence C11_unsigned_no_influence_check C11_signed_injective "
                                   "C11_signed_value_change C11_signed_value_change_refused"),
}
