#!/usr/bin/env python3
"""seedsave.py <name> <src-dir> <property> <caught-by|MISSED> <needs...>: store a confirmed seeded change under seeded/<name>/"""
import json, os, shutil, sys
ROOT = os.path.normpath(os.path.join(os.path.dirname(os.path.abspath(__file__)), ".."))
name, src, pid, caught = sys.argv[1:5]
needs = " ".join(sys.argv[5:])
d = os.path.join(ROOT, "seeded", name)
os.makedirs(d, exist_ok=True)
for f in ("patch.diff", "demo.rs", "notes.md"):
    if os.path.exists(os.path.join(src, f)):
        shutil.copyfile(os.path.join(src, f), os.path.join(d, f))
meta = {"breaks_property": pid, "needs_to_manifest": needs,
        "confirmed": "tools/seedtest.py confirm <scratch worktree> <dir>: clean tree -> demo passes; patch applied -> crate builds (also --features unstable), "
                     "72 tests pass, demo fails; reverted",
        "ran": "tools/seedtest.py run seeded/%s/patch.diff %s (git -C /repo apply; ./check %s --tier quick; git -C /repo checkout -- .)" % (name, pid, pid),
        "result": caught}
json.dump(meta, open(os.path.join(d, "meta.json"), "w"), indent=1)
print("saved", d)
