#!/usr/bin/env python3
"""Development-time tool for seeded changes (never used by the registered checks).

  seedtest.py confirm <worktree> <dir-with patch.diff+demo.rs>     confirm in a scratch worktree of /repo: clean -> demo passes;
                                                                   patched -> builds, 72 tests pass, demo fails; then revert
  seedtest.py run <patch.diff> <pid> [<pid> ...] [--tier T]        apply to /repo, run ./check for each property, undo
  seedtest.py run <patch.diff|-> <pid> ... --slot K                the same against a scratch worktree + private copies under /tmp/seedslot_K
"""
import json, os, re, subprocess, sys, time

ROOT = os.path.normpath(os.path.join(os.path.dirname(os.path.abspath(__file__)), ".."))
ENV = dict(os.environ, CARGO_NET_OFFLINE="true")


def sh(cmd, cwd=None, timeout=3600):
    p = subprocess.run(cmd, cwd=cwd, shell=isinstance(cmd, str), stdout=subprocess.PIPE, stderr=subprocess.STDOUT, env=ENV,
                       timeout=timeout)
    return p.returncode, p.stdout.decode("utf-8", "replace")


def confirm(wt, d):
    res = {}
    sh("git checkout -- . && rm -rf tests", cwd=wt)
    os.makedirs(os.path.join(wt, "tests"), exist_ok=True)
    demo = os.path.join(d, "demo.rs")
    sh(["cp", demo, os.path.join(wt, "tests", "seed_demo.rs")])
    rc, out = sh("cargo test --offline --features unstable --test seed_demo 2>&1 | tail -15", cwd=wt)
    res["demo_clean_passes"] = bool(re.search(r"test result: ok", out)) and "FAILED" not in out
    res["demo_clean_tail"] = out[-600:]
    rc, out = sh(["git", "apply", os.path.join(d, "patch.diff")], cwd=wt)
    res["applies"] = rc == 0
    os.rename(os.path.join(wt, "tests", "seed_demo.rs"), os.path.join(wt, "seed_demo.rs.off"))
    rc, out = sh("cargo test --offline --lib --tests 2>&1 | grep -E 'test result|error' | head", cwd=wt)
    m = re.search(r"test result: ok\. (\d+) passed; 0 failed", out)
    res["suite_passes_with_patch"] = bool(m) and int(m.group(1)) == 72
    res["suite_tail"] = out[-300:]
    rc2, out2 = sh("cargo build --offline --features unstable 2>&1 | tail -3", cwd=wt)
    os.rename(os.path.join(wt, "seed_demo.rs.off"), os.path.join(wt, "tests", "seed_demo.rs"))
    rc, out = sh("cargo test --offline --features unstable --test seed_demo 2>&1 | tail -25", cwd=wt)
    res["demo_patched_fails"] = "FAILED" in out or "panicked" in out
    res["demo_patched_tail"] = out[-800:]
    sh("git checkout -- . && rm -rf tests", cwd=wt)
    print(json.dumps(res, indent=1))
    return res


def run_isolated(patch, pids, tier, slot):
    """Run the checks against a scratch worktree of /repo with the patch applied, using private copies of
    coq/, harness/ and out/ (slot directory under /tmp), so that /repo and /verif are never touched and
    several seeded changes can be tried in parallel."""
    S = "/tmp/seedslot_%s" % slot
    os.makedirs(S, exist_ok=True)
    repo = os.path.join(S, "repo")
    if not os.path.exists(repo):
        rc, out = sh(["git", "-C", "/repo", "worktree", "add", "-q", "--detach", repo, "HEAD"])
        if rc != 0:
            raise SystemExit("worktree add failed: " + out)
    sh("git checkout -q --detach $(git -C /repo rev-parse HEAD) && git reset -q --hard && git clean -qfd -e target", cwd=repo)
    if patch and patch != "-":
        rc, out = sh(["git", "apply", os.path.abspath(patch)], cwd=repo)
        if rc != 0:
            raise SystemExit("patch does not apply: " + out)
    sh("rsync -a --delete --exclude target --exclude Cargo.lock %s/harness/ %s/harness/" % (ROOT, S))
    ct = open(os.path.join(S, "harness", "Cargo.toml")).read().replace('path = "/repo"', 'path = "%s"' % repo)
    open(os.path.join(S, "harness", "Cargo.toml"), "w").write(ct)
    sh("cp -f /repo/Cargo.lock %s/Cargo.lock; cp -f /repo/Cargo.lock %s/harness/Cargo.lock" % (repo, S))
    sh("rsync -a --delete %s/coq/ %s/coq/" % (ROOT, S))
    env = dict(ENV, VERIF_REPO=repo, VERIF_HARNESS=os.path.join(S, "harness"), VERIF_COQ=os.path.join(S, "coq"),
               VERIF_OUT=os.path.join(S, "out"), VERIF_EVIDENCE=os.path.join(S, "evidence"))
    results = {}
    for pid in pids:
        t0 = time.time()
        p = subprocess.run([sys.executable, os.path.join(ROOT, "tools", "verif.py"), pid, "--tier", tier], cwd=ROOT,
                           stdout=subprocess.PIPE, stderr=subprocess.STDOUT, env=env, timeout=7200)
        out = p.stdout.decode("utf-8", "replace")
        lines = [l for l in out.split("\n") if l.startswith(("VIOLATION", "OK ", "KNOWN", "INFRA", "BROKEN", "property"))]
        results[pid] = {"rc": p.returncode, "lines": lines[:8], "wall": round(time.time() - t0, 1)}
        print(pid, "rc=%d" % p.returncode, "%.0fs" % (time.time() - t0))
        for l in lines[:8]:
            print("   ", l[:400])
    sh("git reset -q --hard", cwd=repo)
    return results


def run(patch, pids, tier):
    rc, out = sh("git status --porcelain --untracked-files=no", cwd="/repo")
    if out.strip():
        raise SystemExit("/repo is not clean:\n" + out)
    rc, out = sh(["git", "apply", patch], cwd="/repo")
    if rc != 0:
        raise SystemExit("patch does not apply: " + out)
    results = {}
    try:
        for pid in pids:
            t0 = time.time()
            rc, out = sh(["./check", pid, "--tier", tier], cwd=ROOT, timeout=7200)
            lines = [l for l in out.split("\n") if l.startswith(("VIOLATION", "OK ", "KNOWN", "INFRA", "BROKEN", "property"))]
            results[pid] = {"rc": rc, "lines": lines[:8], "wall": round(time.time() - t0, 1)}
            print(pid, "rc=%d" % rc, "%.0fs" % (time.time() - t0))
            for l in lines[:8]:
                print("   ", l[:400])
    finally:
        sh("git checkout -- .", cwd="/repo")
    return results


if __name__ == "__main__":
    if sys.argv[1] == "confirm":
        confirm(sys.argv[2], sys.argv[3])
    else:
        args = sys.argv[2:]
        tier = "quick"
        if "--tier" in args:
            i = args.index("--tier"); tier = args[i + 1]; del args[i:i + 2]
        slot = None
        if "--slot" in args:
            i = args.index("--slot"); slot = args[i + 1]; del args[i:i + 2]
        r = run_isolated(args[0], args[1:], tier, slot) if slot is not None else run(args[0], args[1:], tier)
        print(json.dumps(r))
