#!/usr/bin/env python3
"""Development-time tool for seeded changes (never used by the registered checks).

  seedtest.py confirm <worktree> <dir-with patch.diff+demo.rs>     confirm in a scratch worktree of /repo: clean -> demo passes;
                                                                   patched -> builds, 72 tests pass, demo fails; then revert
  seedtest.py run <patch.diff> <pid> [<pid> ...] [--tier T]        apply to /repo, run ./check for each property, undo
"""
import json, os, re, subprocess, sys, time

ROOT = os.path.normpath(os.path.join(os.path.dirname(os.path.abspath(__file__)), ".."))
ENV = dict(os.environ, CARGO_NET_OFFLINE="true")


def sh(cmd, cwd=None, timeout=3600):
    p = subprocess.run(cmd, cwd=cwd, shell=isinstance(cmd, str), stdout=subprocess.PIPE, stderr=subprocess.STDOUT, env=ENV,
                       timeout=timeout)
    return p.returncode, p.stdout.decode("utf-8", "replace")


def confirm(wt, d):
    res = {}
    sh("git checkout -- . && rm -rf tests", cwd=wt)
    os.makedirs(os.path.join(wt, "tests"), exist_ok=True)
    demo = os.path.join(d, "demo.rs")
    sh(["cp", demo, os.path.join(wt, "tests", "seed_demo.rs")])
    rc, out = sh("cargo test --offline --features unstable --test seed_demo 2>&1 | tail -15", cwd=wt)
    res["demo_clean_passes"] = bool(re.search(r"test result: ok", out)) and "FAILED" not in out
    res["demo_clean_tail"] = out[-600:]
    rc, out = sh(["git", "apply", os.path.join(d, "patch.diff")], cwd=wt)
    res["applies"] = rc == 0
    os.rename(os.path.join(wt, "tests", "seed_demo.rs"), os.path.join(wt, "seed_demo.rs.off"))
    rc, out = sh("cargo test --offline --lib --tests 2>&1 | grep -E 'test result|error' | head", cwd=wt)
    m = re.search(r"test result: ok\. (\d+) passed; 0 failed", out)
    res["suite_passes_with_patch"] = bool(m) and int(m.group(1)) == 72
    res["suite_tail"] = out[-300:]
    rc2, out2 = sh("cargo build --offline --features unstable 2>&1 | tail -3", cwd=wt)
    os.rename(os.path.join(wt, "seed_demo.rs.off"), os.path.join(wt, "tests", "seed_demo.rs"))
    rc, out = sh("cargo test --offline --features unstable --test seed_demo 2>&1 | tail -25", cwd=wt)
    res["demo_patched_fails"] = "FAILED" in out or "panicked" in out
    res["demo_patched_tail"] = out[-800:]
    sh("git checkout -- . && rm -rf tests", cwd=wt)
    print(json.dumps(res, indent=1))
    return res


def run(patch, pids, tier):
    rc, out = sh("git status --porcelain --untracked-files=no", cwd="/repo")
    if out.strip():
        raise SystemExit("/repo is not clean:\n" + out)
    rc, out = sh(["git", "apply", patch], cwd="/repo")
    if rc != 0:
        raise SystemExit("patch does not apply: " + out)
    results = {}
    try:
        for pid in pids:
            t0 = time.time()
            rc, out = sh(["./check", pid, "--tier", tier], cwd=ROOT, timeout=7200)
            lines = [l for l in out.split("\n") if l.startswith(("VIOLATION", "OK ", "KNOWN", "INFRA", "BROKEN", "property"))]
            results[pid] = {"rc": rc, "lines": lines[:8], "wall": round(time.time() - t0, 1)}
            print(pid, "rc=%d" % rc, "%.0fs" % (time.time() - t0))
            for l in lines[:8]:
                print("   ", l[:400])
    finally:
        sh("git checkout -- .", cwd="/repo")
    return results


if __name__ == "__main__":
    if sys.argv[1] == "confirm":
        confirm(sys.argv[2], sys.argv[3])
    else:
        args = sys.argv[2:]
        tier = "quick"
        if "--tier" in args:
            i = args.index("--tier"); tier = args[i + 1]; del args[i:i + 2]
        r = run(args[0], args[1:], tier)
        print(json.dumps(r))
