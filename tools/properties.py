"""Per-property configuration of the orchestrator (families, level, trusted base, rules)."""

KERNEL = "Coq 8.16.1 kernel + vm_compute (no native_compute); no axioms declared; Print Assumptions must say 'Closed under the global context'"
MODEL = "hand-written Gallina model of the Rust functions (coq/theories/Model), tied to /repo by the correspondence run of this check"
EXTRACT = "tools/extract_src.py (regular-expression translator of literals/tables from /repo/src into Generated/SrcConsts.v)"
HARNESS = "Rust harness /verif/harness (path dependency on /repo, feature `unstable`), case serialiser, Run/Driver.v comparison"
BASE = [KERNEL, MODEL, EXTRACT, HARNESS]
SIGNER = "independent SigV4 reference signer in the harness (harness/src/signer.rs, sha2/hmac crates directly) used to produce correctly signed requests"
THIRD = "third-party crates are oracles: http (URI/header parsing), regex, chrono, encoding, tower, subtle, hmac/sha2 (their results are inputs to, or re-implemented by, the model and compared on every case)"

# known-finding classes (flag word >> 2)
CLASSES = {
    1: "plus_in_path",
}

TECH = "Coq proof over hand-written Gallina model + differential correspondence vs the Rust crate"
TECH_PARTIAL = "Coq proof over Gallina model of the logical core + correspondence/observation harness for the runtime part (partial)"

PROPS = {}
MANIFEST_TEXT = {}


CLAIMED = set()


def reg(pid, families, rule, text, note, assumptions=(), extra_trust=(), level="proof", technique=TECH, section=None,
        extra=None, claimed=True):
    if claimed:
        CLAIMED.add(pid)
    PROPS[pid] = {
        "families": families,
        "level": level,
        "trusted_base": BASE + list(extra_trust),
        "rule": rule,
        "assumptions": list(assumptions),
        "extra": extra or [],
    }
    MANIFEST_TEXT[pid] = {
        "text": text,
        "design_ref": "DESIGN.md section 6 / %s" % pid if section is None else section,
        "note": note,
        "technique": technique,
    }


reg("C05", ["c05", "reqops"],
    rule="c05 family: correctly signed requests whose signed-header list omits / includes each declared name (always-present, if-in-request, "
         "prefix) under requirement sets in random letter case, both carriers; reqops family: random add_*/remove_* operation sequences on "
         "the Vec container and the Slice container compared with the model's lists. non-trivial = not tagged trivial; distinct = distinct input lines",
    text="Machine-checked theorems: the requirement containers refine case-folded sets for every operation sequence; reqs_ok means exactly the "
         "stated conjunction (always-present, conditional, prefix) and is extensional in the denoted sets; acceptance implies the conjunction and a "
         "violation is refused as SignatureDoesNotMatch before any date/scope/provider step (pipeline theorems). The model is tied to the code by "
         "running both on correctly-signed requests that omit a required header.",
    note="Trusted: kernel, hand model of the three requirement loops and of the Vec/Slice containers (correspondence-checked), harness signer. "
         "Declared names are assumed ASCII (header names are).",
    assumptions=["declared header names are ASCII", SIGNER],
    extra_trust=[SIGNER])

reg("C06", ["c06"],
    rule="c06 family: secrets of every length 0..48 (random bytes incl. non-ASCII), capacities 0..64 for from_str, dates incl. year 1, leap days, "
         "9999-12-31, empty / non-ASCII region and service; all five key types' bytes, the read-back and the nine shortcut methods compared with "
         "the model and with an HMAC chain written out independently in the driver. distinct = distinct input lines",
    text="Machine-checked theorems for an arbitrary hash H with 64-byte block: hmac_zero_pad (hashing the whole zero-padded buffer equals hashing "
         "'AWS4'+secret), the four-step chain, all shortcut compositions, read-back, capacity iff, never panics (every capacity), date format "
         "(8 digits, injective). Tied to the code by running KSecretKey::from_str / to_k* on every secret length and capacity.",
    note="Trusted: kernel; hand model of KSecretKey<M> (buffer + length); sha2/hmac crates equal the Gallina SHA-256/HMAC (compared on every case). "
         "Theorems do not depend on the concrete hash.",
    assumptions=["capacity M <= 64 (HMAC block) for the chain theorem; the default capacity is 44"])

reg("C09", ["path"],
    rule="path family: fixed edge paths; every byte 0-255 as literal / lower-hex / upper-hex escape, alone and embedded; "
         "all %XY escape pairs over an alphabet (quick: 40 chars, thorough: all 128 ASCII); every path of <=3 (quick) / <=5 (thorough) "
         "segments over {a,'',.,..,%2e,%2E%2e,%2F,%zz,%4,a+b}; random and long paths; both modes. "
         "non-trivial = not tagged trivial; distinct = distinct (mode, path) inputs",
    text="Machine-checked theorems (Coq) about a Gallina model of canonicalize_uri_path / normalize_uri_element: the model equals an independent "
         "decode-resolve-encode specification for every byte string outside the known-finding class, is idempotent, has the stated output alphabet "
         "and fails exactly on the stated set; the model is tied to the code by an exhaustive-by-family differential run on every check.",
    note="Trusted: Coq kernel + vm_compute; the hand translation of the Rust loop into the model (validated by correspondence on the enumerated families); "
         "extract_src.py for the unreserved-set expression and hex table; harness generators. Known finding D1 ('+' in path) is excluded by an explicit class predicate.",
    assumptions=["&str inputs (valid UTF-8) on the implementation side; the theorems cover all byte lists",
                 "known finding D1: literal '+' in a path is canonicalised as a space (pinned by unit test canonicalize_valid)"],
    extra_trust=["index loop of canonicalize_uri_path modelled as a stack fold (checked by correspondence)",
                 "regex `//+` replace_all modelled as collapse_slashes (checked by correspondence)"])

reg("C10", ["c10"],
    rule="c10 family: query strings with all byte values through escapes, 0-12 parameters, repeated names, names that are prefixes of others "
         "followed by bytes below '=', empty names/values, missing '=', '&&'; each also permuted and respelled; every query is canonicalised "
         "over several freshly built HashMaps (fresh RandomState seeds) and all outputs must agree (`stable`). distinct = distinct query strings",
    text="Machine-checked theorems: the canonical query of the model equals the specification (decode, drop X-Amz-Signature, encode once, sort "
         "by (name, value), join) for every byte string; it is a function of the multiset of decoded pairs (Permutation-invariant, HashMap "
         "order-invariant), lists every pair, is sorted, and fails iff an escape is malformed. Tied to the code by differential runs incl. "
         "prefix-related names and fresh hash seeds.",
    note="Trusted: kernel; HashMap modelled as association list + explicit iteration order (theorem quantifies over every permutation); harness.",
    assumptions=["HashMap iteration order is some permutation of the entries"])

reg("C11", ["c11", "hdrval"],
    rule="c11 family: correctly signed requests over header multisets (repeated names, mixed case, padded values, bytes 0x80-0xFF); mutations of "
         "unsigned headers (verdict must not change) and of signed ones beyond spacing (must be refused); hdrval family: normalize_header_value "
         "on enumerated/random values vs model and vs the split-drop-join specification. distinct = distinct input lines",
    text="Machine-checked theorems: value normalisation = split on spaces, drop empties, join; idempotent; padding/run insensitive; the canonical "
         "header block equals the specification block for every header list and signed list, depends only on per-name value order and lower-cased "
         "names, and ignores headers whose name is not signed. Tied to the code by signed-request runs with header mutations.",
    note="Trusted: kernel; HeaderMap modelled as insertion-ordered list with lower-cased names (as `http` does); harness signer.",
    assumptions=["header names arrive lower-cased from the http crate", SIGNER], extra_trust=[SIGNER])

reg("C16", ["c16", "c16e"],
    rule="c16 family: exhaustive two-digit sweep of each field with the others fixed, all separator combinations, offset hours 00-29 x minutes "
         "{00,30,59,60}, fraction lengths 0-12 with '.' and ',', random strings and single-character mutations, header and query carrier "
         "(percent-encoded); implementation's parse result vs model vs an independent reference parser in the harness (refiso.rs); "
         "c16e family: end-to-end signed requests checking the timestamp line of the string-to-sign and the date given to the provider. "
         "distinct = distinct input lines",
    text="Machine-checked theorems: parse_iso8601 s = Some t iff s matches the declarative grammar and denotes t (calendar validity, offset "
         "applied, fraction truncated); the Gregorian calendar conversions are mutually inverse for all integers; the compact rendering "
         "round-trips and the scope date is its prefix. Tied to the code (regex + chrono) by field sweeps and end-to-end signed requests.",
    note="Trusted: kernel; regex re-implemented as a deterministic recogniser and chrono as Calendar.v (both correspondence-checked); "
         "input domain code points <= U+00FF.",
    assumptions=["timestamp texts contain only code points <= U+00FF (all that latin1_to_string / unescape can produce)"])



PIPE = "pipeline model Model/Validate.v (from_request_parts, get_auth_parameters, get_authenticator, prevalidate, validate_signature, validate)"
VALRULE = ("every case is one HTTP request + server configuration + scripted key provider run through sigv4_validate_request (all three "
           "built-in body types, both requirement containers); the implementation's outcome (accepted parts/body/identity or error kind, "
           "code, status), the provider calls it made and, through the `unstable` API, its canonical request and string-to-sign are compared "
           "with the model, and the property predicate is evaluated on the implementation's observation. non-trivial = not tagged trivial; "
           "distinct = distinct input lines. Besides its purpose-built family each validate-based property sees a broad covering corpus "
           "(s3 x fold x carrier x form body, token, Date next to X-Amz-Date, proxy/SDK headers, boundary body sizes, calendar-edge and far "
           "instants; each accepted request also with a flipped signature digit, a clock 16 min late and an unknown access key) under its own "
           "predicate and projection; the input classes are listed in DESIGN.md section 12a. ")

reg("C01", ["c01"],
    rule=VALRULE + "c01 family: reference-signed base requests (both carriers, +-token, S3/fold options) and, for each, every single-component "
         "mutation: each of the 64 signature digits (other digit, other case), truncated/extended/empty/upper-case signature, method, path byte, "
         "query name/value/added parameter (incl. letter-case variants of the X-Amz-* names), signed header value/multiplicity/order, body byte, "
         "timestamp +-1 s, each scope field, the key; a mutant must be refused, the base accepted.",
    text="Machine-checked theorems: validate = Accepted implies exactly one provider call for the expected (access key, token, UTC date, region, "
         "service), the provider answered a key, and the presented signature equals lower_hex(hmac H key sts) where sts is the *specification's* "
         "string-to-sign of the request as received (spec path, spec query, spec header block, payload hash, compact UTC timestamp, scope); the "
         "canonical request and string-to-sign assemblies are injective, so equal signatures imply equal (key, string-to-sign) HMAC values. Stated "
         "for an arbitrary hash H; guarded by the known-finding class D1 ('+' in the path), with a machine-checked refutation witness.",
    note="Trusted: kernel; " + PIPE + "; harness signer; cryptographic strength of HMAC-SHA256 is outside the logic. Known finding D1: /a+b and "
         "/a%20b share one canonical request.",
    assumptions=["HMAC-SHA256 collision/forgery resistance (prose reading only)", SIGNER,
                 "known finding D1: a literal '+' in the path is canonicalised as a space"],
    extra_trust=[SIGNER, THIRD])

reg("C02", ["c02"],
    rule=VALRULE + "c02 family: logical requests signed by the independent reference signer and written in random admissible wire spellings "
         "(hex case, needless escapes, %20 vs +, shuffled parameters, mixed-case header names, padded values, repeated names, prefix-related "
         "names, names in URL and body), both carriers, +-token, all four option combinations, clock offsets within +-15 min incl. both ends and "
         "UTC-day changes; each must be accepted. Corpus of the inputs of the repaired defects D2, D4, D5 runs first.",
    text="Machine-checked theorems: acceptance is equivalent to 'the presented signature is the reference signature over the specification's "
         "string-to-sign' given carrier/requirement/freshness/scope side conditions (C02_accept_iff_spec_signature, with C01 as the converse); "
         "the specification's canonical request is invariant under every admissible respelling (path spelling, query permutation/respelling, "
         "header-name case, value padding, cross-name order), hence so is acceptance; a request carrying the reference signer's Authorization "
         "header is accepted. Guarded by the known-finding class D1 with a refutation witness.",
    note="Trusted: kernel; " + PIPE + "; harness signer and spelling generator. Known finding D1 ('+' in a path segment) is an open finding: "
         "such requests signed over the reference canonical path are refused.",
    assumptions=[SIGNER, "known finding D1: a literal '+' in the path is canonicalised as a space"],
    extra_trust=[SIGNER, THIRD])

reg("C03", ["c03"],
    rule=VALRULE + "c03 family: credential strings with 0-8 parts, parts that are prefixes/suffixes/case variants/empty/padded/lenient spellings of "
         "the expected values, dates one day off or malformed, timestamps near midnight UTC with offsets so that local date != UTC date != server "
         "date; each also signed correctly under the foreign scope; the instrumented provider records its arguments.",
    text="Machine-checked theorems: acceptance implies the credential splits into exactly [access key; yyyymmdd(UTC date of the timestamp); "
         "configured region; configured service; aws4_request] and the provider was asked for exactly (access key, token, that date, region, "
         "service); another number of parts gives IncompleteSignature (400) and any other mismatch SignatureDoesNotMatch (403), both with zero "
         "provider calls and for every provider (so a signature valid under the foreign scope's key is refused without a lookup).",
    note="Trusted: kernel; " + PIPE + "; Calendar.v for the UTC date; harness signer for the foreign-scope signatures.",
    assumptions=[SIGNER], extra_trust=[SIGNER])

reg("C04", ["c04"],
    rule=VALRULE + "c04 family: correctly signed requests whose instant lies at now+-15 min exactly, +-1 ns and +-1 s around both bounds, and at "
         "whole-second offsets across [-20, +20] min (thorough: every second), for server times at day/month/year/leap-day boundaries, each in "
         "several textual renderings (basic/extended, Z, +-hh:mm incl. -00:mm, fractions).",
    text="Machine-checked theorems: the freshness stage passes iff now-900e9 <= t <= now+900e9 ns (both inclusive; constant regenerated from the "
         "source); outside the window validate_signature returns SignatureDoesNotMatch with zero provider calls for every provider; inside it "
         "prevalidate equals the scope check alone; acceptance implies freshness of the parsed instant; two texts denoting the same instant get "
         "the same decision and, when the canonical request is unchanged, the same verdict.",
    note="Trusted: kernel; " + PIPE + "; Iso8601.v/Calendar.v (regex and chrono re-implemented, correspondence-checked).",
    assumptions=["server time passed by the caller is representable in chrono (the harness stays within years 1970-9999)"])

reg("C07", ["c07"], level="proof", technique=TECH_PARTIAL,
    rule="c07 family (cttrace): for fixed request/key scenarios, children forked from one parent image build an authenticator whose presented "
         "signature differs from the expected one at a chosen position (single wrong character, or every character from that position on; "
         "substituted character kept in its class), stop, run validate_signature under PTRACE_SINGLESTEP, stop; the number of executed "
         "instructions and the hash of every RIP must be identical for all positions (quick: 0,1,31,32,62,63 x 2 requests x 2 styles; "
         "thorough: all 64 positions x 4 requests x 2 styles). The binary supplies byte-wise early-exit memcmp/bcmp. distinct = distinct groups",
    text="Proved: in the leakage model the steps of the constant-time comparison depend only on operand lengths, hence the steps of "
         "validate_signature are independent of the presented signature's content; the model distinguishes an early-exit comparison "
         "(non-vacuity); the verdict of validate_signature is assigned from a single subtle ct_eq call and nothing else in its body compares "
         "the presented signature (classification regenerated from auth.rs). Observed, not proved: the "
         "compiled instruction trace (ptrace single-step equality over mismatch positions). Partial: no ISA semantics is available offline.",
    note="Trusted: kernel; Model/Leakage.v as the leakage model; extract_src.py for the comparison expression; ptrace observation of the "
         "release build on this machine; `subtle` itself is not verified.",
    assumptions=["the release build of the harness is representative of deployed builds", "leakage model: one step per processed byte, no data-dependent branch inside subtle::ct_eq"],
    extra_trust=["ptrace single-step tracer harness/src/bin/cttrace.rs"])

reg("C08", ["c08"], technique=TECH_PARTIAL,
    rule=VALRULE + "c08 family: every public operation under catch_unwind: bodies of 0, 1, 65533-65537, 70000, 200000 bytes, charset labels "
         "with valid/invalid bodies, invalid UTF-8, malformed escapes followed by multi-byte characters, degenerate URIs, headers with bytes "
         "0x80-0xFF, option x requirement combinations, secrets of every length for capacities 0..64; outcome class compared with the model.",
    text="Machine-checked theorems: validate never returns Panicked (every explicit panic branch of the model - unescape of normalised query "
         "values, the credential-scope split after prevalidate, empty value vectors - is unreachable, by invariants on the maps built by "
         "query_map/normalize_headers); from_str never panics for any length and capacity. Advisory (not an obligation): panic-capable "
         "sites of the source that are not in the audited inventory widen the search of this check and are listed in the evidence. A generator "
         "that does not terminate (the implementation loops) is reported as a violation. Partial w.r.t. third-party crates (encoding, regex, "
         "http, chrono are oracles).",
    note="Trusted: kernel; " + PIPE + " with explicit Panic branches guarded as in Rust; extract_src.py panic-site scanner (syntactic); "
         "catch_unwind observation in the harness (release profile).",
    assumptions=["operations documented as panicking on malformed escapes (unescape_uri_encoding) are excepted, as the property says", THIRD],
    extra_trust=[THIRD])

reg("C12", ["c12"],
    rule=VALRULE + "c12 family: URL x body parameter lists incl. names in both, content-type spellings (case, padding, parameters before/after "
         "charset, quoted charset, charset without value), charset labels (UTF-8 family, unknown, other known through the decode oracle), both "
         "option values, bodies incl. invalid and truncated UTF-8; reference-signed; returned URI/body compared.",
    text="Machine-checked theorems: when folding applies the canonical query is the specification query of url_pairs ++ body_pairs (a "
         "permutation of the encoded pairs: nothing dropped or invented, per-name order URL first), the payload hash is that of the empty body, "
         "the returned body is empty and the returned URI is path?canonical-query; otherwise the query comes from the URL alone and the payload "
         "hash is H(body), so bodies with different hashes give different canonical requests; undecodable bodies / unknown charsets are "
         "InvalidBodyEncoding (400), and only those.",
    note="Trusted: kernel; " + PIPE + "; UTF-8 validity modelled (Utf8.v), other charsets through a decode oracle supplied by the harness from "
         "the `encoding` crate.",
    assumptions=["non-UTF-8 known charsets: the decoded body is an oracle input", SIGNER], extra_trust=[SIGNER, THIRD])

reg("C13", ["c13", "errtab"],
    rule=VALRULE + "c13 family: a valid request with subsets of defects injected (bad path, bad query, carrier defects, bad algorithm, bad k=v, "
         "each missing parameter, requirement violations, bad date, expired, future, arity, each scope field, provider error of each kind, wrong "
         "signature) on both carriers; kind/code/status compared with the model and with the documented precedence; errtab family: every error "
         "kind's code and status against the regenerated tables.",
    text="Machine-checked theorems: validate's outcome equals an independently written flat cascade first_failure in the documented order "
         "(C13_precedence), with one dominance theorem per stage quantified over everything later; the kind alone fixes code and status over the "
         "tables regenerated from error.rs (six kinds 400, four 403, two 500, never a success status); the kinds reachable without the provider "
         "are the six request kinds.",
    note="Trusted: kernel; " + PIPE + "; extract_src.py for the error_code/http_status match arms.",
    assumptions=["message texts are not part of the property (kinds, codes and statuses are)"])

reg("C14", ["c14"],
    rule=VALRULE + "c14 family: instrumented hand-written tower::Service (poll_ready Pending x k / Ready(Ok) / Ready(Err), future Pending x j then "
         "Ok / Err(each kind) / foreign error) driven by a counting executor; requests valid or defective at every rule; histories of "
         "validations on one instance; event logs compared with the model's predicted calls.",
    text="Machine-checked theorems: the call list is exactly [the expected request] when every earlier stage passed and the provider is ready, "
         "else empty (at most one call, none before readiness, none for requests failing any structural/header/freshness/scope check); a "
         "provider error e gives Refused (from_box e) (SignatureError unchanged, foreign -> InternalServiceError 500); no error or not-ready "
         "provider leads to acceptance; for any history over a stateful provider, calls <= prevalidated validations and each outcome equals the "
         "stand-alone one at the state reached.",
    note="Trusted: kernel; " + PIPE + "; tower's oneshot re-stated as Provider.oneshot (pending states are inert in the model by construction; "
         "their harmlessness in the code is observed by the harness only).",
    assumptions=["tower::ServiceExt::oneshot behaves as re-stated (poll_ready to completion, one call, future to completion)"],
    extra_trust=[THIRD])

reg("C15", ["c15"],
    rule=VALRULE + "c15 family: accepted reference-signed requests (all methods, versions, header multisets, bodies, both carriers, folded or "
         "not); returned method, version, header list (per-name order), body, URI and identity compared with the submitted request / provider "
         "table and with the model.",
    text="Machine-checked theorems: without folding the returned parts and body are the submitted ones; with folding method/version/headers are "
         "unchanged, the body is empty and the returned URI is path?q where q is exactly the authenticated canonical query, which parses back to "
         "a permutation of the merged URL+body pairs minus X-Amz-Signature; the identity is the provider's answer for the single call.",
    note="Trusted: kernel; " + PIPE + "; the `http` crate's Parts round trip is observed by the harness.",
    assumptions=[SIGNER], extra_trust=[SIGNER, THIRD])

reg("C17", ["c17"], technique=TECH_PARTIAL,
    rule=VALRULE + "c17 family: a corpus of accepted requests and requests refused at every rule (wrong signature, expired, wrong region, bad "
         "path, provider errors, unknown key, no carrier, arity, requirement) with a capturing `log` logger at Trace; every error string, every "
         "Debug/Display rendering of the key types, provider request/response, authenticator, canonical request and every record at debug level "
         "or above is scanned for the secret, 'AWS4'+secret, the four derived keys and the expected signature in raw, hex (both cases), base64 "
         "(std/url, +-pad) and byte-list form; each refused request is replayed under a second key and must read identically.",
    text="Proved: a refusal's kind and the provider calls are independent of the key (the key enters only the final comparison, whose failure is "
         "a constant); over the tables regenerated from the source no log site at debug level or above and no error-construction site "
         "interpolates a key-carrying identifier, the five key types' Debug/Display are constant literals and none derives Debug. Observed: the "
         "actual error strings, renderings and log records. Partial: the static tables are syntactic.",
    note="Trusted: kernel; extract_src.py log/error/rendering site tables (identifier-level, not data flow); the dynamic scan is testing.",
    assumptions=["taint set of identifiers in Spec/Audit.v", "secrets shorter than 8 bytes are not scanned for (coincidences)"])

reg("C18", ["c18"], technique=TECH_PARTIAL,
    rule=VALRULE + "c18 family: each corpus request is validated twice in one process, in fresh processes (fresh hash seeds, cold lazily "
         "initialised regexes) and concurrently from 1, 2, 4, 8 and 16 threads started on a barrier and running the corpus in different orders; "
         "every digest (outcome, kind, code, status, returned parts and body, identity, provider calls) must equal the first, and the first "
         "must equal the model's answer.",
    text="Proved: the model is a function of (request, clock, configuration, provider answer); its canonical query, canonical request, "
         "requirement check, authenticator and verdict are invariant under every permutation of the HashMap-modelled association lists (distinct "
         "keys, which the pipeline guarantees), including the order in which folded body parameters are merged. Observed: processes and thread "
         "interleavings, sampled by the OS scheduler. Partial.",
    note="Trusted: kernel; HashMap modelled as association list + arbitrary permutation; thread schedules are sampled, not enumerated.",
    assumptions=["schedules are sampled by the OS, not enumerated"])

reg("C19", ["c19"],
    rule=VALRULE + "c19 family: reference-signed requests with each authentication input duplicated (2-3 copies, every order) where exactly one "
         "copy is the valid one: Authorization headers, parameters inside it, X-Amz-* query parameters (URL and body), X-Amz-Date vs Date "
         "headers, security-token headers; both carriers present (incl. non-SigV4 algorithm values); provider records access key and token.",
    text="Machine-checked theorems: the extracted parameters equal an explicit selection function of the raw request: first Authorization value, "
         "last occurrence of a repeated parameter inside it, first value of each X-Amz-* query parameter (URL before body when folding), first "
         "x-amz-date header in preference to any date header, first security-token header; an Authorization header together with an "
         "X-Amz-Algorithm parameter is refused (SignatureDoesNotMatch).",
    note="Trusted: kernel; " + PIPE + "; harness signer.",
    assumptions=[SIGNER], extra_trust=[SIGNER])
