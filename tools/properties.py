"""Per-property configuration of the orchestrator (families, level, trusted base, rules)."""

KERNEL = "Coq 8.16.1 kernel + vm_compute (no native_compute); no axioms declared; Print Assumptions must say 'Closed under the global context'"
MODEL = "hand-written Gallina model of the Rust functions (coq/theories/Model), tied to /repo by the correspondence run of this check"
EXTRACT = "tools/extract_src.py (regular-expression translator of literals/tables from /repo/src into Generated/SrcConsts.v)"
HARNESS = "Rust harness /verif/harness (path dependency on /repo, feature `unstable`), case serialiser, Run/Driver.v comparison"

# known-finding classes (flag word >> 2)
CLASSES = {
    1: "plus_in_path",
}

PROPS = {
    "C09": {
        "families": ["path"],
        "level": "proof",
        "trusted_base": [KERNEL, MODEL, EXTRACT, HARNESS,
                         "index loop of canonicalize_uri_path modelled as a stack fold (checked by correspondence)",
                         "regex `//+` replace_all modelled as collapse_slashes (checked by correspondence)"],
        "rule": "path family: fixed edge paths; every byte 0-255 as literal / lower-hex / upper-hex escape, alone and embedded; "
                "all %XY escape pairs over an alphabet (quick: 40 chars, thorough: all 128 ASCII); every path of <=3 (quick) / <=5 (thorough) "
                "segments over {a,'',.,..,%2e,%2E%2e,%2F,%zz,%4,a+b}; random and long paths; both modes. "
                "non-trivial = not tagged trivial; distinct = distinct (mode, path) inputs",
        "assumptions": ["&str inputs (valid UTF-8) on the implementation side; the theorems cover all byte lists",
                        "known finding D1: literal '+' in a path is canonicalised as a space (pinned by unit test canonicalize_valid)"],
    },
}

MANIFEST_TEXT = {
    "C09": {
        "text": "Machine-checked theorems (Coq) about a Gallina model of canonicalize_uri_path / normalize_uri_element: the model equals an independent "
                "decode-resolve-encode specification for every byte string outside the known-finding class, is idempotent, has the stated output alphabet "
                "and fails exactly on the stated set; the model is tied to the code by an exhaustive-by-family differential run on every check.",
        "design_ref": "DESIGN.md section 6 / C09",
        "note": "Trusted: Coq kernel + vm_compute; the hand translation of the Rust loop into the model (validated by correspondence on the enumerated families); "
                "extract_src.py for the unreserved-set expression and hex table; harness generators. Known finding D1 ('+' in path) is excluded by an explicit class predicate.",
        "technique": "Coq proof over hand-written Gallina model + differential correspondence vs the Rust crate",
    },
}
