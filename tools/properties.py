"""Per-property configuration of the orchestrator (families, level, trusted base, rules)."""

KERNEL = "Coq 8.16.1 kernel + vm_compute (no native_compute); no axioms declared; Print Assumptions must say 'Closed under the global context'"
MODEL = "hand-written Gallina model of the Rust functions (coq/theories/Model), tied to /repo by the correspondence run of this check"
EXTRACT = "tools/extract_src.py (regular-expression translator of literals/tables from /repo/src into Generated/SrcConsts.v)"
HARNESS = "Rust harness /verif/harness (path dependency on /repo, feature `unstable`), case serialiser, Run/Driver.v comparison"
BASE = [KERNEL, MODEL, EXTRACT, HARNESS]
SIGNER = "independent SigV4 reference signer in the harness (harness/src/signer.rs, sha2/hmac crates directly) used to produce correctly signed requests"
THIRD = "third-party crates are oracles: http (URI/header parsing), regex, chrono, encoding, tower, subtle, hmac/sha2 (their results are inputs to, or re-implemented by, the model and compared on every case)"

# known-finding classes (flag word >> 2)
CLASSES = {
    1: "plus_in_path",
}

TECH = "Coq proof over hand-written Gallina model + differential correspondence vs the Rust crate"
TECH_PARTIAL = "Coq proof over Gallina model of the logical core + correspondence/observation harness for the runtime part (partial)"

PROPS = {}
MANIFEST_TEXT = {}


CLAIMED = set()


def reg(pid, families, rule, text, note, assumptions=(), extra_trust=(), level="proof", technique=TECH, section=None,
        extra=None, claimed=True):
    if claimed:
        CLAIMED.add(pid)
    PROPS[pid] = {
        "families": families,
        "level": level,
        "trusted_base": BASE + list(extra_trust),
        "rule": rule,
        "assumptions": list(assumptions),
        "extra": extra or [],
    }
    MANIFEST_TEXT[pid] = {
        "text": text,
        "design_ref": "DESIGN.md section 6 / %s" % pid if section is None else section,
        "note": note,
        "technique": technique,
    }


reg("C05", ["c05", "reqops"],
    rule="c05 family: correctly signed requests whose signed-header list omits / includes each declared name (always-present, if-in-request, "
         "prefix) under requirement sets in random letter case, both carriers; reqops family: random add_*/remove_* operation sequences on "
         "the Vec container and the Slice container compared with the model's lists. non-trivial = not tagged trivial; distinct = distinct input lines",
    text="Machine-checked theorems: the requirement containers refine case-folded sets for every operation sequence; reqs_ok means exactly the "
         "stated conjunction (always-present, conditional, prefix) and is extensional in the denoted sets; acceptance implies the conjunction and a "
         "violation is refused as SignatureDoesNotMatch before any date/scope/provider step (pipeline theorems). The model is tied to the code by "
         "running both on correctly-signed requests that omit a required header.",
    note="Trusted: kernel, hand model of the three requirement loops and of the Vec/Slice containers (correspondence-checked), harness signer. "
         "Declared names are assumed ASCII (header names are).",
    assumptions=["declared header names are ASCII", SIGNER],
    extra_trust=[SIGNER])

reg("C06", ["c06"],
    rule="c06 family: secrets of every length 0..48 (random bytes incl. non-ASCII), capacities 0..64 for from_str, dates incl. year 1, leap days, "
         "9999-12-31, empty / non-ASCII region and service; all five key types' bytes, the read-back and the nine shortcut methods compared with "
         "the model and with an HMAC chain written out independently in the driver. distinct = distinct input lines",
    text="Machine-checked theorems for an arbitrary hash H with 64-byte block: hmac_zero_pad (hashing the whole zero-padded buffer equals hashing "
         "'AWS4'+secret), the four-step chain, all shortcut compositions, read-back, capacity iff, never panics (every capacity), date format "
         "(8 digits, injective). Tied to the code by running KSecretKey::from_str / to_k* on every secret length and capacity.",
    note="Trusted: kernel; hand model of KSecretKey<M> (buffer + length); sha2/hmac crates equal the Gallina SHA-256/HMAC (compared on every case). "
         "Theorems do not depend on the concrete hash.",
    assumptions=["capacity M <= 64 (HMAC block) for the chain theorem; the default capacity is 44"])

reg("C09", ["path"],
    rule="path family: fixed edge paths; every byte 0-255 as literal / lower-hex / upper-hex escape, alone and embedded; "
         "all %XY escape pairs over an alphabet (quick: 40 chars, thorough: all 128 ASCII); every path of <=3 (quick) / <=5 (thorough) "
         "segments over {a,'',.,..,%2e,%2E%2e,%2F,%zz,%4,a+b}; random and long paths; both modes. "
         "non-trivial = not tagged trivial; distinct = distinct (mode, path) inputs",
    text="Machine-checked theorems (Coq) about a Gallina model of canonicalize_uri_path / normalize_uri_element: the model equals an independent "
         "decode-resolve-encode specification for every byte string outside the known-finding class, is idempotent, has the stated output alphabet "
         "and fails exactly on the stated set; the model is tied to the code by an exhaustive-by-family differential run on every check.",
    note="Trusted: Coq kernel + vm_compute; the hand translation of the Rust loop into the model (validated by correspondence on the enumerated families); "
         "extract_src.py for the unreserved-set expression and hex table; harness generators. Known finding D1 ('+' in path) is excluded by an explicit class predicate.",
    assumptions=["&str inputs (valid UTF-8) on the implementation side; the theorems cover all byte lists",
                 "known finding D1: literal '+' in a path is canonicalised as a space (pinned by unit test canonicalize_valid)"],
    extra_trust=["index loop of canonicalize_uri_path modelled as a stack fold (checked by correspondence)",
                 "regex `//+` replace_all modelled as collapse_slashes (checked by correspondence)"])

reg("C10", ["c10"],
    rule="c10 family: query strings with all byte values through escapes, 0-12 parameters, repeated names, names that are prefixes of others "
         "followed by bytes below '=', empty names/values, missing '=', '&&'; each also permuted and respelled; every query is canonicalised "
         "over several freshly built HashMaps (fresh RandomState seeds) and all outputs must agree (`stable`). distinct = distinct query strings",
    text="Machine-checked theorems: the canonical query of the model equals the specification (decode, drop X-Amz-Signature, encode once, sort "
         "by (name, value), join) for every byte string; it is a function of the multiset of decoded pairs (Permutation-invariant, HashMap "
         "order-invariant), lists every pair, is sorted, and fails iff an escape is malformed. Tied to the code by differential runs incl. "
         "prefix-related names and fresh hash seeds.",
    note="Trusted: kernel; HashMap modelled as association list + explicit iteration order (theorem quantifies over every permutation); harness.",
    assumptions=["HashMap iteration order is some permutation of the entries"])

reg("C11", ["c11", "hdrval"],
    rule="c11 family: correctly signed requests over header multisets (repeated names, mixed case, padded values, bytes 0x80-0xFF); mutations of "
         "unsigned headers (verdict must not change) and of signed ones beyond spacing (must be refused); hdrval family: normalize_header_value "
         "on enumerated/random values vs model and vs the split-drop-join specification. distinct = distinct input lines",
    text="Machine-checked theorems: value normalisation = split on spaces, drop empties, join; idempotent; padding/run insensitive; the canonical "
         "header block equals the specification block for every header list and signed list, depends only on per-name value order and lower-cased "
         "names, and ignores headers whose name is not signed. Tied to the code by signed-request runs with header mutations.",
    note="Trusted: kernel; HeaderMap modelled as insertion-ordered list with lower-cased names (as `http` does); harness signer.",
    assumptions=["header names arrive lower-cased from the http crate", SIGNER], extra_trust=[SIGNER])

reg("C16", ["c16", "c16e"],
    rule="c16 family: exhaustive two-digit sweep of each field with the others fixed, all separator combinations, offset hours 00-29 x minutes "
         "{00,30,59,60}, fraction lengths 0-12 with '.' and ',', random strings and single-character mutations, header and query carrier "
         "(percent-encoded); implementation's parse result vs model vs an independent reference parser in the harness (refiso.rs); "
         "c16e family: end-to-end signed requests checking the timestamp line of the string-to-sign and the date given to the provider. "
         "distinct = distinct input lines",
    text="Machine-checked theorems: parse_iso8601 s = Some t iff s matches the declarative grammar and denotes t (calendar validity, offset "
         "applied, fraction truncated); the Gregorian calendar conversions are mutually inverse for all integers; the compact rendering "
         "round-trips and the scope date is its prefix. Tied to the code (regex + chrono) by field sweeps and end-to-end signed requests.",
    note="Trusted: kernel; regex re-implemented as a deterministic recogniser and chrono as Calendar.v (both correspondence-checked); "
         "input domain code points <= U+00FF.",
    assumptions=["timestamp texts contain only code points <= U+00FF (all that latin1_to_string / unescape can produce)"])


# ---- registered for development, not yet claimed in MANIFEST.json (theorems still being written)
for _pid, _fams in (("C01", ["c01"]), ("C02", ["c02"]), ("C03", ["c03"]), ("C04", ["c04"]), ("C07", ["c07"]), ("C08", ["c08"]),
                    ("C12", ["c12"]), ("C13", ["c13", "errtab"]), ("C14", ["c14"]), ("C15", ["c15"]), ("C19", ["c19"])):
    if _pid not in PROPS:
        reg(_pid, _fams, rule="(development)", text="(development)", note="(development)", claimed=False)
