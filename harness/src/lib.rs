//! Shared pieces of the correspondence harness: PRNG, hex, case lines.
//!
//! A case line has three tab-separated fields:
//!   1. the Gallina term for `Run/Driver.v` (inputs and the implementation's observations),
//!   2. a replayable input description `kind key=hex key=hex ...`,
//!   3. comma-separated tags used for the input-distribution counts in the evidence file.

use std::io::Write;

pub mod signer;
pub mod scenario;
pub mod reqgen;
pub mod refiso;

/// SplitMix64: every random choice of a run derives from one state seeded by VERIF_SEED.
#[derive(Clone)]
pub struct Rng(pub u64);

impl Rng {
    pub fn new(seed: u64) -> Self {
        Rng(seed ^ 0x9E37_79B9_7F4A_7C15)
    }
    pub fn next(&mut self) -> u64 {
        self.0 = self.0.wrapping_add(0x9E37_79B9_7F4A_7C15);
        let mut z = self.0;
        z = (z ^ (z >> 30)).wrapping_mul(0xBF58_476D_1CE4_E5B9);
        z = (z ^ (z >> 27)).wrapping_mul(0x94D0_49BB_1331_11EB);
        z ^ (z >> 31)
    }
    pub fn below(&mut self, n: u64) -> u64 {
        if n == 0 {
            0
        } else {
            self.next() % n
        }
    }
    pub fn range(&mut self, lo: i64, hi: i64) -> i64 {
        lo + self.below((hi - lo + 1) as u64) as i64
    }
    pub fn chance(&mut self, num: u64, den: u64) -> bool {
        self.below(den) < num
    }
    pub fn pick<'a, T>(&mut self, xs: &'a [T]) -> &'a T {
        &xs[self.below(xs.len() as u64) as usize]
    }
    pub fn shuffle<T>(&mut self, xs: &mut [T]) {
        for i in (1..xs.len()).rev() {
            let j = self.below(i as u64 + 1) as usize;
            xs.swap(i, j);
        }
    }
    pub fn fork(&mut self) -> Rng {
        Rng(self.next())
    }
}

pub fn hexs(b: &[u8]) -> String {
    hex::encode(b)
}

pub fn unhex(s: &str) -> Vec<u8> {
    hex::decode(s).expect("bad hex in replay input")
}

/// Gallina term for a byte string.
pub fn cb(b: &[u8]) -> String {
    format!("(hx \"{}\")", hex::encode(b))
}

pub fn cbool(b: bool) -> &'static str {
    if b {
        "true"
    } else {
        "false"
    }
}

pub fn copt(o: Option<&[u8]>) -> String {
    match o {
        Some(b) => format!("(Some {})", cb(b)),
        None => "None".to_string(),
    }
}

pub fn clist(items: &[String]) -> String {
    format!("[{}]", items.join("; "))
}

pub fn cz(z: i128) -> String {
    if z < 0 {
        format!("({})%Z", z)
    } else {
        format!("{}%Z", z)
    }
}

pub fn cn(n: u128) -> String {
    format!("{}%N", n)
}

pub struct Out<W: Write> {
    pub w: W,
    pub n: usize,
}

impl<W: Write> Out<W> {
    pub fn new(w: W) -> Self {
        Out {
            w,
            n: 0,
        }
    }
    pub fn case(&mut self, coq: &str, input: &str, tags: &str) {
        debug_assert!(!coq.contains('\t') && !coq.contains('\n'));
        writeln!(self.w, "{}\t{}\t{}", coq, input, tags).expect("write case");
        self.n += 1;
    }
}

/// Parse the `key=value` fields of a replay input line (after the kind word).
pub fn fields(s: &str) -> std::collections::HashMap<String, String> {
    let mut m = std::collections::HashMap::new();
    for tok in s.split_whitespace() {
        if let Some((k, v)) = tok.split_once('=') {
            m.insert(k.to_string(), v.to_string());
        }
    }
    m
}

/// Run a closure, converting an unwinding panic into `Err(message)`.
pub fn catch<T, F: FnOnce() -> T>(f: F) -> Result<T, String> {
    match std::panic::catch_unwind(std::panic::AssertUnwindSafe(f)) {
        Ok(v) => Ok(v),
        Err(e) => {
            let msg = if let Some(s) = e.downcast_ref::<&str>() {
                s.to_string()
            } else if let Some(s) = e.downcast_ref::<String>() {
                s.clone()
            } else {
                "panic".to_string()
            };
            Err(msg)
        }
    }
}

/// Minimal executor: polls a future to completion with a counting no-op waker.
pub fn block_on<F: std::future::Future>(fut: F) -> F::Output {
    use std::sync::Arc;
    use std::task::{Context, Poll, Wake, Waker};
    struct W;
    impl Wake for W {
        fn wake(self: Arc<Self>) {}
    }
    let waker = Waker::from(Arc::new(W));
    let mut cx = Context::from_waker(&waker);
    let mut fut = Box::pin(fut);
    let mut polls = 0u64;
    loop {
        match fut.as_mut().poll(&mut cx) {
            Poll::Ready(v) => return v,
            Poll::Pending => {
                polls += 1;
                if polls > 1_000_000 {
                    panic!("future did not complete");
                }
            }
        }
    }
}
