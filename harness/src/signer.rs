//! Independent SigV4 reference signer over a *logical* request (decoded path segments, decoded
//! query pairs, headers, body).  Written from the AWS specification with `sha2`/`hmac`
//! directly; shares no code with the library under test.

use hmac::{Hmac, Mac};
use sha2::{Digest, Sha256};

pub fn sha256(b: &[u8]) -> [u8; 32] {
    let mut h = Sha256::new();
    h.update(b);
    h.finalize().into()
}

pub fn hmac256(key: &[u8], msg: &[u8]) -> [u8; 32] {
    let mut m = Hmac::<Sha256>::new_from_slice(key).unwrap();
    m.update(msg);
    m.finalize().into_bytes().into()
}

pub fn is_unreserved(b: u8) -> bool {
    matches!(b, b'A'..=b'Z' | b'a'..=b'z' | b'0'..=b'9' | b'-' | b'.' | b'_' | b'~')
}

/// UriEncode of the AWS documentation (every byte except unreserved becomes %XX, uppercase).
pub fn uri_encode(b: &[u8]) -> Vec<u8> {
    let mut out = Vec::new();
    for &c in b {
        if is_unreserved(c) {
            out.push(c);
        } else {
            out.extend(format!("%{:02X}", c).as_bytes());
        }
    }
    out
}

#[derive(Clone, Debug)]
pub struct Logical {
    pub method: String,
    /// decoded path segments (already in the form the signer means: no dot segments and no
    /// empty segments in standard mode)
    pub segments: Vec<Vec<u8>>,
    pub trailing_slash: bool,
    /// decoded query pairs (URL and, when folding, body parameters together)
    pub query: Vec<(Vec<u8>, Vec<u8>)>,
    /// headers to sign: (lower-case name, values in arrival order, as the signer sees them)
    pub signed_headers: Vec<(String, Vec<Vec<u8>>)>,
    /// payload covered by the hash
    pub payload: Vec<u8>,
}

pub fn canonical_path(l: &Logical) -> Vec<u8> {
    let mut out = Vec::new();
    if l.segments.is_empty() {
        out.push(b'/');
        return out;
    }
    for s in &l.segments {
        out.push(b'/');
        out.extend(uri_encode(s));
    }
    if l.trailing_slash {
        out.push(b'/');
    }
    out
}

pub fn canonical_query(pairs: &[(Vec<u8>, Vec<u8>)]) -> Vec<u8> {
    let mut enc: Vec<(Vec<u8>, Vec<u8>)> = pairs.iter().map(|(k, v)| (uri_encode(k), uri_encode(v))).collect();
    enc.sort();
    let mut out = Vec::new();
    for (i, (k, v)) in enc.iter().enumerate() {
        if i > 0 {
            out.push(b'&');
        }
        out.extend(k);
        out.push(b'=');
        out.extend(v);
    }
    out
}

/// Trim and collapse runs of spaces (SigV4 "Trimall").
pub fn trimall(v: &[u8]) -> Vec<u8> {
    let mut out: Vec<u8> = Vec::new();
    for piece in v.split(|c| *c == b' ') {
        if piece.is_empty() {
            continue;
        }
        if !out.is_empty() {
            out.push(b' ');
        }
        out.extend(piece);
    }
    out
}

pub fn canonical_request(l: &Logical) -> Vec<u8> {
    let mut hs = l.signed_headers.clone();
    hs.sort_by(|a, b| a.0.as_bytes().cmp(b.0.as_bytes()));
    let mut out = Vec::new();
    out.extend(l.method.as_bytes());
    out.push(b'\n');
    out.extend(canonical_path(l));
    out.push(b'\n');
    out.extend(canonical_query(&l.query));
    out.push(b'\n');
    for (name, values) in &hs {
        if values.is_empty() {
            // a name listed in SignedHeaders without a header of that name contributes no line
            continue;
        }
        out.extend(name.as_bytes());
        out.push(b':');
        for (i, v) in values.iter().enumerate() {
            if i > 0 {
                out.push(b',');
            }
            out.extend(trimall(v));
        }
        out.push(b'\n');
    }
    out.push(b'\n');
    out.extend(signed_header_list(l).as_bytes());
    out.push(b'\n');
    out.extend(hex::encode(sha256(&l.payload)).as_bytes());
    out
}

pub fn signed_header_list(l: &Logical) -> String {
    let mut names: Vec<&str> = l.signed_headers.iter().map(|h| h.0.as_str()).collect();
    names.sort_by(|a, b| a.as_bytes().cmp(b.as_bytes()));
    names.join(";")
}

/// Proleptic Gregorian civil date from days since 1970-01-01 (Howard Hinnant's algorithm).
pub fn civil_from_days(z: i64) -> (i64, u32, u32) {
    let z = z + 719468;
    let era = if z >= 0 { z } else { z - 146096 } / 146097;
    let doe = (z - era * 146097) as u64;
    let yoe = (doe - doe / 1460 + doe / 36524 - doe / 146096) / 365;
    let y = yoe as i64 + era * 400;
    let doy = doe - (365 * yoe + yoe / 4 - yoe / 100);
    let mp = (5 * doy + 2) / 153;
    let d = (doy - (153 * mp + 2) / 5 + 1) as u32;
    let m = if mp < 10 { mp + 3 } else { mp - 9 } as u32;
    (if m <= 2 { y + 1 } else { y }, m, d)
}

pub fn days_from_civil(y: i64, m: u32, d: u32) -> i64 {
    let y = if m <= 2 { y - 1 } else { y };
    let era = if y >= 0 { y } else { y - 399 } / 400;
    let yoe = (y - era * 400) as u64;
    let mp = if m > 2 { m - 3 } else { m + 9 } as u64;
    let doy = (153 * mp + 2) / 5 + d as u64 - 1;
    let doe = yoe * 365 + yoe / 4 - yoe / 100 + doy;
    era * 146097 + doe as i64 - 719468
}

/// `YYYYMMDD'T'hhmmss'Z'` of a Unix time in whole seconds (years 0..=9999).
pub fn compact_utc(unix_secs: i64) -> String {
    let days = unix_secs.div_euclid(86400);
    let sod = unix_secs.rem_euclid(86400);
    let (y, m, d) = civil_from_days(days);
    format!("{:04}{:02}{:02}T{:02}{:02}{:02}Z", y, m, d, sod / 3600, (sod / 60) % 60, sod % 60)
}

pub fn derive_key(secret: &[u8], yyyymmdd: &str, region: &[u8], service: &[u8]) -> [u8; 32] {
    let mut k0 = b"AWS4".to_vec();
    k0.extend(secret);
    let kd = hmac256(&k0, yyyymmdd.as_bytes());
    let kr = hmac256(&kd, region);
    let ks = hmac256(&kr, service);
    hmac256(&ks, b"aws4_request")
}

pub struct Signed {
    pub canonical_request: Vec<u8>,
    pub string_to_sign: Vec<u8>,
    pub scope: String,
    pub signature: String,
    pub signed_headers: String,
    pub amz_date: String,
}

/// Sign `l` at `unix_secs` for the scope date/region/service with `secret`.
pub fn sign(l: &Logical, secret: &[u8], unix_secs: i64, region: &str, service: &str) -> Signed {
    let amz_date = compact_utc(unix_secs);
    let date = &amz_date[..8];
    let scope = format!("{}/{}/{}/aws4_request", date, region, service);
    let creq = canonical_request(l);
    let mut sts = Vec::new();
    sts.extend(b"AWS4-HMAC-SHA256\n");
    sts.extend(amz_date.as_bytes());
    sts.push(b'\n');
    sts.extend(scope.as_bytes());
    sts.push(b'\n');
    sts.extend(hex::encode(sha256(&creq)).as_bytes());
    let key = derive_key(secret, date, region.as_bytes(), service.as_bytes());
    let signature = hex::encode(hmac256(&key, &sts));
    Signed {
        canonical_request: creq,
        string_to_sign: sts,
        scope,
        signature,
        signed_headers: signed_header_list(l),
        amz_date,
    }
}

/// Sign for an explicit scope string; the key is derived for (date, region, service).
pub fn sign_scoped(l: &Logical, secret: &[u8], unix_secs: i64, scope: &str, kdate: &str, kregion: &str, kservice: &str) -> Signed {
    let key = derive_key(secret, kdate, kregion.as_bytes(), kservice.as_bytes());
    sign_with_key(l, &key, unix_secs, scope)
}

/// Sign for an explicit scope string with an explicit 32-byte signing key.
pub fn sign_with_key(l: &Logical, key: &[u8; 32], unix_secs: i64, scope: &str) -> Signed {
    let amz_date = compact_utc(unix_secs);
    let creq = canonical_request(l);
    let mut sts = Vec::new();
    sts.extend(b"AWS4-HMAC-SHA256\n");
    sts.extend(amz_date.as_bytes());
    sts.push(b'\n');
    sts.extend(scope.as_bytes());
    sts.push(b'\n');
    sts.extend(hex::encode(sha256(&creq)).as_bytes());
    let signature = hex::encode(hmac256(key, &sts));
    Signed {
        canonical_request: creq,
        string_to_sign: sts,
        scope: scope.to_string(),
        signature,
        signed_headers: signed_header_list(l),
        amz_date,
    }
}
