//! Reference ISO-8601 calendar date-time parser (independent of the library): basic or extended
//! form, optional fraction, `Z` or `+-hh[:]mm`; returns the instant in ns since the Unix epoch.

use crate::signer::days_from_civil;

fn two(b: &[u8], i: &mut usize) -> Option<i64> {
    if *i + 2 > b.len() || !b[*i].is_ascii_digit() || !b[*i + 1].is_ascii_digit() {
        return None;
    }
    let v = ((b[*i] - b'0') as i64) * 10 + (b[*i + 1] - b'0') as i64;
    *i += 2;
    Some(v)
}

fn opt(b: &[u8], i: &mut usize, c: u8) {
    if *i < b.len() && b[*i] == c {
        *i += 1;
    }
}

pub fn is_leap(y: i64) -> bool {
    (y % 4 == 0 && y % 100 != 0) || y % 400 == 0
}

pub fn days_in_month(y: i64, m: i64) -> i64 {
    match m {
        1 | 3 | 5 | 7 | 8 | 10 | 12 => 31,
        4 | 6 | 9 | 11 => 30,
        2 => {
            if is_leap(y) {
                29
            } else {
                28
            }
        }
        _ => 0,
    }
}

pub fn parse(s: &[u8]) -> Option<i128> {
    let mut i = 0usize;
    let hi = two(s, &mut i)?;
    let lo = two(s, &mut i)?;
    let year = hi * 100 + lo;
    opt(s, &mut i, b'-');
    let month = two(s, &mut i)?;
    opt(s, &mut i, b'-');
    let day = two(s, &mut i)?;
    if i >= s.len() || s[i] != b'T' {
        return None;
    }
    i += 1;
    let hour = two(s, &mut i)?;
    opt(s, &mut i, b':');
    let minute = two(s, &mut i)?;
    opt(s, &mut i, b':');
    let second = two(s, &mut i)?;
    let mut nanos: i128 = 0;
    if i < s.len() && (s[i] == b'.' || s[i] == b',') {
        i += 1;
        let start = i;
        let mut scale: i128 = 100_000_000;
        while i < s.len() && s[i].is_ascii_digit() {
            nanos += (s[i] - b'0') as i128 * scale;
            scale /= 10;
            i += 1;
        }
        if i == start {
            return None;
        }
    }
    let offset: i64 = if i < s.len() && s[i] == b'Z' {
        i += 1;
        0
    } else if i < s.len() && (s[i] == b'+' || s[i] == b'-') {
        let sign = if s[i] == b'-' { -1 } else { 1 };
        i += 1;
        let oh = two(s, &mut i)?;
        opt(s, &mut i, b':');
        let om = two(s, &mut i)?;
        if oh > 23 || om > 59 {
            return None;
        }
        sign * (oh * 3600 + om * 60)
    } else {
        return None;
    };
    if i != s.len() {
        return None;
    }
    if !(1..=12).contains(&month) || day < 1 || day > days_in_month(year, month) || hour > 23 || minute > 59 || second > 59 {
        return None;
    }
    let days = days_from_civil(year, month as u32, day as u32);
    let secs = days * 86400 + hour * 3600 + minute * 60 + second - offset;
    Some(secs as i128 * 1_000_000_000 + nanos)
}
